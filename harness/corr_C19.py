"""C19 — The JavaScript engine has the same relational semantics as the reference.

The reference semantics is the Lean `run` (proved against the specification in C01-C05); the REAL
rbql-js engine (rbql.query with a counting iterator and a recording writer, through a node batch
driver) is run on queries generated from the language-neutral vocabulary, rendered in JS syntax, and
compared with the model: result table (typed cells), error class/record/field, records pulled, writer
calls, field-count warnings.  In addition the caller's input and join arrays are snapshotted before
and after every query (success or failure) and output rows are checked not to alias input rows."""
import json
import random

import engine_corr
import qgen

RULE = ('seeded random rectangular string tables (no None inside risky operators: expressions that mean the same in Python and JS) x queries over '
        'select/where/order/distinct/top/limit/aggregates/joins/update/except/unnest rendered in JS syntax; input/join arrays snapshotted. '
        'non-trivial iff the table is non-empty and the query has at least one clause beyond a plain field list; distinct = distinct (query, tables)')


def gen_cases(rnd, n):
    qgen.SAFE[0] = True
    cases = []
    try:
        for _ in range(n):
            ncols = rnd.randint(2, 3)
            shape = rnd.choice(['select', 'select', 'order', 'distinct', 'agg', 'join', 'join', 'update', 'except', 'unnest', 'top'])
            pool = rnd.sample(['x', 'y', 'z', 'x;y', '10', '9', 'New', 'New York', 'a b'], rnd.randint(2, 4))
            A = qgen.gen_table(rnd, nrows=rnd.randint(0, 6), ncols=ncols, pool=pool, ragged=0.0, none_p=0.0, full_cols=ncols)
            if shape != 'agg' and rnd.random() < 0.2:
                # ragged by extension: some records carry extra trailing fields (star items and NF then differ from record to record,
                # while every field reference stays inside the shortest record)
                for r in A:
                    if rnd.random() < 0.4:
                        r.extend(rnd.choice(pool) for _x in range(rnd.randint(1, 2)))
            B = None
            q = {'items': []}
            use_join = shape == 'join' or (shape in ('order', 'update', 'agg') and rnd.random() < 0.25)
            bcols = 2
            if use_join:
                B = qgen.gen_table(rnd, nrows=rnd.randint(0, 4), ncols=bcols, pool=pool, ragged=0.0, none_p=0.0, full_cols=bcols)
                q['join'] = qgen.gen_join(rnd, ncols, bcols, kinds=('inner', 'inner', 'left', 'strict'))
                if rnd.random() < 0.1:
                    B.append(B[0][:1] if B else ['x'])     # ragged B: join-build error or short partner
            if shape == 'update':
                q['update'] = True
                if use_join:
                    q['join']['kind'] = 'inner'
                for _i in range(rnd.randint(1, 2)):
                    q.setdefault('assigns', []).append([rnd.randrange(ncols + (1 if rnd.random() < 0.1 else 0)),
                                                       rnd.choice([['a', rnd.randrange(ncols)], ['lit', 'U'], ['nu'], ['concat', ['a', 0], ['lit', '+']], ['nr']])])
                if rnd.random() < 0.5:
                    q['where'] = qgen.gen_bool_expr(rnd, ncols, 1)
            elif shape == 'except':
                q['except'] = sorted(set(rnd.randrange(ncols + 2) for _ in range(rnd.randint(1, 2))))
                if rnd.random() < 0.3:      # the same column named twice (two spellings); columns beyond the record width
                    q['except'].insert(rnd.randrange(len(q['except']) + 1), rnd.choice(q['except']))
                if rnd.random() < 0.3:
                    q['distinct'] = rnd.choice(['yes', 'count'])
                B = None
                q.pop('join', None)
            elif shape == 'agg':
                nnum = 1
                npool = qgen.num_pool(rnd)
                for r in A:
                    r.append(rnd.choice(npool))
                keyed = rnd.random() < 0.7
                if keyed:
                    q['group'] = [['a', 0]] if rnd.random() < 0.8 else [['a', 0], ['a', 1]]
                    q['items'].append({'e': ['a', 0]})
                for _i in range(rnd.randint(1, 3)):
                    kind = rnd.choice(['min', 'max', 'sum', 'avg', 'variance', 'median', 'count', 'array_agg', 'any_value'])
                    arg = ['a', ncols] if kind not in ('array_agg', 'any_value') else ['a', rnd.randrange(ncols + 1)]
                    if kind == 'count':
                        arg = ['lit', qgen.num(1)]
                    q['items'].append({'agg': kind, 'e': arg})
                if rnd.random() < 0.2:
                    q['top'] = rnd.randint(0, 2)
                if rnd.random() < 0.3:
                    q['where'] = ['ne', ['a', 0], ['lit', pool[0]]]
            else:
                for _i in range(rnd.randint(1, 3)):
                    r = rnd.random()
                    if r < 0.4:
                        q['items'].append({'e': qgen.gen_str_expr(rnd, ncols, 1, use_join, bcols)})
                    elif r < 0.55:
                        q['items'].append({'e': qgen.gen_num_expr(rnd, ncols, 1)})
                    elif r < 0.7:
                        q['items'].append('star')
                    elif r < 0.8 and use_join:
                        q['items'].append(rnd.choice(['starA', 'starB']))
                    else:
                        q['items'].append({'e': ['lit', rnd.choice(['k', 'select', None, 'a1'])]})
                if shape == 'unnest':
                    q['items'].append({'unnest': [rnd.choice(['split', 'splitne']), ['a', rnd.randrange(ncols)], ';']})
                if rnd.random() < 0.4:
                    q['where'] = qgen.gen_bool_expr(rnd, ncols, 2)
                if shape == 'order':
                    q['order'] = [['a', rnd.randrange(ncols)]] + ([['len', ['a', 0]]] if rnd.random() < 0.3 else [])
                    q['desc'] = rnd.random() < 0.5
                if shape == 'distinct':
                    q['distinct'] = rnd.choice(['yes', 'count'])
                if shape == 'top' or rnd.random() < 0.15:
                    q['top'] = rnd.randint(0, 4)
            cases.append({'q': q, 'A': A, 'B': B})
    finally:
        qgen.SAFE[0] = False
    return cases


def uses_risky_b(c):
    """b-fields are None under LEFT JOIN without partner or with a ragged B: exclude them from concat/len/like/split/lt operands"""
    q = c['q']
    txt = json.dumps(q)
    ragged_b = c['B'] is not None and len(set(len(r) for r in c['B'])) > 1
    return q.get('join') and (q['join']['kind'] == 'left' or ragged_b) and '["b"' in txt and any(op in txt for op in ('"concat"', '"len"', '"like"', '"split"', '"lt"', '"le"'))


def gen_projection_cases(rnd, n):
    """PURE PROJECTIONS over tables with None, '' and missing cells: bare field references, stars, NR and literals mean the same in both
    languages whatever the cell holds (None <-> null), so DISTINCT / DISTINCT COUNT / JOIN keys / TOP must tell None, '' and text apart alike"""
    cases = []
    for _ in range(n):
        ncols = rnd.randint(2, 3)
        vals = [None, '', 'x', None, '', 'y', 'null', 'None', '0', ',', '\x1f', 'x\x1f']
        A = [[rnd.choice(vals) for _c in range(rnd.choice([ncols, ncols, ncols - 1]))] for _r in range(rnd.randint(1, 7))]
        q = {'items': []}
        for _i in range(rnd.randint(1, 3)):
            q['items'].append(rnd.choice([{'e': ['a', rnd.randrange(ncols)]}, {'e': ['a', rnd.randrange(ncols)]}, 'star', {'e': ['nr']}, {'e': ['lit', rnd.choice(['', 'k'])]}]))
        q['distinct'] = rnd.choice(['yes', 'count', 'yes', 'count', 'no'])
        if rnd.random() < 0.3:
            q['top'] = rnd.randint(0, 4)
        if rnd.random() < 0.3:
            q['where'] = [rnd.choice(['eq', 'ne']), ['a', rnd.randrange(ncols)], ['lit', rnd.choice(['', 'x', None])]]
        B = None
        if rnd.random() < 0.3:
            B = [[rnd.choice(['', 'x', 'y', 'null', '0']), rnd.choice(vals)] for _r in range(rnd.randint(0, 4))]
            q['join'] = {'kind': rnd.choice(['inner', 'left']), 'lhs': [rnd.randrange(ncols - 1)], 'rhs': [0]}
            # the join key column of A must exist in every record (a missing key field is an error in both, with different wording of the class)
            A = [r + [rnd.choice(vals)] * (ncols - len(r)) for r in A]
            if rnd.random() < 0.5:
                q['items'].append({'e': ['b', 1]})
        cases.append({'q': q, 'A': A, 'B': B, 'proj': True})
    return cases


def projection_only(c):
    q = c['q']
    if q.get('update') or q.get('order') or q.get('group') or q.get('except') is not None:
        return False
    for it in q.get('items', []):
        if it == 'star':
            continue
        if not (isinstance(it, dict) and set(it) == {'e'} and it['e'][0] in ('a', 'b', 'nr', 'lit')):
            return False
    w = q.get('where')
    if w is not None and not (w[0] in ('eq', 'ne') and w[1][0] == 'a' and w[2][0] == 'lit'):
        return False
    if q.get('join') and any(len(r) <= max(q['join']['lhs']) for r in c['A']):
        return False
    return True


def in_class(c):
    """the class of cases on which Python and JS expressions mean the same (also used to keep shrinking inside it)"""
    if c.get('proj'):
        return projection_only(c)
    A = c['A']
    if any(x is None for r in A for x in r):
        return False
    # ragged tables are in the class as long as every field reference stays inside the SHORTEST record (star items, NF, UNNEST
    # and EXCEPT need no such restriction: they mean the same in both languages)
    if c['B'] is not None and any(x is None for r in c['B'] for x in r):
        return False
    if uses_risky_b(c):
        return False
    # field references inside the width of the (rectangular) input table
    w = min(len(r) for r in A) if A else 0
    txt = json.dumps(c['q'])
    import re
    if A and any(int(m) >= w for m in re.findall(r'\["a", (\d+)\]', txt)):
        return False
    if c['B'] is not None and any(op in txt for op in ('"concat"', '"len"', '"like"', '"split"', '"lt"', '"le"')):
        wb = min([len(r) for r in c['B']] or [0])
        if any(int(m) >= wb for m in re.findall(r'\["b", (\d+)\]', txt)):
            return False
    return True


def top_and_limit_check(res):
    """TOP n and LIMIT m in the SAME query: the reference (find_top of rbql_engine.py, the model's `top`) lets LIMIT decide whenever it is there and always
    validates it; both ports against the model on the same texts"""
    import common
    A = [['5', 'e'], ['3', 'c'], ['4', 'd'], ['1', 'a'], ['2', 'b']]
    specs = []
    for n in (0, 1, 3, 9):
        for m in (0, 1, 2, 9):
            for shape, q in (('plain', {'items': [{'e': ['a', 0]}]}), ('where', {'items': [{'e': ['a', 1]}], 'where': ['ne', ['a', 0], ['lit', '3']]}),
                             ('order', {'items': [{'e': ['a', 0]}], 'order': [['a', 0]]}), ('distinct', {'items': [{'e': ['a', 1]}], 'distinct': 'yes'})):
                q = dict(q); q['top'] = m
                body = qgen.render_query({k: v for k, v in q.items() if k != 'top'}, 'py')
                text = body.replace('SELECT', 'SELECT TOP %d' % n, 1) + ' LIMIT %d' % m
                specs.append((q, text, qgen.render_query({k: v for k, v in q.items() if k != 'top'}, 'js').replace('SELECT', 'SELECT TOP %d' % n, 1) + ' LIMIT %d' % m))
    lines = [engine_corr.make_line({'q': q, 'A': A, 'B': None}, lang_texts={'py': tp, 'js': tj}) for q, tp, tj in specs]
    mout = [engine_corr.parse_out(o) for o in common.run_model(lines)]
    for impl_name, runner, prefix in (('py', common.run_impl_py, 'query '), ('js', common.run_impl_js, 'queryjs ')):
        outs = [engine_corr.parse_out(o) for o in runner(lines)]
        nbad = 0
        for (q, tp, tj), m, o in zip(specs, mout, outs):
            res.evaluations += 1
            res.nontrivial.add(('top+limit', impl_name, tp))
            if engine_corr.canon_cells(o.get('rows')) != engine_corr.canon_cells(m.get('rows')) or (o.get('err') is None) != (m.get('err') is None):
                nbad += 1
                if nbad <= 2:
                    res.violations.append({'property': 'C19', 'impl': impl_name, 'why': 'TOP and LIMIT in one query: LIMIT decides (reference: find_top)', 'query': tp if impl_name == 'py' else tj, 'A': A,
                                           'model_says': m, 'impl_says': o, 'case_key': 'C19|top+limit|%s|%s' % (impl_name, tp)})
    # a LIMIT that is not an integer is a parsing error even next to a valid TOP
    bad_lines = [engine_corr.make_line({'q': {'items': [{'e': ['a', 0]}]}, 'A': A, 'B': None}, lang_texts={'py': t, 'js': t}) for t in ('select top 2 a1 limit zz', 'select top 1 a1 limit 1.5', 'select a1 limit')]
    for impl_name, runner in (('py', common.run_impl_py), ('js', common.run_impl_js)):
        for ln, o in zip(bad_lines, [engine_corr.parse_out(x) for x in runner(bad_lines)]):
            res.evaluations += 1
            if o.get('err') is None:
                res.violations.append({'property': 'C19', 'impl': impl_name, 'why': 'a malformed LIMIT must be refused even when TOP is present', 'line': ln, 'impl_says': o, 'case_key': 'C19|badlimit|%s|%s' % (impl_name, ln)})
    res.count('top_and_limit_cases', len(specs))


def run(res, tier, seed):
    res.rule = RULE
    top_and_limit_check(res)
    res.assumptions = ['strings restricted to BMP and sort/group keys to values whose UTF-16 order equals code-point order',
                       'only expressions that mean the same in both languages (no None/null operands of + / .length / like / split / <)']
    rnd = random.Random(seed * 104395301 + 19)
    cases = [c for c in gen_cases(rnd, 20000 if tier == 'quick' else 120000) if in_class(c)]
    proj = [c for c in gen_projection_cases(random.Random(seed * 31 + 191), 4000 if tier == 'quick' else 25000) if in_class(c)]
    res.count('projection_cases(None / empty / missing cells)', len(proj))
    cases = cases + proj
    for c in cases:
        q = c['q']
        kind = 'update' if q.get('update') else 'agg' if (q.get('group') or any(isinstance(i, dict) and 'agg' in i for i in q['items'])) else 'select'
        res.count('kind=' + kind + (' join' if q.get('join') else ''))
        if c['A']:
            res.nontrivial.add(json.dumps([q, c['A'], c['B']], sort_keys=True))
    for c in cases[:2] + cases[-2:]:
        res.sample({'query_js': qgen.render_query(c['q'], 'js'), 'A': c['A'], 'B': c['B']})
    fields = engine_corr.ALL_FIELDS + ('sourcesMutated', 'outputAliasesInput')

    def with_flags(obs):
        return obs
    # the model has no sourcesMutated/outputAliasesInput: the expected value is False; inject it on the model side
    orig_observable = engine_corr.observable

    def observable(d, f=fields):
        o = orig_observable(d, f)
        if isinstance(o, dict) and 'specOk' in (d or {}):      # model output
            if o.get('err') is not None:
                o = dict(o)
                o['sourcesMutated'] = False
            else:
                o = dict(o)
                o['sourcesMutated'] = False
                o['outputAliasesInput'] = False
        elif isinstance(o, dict) and isinstance(d, dict) and d.get('err') is not None:
            o = dict(o)
            o['sourcesMutated'] = d.get('sourcesMutated')
        return o
    engine_corr.observable = observable
    try:
        engine_corr.run_cases(res, 'C19', cases, 'js', rnd=random.Random(seed + 19), fields=fields, valid=in_class)
    finally:
        engine_corr.observable = orig_observable


def replay(res, path):
    return engine_corr.replay(res, path)
