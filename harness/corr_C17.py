"""C17 — like(text, pattern) implements SQL LIKE exactly.

Tie: `select like(a1, a2)` through rbql.query_table of the REAL Python and JS engines (and
rbql_engine.like_to_regex directly when present) against the Lean `likeImpl`, which theorem
C17_like_correct proves equal to the SQL LIKE specification on single-line texts; the model driver's
`likespec` op gives the specification itself, compared as well (so the run also re-validates the
theorem's statement on every enumerated pair)."""
import itertools
import random

import common
import csvgen
from common import enc_str, enc_table

ALPHA = 'ab%_.*\\[(^$+?|'
RULE = ('exhaustive (pattern, text) pairs up to length k over the 14-symbol alphabet {a b %% _ . * \\ [ ( ^ $ + ? |} and up to length 4 over '
        '{a b %% _ . *}, seeded random longer Unicode pairs incl. characters outside the BMP (rbql-js is specified over UTF-16 code units); batched 500 pairs per query. non-trivial iff the pattern contains a '
        'wildcard or a regex metacharacter; distinct = distinct (pattern, text)')


def gen(tier, seed):
    pairs = []
    k = 2 if tier == 'quick' else 3
    strs = list(csvgen.all_strings(ALPHA, k))
    for p in strs:
        for t in strs:
            pairs.append((t, p))
    exhaustive = {'pairs len<=%d over 14 symbols' % k: True}
    sub = list(csvgen.all_strings('ab%_.*', 3 if tier == 'quick' else 4))
    # a literal `{n}` / `{n,}` / `{n,m}` after an atom would be a QUANTIFIER if the braces were not escaped
    brace = list(csvgen.all_strings('a{2,}', 3 if tier == 'quick' else 4)) + ['a{2}', 'a{1,2}', 'a{2,}', '%{2}', '_{2}', 'ab{2}c', 'a{0}', 'a{2}{2}']
    for p in brace:
        for t in brace + ['aa', 'aaa', 'a', 'abbc', '']:
            pairs.append((t, p))
    exhaustive['pairs over {a { 2 , }} (quantifier shapes)'] = True
    # patterns and texts that spell members of the host language's base objects (a cache or map keyed by the pattern must be a real map)
    words = ['constructor', '__proto__', 'toString', 'valueOf', 'hasOwnProperty', 'prototype', '__class__', '__dict__', 'length', 'keys', 'get', 'None', 'null', 'undefined', 'true']
    for w in words:
        for t in (w, 'x' + w, w + 'y', w[:-1], '', 'xy' + w[2:-2] + 'zw'):
            pairs.append((t, w))
            pairs.append((t, '%' + w))
            pairs.append((t, w.replace('o', '_', 1)))
    exhaustive['patterns spelling members of Object.prototype / Python object attributes'] = True
    for p in sub:
        for t in sub:
            pairs.append((t, p))
    exhaustive['pairs len<=%d over {a b %% _ . *}' % (3 if tier == 'quick' else 4)] = True
    rnd = random.Random(seed * 86028121 + 17)
    # characters outside the BMP are ONE code point for Python and TWO UTF-16 code units for JavaScript (see `units` below)
    pool = list('ab%_%_.*\\[]()^$+?|{}-') + ['é', '中', ' ', 'Z', '😀', '𝒳', '😀', '{2}', '{1,3}', '2', '{2,}']
    for _ in range(20000 if tier == 'quick' else 200000):
        p = ''.join(rnd.choice(pool) for _i in range(rnd.randint(0, 10)))
        # texts derived from the pattern so that matches are frequent
        t = []
        for c in p:
            if c == '%':
                t.append(''.join(rnd.choice(pool) for _i in range(rnd.randint(0, 3))))
            elif c == '_':
                t.append(rnd.choice(pool))
            else:
                t.append(c if rnd.random() < 0.93 else rnd.choice(pool))
        pairs.append((''.join(t), p))
    return pairs, exhaustive


def units(s):
    """the text as JavaScript sees it: one symbol per UTF-16 code unit; the two surrogates of an astral character are relabelled
    into plane 15 (the model only distinguishes `%`, `_` and the line terminators, so any injective relabelling will do)"""
    out = []
    for ch in s:
        n = ord(ch)
        if n >= 0x10000:
            out.append(chr(0xF0000 + 0xD800 + ((n - 0x10000) >> 10)))
            out.append(chr(0xF0000 + 0xDC00 + ((n - 0x10000) & 0x3FF)))
        else:
            out.append(ch)
    return ''.join(out)


def run(res, tier, seed):
    res.rule = RULE
    res.assumptions = ['re.escape + re.compile / RegExp implement literal matching of an escaped run', 'texts are single-line (no LF; for JS no CR, U+2028, U+2029)']
    pairs, exhaustive = gen(tier, seed)
    res.exhaustive = exhaustive
    B = 500
    batches = [pairs[i:i + B] for i in range(0, len(pairs), B)]
    for t, p in pairs:
        if any(c in p for c in '%_.*\\[(^$+?|'):
            res.nontrivial.add((t, p))
    for pr in pairs[5000:5003] + pairs[-3:]:
        res.sample({'text': pr[0], 'pattern': pr[1]})
    for js, impl in ((0, 'py'), (1, 'js')):
        lines = ['likebatch %d %s' % (js, enc_table([[t, p] for t, p in b])) for b in batches]
        conv = units if js else (lambda x: x)       # rbql-js matches UTF-16 code units: SQL LIKE over the unit sequence is its specification
        mout = common.run_model(['likebatch %d %s' % (js, enc_table([[conv(t), conv(p)] for t, p in b])) for b in batches])
        sout = common.run_model(['likespec %s' % enc_table([[conv(t), conv(p)] for t, p in b]) for b in batches])
        iout = common.run_impl_py(lines) if impl == 'py' else common.run_impl_js(lines)
        res.evaluations += len(pairs)
        nbad = 0
        matches = 0
        for b, m, s, o in zip(batches, mout, sout, iout):
            matches += m.count('1')
            if m == o == s:
                continue
            for i, pr in enumerate(b):
                mi = m[i] if i < len(m) else '?'
                si = s[i] if i < len(s) else '?'
                oi = o[i] if (i < len(o) and len(o) == len(b)) else o[:80]
                if not (mi == oi == si):
                    nbad += 1
                    if nbad <= 5:
                        line = 'likebatch %d %s' % (js, enc_table([[pr[0], pr[1]]]))
                        res.violations.append({'property': 'C17', 'impl': impl, 'text': pr[0], 'pattern': pr[1], 'line': line,
                                               'model_says': mi, 'sql_like_spec_says': si, 'impl_says': oi,
                                               'case_key': 'C17|%s|%s|%s' % (impl, pr[0], pr[1]), 'replay_cmd': './check C17 --replay <this file>'})
        res.count('disagreements_' + impl, nbad)
        res.count('matching_pairs_' + impl, matches)


def replay(res, path):
    return common.replay_generic(res, path)
