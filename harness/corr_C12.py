"""C12 — CSV reading depends only on content, never on how the stream is chunked (Python reader).

Tie + search: for every text the REAL CSVRecordIterator is run over every partition of the text
(or of its utf-8 / latin-1 bytes through TextIOWrapper) x every chunk size 1..n+1 and must give,
each time, what the Lean model `readAll` gives for the text read whole (the model's own chunk
independence is theorem C12_rows_chunk_independent; explicit-piece cases also run the model's
chunked machine against the real one)."""
import random

import common
import csvgen
from common import enc_str, enc_list

RULE = ('exhaustive texts up to length n over {a " , LF CR # space} x {quoted, quoted_rfc} x comment prefix x header, each under '
        'ALL 2^(n-1) partitions x ALL chunk sizes 1..n+1 (the implementation driver enumerates them and reports the first deviation); '
        'multi-byte utf-8 / latin-1 samples under all byte partitions; seeded random longer texts with explicit pieces. '
        'non-trivial iff the text contains a line break, a quote or the comment character; distinct = distinct (config, text)')


def gen(tier, seed):
    cases = []
    n = 5 if tier == 'quick' else 6
    exhaustive = {}
    for pol, comment, hdr in csvgen.reader_configs():
        for t in csvgen.all_strings(csvgen.READ_ALPHABET, n):
            cases.append(('all', pol, 'none', hdr, 'n', ',', comment, t, None))
        exhaustive['%s comment=%r header=%s len<=%d all partitions x chunk sizes' % (pol, comment, hdr, n)] = True
    for t in csvgen.all_strings(csvgen.READ_ALPHABET, 4):
        cases.append(('all', 'monocolumn', 'none', False, 'n', '', None, t, None))
        cases.append(('all', 'quoted', 'none', True, 'N', ',', '#', t, None))
        cases.append(('all', 'quoted_rfc', 'none', False, 'h', ',', None, t, None))
    # multi-byte samples, byte-level partitions
    units = ['é', '中', '\U0001F600', '﻿', ',', '\n', '\r', 'a', '"']
    maxbytes = 6 if tier == 'quick' else 8
    for k in range(1, 4):
        import itertools
        for tup in itertools.product(units, repeat=k):
            t = ''.join(tup)
            b = t.encode('utf-8')
            if len(b) > maxbytes or all(ord(c) < 128 for c in t):
                continue
            for pol in ('quoted', 'quoted_rfc'):
                cases.append(('all', pol, 'utf-8', False, 'n', ',', None, csvgen.universal_newlines(t), b))
    exhaustive['utf-8 samples of <=3 units from %r with <=%d bytes, all byte partitions' % (units, maxbytes)] = True
    # a BOM in front of a COMMENT line (the BOM belongs to the first physical line, not to the first record), with and without header
    for t in ['\ufeff#c\na,b\n', '\ufeff#\r\n#d\nx\n', '\ufeffa\n#c\nb\n', '#c\n\ufeffa\n', '\ufeff#c', '\ufeff##\nid\n1\n']:
        for pol in ('quoted', 'quoted_rfc'):
            for hdr in (False, True):
                cases.append(('all', pol, 'utf-8', hdr, 'n', ',', '#', csvgen.universal_newlines(t), t.encode('utf-8')))
    lat = [0xef, 0xbb, 0xbf, 0xe9, 0x2c, 0x0a, 0x0d, 0x61, 0x22]
    for k in range(1, 5 if tier == 'quick' else 6):
        import itertools
        for tup in itertools.product(lat, repeat=k):
            if k >= 4 and tup[:3] != (0xef, 0xbb, 0xbf):
                continue
            b = bytes(tup)
            t = b.decode('latin-1')
            cases.append(('all', 'quoted', 'latin-1', False, 'n', ',', None, csvgen.universal_newlines(t), b))
    # random longer texts with explicit pieces: model machine vs real machine, same pieces and chunk size
    rnd = random.Random(seed * 104729 + 12)
    for _ in range(4000 if tier == 'quick' else 60000):
        t = csvgen.random_csv_text(rnd)
        pol = rnd.choice(['quoted', 'quoted_rfc', 'simple', 'whitespace', 'monocolumn'])
        d = ' ' if pol == 'whitespace' else rnd.choice([',', ';', '##', '\t'])
        comment = rnd.choice([None, '#', '##', 'a'])
        hdr = rnd.random() < 0.3
        modi = rnd.choice(['n', 'n', 'h', 'N'])
        chunk = rnd.choice([1, 2, 3, 4, 7, 16, 1024])
        cases.append(('pieces', pol, 'none', hdr, modi, d, comment, t, (csvgen.random_partition(rnd, t), chunk)))
    return cases, exhaustive


def to_line(c):
    kind, pol, enc, hdr, modi, d, comment, t, extra = c
    if kind == 'all':
        return csvgen.line_readall('readpyall', pol, enc, hdr, modi, d, comment, t, extra)
    pieces, chunk = extra
    return 'readpy %s %s %s %s %d %s %s %s' % (pol, enc, '1' if hdr else '0', modi, chunk, enc_str(d),
                                               '~' if comment is None else enc_str(comment), enc_list(pieces))


def nontrivial(c):
    t = c[7]
    return any(ch in t for ch in '\n\r"#')


def run(res, tier, seed):
    res.rule = RULE
    res.assumptions = ['a read returns "" only at end of input',
                       "TextIOWrapper decodes incrementally and applies universal-newline translation (modelled as CR/CRLF -> LF before the reader)"]
    cases, exhaustive = gen(tier, seed)
    res.exhaustive = exhaustive
    lines = [to_line(c) for c in cases]
    for c in cases:
        res.count('kind=%s policy=%s enc=%s' % (c[0], c[1], c[2]))
        if nontrivial(c):
            res.nontrivial.add((c[1], c[2], c[3], c[4], c[5], c[6], c[7]))
    for c in cases[3000:3003] + cases[-2:]:
        res.sample({'kind': c[0], 'policy': c[1], 'encoding': c[2], 'header': c[3], 'modifier': c[4], 'delim': c[5], 'comment': c[6], 'text': c[7], 'pieces_or_bytes': repr(c[8])})
    bad = common.differential(res, lines, impls=('py',))
    # each 'all' case stands for 2^(n-1) * (n+1) real reader runs
    runs = 0
    for c in cases:
        if c[0] == 'all':
            n = len(c[7]) if c[8] is None else len(c[8])
            runs += (1 << max(n - 1, 0)) * (n + 1) + 1
        else:
            runs += 1
    res.count('real_reader_runs', runs)
    seen = set()
    for b in bad[:40]:
        c = cases[b['index']]
        if c[0] == 'all' and c[8] is None:
            small = common.shrink(c[7], lambda s: to_line(c[:7] + (s, None)), 'py')
            cc = c[:7] + (small, None)
        else:
            cc = c
        line = to_line(cc)
        if line in seen:
            continue
        seen.add(line)
        _, m, o = common.disagrees(line, 'py')
        res.violations.append({'property': 'C12', 'impl': 'py', 'case': repr(cc), 'line': line, 'model_says': m, 'impl_says': o,
                               'case_key': 'C12|' + line, 'replay_cmd': './check C12 --replay <this file>'})
    res.count('disagreements', len(bad))


def replay(res, path):
    return common.replay_generic(res, path)
