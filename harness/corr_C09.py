"""C09 — Column-name variables bind to the right column; header line is never data.

(1) model tie: Lean `pyEscape` vs rbql_engine.python_string_escape_column_name and Lean `pyEvalBody` vs Python's
    own evaluation of the literal (ast.literal_eval), exhaustively over short names on the hostile alphabet;
(2) binding (direct oracle on the REAL engine): for headers of distinct names over printable ASCII, both quotes,
    backslash, brackets, tab / newline, non-ASCII, every column position, `a["…"]`, `a['…']`, `a.name` and (direct
    mode) the bare name must deliver exactly that column — through query_table(input_column_names), query_csv,
    pandas and sqlite;
(3) header line never data, NR = 1 on the first data record, WITH (header)/(noheader) overrides the flag for input
    and join table: query_csv with flag x modifier vs the Lean reader model."""
import itertools
import json
import os
import random
import re
import subprocess

import common
import csvgen
from common import enc_str

RULE = ('(1) all names of length <= 3 over {a " \' \\ TAB LF n [ ] space e-acute} for escape/eval; (2) seeded headers of 2-4 distinct hostile names x every position x '
        'spellings {a["esc"], a[\'esc\'], repr(name), a.name, bare name} x {list, CSV, pandas, sqlite}; (3) flag x modifier x {input, join}. '
        'non-trivial iff the name contains a character that needs escaping or is not an identifier; distinct = distinct (names, position, spelling, front-end)')

NAME_ALPHA = ['a', '"', "'", '\\', '\t', '\n', 'n', '[', ']', ' ', 'é']
NAME_POOL = ['id', 'na me', 'x"y', "x'y", 'back\\slash', 'a[1]', 'tab\there', 'new\nline', 'naïve', '中', 'a1', 'NR', 'x.y', 'ends\\', "q'\"q", '%', 'co,ma', 'A', 'select', 'b_2', '1st', 'wh ere', '#c', ';', 'a-b', '{x}', '$',
             # characters that str.splitlines() / a JavaScript line terminator test treat as line breaks although they are legal inside a string literal
             'v\x0bt', 'f\x0cf', 'fs\x1c', 'gs\x1dx', 'rs\x1ex', 'nel\x85x', '\x85', 'ls\u2028x', 'ps\u2029x']
AB_TOKEN = re.compile(r'(?:^|[^_a-zA-Z0-9])[ab]\.[_a-zA-Z]')

IMPL = r'''
import sys, json, os, io, tempfile, shutil, sqlite3
import rbql
from rbql import rbql_engine, rbql_csv, rbql_sqlite
try:
    import pandas
    from rbql import rbql_pandas
except Exception:
    pandas = None
cases = json.loads(sys.stdin.read())
out = []
d = tempfile.mkdtemp(prefix='rbqlverif_c09_')
for c in cases:
    names, rows, q, fe = c['names'], c['rows'], c['query'], c['frontend']
    try:
        if fe == 'list':
            res = []; w = []
            rbql.query_table(q, [r[:] for r in rows], res, w, None, names, None, None, c.get('normalize', True))
            out.append({'rows': res})
        elif fe == 'csv':
            inp = os.path.join(d, 'i.csv'); outp = os.path.join(d, 'o.csv')
            with open(inp, 'w', encoding='utf-8', newline='') as f:
                for r in [names] + rows:
                    f.write(','.join(rbql.csv_utils.rfc_quote_field(x, ',') for x in r) + '\n')
            w = []
            rbql_csv.query_csv(q, inp, ',', 'quoted_rfc', outp, ',', 'quoted_rfc', 'utf-8', w, True)
            it = rbql_csv.CSVRecordIterator(open(outp, 'rb'), 'utf-8', ',', 'quoted_rfc')
            recs = it.get_all_records()
            out.append({'rows': recs[1:], 'header': recs[0] if recs else None})
        elif fe == 'pandas':
            df = pandas.DataFrame(rows, columns=names)
            r = rbql_pandas.query_dataframe(q, df, [], None, c.get('normalize', True))
            out.append({'rows': [[str(x) for x in rr] for rr in r.values.tolist()]})
        elif fe == 'sqlite':
            dbp = os.path.join(d, 'db_%d.sqlite' % len(out))
            conn = sqlite3.connect(dbp)
            conn.execute('CREATE TABLE t (%s)' % ', '.join('"%s" TEXT' % n.replace('"', '""') for n in names))
            conn.executemany('INSERT INTO t VALUES (%s)' % ','.join('?' * len(names)), rows)
            conn.commit()
            it = rbql_sqlite.SqliteRecordIterator(conn, 't')
            res = []
            rbql_engine.query(q, it, rbql_engine.TableWriter(res), [])
            conn.close()
            out.append({'rows': res})
        elif fe == 'hdrflag':
            inp = os.path.join(d, 'i.csv'); outp = os.path.join(d, 'o.csv'); jp = os.path.join(d, 'j.csv')
            open(inp, 'w').write(c['text'])
            open(jp, 'w').write(c['jtext'])
            w = []
            rbql_csv.query_csv(q.replace('JOINFILE', jp), inp, ',', 'quoted', outp, ',', 'quoted', 'utf-8', w, c['flag'])
            out.append({'out': open(outp).read()})
    except Exception as e:
        out.append({'err': type(e).__name__ + ': ' + str(e)[:150]})
shutil.rmtree(d, ignore_errors=True)
print(json.dumps(out, default=repr))
'''


def run_impl(cases):
    r = subprocess.run([common.PY, '-W', 'ignore', '-c', IMPL], input=json.dumps(cases).encode(), env=common.impl_env(), stdout=subprocess.PIPE, stderr=subprocess.PIPE, timeout=900)
    try:
        return json.loads(r.stdout.decode().strip().split('\n')[-1])
    except (ValueError, IndexError):
        raise RuntimeError('C09 driver failed: ' + r.stderr.decode()[-400:])


IMPL_JS = r"""
const path = require('path');
const repo = process.env.VERIF_REPO || '/repo';
const rbql = require(path.join(repo, 'rbql-js', 'rbql.js'));
let data = '';
process.stdin.on('data', d => data += d);
process.stdin.on('end', async () => {
    const cases = JSON.parse(data);
    const out = [];
    for (const c of cases) {
        const rows = [], w = [];
        try {
            const A = c.rows.map(r => r.slice());
            if (c.join)
                await rbql.query_table(c.query, A.map(r => ['x']), rows, w, A, ['only'], c.names);
            else
                await rbql.query_table(c.query, A, rows, w, null, c.names, null);
            out.push({rows: rows});
        } catch (e) {
            out.push({err: String(e && e.message !== undefined ? e.message : e).slice(0, 160)});
        }
    }
    console.log(JSON.stringify(out));
});
"""


def run_impl_js(cases):
    import subprocess
    r = subprocess.run([common.NODE, '-e', IMPL_JS], input=json.dumps(cases).encode(), env=common.impl_env(), stdout=subprocess.PIPE, stderr=subprocess.PIPE, timeout=900)
    try:
        return json.loads(r.stdout.decode().strip().split('\n')[-1])
    except (ValueError, IndexError):
        raise RuntimeError('C09 js driver failed: ' + r.stderr.decode()[-400:])


def py_escape(name, q):
    s = name.replace('\\', '\\\\').replace('\n', '\\n').replace('\r', '\\r').replace('\t', '\\t')
    return s.replace(q, '\\' + q)


def gen_binding_cases(rnd, n):
    cases = []
    for _ in range(n):
        k = rnd.randint(2, 4)
        names = rnd.sample(NAME_POOL, k)
        if rnd.random() < 0.12:
            names = rnd.sample(['id', 'name', 'b_2', 'col', 'x1', 'zz', 'Total'], k)
        # near-duplicate names: distinct columns whose names coincide after strip / case folding / truncation must stay distinct
        base = None
        if rnd.random() < 0.35:
            base = rnd.choice(names)
            twins = [' ' + base, base + ' ', '  ' + base + ' ', base.upper(), base.lower(), base.swapcase(), base + '_', '_' + base, base + base, base[:-1], base + '\t']
            rnd.shuffle(twins)
            for t in twins[:rnd.randint(1, 2)]:
                if t not in names and t != '':
                    names.insert(rnd.randrange(len(names) + 1), t)
            k = len(names)
        if any(AB_TOKEN.search(x) for x in names):
            continue
        rows = [['r%d c%d' % (r, c) for c in range(k)] for r in range(1, 4)]
        pos = rnd.randrange(k)
        if base is not None and rnd.random() < 0.6:
            pos = names.index(base)          # address the column that has a near-duplicate
        nm = names[pos]
        spell = rnd.choice(['dq', 'sq', 'repr', 'attr', 'direct'])
        if base is not None and re.match(r'^[_a-zA-Z][_a-zA-Z0-9]*$', nm) and rnd.random() < 0.4:
            spell = 'attr'
        safe_direct = all(x in ('id', 'name', 'b_2', 'col', 'x1', 'zz', 'Total') for x in names)   # no clash with RBQL's own variables (NR, a1, …)
        if safe_direct and rnd.random() < 0.6:
            spell = 'direct'
        elif spell == 'direct' and not safe_direct:
            spell = 'dq'
        fe = rnd.choice(['list', 'list', 'csv', 'pandas', 'sqlite']) if spell != 'direct' else 'list'
        normalize = True
        if spell == 'dq':
            var = 'a["%s"]' % py_escape(nm, '"')
        elif spell == 'sq':
            var = "a['%s']" % py_escape(nm, "'")
        elif spell == 'repr':
            var = 'a[%s]' % repr(nm)
        elif spell == 'attr':
            if not re.match(r'^[_a-zA-Z][_a-zA-Z0-9]*$', nm):
                continue
            var = 'a.%s' % nm
        else:
            if fe != 'list' or not all(re.match(r'^[_a-zA-Z][_a-zA-Z0-9]*$', x) for x in names) or nm in ('select', 'NR', 'A'):
                continue
            var = nm
            normalize = False
        if fe == 'csv' and any(('\n' in x or '\r' in x) and False for x in names):
            continue
        if fe == 'sqlite' and (any(x == '' for x in names) or len(set(x.lower() for x in names)) != len(names)):
            continue      # SQLite column names are case-insensitive: a table with columns x1 and X1 cannot exist there
        c = {'names': names, 'rows': rows, 'query': 'select %s, NR' % var, 'frontend': fe, 'normalize': normalize, 'pos': pos, 'spell': spell}
        if spell in ('dq', 'sq', 'attr') and '\\' not in var and rnd.random() < 0.15:
            # the variable occurs ONLY inside an f-string (a string literal for the query parser, code for Python): it must still be bound
            outer = "'" if "'" not in var else ('"' if '"' not in var else None)
            if outer is not None and '{' not in var and '}' not in var and '\n' not in var and '\r' not in var:
                c['query'] = 'select f%s{%s}%s, NR' % (outer, var, outer)
                c['fstring'] = True
        cases.append(c)
    # direct mode with columns NAMED like positional variables (a2 as the name of the first column, …): the bare name is the column of that
    # name, whatever its position (the header pass runs after the positional pass and wins)
    for _ in range(n // 10):
        k = rnd.randint(2, 4)
        names = rnd.sample(['a1', 'a2', 'a3', 'a4', 'b1', 'b2', 'x', 'a10', 'id'], k)
        pos = rnd.randrange(k)
        rows = [['r%d c%d' % (r, c) for c in range(k)] for r in range(1, 4)]
        cases.append({'names': names, 'rows': rows, 'query': 'select %s, NR' % names[pos], 'frontend': rnd.choice(['list', 'pandas']), 'normalize': False, 'pos': pos, 'spell': 'direct'})
    return cases


def run(res, tier, seed):
    res.rule = RULE
    res.assumptions = ['names contain no a.ident / b.ident token (acknowledged limitation) and are distinct',
                       'Python literal evaluation is modelled for the escapes the generator can produce; tied to ast.literal_eval here']
    # (1) escape / eval model tie
    L = 3 if tier == 'quick' else 4
    names = list(csvgen.all_strings(NAME_ALPHA, L))
    lines = []
    for nm in names:
        for q in 'ds':
            lines.append('pyescape %s %s' % (q, enc_str(nm)))
            lines.append('pyeval %s %s' % (q, enc_str(nm)))            # the raw name as a literal body (mostly rejected, sometimes valid)
            lines.append('pyeval %s %s' % (q, enc_str(py_escape(nm, '"' if q == 'd' else "'"))))
    res.exhaustive['names len<=%d over %d symbols: escape, eval(raw), eval(escape)' % (L, len(NAME_ALPHA))] = True
    bad = common.differential(res, lines, impls=('py',))
    # Python knows more escapes than the model (\a, \x.., octal …): the model answers N (outside) there; only count cases where the model gives a value
    bad = [b for b in bad if not (b['model'] == 'N' and b['line'].startswith('pyeval'))]
    for b in bad[:5]:
        res.violations.append({'property': 'C09', 'impl': 'py', 'why': 'escape / literal-evaluation model differs from Python', 'line': b['line'], 'model_says': b['model'], 'impl_says': b['got'],
                               'case_key': 'C09|esc|' + b['line']})
    for nm in names:
        if any(ch in nm for ch in '"\'\\\t\n'):
            res.nontrivial.add(('esc', nm))
    # (2) binding
    rnd = random.Random(seed * 977 + 9)
    cases = gen_binding_cases(rnd, 1500 if tier == 'quick' else 20000)
    outs = run_impl(cases)
    res.evaluations += len(cases)
    nbad = 0
    for c, o in zip(cases, outs):
        res.count('frontend=%s spelling=%s' % (c['frontend'], c['spell']))
        res.nontrivial.add((tuple(c['names']), c['pos'], c['spell'], c['frontend']))
        want = [[r[c['pos']], i + 1] for i, r in enumerate(c['rows'])]
        got = o.get('rows')
        if got is not None:
            got = [[r[0], int(r[1])] for r in got]
        if got != want:
            nbad += 1
            if nbad <= 5:
                res.violations.append({'property': 'C09', 'impl': 'py', 'why': 'the column-name variable did not deliver the column at that header position (or NR is wrong)',
                                       'names': c['names'], 'query_py': c['query'], 'frontend': c['frontend'], 'expected': want, 'observed': o,
                                       'case_key': 'C09|bind|%s|%s|%s' % (json.dumps(c['names']), c['query'], c['frontend'])})
    res.count('binding_failures', nbad)
    # (2a') columns NAMED like members of the record object itself (Python: the RBQLRecord instance; rbql-js: Object.prototype) addressed in the
    # attribute form TOGETHER with a dictionary variable in one query: the record object must not confuse a column with its own machinery
    host_names = ['storage', 'keys', 'values', 'items', 'get', 'constructor', 'toString', '__proto__', 'hasOwnProperty', 'valueOf', 'length', 'prototype']
    hcases = []
    for nm in host_names:
        for pos in (0, 2):
            names2 = ['other col', 'z', 'w']
            names2.insert(pos, nm)
            rows2 = [['r%d c%d' % (r, c) for c in range(4)] for r in range(1, 4)]
            oc = names2.index('other col')
            for query, cols in (('select a.%s, a["other col"], NR' % nm, [pos, oc]), ('select a["other col"], a.%s, a["%s"], NR' % (nm, nm), [oc, pos, pos]),
                                ('select a["%s"], a.z, NR' % nm, [pos, names2.index('z')])):
                hcases.append({'names': names2, 'rows': rows2, 'query': query, 'frontend': 'list', 'normalize': True, 'cols': cols})
    houts = run_impl(hcases)
    jhouts = run_impl_js(hcases)
    res.evaluations += 2 * len(hcases)
    for impl_name, outs2 in (('py', houts), ('js', jhouts)):
        for c, o in zip(hcases, outs2):
            res.nontrivial.add(('host-name', impl_name, c['query']))
            want = [[r[k] for k in c['cols']] + [i + 1] for i, r in enumerate(c['rows'])]
            got = o.get('rows')
            if got is not None:
                got = [list(r[:-1]) + [int(r[-1])] for r in got]
            if got != want:
                res.violations.append({'property': 'C09', 'impl': impl_name, 'why': 'a column named like a member of the record object did not deliver its column (or broke the other variables of the query)',
                                       'names': c['names'], 'query': c['query'], 'expected': want, 'observed': o, 'case_key': 'C09|host-name|%s|%s' % (impl_name, c['query'])})
                break
    res.count('host_object_member_names', len(hcases))
    # pinned witness of the known finding D26 (see known_findings.json): a column called __class__ addressed as a.__class__
    d26 = {'names': ['__class__', 'x'], 'rows': [['r1 c0', 'r1 c1'], ['r2 c0', 'r2 c1']], 'query': 'select a.__class__, NR', 'frontend': 'list', 'normalize': True}
    o = run_impl([d26])[0]
    res.evaluations += 1
    if o.get('rows') != [['r1 c0', 1], ['r2 c0', 2]]:
        res.violations.append({'property': 'C09', 'impl': 'py', 'why': 'a column named __class__ cannot be read through a.__class__', 'names': d26['names'], 'query': d26['query'],
                               'expected': [['r1 c0', 1], ['r2 c0', 2]], 'observed': o, 'case_key': 'C09|D26|dunder-class-attribute'})
    # (2b) the same binding through the REAL rbql-js engine (its own escaping: js_string_escape_column_name, its own variable parsers);
    # input table AND join table (b["name"]), list front-end, spellings that are valid in both languages
    jcases = [c for c in cases if c['frontend'] == 'list' and c['spell'] in ('dq', 'sq', 'attr') and not c.get('fstring')]
    for c in list(jcases):
        if rnd.random() < 0.4:
            jc = dict(c)
            jc['query'] = 'select b' + c['query'][len('select a'):].replace(', NR', ', bNR') + ' join b on NR == bNR'
            jc['join'] = True
            jcases.append(jc)
    jouts = run_impl_js(jcases)
    res.evaluations += len(jcases)
    nbadj = 0
    for c, o in zip(jcases, jouts):
        res.count('frontend=js-%s spelling=%s' % ('join' if c.get('join') else 'list', c['spell']))
        res.nontrivial.add(('js', tuple(c['names']), c['pos'], c['spell'], bool(c.get('join'))))
        want = [[r[c['pos']], i + 1] for i, r in enumerate(c['rows'])]
        if o.get('rows') != want:
            nbadj += 1
            if nbadj <= 5:
                res.violations.append({'property': 'C09', 'impl': 'js', 'why': 'rbql-js: the column-name variable did not deliver the column at that header position (or NR is wrong)',
                                       'names': c['names'], 'query_js': c['query'], 'expected': want, 'observed': o,
                                       'case_key': 'C09|bind-js|%s|%s' % (json.dumps(c['names']), c['query'])})
    res.count('binding_failures_js', nbadj)
    for c in cases[:3]:
        res.sample({'names': c['names'], 'query': c['query'], 'frontend': c['frontend']})
    # (3) header flag x modifier, input and join
    text = 'id,val\n1,x\n2,y\n'
    jtext = 'id,other\n1,J1\n2,J2\nid,Jhdr\n'
    hcases = []
    for flag in (True, False):
        for modi in ('', ' with (header)', ' with (noheader)', ' WITH (headers)', ' With (noheaders)'):
            hcases.append({'frontend': 'hdrflag', 'names': [], 'rows': [], 'query': 'select NR, a1, a2' + modi, 'text': text, 'jtext': jtext, 'flag': flag, 'modi': modi, 'join': False})
            hcases.append({'frontend': 'hdrflag', 'names': [], 'rows': [], 'query': 'select NR, a1, b2 join JOINFILE on a1 == b1' + modi, 'text': text, 'jtext': jtext, 'flag': flag, 'modi': modi, 'join': True})
            # NAMED variables of both tables: they exist exactly when the EFFECTIVE header flag (the modifier, else the caller's flag) says so — for the join table too
            hcases.append({'frontend': 'hdrflag', 'names': [], 'rows': [], 'query': 'select NR, a.val' + modi, 'text': text, 'jtext': jtext, 'flag': flag, 'modi': modi, 'join': False, 'named': True})
            for jq in ('select NR, a1, b.other join JOINFILE on a1 == b1', 'select NR, a.id, b["other"] join JOINFILE on a.id == b.id', "select NR, a1, b2 join JOINFILE on a1 == b['id']"):
                hcases.append({'frontend': 'hdrflag', 'names': [], 'rows': [], 'query': jq + modi, 'text': text, 'jtext': jtext, 'flag': flag, 'modi': modi, 'join': True, 'named': True})
    houts = run_impl(hcases)
    res.evaluations += len(hcases)
    for c, o in zip(hcases, houts):
        eff = c['flag'] if c['modi'] == '' else ('no' not in c['modi'].lower())
        if c.get('named'):
            res.nontrivial.add(('hdr-named', c['flag'], c['modi'], c['query']))
            if eff:
                want = 'NR,val\n1,x\n2,y\n' if not c['join'] else 'NR,id,other\n1,1,J1\n2,2,J2\n'
                bad = o.get('out') != want
            else:
                want = '<an error: without a header there are no column names>'
                bad = 'err' not in o
            if bad:
                res.violations.append({'property': 'C09', 'impl': 'py', 'why': 'named variables x header flag x WITH modifier (input and join table)', 'query_py': c['query'], 'caller_flag': c['flag'],
                                       'expected_output': want, 'observed': o, 'case_key': 'C09|hdr-named|%s|%s' % (c['flag'], c['query'])})
            continue
        if not c['join']:
            want = 'NR,id,val\n1,1,x\n2,2,y\n' if eff else '1,id,val\n2,1,x\n3,2,y\n'
        else:
            # effective header applies to both tables: with a header the join table's first line is not data either
            want = 'NR,id,other\n1,1,J1\n2,2,J2\n' if eff else '1,id,other\n1,id,Jhdr\n2,1,J1\n3,2,J2\n'
        res.nontrivial.add(('hdr', c['flag'], c['modi'], c['join']))
        if o.get('out') != want:
            res.violations.append({'property': 'C09', 'impl': 'py', 'why': 'header line / NR / WITH modifier', 'query_py': c['query'], 'caller_flag': c['flag'], 'expected_output': want,
                                   'observed': o, 'case_key': 'C09|hdr|%s|%s' % (c['flag'], c['query'])})
    # which aN / a[N] variables the query text is found to use (Model/Translate.lean vs parse_basic_variables / parse_array_variables)
    import translate_corr
    translate_corr.run_leg(res, tier, seed, {'vars', 'names', 'tablevars'})


def replay(res, path):
    import translate_corr
    r = translate_corr.replay(res, path)
    if r is not None:
        return r
    v = json.loads(open(path).read())
    print(json.dumps(v, indent=1, ensure_ascii=False)[:3000])
    if v.get('line'):
        return common.replay_generic(res, path)
    return False
