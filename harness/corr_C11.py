"""C11 — field splitting implements the documented quoting dialect exactly.

Tie: `smart_split` of csv_utils.py and csv_utils.js against the Lean `smartSplit` (which the
theorems of Rbql/Theorems/C11.lean relate to the declarative dialect), on
  * every line up to length L over the class alphabet {quote, delimiter chars, space, other}
    for single-character, space and multi-character delimiters, both normal and quote-preserving mode,
  * every short line for the simple / whitespace / monocolumn policies,
  * seeded random long lines over full Unicode with random (also non-ASCII, multi-character)
    delimiters, each also under a random relabelling of its ordinary characters."""
import itertools
import random

import common
from common import enc_str

RULE = ('exhaustive lines up to length L over {quote, delimiter chars, space, other} per delimiter/policy/mode, '
        'then seeded random Unicode lines; a case is non-trivial iff the line contains a double quote or the delimiter; '
        'distinct = distinct (policy, mode, delimiter, line)')


def all_strings(alphabet, max_len):
    for n in range(max_len + 1):
        for t in itertools.product(alphabet, repeat=n):
            yield ''.join(t)


def line_of(pol, pres, d, s):
    return 'split %s %s %s %s' % (pol, '1' if pres else '0', enc_str(d), enc_str(s))


def gen_cases(tier, seed):
    cases = []   # (pol, pres, d, s)
    L = 7 if tier == 'quick' else 9
    exhaustive = {}
    for d, alpha in ((',', '", x'), (' ', '" x,'), ('##', '"# x')):
        for pres in (False, True):
            for s in all_strings(alpha, L):
                cases.append(('quoted', pres, d, s))
        exhaustive['quoted d=%r len<=%d alphabet=%r' % (d, L, alpha)] = True
    Ls = 6 if tier == 'quick' else 8
    for d, alpha in ((',', '", x'), ('##', '"# x')):
        for s in all_strings(alpha, Ls):
            cases.append(('simple', False, d, s))
        exhaustive['simple d=%r len<=%d' % (d, Ls)] = True
    Lw = 8 if tier == 'quick' else 11
    for pres in (False, True):
        for s in all_strings(' x"', Lw):
            cases.append(('whitespace', pres, ' ', s))
    exhaustive['whitespace len<=%d' % Lw] = True
    for s in all_strings('", x', 4):
        cases.append(('monocolumn', False, '', s))
        cases.append(('quoted_rfc', False, ',', s))
    exhaustive['monocolumn/quoted_rfc len<=4'] = True
    # seeded random long lines
    rnd = random.Random(seed * 7919 + 11)
    n_random = 3000 if tier == 'quick' else 60000
    delims = [',', ';', '\t', '|', ' ', '##', ',;', '¦', '::', ' |', 'ab', '\U0001F600']
    others = ['a', 'b', 'z', 'é', '中', '\U0001F600', '\\', "'", '\n', '\r', '#']
    for _ in range(n_random):
        d = rnd.choice(delims)
        pol = rnd.choice(['quoted', 'quoted', 'quoted', 'quoted_rfc', 'simple', 'whitespace'])
        if pol == 'whitespace':
            d = ' '
        n = rnd.randint(0, 40)
        parts = []
        for _i in range(n):
            r = rnd.random()
            if r < 0.25:
                parts.append('"')
            elif r < 0.45:
                parts.append(d if rnd.random() < 0.8 else d[:1])
            elif r < 0.6:
                parts.append(' ')
            else:
                parts.append(rnd.choice(others))
        s = ''.join(parts)
        pres = rnd.random() < 0.3
        cases.append((pol, pres, d, s))
        # class invariance: relabel ordinary characters
        mp = {c: rnd.choice(['q', 'ü', '中']) for c in others if c not in d}
        s2 = ''.join(mp.get(c, c) for c in s) if d not in mp else s
        cases.append((pol, pres, d, s2))
    return cases, exhaustive


def nontrivial(case):
    pol, pres, d, s = case
    return '"' in s or (d != '' and d in s)


def run(res, tier, seed):
    res.rule = RULE
    res.assumptions = ["Python's re / JS RegExp implement the field regex (the scanner model is tied to them by this run)",
                       'characters are compared as code points; JS astral characters travel as surrogate pairs']
    cases, exhaustive = gen_cases(tier, seed)
    res.exhaustive = exhaustive
    lines = [line_of(*c) for c in cases]
    for c in cases:
        res.count('policy=' + c[0])
        if nontrivial(c):
            res.nontrivial.add(c)
    for c in cases[5000:5003] + cases[-2:]:
        res.sample({'policy': c[0], 'preserve': c[1], 'delim': c[2], 'line': c[3]})
    bad = common.differential(res, lines, impls=('py', 'js'))
    seen = set()
    for b in bad[:50]:
        c = cases[b['index']]
        small = common.shrink(c[3], lambda s: line_of(c[0], c[1], c[2], s), b['impl'])
        key = (c[0], c[1], c[2], small, b['impl'])
        if key in seen:
            continue
        seen.add(key)
        line = line_of(c[0], c[1], c[2], small)
        _, m, o = common.disagrees(line, b['impl'])
        res.violations.append({'property': 'C11', 'impl': b['impl'], 'policy': c[0], 'preserve': c[1], 'delim': c[2],
                               'input_line': small, 'original_line': c[3], 'line': line, 'model_says': m, 'impl_says': o,
                               'case_key': 'split|%s|%s|%s|%s|%s' % (b['impl'], c[0], int(c[1]), c[2], small),
                               'replay_cmd': './check C11 --replay <this file>'})
    res.count('disagreements', len(bad))


def replay(res, path):
    return common.replay_generic(res, path)
