"""C06 — No query ever modifies its sources (RBQL is non-destructive).

The observation IS the property, so any difference is the replay:
 (a) Python lists: deep snapshot (structure, id() of every row, contents) of the input and join lists before and
     after every generated query of the C01–C05 kinds (succeeding or failing); `is`-aliasing of output rows;
 (b) rbql-js arrays: JSON snapshot + identity check through the node driver (the C19 generator);
 (c) pandas: DataFrame.equals + dtypes before/after; (d) sqlite: sha256 of the database file before/after;
 (e) CSV: sha256 of the input and join files before/after query_csv (success and failure);
 (f) hostile join-table identifiers through SqliteDbRegistry / SqliteRecordIterator: the statement that reaches
     sqlite is compared with the Lean whitelist model `sqliteStatement` (only [A-Za-z0-9_]* identifiers)."""
import json
import os
import random
import subprocess

import common
import engine_corr
import qgen
from common import enc_str

RULE = ('(a) seeded queries of every kind (select/where/join/unnest/except/order/distinct/top/aggregate/update, incl. failing ones) with a deep identity+content snapshot of both tables; '
        '(b) the same through rbql-js; (c-e) pandas / sqlite file / CSV files hashed before and after; (f) 40 hostile identifiers. '
        'non-trivial iff the tables are non-empty; distinct = distinct (query, tables) / identifier')

HOSTILE = ['t', 'T_1', 't2', '', 't;drop table t', 't--', 't"', "t'", 't t', 't\n', 't\n\n', '\nt', 't\r', 'tä', 't-1', 't.u', 't)', '(t', 't;', ';', 't/*', 't\x00', 'sqlite_master',
           't,u', 't union select 1', 'T', '_', '1', 't\t', ' t', 'main.t', '[t]', '`t`', 't%', 't*', 'select', 'ｔ', 't ', 'b', 'u']

IMPL = r'''
import sys, json, os, io, hashlib, tempfile, shutil, sqlite3
import rbql
from rbql import rbql_engine, rbql_csv, rbql_sqlite
import qgen
mode = sys.argv[1]
arg = json.loads(sys.stdin.read())
out = []
def sha(p):
    with open(p, 'rb') as f: return hashlib.sha256(f.read()).hexdigest()
if mode == 'lists':
    for c in arg:
        if c.get('raw'):
            A = json.loads(json.dumps(c['A'])); B = None if c.get('B') is None else json.loads(json.dumps(c['B']))    # cells may be lists / dicts: mutable values
        else:
            A = [[qgen.cell_to_py(x) for x in r] for r in c['A']]
            B = None if c.get('B') is None else [[qgen.cell_to_py(x) for x in r] for r in c['B']]
        snapA = (id(A), [id(r) for r in A], json.dumps(A)); snapB = None if B is None else (id(B), [id(r) for r in B], json.dumps(B))
        res = []; err = None
        try:
            if c.get('sink') == 'csv':
                # the same list sources, the output going to a CSV writer (which converts and joins the cells it is handed)
                reg = None if B is None else rbql_engine.ListTableRegistry([rbql_engine.ListTableInfo('b', B, None), rbql_engine.ListTableInfo('B', B, None)])
                rbql_engine.query(c['py'], rbql_engine.TableIterator(A), rbql_csv.CSVWriter(io.StringIO(), False, None, ',', c.get('policy', 'quoted')), [], reg)
            else:
                rbql.query_table(c['py'], A, res, [], B)
        except Exception as e:
            err = type(e).__name__
        mutated = (id(A), [id(r) for r in A], json.dumps(A)) != snapA or (B is not None and (id(B), [id(r) for r in B], json.dumps(B)) != snapB)
        ids = set(id(r) for r in A) | (set(id(r) for r in B) if B is not None else set())
        aliased = any(id(r) in ids for r in res)
        out.append({'mutated': mutated, 'aliased': aliased, 'err': err})
elif mode == 'pandas':
    import pandas
    from rbql import rbql_pandas
    for c in arg:
        # column labels of several kinds: strings, integers (years), mixed, the default RangeIndex
        kind = c.get('labels', 'str')
        w = len(c['names'])
        labels = {'str': c['names'], 'int': [2019 + i for i in range(w)], 'mixed': (['kind', 7, 2.5, ('t', 1)] * w)[:w], 'range': None}[kind]
        df = pandas.DataFrame(c['A'], columns=labels)
        jdf = None if c.get('B') is None else pandas.DataFrame(c['B'], columns=(['j1', 'j2'] if kind == 'str' else [10, 20] if kind != 'range' else None))
        before = df.copy(deep=True); jb = None if jdf is None else jdf.copy(deep=True)
        lab = lambda d: None if d is None else [type(d.columns).__name__] + [(type(x).__name__, repr(x)) for x in d.columns]
        lab_before = (lab(df), lab(jdf))
        err = None
        try:
            rbql_pandas.query_dataframe(c['py'], df, [], jdf)
        except Exception as e:
            err = type(e).__name__
        same = df.equals(before) and list(df.dtypes) == list(before.dtypes) and list(df.columns) == list(before.columns) and (jdf is None or (jdf.equals(jb) and list(jdf.dtypes) == list(jb.dtypes)))
        same = same and (lab(df), lab(jdf)) == lab_before       # label VALUES and TYPES (2019 must not become '2019')
        out.append({'mutated': not same, 'err': err})
elif mode == 'files':
    d = tempfile.mkdtemp(prefix='rbqlverif_c06_')
    try:
        for c in arg:
            inp = os.path.join(d, 'in.csv'); jp = os.path.join(d, 'j.csv'); outp = os.path.join(d, 'out.csv'); dbp = os.path.join(d, 'db.sqlite')
            with open(inp, 'w', newline='') as f:
                for r in c['A']: f.write(','.join(r) + '\n')
            with open(jp, 'w', newline='') as f:
                for r in (c.get('B') or [['k', 'v']]): f.write(','.join(r) + '\n')
            h1, h2 = sha(inp), sha(jp)
            err = None
            try:
                rbql_csv.query_csv(c['py'].replace(' b ', ' %s ' % jp), inp, ',', 'simple', outp, ',', 'simple', 'utf-8', [], False)
            except Exception as e:
                err = type(e).__name__
            csv_same = (sha(inp), sha(jp)) == (h1, h2)
            # sqlite
            if os.path.exists(dbp): os.remove(dbp)
            conn = sqlite3.connect(dbp)
            w = max([len(r) for r in c['A']] + [1])
            conn.execute('CREATE TABLE t (%s)' % ', '.join('c%d TEXT' % i for i in range(w)))
            conn.executemany('INSERT INTO t VALUES (%s)' % ','.join('?' * w), [r + [None] * (w - len(r)) for r in c['A']])
            conn.execute('CREATE TABLE b (k TEXT, v TEXT)')
            conn.executemany('INSERT INTO b VALUES (?, ?)', [(r + ['', ''])[:2] for r in (c.get('B') or [])])
            conn.commit(); conn.close()
            hdb = sha(dbp)
            conn = sqlite3.connect(dbp)
            # every other case: the caller has uncommitted work of its own on the connection it lends to RBQL; a read-only query must
            # neither commit it nor roll it back (the transaction state of the connection is the caller's)
            pending = len(out) % 2 == 1
            if pending:
                conn.execute("CREATE TABLE IF NOT EXISTS callers_own (x TEXT)")
                conn.commit()
                hdb = sha(dbp)
                conn.execute("INSERT INTO callers_own VALUES ('pending work')")
            err2 = None
            try:
                rbql_sqlite.query_sqlite_to_csv(c['py'], conn, 't', outp, ',', 'quoted', 'utf-8', [])
            except Exception as e:
                err2 = type(e).__name__
            txn_kept = (not pending) or (conn.in_transaction and conn.execute('select count(*) from callers_own').fetchone()[0] == 1)
            if pending:
                conn.rollback()
            conn.close()
            out.append({'csv_same': csv_same, 'db_same': sha(dbp) == hdb, 'caller_transaction_untouched': txn_kept, 'err': err, 'err_sqlite': err2})
    finally:
        shutil.rmtree(d, ignore_errors=True)
elif mode == 'hostile':
    d = tempfile.mkdtemp(prefix='rbqlverif_c06h_')
    try:
        dbp = os.path.join(d, 'db.sqlite')
        conn = sqlite3.connect(dbp)
        conn.execute('CREATE TABLE t (a TEXT, b TEXT)'); conn.execute("INSERT INTO t VALUES ('1', 'x')")
        conn.execute('CREATE TABLE u (a TEXT, b TEXT)'); conn.execute("INSERT INTO u VALUES ('1', 'y')")
        conn.commit(); conn.close()
        for name in arg:
            conn = sqlite3.connect(dbp)
            h = sha(dbp)
            stmts = []
            conn.set_trace_callback(lambda s: stmts.append(s))
            via_registry = None
            try:
                it = rbql_sqlite.SqliteRecordIterator(conn, name)
                outcome = 'executed'
            except rbql_engine.RbqlIOHandlingError as e:
                outcome = 'io-error'
            except Exception as e:
                outcome = 'exception:' + type(e).__name__
            # the same identifier arriving from query text: `join <name> on a1 == b1`
            stmts2 = []
            conn.set_trace_callback(lambda s: stmts2.append(s))
            try:
                res = []
                rbql_engine.query('select a1, b2 join %s on a1 == b1' % name, rbql_sqlite.SqliteRecordIterator(conn, 't'), rbql_engine.TableWriter(res), [], rbql_sqlite.SqliteDbRegistry(conn))
                o2 = 'ok'
            except Exception as e:
                o2 = rbql_engine.exception_to_error_info(e)[0]
            conn.close()
            tables = sorted(r[0] for r in sqlite3.connect(dbp).execute("select name from sqlite_master where type='table'"))
            out.append({'outcome': outcome, 'statements': stmts, 'from_query_text': o2, 'statements_from_query_text': [s for s in stmts2 if s != 'SELECT * FROM t;'],
                        'db_same': sha(dbp) == h, 'tables': tables})
    finally:
        shutil.rmtree(d, ignore_errors=True)
print(json.dumps(out, default=repr))
'''


def impl(mode, arg):
    env = common.impl_env()
    env['PYTHONPATH'] = env['PYTHONPATH'] + ':' + str(common.ROOT / 'harness')
    r = subprocess.run([common.PY, '-W', 'ignore', '-c', IMPL, mode], input=json.dumps(arg).encode(), env=env, stdout=subprocess.PIPE, stderr=subprocess.PIPE, timeout=1800)
    try:
        return json.loads(r.stdout.decode().strip().split('\n')[-1])
    except (ValueError, IndexError):
        raise RuntimeError('C06 driver failed (%s): %s' % (mode, r.stderr.decode()[-500:]))


JS_NESTED = r'''
const path = require('path');
const repo = process.env.VERIF_REPO || '/repo';
const rbql = require(path.join(repo, 'rbql-js', 'rbql.js'));
const rbql_csv = require(path.join(repo, 'rbql-js', 'rbql_csv.js'));
const {Writable} = require('stream');
(async () => {
  const queries = ['select a1, a2', 'select *', 'select a2, a4, a3', 'select distinct a1, a3', 'select * order by a1', "update set a1 = a1 + '!'", 'select a1, b2 left join b on a1 == b1', 'select * join b on a1 == b1', 'select top 2 a4, a2', 'select * except a1'];
  let out = [];
  for (const q of queries) for (const pol of ['quoted', 'simple', 'quoted_rfc']) {
    const A = [['apple', ['red', null], 3, [[null], 'x']], ['pear', [null], null, []], ['fig', [], 1, [null, [null, 2]]]];
    const B = [['apple', [null, 'b1']], ['fig', ['b2', null]]];
    const before = JSON.stringify([A, B]);
    const ws = new Writable({write(c, e, cb) { cb(); }});
    let err = null;
    try {
      await rbql.query(q, new rbql.TableIterator(A), new rbql_csv.CSVWriter(ws, false, 'utf-8', ',', pol), [], new rbql.SingleTableRegistry(B, null));
    } catch (e) { err = String(e && e.message).slice(0, 80); }
    const after = JSON.stringify([A, B]);
    out.push({query: q + ' [' + pol + ']', mutated: before !== after, before: before, after: after, err: err});
  }
  console.log(JSON.stringify(out));
})();
'''


NAMES_PY = r'''
import sys, json, io
from rbql import rbql_engine, rbql_csv
out = []
queries = ['select *', 'update set a1 = "x"', 'update a set a2 = a1', 'select a1, b2 join b on a1 == b1', 'update set a2 = b2 join b on a1 == b1', 'select distinct count a1',
           'select * except a2', 'select a1 as first, *', 'select top 1 *', 'select a1 where a1 == "nothing"', 'select int("x")',
           # the header modifiers mean something for CSV tables only: on list tables they must not consume a row of the caller's tables
           'select a1 with (header)', 'select a1, b1 join b on a1 == b1 with (headers)', 'update set a1 = "x" with (noheader)', 'select * with (header)']
for q in queries:
    for pol in ('quoted', 'simple', 'quoted_rfc'):
        for sink in ('csv', 'list'):
            names = ['a,b', 'q"t', 'plain']; jnames = ['k,1', 'v"2']
            if 'a.' not in q:
                names[2] = None; jnames[1] = 5           # not strings: a writer renders them
            A = [['1', '2', '3'], ['4', '5', '6']]
            B = [['1', 'p'], ['4', 'r', 'surplus']]
            if ' with (' in q and sink == 'list':
                names, jnames = None, None          # without column names of their own: the modifier is the only thing that could give the tables a header
            before = repr((names, jnames, A, B))
            it = rbql_engine.TableIterator(A, names)
            # a later join record WIDER than the list of join column names: whatever the engine does about the surplus column, the caller's list keeps its length
            reg = rbql_engine.ListTableRegistry([rbql_engine.ListTableInfo('b', B, jnames)])
            w = rbql_csv.CSVWriter(io.StringIO(), False, None, ',', pol) if sink == 'csv' else rbql_engine.TableWriter([])
            err = None
            try:
                rbql_engine.query(q, it, w, [], reg)
            except Exception as e:
                err = type(e).__name__
            out.append({'query': '%s [%s -> %s]' % (q, pol, sink), 'before': before, 'after': repr((names, jnames, A, B)), 'err': err})
print(json.dumps(out))
'''

NAMES_JS = r'''
const path = require('path');
const repo = process.env.VERIF_REPO || '/repo';
const rbql = require(path.join(repo, 'rbql-js', 'rbql.js'));
const rbql_csv = require(path.join(repo, 'rbql-js', 'rbql_csv.js'));
const {Writable} = require('stream');
const show = x => JSON.stringify(x, (k, v) => v === undefined ? '<undefined>' : v);
(async () => {
  const queries = ['select *', "update set a1 = 'x'", 'update a set a2 = a1', 'select a1, b2 join b on a1 == b1', 'update set a2 = b2 join b on a1 == b1', 'select distinct count a1',
                   'select * except a2', 'select a1 as first, *', 'select top 1 *', "select a1 where a1 == 'nothing'", 'select a1.no.such',
                   'select a1 with (header)', 'select a1, b1 join b on a1 == b1 with (headers)', "update set a1 = 'x' with (noheader)", 'select * with (header)'];
  const out = [];
  for (const q of queries) for (const pol of ['quoted', 'simple', 'quoted_rfc']) for (const sink of ['csv', 'list']) {
    let names = ['a,b', 'q"t', null], jnames = ['k,1', 5];
    if (q.indexOf(' with (') != -1 && sink == 'list') { names = null; jnames = null; }
    const A = [['1', '2', '3'], ['4', '5', '6']], B = [['1', 'p'], ['4', 'r', 'surplus']];
    const before = show([names, jnames, A, B]);
    const ws = new Writable({write(c, e, cb) { cb(); }});
    const w = sink == 'csv' ? new rbql_csv.CSVWriter(ws, false, 'utf-8', ',', pol) : new rbql.TableWriter([]);
    let err = null;
    try {
      await rbql.query(q, new rbql.TableIterator(A, names), w, [], new rbql.SingleTableRegistry(B, jnames));
    } catch (e) { err = String(e && e.message).slice(0, 60); }
    out.push({query: q + ' [' + pol + ' -> ' + sink + ']', before: before, after: show([names, jnames, A, B]), err: err});
  }
  console.log(JSON.stringify(out));
})();
'''


def column_names_untouched_check(res):
    """the lists of column names the caller hands over (input and join) are inputs too: whatever a writer does to the header it is given, they are
    the same objects with the same contents afterwards (names that a CSV writer would render or quote: a delimiter, a quote, None / null, a number)"""
    for impl_name, code, cmd in (('py', NAMES_PY, [common.PY, '-W', 'ignore', '-c']), ('js', NAMES_JS, [common.NODE, '-e'])):
        r = subprocess.run(cmd + [code], env=common.impl_env(), stdout=subprocess.PIPE, stderr=subprocess.PIPE, timeout=300)
        try:
            outs = json.loads(r.stdout.decode().strip().split('\n')[-1])
        except (ValueError, IndexError):
            raise RuntimeError('C06 column-names driver (%s) failed: %s' % (impl_name, r.stderr.decode()[-400:]))
        nbad = 0
        for o in outs:
            res.evaluations += 1
            res.nontrivial.add(('names', impl_name, o['query']))
            if o['before'] != o['after']:
                nbad += 1
                if nbad <= 2:
                    res.violations.append({'property': 'C06', 'impl': impl_name, 'why': 'a list of column names or a table handed over by the caller was modified', 'query': o['query'],
                                           'before (input names, join names, input table, join table)': o['before'], 'after': o['after'], 'error': o['err'], 'case_key': 'C06|names|%s|%s' % (impl_name, o['query'])})
        res.count('column_names_cases_' + impl_name, len(outs))
        res.count('column_names_modified_' + impl_name, nbad)


JS_UNDEF = r'''
const path = require('path');
const repo = process.env.VERIF_REPO || '/repo';
const rbql = require(path.join(repo, 'rbql-js', 'rbql.js'));
// a snapshot that tells undefined, a hole and null apart (JSON.stringify writes all three as null)
const snap = t => t.map(r => { const o = []; for (let i = 0; i < r.length; i++) o.push(!(i in r) ? '<hole>' : r[i] === undefined ? '<undefined>' : r[i] === null ? '<null>' : JSON.stringify(r[i])); return o.join('|') + '#' + r.length; }).join(';');
(async () => {
  const queries = ['select a1, a3', 'select *', 'select a1 where a2 === null', 'select a1 where a2 == null', "update set a3 = 'u'", 'select a1, b2 join b on a1 == b1', 'select * left join b on a1 == b1',
                   'select a1, b3 strict left join b on a1 == b1', 'select distinct a2', 'select a1 order by a1', 'select a1.no.such.thing', 'select count(*), max(a3) group by a1'];
  const out = [];
  for (const q of queries) {
    const A = [['k1', undefined, 10], ['k2', null, 20], ['k3', , 30], [undefined, 'x', undefined], ['k1', 'y']];
    const B = [['k1', undefined, 'p'], ['k2', , 'q'], ['k3', null]];
    const before = snap(A) + ' // ' + snap(B);
    let err = null;
    try { await rbql.query_table(q, A, [], [], B); } catch (e) { err = String(e && e.message).slice(0, 60); }
    out.push({query: q, before: before, after: snap(A) + ' // ' + snap(B), err: err});
  }
  console.log(JSON.stringify(out));
})();
'''


def js_undefined_cells(res):
    """rbql-js over arrays with undefined cells and holes: the caller's arrays are the same afterwards, undefined staying undefined and a hole staying a hole"""
    r = subprocess.run([common.NODE, '-e', JS_UNDEF], env=common.impl_env(), stdout=subprocess.PIPE, stderr=subprocess.PIPE, timeout=300)
    try:
        outs = json.loads(r.stdout.decode().strip().split('\n')[-1])
    except (ValueError, IndexError):
        raise RuntimeError('C06 js undefined-cells driver failed: ' + r.stderr.decode()[-400:])
    nbad = 0
    for o in outs:
        res.evaluations += 1
        res.nontrivial.add(('js-undef', o['query']))
        if o['before'] != o['after']:
            nbad += 1
            if nbad <= 2:
                res.violations.append({'property': 'C06', 'impl': 'js', 'why': 'rbql-js: the input / join arrays of the caller differ after the query (undefined cells or holes rewritten)', 'query_js': o['query'],
                                       'tables_before': o['before'], 'tables_after': o['after'], 'error': o['err'], 'case_key': 'C06|js-undef|' + o['query']})
    res.count('js_undefined_cell_cases', len(outs))
    res.count('js_undefined_cell_failures', nbad)


def interactive_cli_check(res):
    """`python -m rbql` WITHOUT --query (interactive mode: preview, one query read from stdin, result saved to a DEFAULT output path derived from the input
    path): the input file is byte for byte the same afterwards, whatever its name says about its format and whatever --out-format asks for"""
    import tempfile, shutil, hashlib
    combos = []
    for fname, delim, content in (('table.csv', ';', 'a;b\n1;2\n3;4\n'), ('table.csv', ',', 'a,b\n1,2\n'), ('table.tsv', ',', 'a,b\n1,2\n'), ('table.tsv', 'TAB', 'a\tb\n1\t2\n'),
                                 ('table.txt', ';', 'a;b\n1;2\n'), ('noext', ',', 'a,b\n1,2\n')):
        for fmt in ('input', 'csv', 'tsv'):
            combos.append((fname, delim, content, fmt))

    def one(cb):
        fname, delim, content, fmt = cb
        d = tempfile.mkdtemp(prefix='rbqlverif_c06i_')
        try:
            inp = os.path.join(d, fname)
            open(inp, 'w').write(content)
            before = hashlib.sha256(open(inp, 'rb').read()).hexdigest()
            env = common.impl_env(); env['HOME'] = d
            r = subprocess.run([common.PY, '-W', 'ignore', '-m', 'rbql', '--input', inp, '--delim', delim, '--policy', 'quoted' if delim in ',;' else 'simple', '--out-format', fmt],
                               input=b'select a1, a2\n', env=env, cwd=d, stdout=subprocess.PIPE, stderr=subprocess.STDOUT, timeout=120)
            after = hashlib.sha256(open(inp, 'rb').read()).hexdigest() if os.path.exists(inp) else 'missing'
            return {'same': before == after, 'files': sorted(os.listdir(d)), 'rc': r.returncode, 'tail': r.stdout.decode('utf-8', 'replace')[-200:]}
        finally:
            shutil.rmtree(d, ignore_errors=True)
    from concurrent.futures import ThreadPoolExecutor
    with ThreadPoolExecutor(max_workers=common.NPROC) as ex:
        outs = list(ex.map(one, combos))
    nbad = 0
    for cb, o in zip(combos, outs):
        res.evaluations += 1
        res.nontrivial.add(('interactive', cb[0], cb[1], cb[3]))
        if not o['same'] or 'Success' not in o['tail']:
            nbad += 1
            if nbad <= 2:
                res.violations.append({'property': 'C06', 'impl': 'py', 'why': 'interactive command line session: the input file changed (or the session did not complete)', 'input_file': cb[0], 'delim': cb[1],
                                       'content': cb[2], 'out_format': cb[3], 'observed': o, 'case_key': 'C06|interactive|%s|%s|%s' % (cb[0], cb[1], cb[3])})
    res.count('interactive_sessions', len(combos))
    res.count('interactive_session_failures', nbad)


SIBLING_IMPL = r'''
import sys, json, os, hashlib, tempfile, shutil
from rbql import rbql_csv
out = []
sha = lambda p: hashlib.sha256(open(p, 'rb').read()).hexdigest() if os.path.exists(p) else 'missing'
for suffix in ('.tmp', '.bak', '~', '.part', '.swp', '.new', '.old', '.lock', '.1'):
    for role in ('input', 'join'):
        for query in ('select a1, b2 join JOIN on a1 == b1', 'select a1, int(b2) join JOIN on a1 == b1'):
            d = tempfile.mkdtemp(prefix='rbqlverif_c06s_')
            try:
                outp = os.path.join(d, 'report.csv')
                inp = outp + suffix if role == 'input' else os.path.join(d, 'in.csv')
                jp = outp + suffix if role == 'join' else os.path.join(d, 'j.csv')
                open(inp, 'w').write('k1,x\nk2,y\n'); open(jp, 'w').write('k1,J1\nk2,J2\n')
                before = (sha(inp), sha(jp))
                err = None
                try:
                    rbql_csv.query_csv(query.replace('JOIN', jp, 1), inp, ',', 'quoted', outp, ',', 'quoted', 'utf-8', [], False)
                except Exception as e:
                    err = type(e).__name__
                out.append({'suffix': suffix, 'role': role, 'query': query, 'same': (sha(inp), sha(jp)) == before, 'err': err, 'files': sorted(os.listdir(d))})
            finally:
                shutil.rmtree(d, ignore_errors=True)
print(json.dumps(out))
'''


def sibling_names_check(res):
    """source files that sit NEXT to the output under a derived-looking name (<output>.tmp, <output>.bak, <output>~ …): whatever scratch files the front-end may use
    while it writes, the input and join files are the same afterwards, on success and on failure"""
    r = subprocess.run([common.PY, '-W', 'ignore', '-c', SIBLING_IMPL], env=common.impl_env(), stdout=subprocess.PIPE, stderr=subprocess.PIPE, timeout=300)
    try:
        outs = json.loads(r.stdout.decode().strip().split('\n')[-1])
    except (ValueError, IndexError):
        raise RuntimeError('C06 sibling-names driver failed: ' + r.stderr.decode()[-400:])
    nbad = 0
    for o in outs:
        res.evaluations += 1
        res.nontrivial.add(('sibling', o['suffix'], o['role'], o['query']))
        if not o['same']:
            nbad += 1
            if nbad <= 2:
                res.violations.append({'property': 'C06', 'impl': 'py', 'why': 'a source CSV file named like a scratch file of the output changed or disappeared', 'observed': o,
                                       'case_key': 'C06|sibling|%s|%s|%s' % (o['suffix'], o['role'], o['query'])})
    res.count('sibling_name_cases', len(outs))
    res.count('sibling_name_failures', nbad)


def js_nested_csv():
    r = subprocess.run([common.NODE, '-e', JS_NESTED], env=common.impl_env(), stdout=subprocess.PIPE, stderr=subprocess.PIPE, timeout=300)
    try:
        return json.loads(r.stdout.decode().strip().split('\n')[-1])
    except (ValueError, IndexError):
        raise RuntimeError('C06 js nested driver failed: ' + r.stderr.decode()[-400:])


def generated_obligations(res):
    """the row flow of both engines as regenerated on this run (also checked by Lean: theorem C06_generated_row_flows_pass_check,
    whose meaning is C06_row_flow_sound)"""
    import sys
    sys.path.insert(0, str(common.ROOT / 'tools'))
    import row_flow_scan
    problems = []
    try:
        pf = row_flow_scan.scan_python(str(common.REPO / 'rbql-py' / 'rbql' / 'rbql_engine.py'), str(common.REPO / 'rbql-py'))
        jf = row_flow_scan.scan_js(str(common.REPO / 'rbql-js' / 'rbql.js'), common.NODE)
    except Exception as e:
        return 1, 0, ['generated obligation C06_generated_row_flows_pass_check: the sources could not be scanned: %s' % e]
    for name, fl in (('rbql_engine.py', pf), ('rbql.js', jf)):
        res.notes.append('row flow of %s: %d bindings, mutated %s, written %s%s' % (name, len(fl.binds), fl.mutated, fl.written, (' notes: %s' % fl.notes) if fl.notes else ''))
        bad = row_flow_scan.problems(fl)
        if bad:
            may = sorted(row_flow_scan.may_input(fl))
            problems.append('generated obligation C06_generated_row_flows_pass_check fails for %s: %s may denote an object of the caller tables (may-input set %s; bindings %s)'
                            % (name, bad, may, [b for b in fl.binds if b[1] == 'alias' and b[2] in may and not b[0].split('.')[0] in row_flow_scan.WRITER_CLASSES][:8]))
    return 1, (0 if problems else 1), problems


def gen_cases(seed, n):
    import corr_C01, corr_C02, corr_C03, corr_C04, corr_C05
    rnd = random.Random(seed * 60013 + 6)
    cases = []
    cases += corr_C01.gen_random(rnd, n)
    cases += corr_C02.gen_cases(rnd, n // 2)
    cases += corr_C03.gen_cases(rnd, n // 2)
    cases += corr_C04.gen_cases(rnd, n // 2)
    cases += corr_C05.gen_cases(rnd, n)
    for c in cases:
        c['py'] = qgen.render_query(c['q'], 'py')
    # mutable VALUES inside the records (list- and dict-valued cells, as JSON or dataframe sources have them): whatever a query does
    # with them — aggregate, accumulate, compare, emit — the caller's nested objects must come out unchanged
    NA = [['apple', ['red'], 3, {'k': 1}], ['apple', ['green', 'sweet'], 5, {'k': 2}], ['pear', ['sour'], 1, {'k': 3}], ['apple', [], 2, {}]]
    NB = [['apple', ['b1']], ['apple', ['b2', 'b3']], ['fig', ['b4']]]
    for text, use_b in [('select a1, SUM(a2) group by a1', False), ('select SUM(a2)', False), ('select a1, MAX(a2), MIN(a2) group by a1', False), ('select a1, ARRAY_AGG(a2) group by a1', False),
                        ('select a1, ANY_VALUE(a2), COUNT(a4) group by a1', False), ('select a1, MEDIAN(a2) group by a1', False), ('select a1, AVG(a3), SUM(a3) group by a1', False),
                        ('select a2, a4', False), ('select distinct a1, a3', False), ('select * order by a2', False), ('select a1, a2 + ["x"]', False), ('update set a3 = a3 + 1', False),
                        ('update set a2 = a2 + ["x"] where a1 == "apple"', False), ('select a1, SUM(b2) join b on a1 == b1 group by a1', True), ('select a1, b2 left join b on a1 == b1', True),
                        ('select a1, UNNEST(a2)', False), ('select top 2 a1, a2 order by a3 desc', False), ('select a1, ARRAY_AGG(b2), MAX(b2) join b on a1 == b1 group by a1', True)]:
        cases.append({'q': {'items': ['star'], 'raw_text': text}, 'A': NA, 'B': NB if use_b else None, 'py': text, 'raw': True})
    # … and the same kind of sources with the output handed to a CSV writer: it normalises None / numbers / list cells of the records it receives
    NC = [['apple', ['red', None], 3, [[None], 'x']], ['pear', [None], None, []], ['fig', [], 1, [None, [None, 2]]]]
    NCB = [['apple', [None, 'b1']], ['fig', ['b2', None]]]
    for text, use_b in [('select a1, a2', False), ('select *', False), ('select a2, a4, a3', False), ('select a1, a2 where a3 is not None', False), ('select distinct a1, a3', False),
                        ('select * order by a1 desc', False), ('update set a1 = a1 + "!"', False), ('select a1, b2 left join b on a1 == b1', True), ('select * join b on a1 == b1', True),
                        ('select a1, ARRAY_AGG(a3) group by a1', False), ('select top 2 a4, a2', False), ('select a1, UNNEST(a2)', False), ('select * except a1', False)]:
        for pol in ('quoted', 'simple', 'quoted_rfc'):
            cases.append({'q': {'items': ['star'], 'raw_text': text, 'sink': 'csv', 'policy': pol}, 'A': NC, 'B': NCB if use_b else None, 'py': text, 'raw': True, 'sink': 'csv', 'policy': pol})
    return cases


def run(res, tier, seed):
    res.rule = RULE
    res.assumptions = ['Python/JS object identity and allocation behaviour are observed (id(), ===), not modelled', 'pandas, sqlite3 and the OS open mode "rb" are third-party: tied by hashes/equals']
    cases = gen_cases(seed, 1200 if tier == 'quick' else 20000)
    outs = impl('lists', cases)
    res.evaluations += len(cases)
    nbad = 0
    for c, o in zip(cases, outs):
        if c['A']:
            res.nontrivial.add(json.dumps([c['q'], c['A'], c.get('B')], sort_keys=True))
        res.count('lists outcome=%s' % ('error' if o['err'] else 'ok'))
        if o['mutated'] or o['aliased']:
            nbad += 1
            if nbad <= 4:
                res.violations.append({'property': 'C06', 'impl': 'py', 'why': 'input/join list mutated' if o['mutated'] else 'an output row IS an input row (aliasing)', 'query_py': c['py'],
                                       'A': c['A'], 'B': c.get('B'), 'observed': o, 'case_key': 'C06|lists|' + c['py'] + json.dumps([c['A'], c.get('B')])})
    # (b) rbql-js arrays: through the engine driver (sourcesMutated / outputAliasesInput)
    import corr_C19
    jrnd = random.Random(seed * 3 + 61)
    jcases = [c for c in corr_C19.gen_cases(jrnd, 1500 if tier == 'quick' else 15000) if corr_C19.in_class(c)]
    lines = [engine_corr.make_line(c) for c in jcases]
    jout = [engine_corr.parse_out(o) for o in common.run_impl_js(lines)]
    res.evaluations += len(lines)
    for c, o in zip(jcases, jout):
        if o.get('sourcesMutated') or o.get('outputAliasesInput'):
            res.violations.append({'property': 'C06', 'impl': 'js', 'why': 'rbql-js modified or aliased the caller arrays', 'query_js': qgen.render_query(c['q'], 'js'), 'A': c['A'], 'B': c['B'],
                                   'observed': {k: o.get(k) for k in ('sourcesMutated', 'outputAliasesInput', 'err')}, 'line': engine_corr.make_line(c),
                                   'case_key': 'C06|js|' + qgen.render_query(c['q'], 'js') + json.dumps([c['A'], c['B']])})
            break
    res.count('js_cases', len(jcases))
    jn = js_nested_csv()
    res.evaluations += len(jn)
    for o in jn:
        res.nontrivial.add(('js-nested-csv', o['query']))
        if o.get('mutated'):
            res.violations.append({'property': 'C06', 'impl': 'js', 'why': 'rbql-js: a nested array of the caller table was modified when the output went to a CSV writer', 'query_js': o['query'],
                                   'A_before': o['before'], 'A_after': o['after'], 'case_key': 'C06|js-nested-csv|' + o['query']})
            break
    column_names_untouched_check(res)
    js_undefined_cells(res)
    interactive_cli_check(res)
    sibling_names_check(res)
    # (c) pandas, (d) sqlite file, (e) CSV files
    rect = [c for c in cases if c['A'] and len(set(len(r) for r in c['A'])) == 1 and all(isinstance(x, str) for r in c['A'] for x in r)
            and (c.get('B') is None or (c['B'] and all(len(r) == 2 and all(isinstance(x, str) for x in r) for r in c['B'])))][:300 if tier == 'quick' else 3000]
    for i, c in enumerate(rect):
        c['names'] = ['n%d' % i for i in range(len(c['A'][0]))]
        c['labels'] = ['str', 'int', 'mixed', 'range'][i % 4]
    pout = impl('pandas', rect)
    fout = impl('files', [c for c in rect if all(',' not in x and '\n' not in x for r in c['A'] for x in r)][:150 if tier == 'quick' else 1500])
    res.evaluations += len(pout) + 2 * len(fout)
    for c, o in zip(rect, pout):
        if o['mutated']:
            res.violations.append({'property': 'C06', 'impl': 'py', 'why': 'the pandas dataframe differs after the query', 'query_py': c['py'], 'A': c['A'], 'case_key': 'C06|pandas|' + c['py'] + json.dumps(c['A'])})
            break
    for o in fout:
        if not o['csv_same'] or not o['db_same'] or not o.get('caller_transaction_untouched', True):
            res.violations.append({'property': 'C06', 'impl': 'py', 'why': 'input/join CSV file or sqlite database file changed, or the uncommitted work of the caller on the lent sqlite connection was committed / rolled back',
                                   'observed': o, 'case_key': 'C06|files'})
            break
    res.count('pandas_cases', len(pout))
    res.count('file_cases', len(fout))
    # (f) hostile identifiers against the Lean whitelist model
    mout = common.run_model(['sqlname %s' % enc_str(n) for n in HOSTILE])
    hout = impl('hostile', HOSTILE)
    res.evaluations += len(HOSTILE)
    for name, m, o in zip(HOSTILE, mout, hout):
        res.nontrivial.add(('ident', name))
        res.count('ident model=%s' % ('accept' if m.startswith('S') else 'refuse'))
        why = None
        model_stmt = common.dec_str(m[1:]) if m.startswith('S') else None
        if not o['db_same'] or o['tables'] != ['t', 'u']:
            why = 'the database changed'
        elif model_stmt is None:
            if o['outcome'] == 'executed' or o['statements'] or o['statements_from_query_text']:
                why = 'the model refuses this identifier but a statement reached sqlite'
        else:
            if o['outcome'] == 'io-error' and 'no such table' not in json.dumps(o):
                pass   # accepted by the whitelist, table missing: still an IO error, nothing harmful
            if any(s != model_stmt for s in o['statements']):
                why = 'the statement executed differs from "SELECT * FROM <ident>;"'
        for s in o['statements'] + o['statements_from_query_text']:
            import re
            if not re.match(r'^SELECT \* FROM [A-Za-z0-9_]*\n?;$', s):
                why = 'a statement with a non-whitelisted identifier reached sqlite: %r' % s
        if why:
            res.violations.append({'property': 'C06', 'impl': 'py', 'why': why, 'identifier': name, 'model_says': m, 'observed': o, 'case_key': 'C06|ident|' + name})
    res.sample({'hostile_identifiers': HOSTILE[:8], 'example_outcome': hout[4]})


def replay(res, path):
    v = json.loads(open(path).read())
    print(json.dumps(v, indent=1, ensure_ascii=False)[:3000])
    return False
