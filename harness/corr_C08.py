"""C08 — Query meaning is invariant under spelling; string literals are opaque.

(1) function-level tie of the shallow parser: cleanup_query, separate_string_literals (scanner vs the real regex on
    ALL strings up to length L over {' " \\ a} and with LF / TAB / placeholder text), combine_string_literals,
    remove_redundant_input_table_name, separate_actions, parse_join_expression and the whole pipeline, against the
    Lean Parse model (functions are observed "when present");
(2) metamorphic AND differential through the public entry point: every abstract query is rendered in a base
    spelling and in K respellings composing all transformations (keyword case, clause order, spaces / tabs / line
    breaks / comment lines / trailing semicolons, aN vs a[N], TOP vs LIMIT, JOIN synonyms, = vs == and swapped ON
    sides, FROM a / UPDATE a SET) with literal contents drawn from an alphabet containing every keyword and
    metacharacter in both quote styles; each text is run on the REAL engine and compared with the Lean model's
    result for the abstract query."""
import itertools
import json
import random

import common
import csvgen
import engine_corr
import qgen
from common import enc_str, enc_list

RULE = ('(1) exhaustive strings (len <= L over {quote, double quote, backslash, a}, plus LF/TAB/placeholder samples) for literal separation; seeded texts for cleanup, redundant table name, '
        'separate_actions, join expressions, whole pipeline; (2) seeded abstract queries x K respellings x hostile literal contents through rbql.query. '
        'non-trivial iff the text contains a string literal or is a respelling that differs from the canonical spelling; distinct = distinct text')

HOSTILE_LITERALS = ['select', 'SELECT * FROM a', 'where x', '* ,', ' as x', 'order by a1 desc', '#c', ';', 'a1', 'b.x', ' with (header)', "it's", 'q"q', 'back\\slash', 'a1 = 5',
                    'join b on a1 == b1', ', ', 'limit 1', 'top 5', 'distinct', 'group by', 'update set', 'except a1', ' ', '', 'NR', '[x]', '(', 'a[1]', '==', 'x\ty', 'é',
                    # replacement patterns of JavaScript's String.replace / replaceAll and of Python's str.format / % / re.sub: literal text is opaque to all of them
                    '$$', '<$&>', 'US$', '$`x', "a$'b", '$1', '{}', '{0}', '%s', '%(x)s', '\\1', '\\g<0>',
                    # a literal whose content ENDS in backslashes (written doubled): the closing quote must still be found
                    'dir\\', '\\', '\\\\', 'a\\ where ', "it's\\",
                    # characters that str.splitlines() / a JavaScript line-terminator test take for line breaks, RAW inside the literal: the line clean-up of the query
                    # text (comment lines, stripping) must not reach into a literal
                    # text that the SELECT-list rewrites (star between commas, ` as name,`, `, count(*)`) would touch if they ever saw literal contents — as fixed items,
                    # so that the quick tier does not depend on the random sequences hitting them (found by tools/replay_seeds.py: a round-2 change had become a coin toss)
                    'x, *, y', ', a.*,', ',*,', 'p as q, r', 'v AS w,', 'u, count(*)', ', COUNT( * ) ,', '*, b.*, *',
                    'L\x0cR', 'v\x0bt', 'fs\x1cx', 'gs\x1d', 'rs\x1ey', 'n\x85m', 'u\u2028v', 'p\u2029#q', '\x0c#not a comment']


def gen_parse_texts(rnd, n):
    texts = []
    kws = ['select', 'SELECT', 'Select', 'update', 'UPDATE', 'where', 'WHERE', 'order by', 'ORDER  BY', 'ORDERBY', 'group by', 'GROUP BY', 'limit', 'LIMIT', 'join', 'JOIN', 'inner join',
           'left join', 'LEFT OUTER JOIN', 'strict left join', 'STRICT  LEFT JOIN', 'except', 'top', 'TOP', 'distinct', 'DISTINCT', 'count', 'COUNT', 'desc', 'DESC', 'asc', 'set', 'SET',
           'from a', 'FROM A', 'with (header)', 'WITH (noheader)', 'with(headers)', 'on', 'and', 'a', 'b']
    toks = ['a1', 'a2', 'b1', 'NR', '5', '10', '*', ',', '==', '=', '!=', '(', ')', "'x'", '"y z"', '___RBQL_STRING_LITERAL0___', 'a.name', 'a["n"]', '+', 'distinctcount', 'topx', 'selected', 'wherever', ';', '#']
    for _ in range(n):
        k = rnd.randint(1, 12)
        parts = []
        for _i in range(k):
            parts.append(rnd.choice(kws) if rnd.random() < 0.55 else rnd.choice(toks))
            parts.append(rnd.choice([' ', ' ', '  ', '', ' ', '\t', '\n', '\n  ']))
        texts.append(''.join(parts))
    return texts


def gen_join_texts(rnd, n):
    out = []
    for _ in range(n):
        tid = rnd.choice(['b', 'B', '/path/to/t.csv', 'tbl', ''])
        on = rnd.choice(['on', 'ON', 'On', 'no'])
        pairs = []
        for _i in range(rnd.randint(0, 3)):
            l = rnd.choice(['a1', 'a[2]', 'NR', 'a.x', 'aNR', 'b1'])
            r = rnd.choice(['b1', 'b[2]', 'bNR', 'b.y', 'a1'])
            eq = rnd.choice(['==', '=', ' == ', ' = ', '  ==', '= ', '===', ' '])
            pairs.append(l + eq + r)
        andkw = rnd.choice([' and ', ' AND ', '  and  ', ' && ', 'and', ' And '])
        out.append(rnd.choice(['', ' ', '  ']) + tid + rnd.choice([' ', '  ', '']) + on + rnd.choice([' ', '  ', '']) + andkw.join(pairs) + rnd.choice(['', ' ', ' x']))
    return out


LIT_TOKENS = [',', ', ', '*', ' * ', 'a.*', 'b.*', ' as ', 'AS', 'x', 'y', 'z1', 'count(*)', ' COUNT( * )', 'select', 'from a', 'where', '=', '==', '#', ';', '(', ')', '[', ']', 'a1', 'a[1]',
              'NR', 'top 2', 'distinct', 'join b on', 'order by', 'limit 1', 'with (header)', 'group by', 'except', 'unnest(', 'update', 'set', ' ', '  ', '.', 'b1', 'like', 'and', 'or', '!=', 'é', '$', '$$', '$&', '{', '}', '%']


def hostile_literal(rnd):
    """literal content: one of the fixed hostile strings, or a random SEQUENCE of RBQL keywords and metacharacters
    (commas around stars, alias-like `as x,` text, count(*) after a comma, clause keywords in a row, …)"""
    if rnd.random() < 0.45:
        return rnd.choice(HOSTILE_LITERALS)
    return ''.join(rnd.choice(LIT_TOKENS) for _ in range(rnd.randint(2, 5)))


def gen_query_cases(rnd, n):
    cases = []
    for _ in range(n):
        ncols = rnd.randint(2, 3)
        A = qgen.gen_table(rnd, nrows=rnd.randint(0, 4), ncols=ncols, ragged=0.0, none_p=0.0, full_cols=ncols)
        q = {'items': []}
        B = None
        shape = rnd.choice(['select', 'select', 'order', 'distinct', 'top', 'join', 'update', 'agg'])
        lit = lambda: ['lit', hostile_literal(rnd)]
        if shape == 'update':
            q = {'update': True, 'items': [], 'assigns': [[rnd.randrange(ncols), rnd.choice([lit(), ['concat', ['a', 0], lit()]])]]}
            if rnd.random() < 0.5:
                q['where'] = ['ne', ['a', 0], lit()]
        elif shape == 'agg':
            q = {'items': [{'e': ['a', 0]}, {'agg': 'count', 'e': ['lit', qgen.num(1)]}, {'agg': 'any_value', 'e': lit()}], 'group': [['a', 0]]}
        else:
            for _i in range(rnd.randint(1, 3)):
                q['items'].append(rnd.choice([{'e': ['a', rnd.randrange(ncols)]}, {'e': lit()}, {'e': ['concat', ['a', 0], lit()]}, 'star', {'e': ['nr']}]))
            if rnd.random() < 0.5:
                q['where'] = rnd.choice([['ne', ['a', 0], lit()], ['or', ['eq', ['a', 1], lit()], ['lt', ['nr'], ['lit', qgen.num(3)]]]])
            if shape == 'order':
                q['order'] = [['a', rnd.randrange(ncols)]]
                q['desc'] = rnd.random() < 0.5
            if shape == 'distinct':
                q['distinct'] = rnd.choice(['yes', 'count'])
            if shape == 'top' or rnd.random() < 0.2:
                q['top'] = rnd.randint(0, 3)
            if shape == 'join':
                B = qgen.gen_table(rnd, nrows=rnd.randint(0, 3), ncols=2, ragged=0.0, none_p=0.0, full_cols=2)
                q['join'] = {'kind': rnd.choice(['inner', 'left']), 'lhs': [rnd.randrange(ncols)], 'rhs': [0]}
                q['items'].append({'e': ['b', 1]})
        cases.append({'q': q, 'A': A, 'B': B})
    return cases


def respell(q, rnd, lang='py'):
    text = qgen.render_query(q, lang, rnd, shuffle_clauses=True, layout=True)
    # redundant table name
    if rnd.random() < 0.3:
        import re
        if q.get('update'):
            text = re.sub(r'(?i)^(\s*(?:#[^\n]*\n\s*)?)update(\s+set)?\s', lambda m: m.group(1) + rnd.choice(['update a set ', 'UPDATE  A  SET ', 'Update a SET ']), text, count=1) if not re.match(r'(?is)^\s*(#[^\n]*\n\s*)?update\s+a\s', text) else text
    return text


def run(res, tier, seed):
    res.rule = RULE
    res.assumptions = ["the regex engine re is trusted; the scanners of the Parse model are tied to it here", 'literal bodies are well-formed Python literals (as rendered by the generator)']
    rnd = random.Random(seed * 8191 + 8)
    lines = []
    L = 8 if tier == 'quick' else 10
    for s in csvgen.all_strings('\'"\\a', L):
        lines.append('seplit ' + enc_str(s))
    res.exhaustive['separate_string_literals: all strings len<=%d over {\' " \\ a}' % L] = True
    for s in csvgen.all_strings('\'"\\a\n\t_', 5):
        lines.append('seplit ' + enc_str(s))
    for _ in range(3000 if tier == 'quick' else 40000):
        s = ''.join(rnd.choice(['a1', "'", '"', '\\', ' ', 'select', '\t', '___RBQL_STRING_LITERAL0___', '"""', "'''", 'x', '#', ',']) for _i in range(rnd.randint(0, 14)))
        lines.append('seplit ' + enc_str(s))
        lits = [rnd.choice(HOSTILE_LITERALS + ['___RBQL_STRING_LITERAL1___', '___RBQL_STRING_LITERAL0___']) for _i in range(rnd.randint(0, 3))]
        lines.append('combine %s %s' % (enc_str(s.replace("'", '').replace('"', '')), enc_list(["'%s'" % x for x in lits])))
    texts = gen_parse_texts(rnd, 6000 if tier == 'quick' else 100000)
    for t in texts:
        lines.append('cleanup ' + enc_str(t))
        flat = t.replace('\n', ' ').replace('\t', ' ')
        lines.append('redundant ' + enc_str(flat))
        lines.append('actions ' + enc_str(flat))
        lines.append('parse ' + enc_str(t))
    for t in gen_join_texts(rnd, 3000 if tier == 'quick' else 40000):
        lines.append('joinexpr ' + enc_str(t))
    for l in lines:
        res.count('op=' + l.split(' ', 1)[0])
        if any(h in l.split(' ')[-1].split('.') for h in ('22', '27')) or not l.startswith('seplit'):
            res.nontrivial.add(l)
    res.sample(lines[-1])
    bad = common.differential(res, lines, impls=('py',))
    seen = set()
    for b in bad[:60]:
        op, payload = b['line'].split(' ', 1)
        if ' ' in payload:
            key = b['line']
            small_line = b['line']
        else:
            txt = common.dec_str(payload)
            small = common.shrink(txt, lambda s: '%s %s' % (op, enc_str(s)), 'py')
            small_line = '%s %s' % (op, enc_str(small))
            key = small_line
        if key in seen or len(seen) >= 6:
            continue
        seen.add(key)
        _, m, o = common.disagrees(small_line, 'py')
        res.violations.append({'property': 'C08', 'impl': 'py', 'why': 'shallow parser function differs from the model', 'op': op,
                               'text': common.dec_str(small_line.split(' ')[1]) if ' ' not in small_line.split(' ', 1)[1] else small_line, 'line': small_line,
                               'model_says': m, 'impl_says': o, 'case_key': 'C08|' + small_line[:300]})
    res.count('parser_function_disagreements', len(bad))
    # the rbql-js twins (separate implementation: spaces-only strip, `SET` without trailing space, `&&`, assertion instead of
    # a parsing error for SELECT+UPDATE): Model/ParseJs.lean against rbql.js on the same texts
    jlines = []
    Lj = 7 if tier == 'quick' else 9
    for t in csvgen.all_strings('\'"\\a`', Lj):
        jlines.append('seplitjs ' + enc_str(t))
    res.exhaustive['rbql.js separate_string_literals: all strings len<=%d over {\' " \\ a `}' % Lj] = True
    for t in csvgen.all_strings('\'\\a\n\t ', 6):
        jlines.append('seplitjs ' + enc_str(t))
    for _ in range(3000 if tier == 'quick' else 40000):
        t = ''.join(rnd.choice(['a1', "'", '"', '`', '\\', '\\\\', ' ', 'select', ' where ', '\t', '\n', '___RBQL_STRING_LITERAL0___', 'x', '#', ',', "\\'", '${a1}']) for _i in range(rnd.randint(0, 14)))
        jlines.append('seplitjs ' + enc_str(t))
    for l in lines:
        op, payload = l.split(' ', 1)
        if op == 'actions':
            jlines.append('actionsjs ' + payload)
        elif op == 'joinexpr':
            jlines.append('joinexprjs ' + payload)
            if rnd.random() < 0.3:
                jlines.append('joinexprjs ' + enc_str(common.dec_str(payload).replace(' and ', ' && ').replace(' AND ', ' &&  ')))
    badj = common.differential(res, jlines, impls=('js',))
    seenj = set()
    for b in badj[:40]:
        op, payload = b['line'].split(' ', 1)
        small = common.shrink(common.dec_str(payload), lambda s2: '%s %s' % (op, enc_str(s2)), 'js')
        small_line = '%s %s' % (op, enc_str(small))
        if small_line in seenj or len(seenj) >= 6:
            continue
        seenj.add(small_line)
        _, m, o = common.disagrees(small_line, 'js')
        res.violations.append({'property': 'C08', 'impl': 'js', 'why': 'rbql.js shallow parser function differs from the model (Model/ParseJs.lean)', 'op': op, 'text': small, 'line': small_line,
                               'model_says': m, 'impl_says': o, 'case_key': 'C08|js|' + small_line[:300]})
    res.count('js_parser_function_lines', len(jlines))
    res.count('js_parser_function_disagreements', len(badj))
    # (2) respellings through the public entry point
    cases = gen_query_cases(rnd, 600 if tier == 'quick' else 8000)
    K = 8 if tier == 'quick' else 24
    all_cases, all_texts = [], []
    for c in cases:
        base = qgen.render_query(c['q'], 'py')
        spellings = [base] + [respell(c['q'], rnd) for _ in range(K)]
        for t in spellings:
            all_cases.append(c)
            all_texts.append({'py': t, 'js': qgen.render_query(c['q'], 'js')})
            if t != base:
                res.nontrivial.add(t)
    res.sample({'abstract': cases[0]['q'], 'respellings': [t['py'] for t in all_texts[:4]]})
    engine_corr.run_cases(res, 'C08', all_cases, 'py', texts=all_texts)
    # the same through the REAL rbql-js engine (its parser is a separate implementation): respelled in JS syntax
    import corr_C19
    js_cases, js_texts = [], []
    for c in cases:
        if not corr_C19.in_class(c):
            continue
        base_py = qgen.render_query(c['q'], 'py')
        base_js = qgen.render_query(c['q'], 'js')
        for t in [base_js] + [respell(c['q'], rnd, 'js') for _ in range(max(K // 2, 2))]:
            js_cases.append(c)
            js_texts.append({'py': base_py, 'js': t})
            if t != base_js:
                res.nontrivial.add('js|' + t)
    res.count('js_respellings', len(js_cases))
    engine_corr.run_cases(res, 'C08', js_cases, 'js', texts=js_texts, valid=corr_C19.in_class)


def replay(res, path):
    v = json.loads(open(path).read())
    if v.get('line', '').startswith('query '):
        return engine_corr.replay(res, path)
    return common.replay_generic(res, path)
