"""C13 — Same query, same data => same result through every front-end and backend.

Direct observation on the REAL code: type-agnostic queries over rectangular string tables are run through
rbql.query_table, rbql.query with user-supplied iterator/writer, rbql_csv.query_csv, `python -m rbql`
(file->file and stdin->stdout; out-format input / csv / tsv), rbql_pandas.query_dataframe, and the sqlite
iterator + query_sqlite_to_csv; every result table and header is compared with the query_table result
(which the engine checks tie to the Lean model).  The command line's exit status / stdout / stderr discipline
is compared with the Lean `cliRun` decision table."""
import json
import os
import random
import subprocess
import sys
import tempfile
from concurrent.futures import ThreadPoolExecutor

import common
import qgen

RULE = ('seeded type-agnostic queries (string expressions, where, order by, distinct, top, count/array-free aggregates, update, except) over rectangular string tables '
        'with a header, and JOIN queries (several partners per key, fields that need quoting, star-only select lists) with the join table as list / CSV file / DataFrame / sqlite table, through 9 entry points; failing queries for the CLI error discipline. non-trivial iff the table is non-empty; distinct = distinct (query, table)')

HEADER = ['c1', 'c2', 'c3']

LIB_IMPL = r'''
import sys, json, os, io, tempfile, shutil, sqlite3
import rbql
from rbql import rbql_engine, rbql_csv, rbql_sqlite
import pandas
from rbql import rbql_pandas
cases = json.loads(sys.stdin.read())
d = tempfile.mkdtemp(prefix='rbqlverif_c13_')
def norm(rows): return [['' if (x is None or (isinstance(x, float) and x != x)) else str(x) for x in r] for r in rows]   # a DataFrame shows None as NaN
def read_csv(path, delim=',', policy='quoted'):
    with open(path, 'rb') as f:
        it = rbql_csv.CSVRecordIterator(f, 'utf-8', delim, policy)
        return it.get_all_records()
class It(rbql_engine.RBQLInputIterator):
    def __init__(self, t, names): self.t = t; self.i = 0; self.names = names
    def get_variables_map(self, q):
        m = {}
        rbql_engine.parse_basic_variables(q, 'a', m); rbql_engine.parse_array_variables(q, 'a', m)
        rbql_engine.parse_dictionary_variables(q, 'a', self.names, m); rbql_engine.parse_attribute_variables(q, 'a', self.names, 'names', m)
        return m
    def get_record(self):
        if self.i >= len(self.t): return None
        self.i += 1
        return self.t[self.i - 1]
    def get_header(self): return self.names
class Wr(rbql_engine.RBQLOutputWriter):
    def __init__(self): self.rows = []; self.header = None
    def write(self, f): self.rows.append(f); return True
    def set_header(self, h): self.header = h
out = []
for ci, c in enumerate(cases):
    q, T = c['query'], c['table']
    o = {}
    def attempt(name, fn):
        try:
            o[name] = fn()
        except Exception as e:
            o[name] = {'err': rbql_engine.exception_to_error_info(e)[0]}
    B, JH = c.get('join_table'), c.get('join_header')
    def f_table():
        res = []; names = []
        rbql.query_table(q.replace('JOINTBL', 'b'), [r[:] for r in T], res, [], None if B is None else [r[:] for r in B], c['header'], JH, names)
        return {'rows': norm(res), 'header': names or None}
    def f_query():
        w = Wr()
        reg = None if B is None else rbql_engine.ListTableRegistry([rbql_engine.ListTableInfo('b', [r[:] for r in B], JH)])
        rbql_engine.query(q.replace('JOINTBL', 'b'), It([r[:] for r in T], c['header']), w, [], reg)
        return {'rows': norm(w.rows), 'header': w.header}
    jp = None
    if B is not None:
        jp = os.path.join(d, 'join_%d.csv' % ci)
        with open(jp, 'w', encoding='utf-8', newline='') as f:
            for r in [JH] + B:
                f.write(','.join(rbql.csv_utils.quote_field(x, ',') for x in r) + '\n')
    inp = os.path.join(d, 'in_%d.csv' % ci)
    with open(inp, 'w', encoding='utf-8', newline='') as f:
        for r in [c['header']] + T:
            f.write(','.join(rbql.csv_utils.quote_field(x, ',') for x in r) + '\n')
    def f_csv():
        outp = os.path.join(d, 'out_%d.csv' % ci)
        rbql_csv.query_csv(q.replace('JOINTBL', jp or 'b'), inp, ',', 'quoted', outp, ',', 'quoted', 'utf-8', [], True)
        recs = read_csv(outp)
        return {'rows': recs[1:], 'header': recs[0] if recs else None} if c['expect_header'] else {'rows': recs, 'header': None}
    def f_csv_rel():
        # the same files in a directory of their own, the join table addressed by its bare file name (resolved against the directory of the input table)
        sub = os.path.join(d, 'rel_%d' % ci)
        os.mkdir(sub)
        shutil.copy(inp, os.path.join(sub, 'in.csv'))
        if jp is not None: shutil.copy(jp, os.path.join(sub, 'jt.csv'))
        outp = os.path.join(sub, 'out.csv')
        rbql_csv.query_csv(q.replace('JOINTBL', 'jt.csv'), os.path.join(sub, 'in.csv'), ',', 'quoted', outp, ',', 'quoted', 'utf-8', [], True)
        recs = read_csv(outp)
        return {'rows': recs[1:], 'header': recs[0] if recs else None} if c['expect_header'] else {'rows': recs, 'header': None}
    def f_pandas():
        df = pandas.DataFrame(T, columns=c['header'])
        r = rbql_pandas.query_dataframe(q.replace('JOINTBL', 'b'), df, [], None if B is None else pandas.DataFrame(B, columns=JH))
        return {'rows': norm(r.values.tolist()), 'header': [str(x) for x in r.columns]}
    def f_sqlite():
        conn = sqlite3.connect(os.path.join(d, 'db_%d.sqlite' % ci))
        if c.get('generated_last'):
            # the last column is a GENERATED (computed) column of the sqlite table: same data, other table shape
            hs = c['header']
            conn.execute('CREATE TABLE t (%s, %s TEXT GENERATED ALWAYS AS (%s || \'-\' || %s) VIRTUAL)' % (', '.join('%s TEXT' % n for n in hs[:-1]), hs[-1], hs[0], hs[1]))
            conn.executemany('INSERT INTO t (%s) VALUES (%s)' % (', '.join(hs[:-1]), ','.join('?' * (len(hs) - 1))), [r[:-1] for r in T])
        else:
            conn.execute('CREATE TABLE t (%s)' % ', '.join('%s TEXT' % n for n in c['header']))
            conn.executemany('INSERT INTO t VALUES (%s)' % ','.join('?' * len(c['header'])), T)
        if B is not None:
            conn.execute('CREATE TABLE jt (%s)' % ', '.join('%s TEXT' % n for n in JH))
            conn.executemany('INSERT INTO jt VALUES (%s)' % ','.join('?' * len(JH)), B)
        conn.commit()
        outp = os.path.join(d, 'sq_%d.csv' % ci)
        rbql_sqlite.query_sqlite_to_csv(q.replace('JOINTBL', 'jt'), conn, 't', outp, ',', 'quoted', 'utf-8', [])
        conn.close()
        recs = read_csv(outp)
        return {'rows': recs[1:], 'header': recs[0] if recs else None} if c['expect_header'] else {'rows': recs, 'header': None}
    attempt('query_table', f_table); attempt('query', f_query); attempt('query_csv', f_csv); attempt('query_csv_relative_join', f_csv_rel); attempt('pandas', f_pandas); attempt('sqlite', f_sqlite)
    o['input_path'] = inp
    o['join_path'] = jp
    out.append(o)
print(json.dumps({'dir': d, 'out': out}, default=repr))
'''


def lone_star_join_cases():
    """a fixed battery: a select list that is exactly one star form over a JOIN whose records are matched several times, need quoting, or are
    the (shared) null record of a LEFT JOIN — whatever a front-end does to a record it is handed must not show in the next one"""
    T = [['x', '1', 'p'], ['x', '2', 'q'], ['n1', '3', 'r'], ['y', '4', 's'], ['n2', '5', 't'], ['x', '6', 'u']]
    B = [['x', 'v,w'], ['y', 'p"q'], ['x', 'plain']]
    cases = []
    for sel in ('b.*', 'a.*', '*', 'b.*, a.*'):
        for kind, tails in (('join', [('', '')]), ('left join', [('', ''), (' where b1 is None', ' where b1 === null'), (' where b2 != "v,w"', ' where b2 != "v,w"')])):
            for tail_py, tail_js in tails:
                text = 'select %s %s JOINTBL on a1 == b1' % (sel, kind)
                cases.append({'query': text + tail_py, 'table': [r[:] for r in T], 'header': HEADER, 'expect_header': True, 'join_table': [r[:] for r in B], 'join_header': ['k', 'v'],
                              'query_js': text + tail_js})
    return cases


def gen_cases(rnd, n):
    cases = lone_star_join_cases()
    for _ in range(n):
        nrows = rnd.randint(0, 5)
        T = [[rnd.choice(['x', 'y', 'z', 'x y', 'a,b', 'q"t', '10', '9', '']) for _c in range(3)] for _r in range(nrows)]
        shape = rnd.choice(['select', 'select', 'where', 'order', 'distinct', 'top', 'agg', 'update', 'except', 'names', 'join', 'join', 'join'])
        q = {'items': []}
        if shape == 'join':
            # JOIN through every entry point: keys with several partners on both sides, fields that need quoting, star-only select lists
            keys = rnd.sample(['x', 'y', 'z', 'a,b', 'q"t'], rnd.randint(1, 3))
            for r in T:
                r[0] = rnd.choice(keys)
            B = [[rnd.choice(keys + ['nope']), rnd.choice(['u', 'v,w', 'p"q', '', 'x y'])] for _r in range(rnd.randint(0, 4))]
            sel = rnd.choice(['a.*', 'b.*', '*', 'a1, b2', 'b.*, a2', 'a.*, b2', 'a2, b.*', 'b2', 'a.*, b.*', 'NR, b.*'])
            kind = rnd.choice(['join', 'inner join', 'left join', 'JOIN'])
            text = 'select %s%s %s JOINTBL on %s' % (rnd.choice(['', '', 'distinct ', 'top 3 ']), sel, kind, rnd.choice(['a1 == b1', 'b1 == a1', 'a1 = b1']))
            if rnd.random() < 0.3:
                text += rnd.choice([' where a2 != "x"', ' order by a2', ' where b2 != "u"']) if 'left' not in kind else ' order by a2'
            cases.append({'query': text, 'table': T, 'header': HEADER, 'expect_header': True, 'join_table': B, 'join_header': ['k', 'v'],
                          'query_js': text.replace(' = b1', ' == b1') if 'a1 = b1' in text else text})
            continue
        if shape == 'update':
            q = {'update': True, 'items': [], 'assigns': [[rnd.randrange(3), rnd.choice([['lit', 'U'], ['concat', ['a', 0], ['lit', '+']], ['a', 2]])]]}
            if rnd.random() < 0.5:
                q['where'] = ['ne', ['a', 0], ['lit', 'x']]
        elif shape == 'except':
            q = {'items': [], 'except': sorted(set(rnd.randrange(3) for _ in range(rnd.randint(1, 2))))}
            if rnd.random() < 0.4:
                q['distinct'] = rnd.choice(['count', 'yes'])      # DISTINCT COUNT prepends a column to the EXCEPT header: every sink must see the final header
        elif shape == 'agg':
            q = {'items': [{'e': ['a', 0]}, {'agg': 'count', 'e': ['lit', qgen.num(1)]}, {'agg': 'any_value', 'e': ['a', 1]}], 'group': [['a', 0]]}
            if rnd.random() < 0.5:
                q['top'] = rnd.randint(0, 2)        # fewer rows than groups: the writer chain is cut short, every sink must still be completed (finish)
        else:
            for _i in range(rnd.randint(1, 3)):
                q['items'].append(rnd.choice([{'e': ['a', rnd.randrange(3)]}, {'e': ['concat', ['a', 0], ['a', 1]]}, {'e': ['lit', 'k,"v']}, 'star', {'e': ['nr']},
                                              {'e': ['len', ['a', 1]]}]))
            if shape == 'where' or rnd.random() < 0.3:
                q['where'] = rnd.choice([['ne', ['a', 0], ['lit', 'x']], ['like', ['a', 1], '%y%'], ['lt', ['nr'], ['lit', qgen.num(3)]]])
            if shape == 'order':
                q['order'] = [['a', rnd.randrange(3)]]
                q['desc'] = rnd.random() < 0.5
            if shape == 'distinct':
                q['distinct'] = rnd.choice(['yes', 'count'])
            if shape == 'top':
                q['top'] = rnd.randint(0, 3)
        text = qgen.render_query(q, 'py', rnd if shape == 'names' else None, HEADER if shape == 'names' else None)
        c = {'query': text, 'table': T, 'header': HEADER, 'expect_header': True, 'query_js': qgen.render_query(q, 'js', None, None)}
        if rnd.random() < 0.2 and not q.get('update'):
            for r in T:
                r[2] = r[0] + '-' + r[1]
            c['generated_last'] = True
        cases.append(c)
    return cases


JS_IMPL = r"""
const path = require('path'), fs = require('fs'), os = require('os'), cp = require('child_process');
const repo = process.env.VERIF_REPO || '/repo';
const rbql = require(path.join(repo, 'rbql-js', 'rbql.js'));
const rbql_csv = require(path.join(repo, 'rbql-js', 'rbql_csv.js'));
const csv_utils = require(path.join(repo, 'rbql-js', 'csv_utils.js'));
const cli = path.join(repo, 'rbql-js', 'cli_rbql.js');
const norm = rows => rows.map(r => r.map(x => (x === null || x === undefined) ? '' : String(x)));
const q = (x, d) => csv_utils.quote_field(x, d);
function parse(text, d, pol) {
    let lines = text.split('\n'); if (lines.length && lines[lines.length - 1] === '') lines.pop();
    return lines.map(l => csv_utils.smart_split(l, d, pol, false)[0]);
}
let data = '';
process.stdin.on('data', d => data += d);
process.stdin.on('end', async () => {
    const cases = JSON.parse(data);
    const dir = fs.mkdtempSync(path.join(os.tmpdir(), 'rbqlverif_c13js_'));
    const out = [];
    for (let ci = 0; ci < cases.length; ci++) {
        const c = cases[ci], o = {};
        const T = c.table, B = c.join_table || null, JH = c.join_header || null;
        const inp = path.join(dir, 'in_' + ci + '.csv');
        fs.writeFileSync(inp, [c.header].concat(T).map(r => r.map(x => q(x, ',')).join(',') + '\n').join(''));
        let jp = null;
        if (B !== null) { jp = path.join(dir, 'join_' + ci + '.csv'); fs.writeFileSync(jp, [JH].concat(B).map(r => r.map(x => q(x, ',')).join(',') + '\n').join('')); }
        const attempt = async (name, fn) => { try { o[name] = await fn(); } catch (e) { o[name] = {err: rbql.exception_to_error_info(e)[0]}; } };
        await attempt('query_table', async () => {
            const rows = [], names = [];
            await rbql.query_table(c.query_js.replace('JOINTBL', 'b'), T.map(r => r.slice()), rows, [], B === null ? null : B.map(r => r.slice()), c.header, JH, names);
            return {rows: norm(rows), header: names.length ? names : null};
        });
        for (const bulk of [false, true]) {
            await attempt('query_csv' + (bulk ? '_bulk' : ''), async () => {
                const outp = path.join(dir, 'out_' + ci + (bulk ? 'b' : 's') + '.csv');
                await rbql_csv.query_csv(c.query_js.replace('JOINTBL', jp || 'b'), inp, ',', 'quoted', outp, ',', 'quoted', 'utf-8', [], true, null, '', {'bulk_read': bulk});
                await new Promise(r => setTimeout(r, 0));
                const recs = parse(fs.readFileSync(outp, 'utf-8'), ',', 'quoted');
                return {rows: recs.slice(1), header: recs.length ? recs[0] : null};
            });
        }
        if (c.cli) {
            const qtext = c.query_js.replace('JOINTBL', jp || 'b');
            const outp = path.join(dir, 'cli_' + ci + '.csv');
            let r = cp.spawnSync(process.execPath, [cli, '--input', inp, '--delim', ',', '--policy', 'quoted', '--with-headers', '--query', qtext, '--output', outp], {encoding: 'utf-8'});
            o['cli_file'] = {rc: r.status, stdout: r.stdout, stderr: r.stderr, rows: (r.status === 0 && fs.existsSync(outp)) ? parse(fs.readFileSync(outp, 'utf-8'), ',', 'quoted') : null};
            r = cp.spawnSync(process.execPath, [cli, '--delim', ',', '--policy', 'quoted', '--with-headers', '--query', qtext, '--out-format', 'csv'], {encoding: 'utf-8', input: fs.readFileSync(inp, 'utf-8')});
            o['cli_stdio_csv'] = {rc: r.status, stderr: r.stderr, rows: r.status === 0 ? parse(r.stdout, ',', 'quoted') : null, stdout_raw: r.status === 0 ? '' : r.stdout};
        }
        out.push(o);
    }
    fs.rmSync(dir, {recursive: true, force: true});
    console.log(JSON.stringify(out));
});
"""


def js_frontends(res, cases, tier):
    """the same through the rbql-js entry points: query_table (reference), query_csv streamed and bulk_read, cli_rbql.js file and stdin"""
    sub = [dict(c) for c in cases if c.get('query_js')]
    for i, c in enumerate(sub):
        c['cli'] = (i % 4 == 0)
        if i % 2 == 1:
            # column names that need quoting in the output header (the JS texts never refer to columns by name)
            c['header'] = ['id', 'last, first', 'said "what"'][:len(c['header'])]
            if c.get('join_header'):
                c['join_header'] = ['k;x', 'v, "w"']
    r = subprocess.run([common.NODE, '-e', JS_IMPL], input=json.dumps(sub).encode(), env=common.impl_env(), stdout=subprocess.PIPE, stderr=subprocess.PIPE, timeout=1800)
    try:
        outs = json.loads(r.stdout.decode().strip().split('\n')[-1])
    except (ValueError, IndexError):
        raise RuntimeError('C13 js driver failed: ' + r.stderr.decode()[-500:])
    nbad = 0
    for c, o in zip(sub, outs):
        res.evaluations += len(o)
        res.nontrivial.add('js|' + c['query_js'] + '|' + json.dumps(c['table']))
        ref = o['query_table']
        why = None
        for name in ('query_csv', 'query_csv_bulk'):
            if o[name] != ref:
                why = 'rbql-js %s differs from rbql-js query_table: %s vs %s' % (name, json.dumps(o[name])[:300], json.dumps(ref)[:300])
                break
        if why is None and c['cli']:
            for name in ('cli_file', 'cli_stdio_csv'):
                v = o[name]
                if 'err' in ref:
                    if v['rc'] == 0 or 'Error' not in v['stderr']:
                        why = 'rbql-js %s: the query fails (%s) but exit status is %s' % (name, ref['err'], v['rc'])
                    continue
                want = ([ref['header']] if ref['header'] else []) + ref['rows']
                if v['rc'] != 0:
                    why = 'rbql-js %s exited with %s: %s' % (name, v['rc'], (v['stderr'] or '')[:200])
                elif v['rows'] != want:
                    why = 'rbql-js %s result differs from query_table: %s vs %s' % (name, json.dumps(v['rows'])[:300], json.dumps(want)[:300])
                elif name == 'cli_file' and v['stdout'] != '':
                    why = 'rbql-js cli_file wrote to stdout: %r' % v['stdout'][:80]
                if why:
                    break
        if why:
            nbad += 1
            if nbad <= 4:
                res.violations.append({'property': 'C13', 'impl': 'js', 'why': why, 'query_js': c['query_js'], 'table': c['table'], 'header': c['header'], 'join_table': c.get('join_table'),
                                       'query_table_says': ref, 'case_key': 'C13|js|' + c['query_js'] + '|' + json.dumps(c['table'])})
    res.count('js_frontend_cases', len(sub))
    res.count('js_frontend_disagreements', nbad)


def run_cli(args, stdin_data=None):
    env = common.impl_env()
    r = subprocess.run([common.PY, '-W', 'ignore', '-m', 'rbql'] + args, input=stdin_data, env=env, stdout=subprocess.PIPE, stderr=subprocess.PIPE, timeout=120)
    return r.returncode, r.stdout, r.stderr.decode('utf-8', 'replace')


def parse_csv_bytes(data, delim=',', policy='quoted'):
    sys.path.insert(0, str(common.REPO / 'rbql-py'))
    import importlib
    csv_utils = importlib.import_module('rbql.csv_utils')
    lines = data.decode('utf-8').split('\n')
    if lines and lines[-1] == '':
        lines.pop()
    return [csv_utils.smart_split(l, delim, policy, False)[0] for l in lines]


def cli_dialect_leg(res):
    """which dialects the command line hands to query_csv, for every delimiter spelling x explicit policy x out-format: the decision
    logic of Model/Cli.lean (theorems C13_cli_out_format_input / _named / _default_policy / _delim_spelling) against the REAL
    run_with_python_csv (query_csv replaced by a recorder)"""
    from common import enc_str
    delims = [',', ';', ' ', '\t', 'TAB', '\\t', '|', '##', 'a', 'tab', 'T', '  ', ',;', ':', 'TABS',
              # every other text is taken literally: non-ASCII separators, backslashes that are not the two-character spelling of a tab
              '\u00a6', '\u2063', '\u00e9', '\\', '\\x01', '\\n', 'a\\', '\\t\\t', '\\T', '\U0001f600']
    lines = []
    for d in delims:
        for pol in ['~', 'simple', 'quoted', 'quoted_rfc', 'whitespace', 'monocolumn']:
            for fmt in ['input', 'csv', 'tsv']:
                lines.append('clidialect %s %s %s' % (enc_str(d), pol, fmt))
    bad = common.differential(res, lines, impls=('py',))
    for ln in lines:
        res.nontrivial.add(('clidialect', ln))
    res.exhaustive['command-line dialect selection: %d delimiter spellings x {no policy, 5 policies} x {input, csv, tsv}' % len(delims)] = True
    for b in bad[:3]:
        res.violations.append({'property': 'C13', 'impl': 'py', 'why': 'the command line selects another CSV dialect than its model (Model/Cli.lean: cliDialects)', 'line': b['line'],
                               'model_says': b['model'], 'impl_says': b['got'], 'case_key': 'C13|clidialect|' + b['line']})


DOOR_ORACLE = r'''
import sys, json
from rbql import rbql_csv
d, p, color = json.loads(sys.argv[1])
w = []
rbql_csv.query_csv('select NF, a1, a2', None, d, p, None, d, p, 'utf-8', w, False, None, '', color)
for x in w: sys.stderr.write('Warning: ' + x + chr(10))
'''


def cli_door_leg(res):
    """the front door of `python -m rbql` (csv_main): every combination of --version / --color / --output / --policy / --delim / --query through the REAL
    process against Model/Cli.lean `cliDoor` (theorems C13_cli_runs_iff, C13_cli_noninteractive_runs_or_refuses, C13_cli_run_dialect,
    C13_cli_monocolumn_needs_no_delim): refusals are `Error [generic]` on stderr with exit 1 and an empty stdout; a run writes exactly what query_csv
    writes for the dialect the model names (oracle: query_csv called directly, same stdin)"""
    import tempfile, shutil
    from common import enc_str, dec_str
    probe = 'x y,"p,q",z\nm\tn o,r\n'.encode()
    combos = []
    for v in (0, 1):
        for c in (0, 1):
            for o in (0, 1):
                for pol in ('~', 'simple', 'quoted', 'quoted_rfc', 'monocolumn'):
                    for d in (None, ',', 'TAB', ' ', '\\t'):
                        for q in (0, 1):
                            combos.append((v, c, o, pol, d, q))
    lines = ['clidoor %d %d %d %s %s %d' % (v, c, o, pol, 'N' if d is None else 'S' + enc_str(d), q) for v, c, o, pol, d, q in combos]
    model = common.run_model(lines)
    tmpd = tempfile.mkdtemp(prefix='rbqlverif_c13door_')
    refusal_msgs = {'"--output" is not compatible with "--color"': 'refuse color-output', 'Using "--policy" without "--delim"': 'refuse policy-without-delim',
                    'option is not compatible with interactive mode': 'refuse color-interactive', 'Separator must be provided': 'refuse delim-required'}

    def one(i):
        v, c, o, pol, d, q = combos[i]
        args = []
        if v: args.append('--version')
        if c: args.append('--color')
        outp = os.path.join(tmpd, 'out_%d.csv' % i)
        if o: args += ['--output', outp]
        if pol != '~': args += ['--policy', pol]
        if d is not None: args += ['--delim', d]
        if q: args += ['--query', 'select NF, a1, a2']
        env = common.impl_env()
        r = subprocess.run([common.PY, '-W', 'ignore', '-m', 'rbql'] + args, input=probe, env=env, stdout=subprocess.PIPE, stderr=subprocess.PIPE, timeout=120)
        so, se = r.stdout, r.stderr.decode('utf-8', 'replace')
        m = model[i]
        if m.startswith('run '):
            _r, md, mp = m.split(' ')
            orc = subprocess.run([common.PY, '-W', 'ignore', '-c', DOOR_ORACLE, json.dumps([dec_str(md), mp, bool(c)])], input=probe, env=env, stdout=subprocess.PIPE, stderr=subprocess.PIPE, timeout=120)
            want_out, want_rc = orc.stdout, (0 if orc.returncode == 0 else 1)
            got_out = open(outp, 'rb').read() if (o and os.path.exists(outp)) else so
            if orc.returncode != 0:
                ok = r.returncode != 0 and se.startswith('Error [')        # the dialect itself is refused by query_csv (e.g. whitespace policy with another delimiter)
            else:
                ok = r.returncode == 0 and got_out == want_out and (not o or so == b'') and 'Error [' not in se and \
                    [l for l in se.split('\n') if l] == [l for l in orc.stderr.decode('utf-8', 'replace').split('\n') if l]
            return ok, {'rc': r.returncode, 'stdout': got_out.decode('utf-8', 'replace')[:200], 'stderr': se[:200], 'oracle_stdout': want_out.decode('utf-8', 'replace')[:200], 'oracle_rc': orc.returncode}
        obs = None
        if r.returncode == 0 and __import__('re').match(r'^\d+\.\d+\.\d+\s*$', so.decode('utf-8', 'replace')):
            obs = 'version'
        elif r.returncode == 1 and se.startswith('Error [generic]: ') and so == b'':
            obs = next((cls for msg, cls in refusal_msgs.items() if msg in se), 'refuse other')
        elif r.returncode == 0 and 'Input file must be provided in interactive mode' in so.decode('utf-8', 'replace'):
            obs = 'interactive'
        else:
            obs = 'other rc=%d' % r.returncode
        return obs == m, {'rc': r.returncode, 'stdout': so.decode('utf-8', 'replace')[:200], 'stderr': se[:200], 'observed_class': obs}
    try:
        with ThreadPoolExecutor(max_workers=common.NPROC) as ex:
            outs = list(ex.map(one, range(len(combos))))
    finally:
        shutil.rmtree(tmpd, ignore_errors=True)
    nbad = 0
    for i, (ok, detail) in enumerate(outs):
        res.evaluations += 1
        res.nontrivial.add(('clidoor', lines[i]))
        res.count('cli_door_model=%s' % model[i].split(' ')[0] + ('' if not model[i].startswith('refuse') else ' ' + model[i].split(' ')[1]))
        if not ok:
            nbad += 1
            if nbad <= 3:
                v, c, o, pol, d, q = combos[i]
                res.violations.append({'property': 'C13', 'impl': 'py', 'why': 'the command line front door behaves differently from its model (Model/Cli.lean: cliDoor): refusals must be `Error [generic]` on stderr with exit 1 and '
                                       'an empty stdout, a run must write what query_csv writes for the dialect named by the model', 'args': {'version': v, 'color': c, 'output': o, 'policy': pol, 'delim': d, 'query': q},
                                       'model_says': model[i], 'observed': detail, 'case_key': 'C13|clidoor|' + lines[i]})
    res.exhaustive['command-line front door: {--version} x {--color} x {--output} x {no policy, 4 policies} x {no delimiter, 4 spellings} x {--query}: %d invocations' % len(combos)] = True
    res.count('cli_door_failures', nbad)


def table_path_leg(res, tier, seed):
    """which file a JOIN table name denotes: Model/TablePath.lean (findTablePath; theorems C13_table_path_exists, C13_table_path_is_a_candidate,
    C13_table_path_prefers_the_name_itself, C16_table_path_same_name_different_directories) against the REAL find_table_path over a real directory tree"""
    from common import enc_str, enc_list
    rnd = random.Random(seed * 911 + 13)
    all_files = ['/w/j.csv', '/d1/j.csv', '/d2/j.csv', '/h/j.csv', '/h/t.csv', '/d1/sub/j.csv', '/w/sub/j.csv', '/abs/j.csv', '/d1/nick', '/w/~']
    ids = ['j.csv', 'sub/j.csv', '~/j.csv', '~/t.csv', '~', '/abs/j.csv', '/d2/j.csv', 'nick', 'nick2', 'missing.csv', 't.csv', '~x', 'sub', '/d1']
    dirs = [None, '/d1', '/d2', '/d1/', '/d3', '/w', '/h']
    indexes = [None, ['nick\t/h/t.csv'], ['nick\t/nonexistent', 'nick\t/h/t.csv'], ['nick'], ['nick2\t/d1/j.csv\textra', ''], ['j.csv\t/h/t.csv'], ['missing.csv\t/d2/j.csv', 'nick\t/d1/sub/j.csv'],
               ['/abs/j.csv\t/h/t.csv'], ['other\t/h/t.csv']]
    lines = []
    for _ in range(1500 if tier == 'quick' else 20000):
        files = [f for f in all_files if rnd.random() < 0.45]
        existing = set(['/w', '/h'])
        for f in files:
            parts = f.split('/')
            for k in range(2, len(parts) + 1):
                existing.add('/'.join(parts[:k]))
        idx = rnd.choice(indexes)
        if idx is not None:
            existing.add('/h/.rbql_table_names')
        md = rnd.choice(dirs)
        lines.append('tablepath %s %s %s %s %s %s' % (enc_str('/w'), enc_str('/h'), 'N' if md is None else 'S' + enc_str(md), enc_str(rnd.choice(ids)), enc_list(sorted(existing)),
                                                     'N' if idx is None else 'S' + enc_list(idx)))
    # the impl op creates FILES for the listed paths that are not prefixes of other listed paths, directories otherwise
    bad = common.differential(res, lines, impls=('py',))
    for ln in lines:
        res.nontrivial.add(('tablepath', ln))
    res.count('table_path_cases', len(lines))
    res.count('table_path_disagreements', len(bad))
    for b in bad[:3]:
        from common import dec_str, dec_list
        a = b['line'].split(' ')
        res.violations.append({'property': 'C13', 'impl': 'py', 'why': 'find_table_path answers differently from its model (Model/TablePath.lean)', 'main_table_dir': None if a[3] == 'N' else dec_str(a[3][1:]),
                               'table_id': dec_str(a[4]), 'existing_paths (cwd /w, home /h)': dec_list(a[5]), 'rbql_table_names': None if a[6] == 'N' else dec_list(a[6][1:]),
                               'model_says': b['model'], 'impl_says': b['got'], 'line': b['line'], 'case_key': 'C13|tablepath|' + b['line']})


INIT_IMPL = r'''
import sys, json, os
import rbql
from rbql import rbql_csv
init, query, T, inp, outp = json.loads(sys.stdin.read())
o = {}
try:
    rows = []
    rbql.query_table(query, [r[:] for r in T], rows, [], user_init_code=init)
    o['table'] = [[str(x) for x in r] for r in rows]
except Exception as e:
    o['table'] = 'err ' + type(e).__name__
for name, kw in (('csv_explicit', {'user_init_code': init}), ('csv_home_default', {})):
    try:
        rbql_csv.query_csv(query, inp, ',', 'quoted', outp, ',', 'quoted', 'utf-8', [], False, **kw)
        o[name] = [l.split(',') for l in open(outp).read().split(chr(10))[:-1]]
    except Exception as e:
        o[name] = 'err ' + type(e).__name__ + ' ' + str(e)[:60]
print(json.dumps(o))
'''


def init_code_leg(res):
    """user init code (functions and imports a query may use) through the library, the CSV front-end (explicit and the default ~/.rbql_init_source.py) and the
    command line (--init-source-file and the default file): the same query gives the same table; without any init code the query fails everywhere"""
    import tempfile, shutil
    init = 'import math\ndef dbl(x):\n    return x + x\nPREFIX = "p-"\n'
    T = [['ab', '3'], ['cd', '4']]
    queries = ['select dbl(a1), math.floor(int(a2) / 2), PREFIX + a1', 'select a1 where dbl(a2) == "44"', 'select count(*), max(dbl(int(a2)))']
    nbad = 0
    for q in queries:
        d = tempfile.mkdtemp(prefix='rbqlverif_c13init_')
        try:
            inp, outp = os.path.join(d, 'in.csv'), os.path.join(d, 'out.csv')
            open(inp, 'w').write(''.join(','.join(r) + '\n' for r in T))
            home_with, home_without = os.path.join(d, 'h1'), os.path.join(d, 'h2')
            os.mkdir(home_with); os.mkdir(home_without)
            open(os.path.join(home_with, '.rbql_init_source.py'), 'w').write(init)
            initf = os.path.join(d, 'my_init.py'); open(initf, 'w').write(init)
            env = common.impl_env(); env['HOME'] = home_with
            r = subprocess.run([common.PY, '-W', 'ignore', '-c', INIT_IMPL], input=json.dumps([init, q, T, inp, outp]).encode(), env=env, stdout=subprocess.PIPE, stderr=subprocess.PIPE, timeout=120)
            try:
                o = json.loads(r.stdout.decode().strip().split('\n')[-1])
            except (ValueError, IndexError):
                raise RuntimeError('C13 init-code driver failed: ' + r.stderr.decode()[-300:])
            want = o['table']
            obs = {'csv_explicit': o['csv_explicit'], 'csv_home_default': o['csv_home_default']}
            env2 = common.impl_env(); env2['HOME'] = home_without
            c1 = subprocess.run([common.PY, '-W', 'ignore', '-m', 'rbql', '--input', inp, '--delim', ',', '--policy', 'quoted', '--query', q, '--init-source-file', initf], env=env2, stdout=subprocess.PIPE, stderr=subprocess.PIPE, timeout=120)
            obs['cli_init_source_file'] = [l.split(',') for l in c1.stdout.decode().split('\n')[:-1]] if c1.returncode == 0 else 'rc=%d %s' % (c1.returncode, c1.stderr.decode()[:80])
            c2 = subprocess.run([common.PY, '-W', 'ignore', '-m', 'rbql', '--input', inp, '--delim', ',', '--policy', 'quoted', '--query', q], env=env, stdout=subprocess.PIPE, stderr=subprocess.PIPE, timeout=120)
            obs['cli_home_default'] = [l.split(',') for l in c2.stdout.decode().split('\n')[:-1]] if c2.returncode == 0 else 'rc=%d %s' % (c2.returncode, c2.stderr.decode()[:80])
            c3 = subprocess.run([common.PY, '-W', 'ignore', '-m', 'rbql', '--input', inp, '--delim', ',', '--policy', 'quoted', '--query', q], env=env2, stdout=subprocess.PIPE, stderr=subprocess.PIPE, timeout=120)
            no_init_fails = c3.returncode != 0 and c3.stderr.decode().startswith('Error [') and c3.stdout == b''
        finally:
            shutil.rmtree(d, ignore_errors=True)
        for name, got in obs.items():
            res.evaluations += 1
            res.nontrivial.add(('init', q, name))
            if not isinstance(want, list) or got != want:
                nbad += 1
                res.violations.append({'property': 'C13', 'impl': 'py', 'why': 'user init code: %s differs from query_table(user_init_code=…)' % name, 'query': q, 'init_code': init, 'table': T,
                                       'query_table': want, 'observed': got, 'case_key': 'C13|init|%s|%s' % (name, q)})
        res.evaluations += 1
        if not no_init_fails:
            nbad += 1
            res.violations.append({'property': 'C13', 'impl': 'py', 'why': 'without any init code the query must fail with an Error line on stderr and nothing on stdout', 'query': q, 'case_key': 'C13|init|none|' + q})
    res.count('init_code_failures', nbad)


def cli_encoding_leg(res):
    """non-ASCII data under --encoding utf-8 / latin-1 through the command line, file and stdin in, file and stdout out: the BYTES written are the
    result table of query_table encoded with the requested encoding, whatever the locale of the process says about stdout (direct oracle)"""
    import tempfile, shutil
    sys.path.insert(0, str(common.REPO / 'rbql-py'))
    tables = [[['caf\u00e9', '1'], ['na\u00efve \u00dcn\u00ef', '2'], ['plain', '3']], [['\u00e9,\u00e8', 'x'], ['"\u00fc"', 'y']], [['a', 'b']]]
    queries = ['select *', 'select a2, a1', 'select a1 + "\u00df", NR where a2 != "2"', 'select a1 order by a1 desc']
    d = tempfile.mkdtemp(prefix='rbqlverif_c13enc_')
    jobs = []
    try:
        import importlib
        rbql = importlib.import_module('rbql')
        csv_utils = importlib.import_module('rbql.csv_utils')
        for ti, T in enumerate(tables):
            for enc in ('utf-8', 'latin-1'):
                inp = os.path.join(d, 'in_%d_%s.csv' % (ti, enc))
                raw = ''.join(','.join(csv_utils.quote_field(x, ',') for x in r) + '\n' for r in T).encode(enc)
                open(inp, 'wb').write(raw)
                for qi, q in enumerate(queries):
                    if enc == 'latin-1' and not all(ord(ch) < 128 for ch in q):
                        continue          # documented refusal: 'To use non-ascii characters in query enable UTF-8 encoding instead of latin-1/binary'
                    ref = []
                    rbql.query_table(q, [r[:] for r in T], ref, [])
                    want = ''.join(','.join(csv_utils.quote_field(str(x), ',') for x in r) + '\n' for r in ref).encode(enc)
                    for locale_enc in ('utf-8', 'latin-1'):
                        jobs.append((ti, enc, q, locale_enc, inp, raw, want, os.path.join(d, 'out_%d_%s_%d_%s.csv' % (ti, enc, qi, locale_enc))))

        def one(job):
            ti, enc, q, locale_enc, inp, raw, want, outp = job
            env_extra = {'PYTHONIOENCODING': locale_enc}
            base = ['--delim', ',', '--policy', 'quoted', '--encoding', enc, '--query', q]
            env = common.impl_env(); env.update(env_extra)
            got = {}
            r = subprocess.run([common.PY, '-W', 'ignore', '-m', 'rbql'] + base + ['--input', inp, '--output', outp], env=env, stdout=subprocess.PIPE, stderr=subprocess.PIPE, timeout=120)
            got['file->file'] = open(outp, 'rb').read() if r.returncode == 0 and os.path.exists(outp) else ('rc=%d %s' % (r.returncode, r.stderr.decode('utf-8', 'replace')[:200])).encode()
            r = subprocess.run([common.PY, '-W', 'ignore', '-m', 'rbql'] + base + ['--input', inp], env=env, stdout=subprocess.PIPE, stderr=subprocess.PIPE, timeout=120)
            got['file->stdout'] = r.stdout if r.returncode == 0 else ('rc=%d %s' % (r.returncode, r.stderr.decode('utf-8', 'replace')[:200])).encode()
            r = subprocess.run([common.PY, '-W', 'ignore', '-m', 'rbql'] + base, input=raw, env=env, stdout=subprocess.PIPE, stderr=subprocess.PIPE, timeout=120)
            got['stdin->stdout'] = r.stdout if r.returncode == 0 else ('rc=%d %s' % (r.returncode, r.stderr.decode('utf-8', 'replace')[:200])).encode()
            return got
        with ThreadPoolExecutor(max_workers=common.NPROC) as ex:
            gots = list(ex.map(one, jobs))
    finally:
        shutil.rmtree(d, ignore_errors=True)
    nbad = 0
    for job, got in zip(jobs, gots):
        ti, enc, q, locale_enc, inp, raw, want, outp = job
        for route, data in got.items():
            res.evaluations += 1
            res.nontrivial.add(('cli-enc', ti, enc, q, locale_enc, route))
            if data != want:
                nbad += 1
                if nbad <= 3:
                    res.violations.append({'property': 'C13', 'impl': 'py', 'why': 'command line, %s, --encoding %s (PYTHONIOENCODING=%s): the bytes written differ from the query_table result in that encoding' % (route, enc, locale_enc),
                                           'query': q, 'table': tables[ti], 'expected_bytes': list(want), 'observed_bytes': list(data)[:400],
                                           'case_key': 'C13|cli-enc|%d|%s|%s|%s|%s' % (ti, enc, q, locale_enc, route)})
    res.count('cli_encoding_runs', len(jobs) * 3)
    res.count('cli_encoding_failures', nbad)


def run(res, tier, seed):
    res.rule = RULE
    cli_dialect_leg(res)
    cli_door_leg(res)
    table_path_leg(res, tier, seed)
    init_code_leg(res)
    cli_encoding_leg(res)
    res.assumptions = ['pandas itertuples / DataFrame(rows, columns) and sqlite3 cursors are faithful adapters (assumed; tied here)', 'argparse mapping is tied, not proved']
    rnd = random.Random(seed * 7001 + 13)
    cases = gen_cases(rnd, 120 if tier == 'quick' else 2500)
    r = subprocess.run([common.PY, '-W', 'ignore', '-c', LIB_IMPL], input=json.dumps(cases).encode(), env=common.impl_env(), stdout=subprocess.PIPE, stderr=subprocess.PIPE, timeout=1800)
    try:
        payload = json.loads(r.stdout.decode().strip().split('\n')[-1])
    except (ValueError, IndexError):
        raise RuntimeError('C13 library driver failed: ' + r.stderr.decode()[-500:])
    outs, tmpd = payload['out'], payload['dir']
    try:
        def cli_variants(i):
            c, o = cases[i], outs[i]
            inp = o['input_path']
            v = {}
            outp = os.path.join(tmpd, 'cli_%d.csv' % i)
            qtext = c['query'].replace('JOINTBL', o.get('join_path') or 'b')
            rc, so, se = run_cli(['--input', inp, '--delim', ',', '--policy', 'quoted', '--with-headers', '--query', qtext, '--output', outp])
            v['cli_file'] = {'rc': rc, 'stdout': so.decode('utf-8', 'replace'), 'stderr': se, 'rows': parse_csv_bytes(open(outp, 'rb').read()) if rc == 0 and os.path.exists(outp) else None}
            data = open(inp, 'rb').read()
            for fmt, (d, p) in (('input', (',', 'quoted')), ('csv', (',', 'quoted')), ('tsv', ('\t', 'simple'))):
                rc, so, se = run_cli(['--delim', ',', '--policy', 'quoted', '--with-headers', '--query', qtext, '--out-format', fmt], stdin_data=data)
                v['cli_stdio_' + fmt] = {'rc': rc, 'stderr': se, 'rows': parse_csv_bytes(so, d, p) if rc == 0 else None, 'stdout_raw': so.decode('utf-8', 'replace') if rc != 0 else ''}
            return v
        with ThreadPoolExecutor(max_workers=common.NPROC) as ex:
            clis = list(ex.map(cli_variants, range(len(cases))))
    finally:
        import shutil
        shutil.rmtree(tmpd, ignore_errors=True)
    res.evaluations += len(cases) * 9
    nbad = 0
    for c, o, cl in zip(cases, outs, clis):
        if c['table']:
            res.nontrivial.add(c['query'] + '|' + json.dumps(c['table']))
        ref = o['query_table']
        why = None
        for name in ('query', 'query_csv', 'query_csv_relative_join', 'pandas', 'sqlite'):
            if o[name] != ref:
                # pandas names a missing header by integers; only compare when the reference has a header
                if name == 'pandas' and ref.get('header') is None and o[name].get('rows') == ref.get('rows'):
                    continue
                why = '%s differs from query_table: %s vs %s' % (name, json.dumps(o[name])[:300], json.dumps(ref)[:300])
                break
        if why is None:
            for name, v in cl.items():
                if 'err' in ref:
                    if v['rc'] == 0 or not v['stderr'].startswith('Error ['):
                        why = '%s: the query fails (%s) but exit status is %d and stderr starts with %r' % (name, ref['err'], v['rc'], v['stderr'][:60])
                    elif '[%s]' % ref['err'] not in v['stderr'].split('\n')[0]:
                        why = '%s: error type on stderr %r differs from the error class %r' % (name, v['stderr'].split('\n')[0][:80], ref['err'])
                    elif name != 'cli_file' and v.get('stdout_raw'):
                        why = '%s: something was written to stdout on failure' % name
                    continue
                if v['rc'] != 0:
                    why = '%s exited with %d: %s' % (name, v['rc'], v['stderr'][:200])
                    break
                if 'Error [' in v['stderr']:
                    why = '%s printed an Error line on success' % name
                    break
                want = ([ref['header']] if ref['header'] else []) + ref['rows']
                if name == 'cli_stdio_tsv' and any(('\t' in x) for r in want for x in r):
                    continue
                if v['rows'] != want:
                    why = '%s result differs from query_table: %s vs %s' % (name, json.dumps(v['rows'])[:300], json.dumps(want)[:300])
                    break
                if name == 'cli_file' and v['stdout'] != '':
                    why = 'cli_file wrote to stdout: %r' % v['stdout'][:80]
                    break
        if why:
            nbad += 1
            if nbad <= 5:
                res.violations.append({'property': 'C13', 'impl': 'py', 'why': why, 'query_py': c['query'], 'table': c['table'], 'header': c['header'], 'join_table': c.get('join_table'), 'join_header': c.get('join_header'), 'query_table_says': ref,
                                       'case_key': 'C13|' + c['query'] + '|' + json.dumps(c['table'])})
    res.count('disagreements', nbad)
    js_frontends(res, cases, tier)
    for c in cases[:3]:
        res.sample({'query': c['query'], 'table': c['table'], 'header': c['header']})
    # CLI error discipline against the Lean decision table (cliRun)
    bad_queries = [('select a1 where a1 = "x"', 'query parsing'), ('select int(a2)', 'query execution'), ('select a1, (a2', 'syntax error'), ('select a9x', 'query execution')]
    d2 = tempfile.mkdtemp(prefix='rbqlverif_c13b_')
    try:
        inp = os.path.join(d2, 'i.csv')
        open(inp, 'w').write('c1,c2\n1,x\n2,y\n')
        for q, cls in bad_queries:
            rc, so, se = run_cli(['--input', inp, '--delim', ',', '--query', q])
            res.evaluations += 1
            first = se.split('\n')[0]
            if rc == 0 or not first.startswith('Error [%s]' % cls) or so != b'':
                res.violations.append({'property': 'C13', 'impl': 'py', 'why': 'CLI failure discipline (model cliRun: exit != 0, first stderr line Error [%s], stdout empty)' % cls,
                                       'query_py': q, 'exit': rc, 'stdout': so.decode('utf-8', 'replace')[:100], 'stderr': se[:200], 'case_key': 'C13|cli-err|' + q})
        # warnings go to stderr, exit 0
        rc, so, se = run_cli(['--input', inp, '--delim', ',', '--policy', 'simple', '--query', "select a1, a2 + ',z'"])
        res.evaluations += 1
        if rc != 0 or 'Warning:' not in se or b'Warning' in so:
            res.violations.append({'property': 'C13', 'impl': 'py', 'why': 'CLI warning discipline (exit 0, warning on stderr only)', 'exit': rc, 'stdout': so.decode()[:100], 'stderr': se[:200],
                                   'case_key': 'C13|cli-warn'})
        # missing input file (IO)
        rc, so, se = run_cli(['--input', os.path.join(d2, 'nope.csv'), '--delim', ',', '--query', 'select a1'])
        res.evaluations += 1
        if rc == 0 or not se.startswith('Error ['):
            res.violations.append({'property': 'C13', 'impl': 'py', 'why': 'CLI on a missing input file', 'exit': rc, 'stderr': se[:200], 'case_key': 'C13|cli-missing'})
    finally:
        import shutil
        shutil.rmtree(d2, ignore_errors=True)


def replay(res, path):
    v = json.loads(open(path).read())
    print(json.dumps(v, indent=1, ensure_ascii=False)[:3000])
    if v.get('line'):
        return common.replay_generic(res, path)
    return False
