// CSV reader / writer ops for the rbql-js implementation driver.
'use strict';
const path = require('path');
const fs = require('fs');
const os = require('os');
const {Readable, Writable} = require('stream');
const base = require('./impl_js.js');
const {OPS, enc_str, dec_str, enc_list, dec_list, enc_table, dec_table, enc_opt_list, repo} = base;
const rbql_csv = require(path.join(repo, 'rbql-js', 'rbql_csv.js'));

let tmpdir = null;
function tmpfile(name) {
    if (tmpdir === null) {
        tmpdir = fs.mkdtempSync(path.join(os.tmpdir(), 'rbqlverif_js_'));
        process.on('exit', () => { try { fs.rmSync(tmpdir, {recursive: true, force: true}); } catch (e) {} });
    }
    return path.join(tmpdir, name);
}

function canon_warnings(ws) {
    let out = [];
    for (const w of ws) {
        let m;
        if (w.indexOf('Byte Order Mark') != -1) { out.push('bom'); continue; }
        m = /Inconsistent double quote escaping in .* table\. E\.g\. at line (\d+)/.exec(w);
        if (m) { out.push('defective:' + m[1]); continue; }
        m = /record (\d+) -> (\d+) fields, record (\d+) -> (\d+) fields/.exec(w);
        if (m) { out.push(`fields:${m[2]}:${m[1]}:${m[4]}:${m[3]}`); continue; }
        out.push('other:' + enc_str(w));
    }
    out.sort();
    return out.length ? out.join(',') : '~';
}

function js_encoding(enc) { return enc == 'latin-1' ? 'binary' : enc; }

function make_stream(buffers) {
    let i = 0;
    return new Readable({
        read() {
            if (i < buffers.length) this.push(buffers[i++]); else this.push(null);
        }
    });
}

// a consumer that yields to the event loop between get_record() calls (a writer awaiting real I/O): the producer side of the reader keeps
// enqueueing chunks meanwhile, so the order in which records leave the queue is exercised, not only the order in which they enter it
async function all_records_slowly(it) {
    const records = [];
    let k = 0;
    while (true) {
        const r = await it.get_record();
        if (r === null) break;
        records.push(r);
        k += 1;
        if (k % 7 == 3) await new Promise(res => setTimeout(res, 0)); else await new Promise(res => setImmediate(res));
    }
    return records;
}

// a source that delivers each chunk from a later turn of the event loop (a file or a socket), not synchronously from read()
function make_stream_async(buffers) {
    let i = 0;
    return new Readable({
        read() {
            setImmediate(() => { if (i < buffers.length) this.push(buffers[i++]); else this.push(null); });
        }
    });
}

async function read_result(stream, csv_path, enc, pol, hdr, modi, d, comment, slow) {
    try {
        const it = new rbql_csv.CSVRecordIterator(stream, csv_path, js_encoding(enc), d, pol, hdr == '1', comment);
        if (modi == 'h') it.handle_query_modifier('header');
        if (modi == 'N') it.handle_query_modifier('noheader');
        const header = await it.get_header();
        const records = slow ? await all_records_slowly(it) : await it.get_all_records();
        const warnings = it.get_warnings();
        return `ok ${enc_opt_list(header)} ${enc_table(records)} ${canon_warnings(warnings)}`;
    } catch (e) {
        const msg = String(e && e.message ? e.message : e);
        let m = /Inconsistent double quote escaping in .* table at record (\d+), line (\d+)/.exec(msg);
        if (m) return `err rfc ${m[1]} ${m[2]}`;
        if (msg.indexOf('Unable to decode') != -1) return 'err decode';
        return 'err io ' + enc_str(msg.slice(0, 200));
    }
}

function bytes_of(txt) { return Buffer.from(dec_str(txt).split('').map(c => c.charCodeAt(0))); }

OPS['readjs'] = async (pol, enc, hdr, modi, d, comment, pieces_txt) => {
    const buffers = dec_list(pieces_txt).map(p => Buffer.from(p.split('').map(c => c.charCodeAt(0))));
    const fast = await read_result(make_stream(buffers), null, enc, pol, hdr, modi, dec_str(d), comment == '~' ? null : dec_str(comment), false);
    if (buffers.length < 3) return fast;
    const slow = await read_result(make_stream_async(buffers), null, enc, pol, hdr, modi, dec_str(d), comment == '~' ? null : dec_str(comment), true);
    return fast === slow ? fast : `err consumer-dependent get_all_records:[${fast}] yielding-consumer:[${slow}]`;
};

OPS['readjsbytes'] = async (pol, hdr, modi, d, comment, pieces_txt) => OPS['readjs'](pol, 'utf-8', hdr, modi, d, comment, pieces_txt);

// the streaming decoder exactly as rbql_csv.js uses it: decode(chunk, {stream: true}) per chunk, flush at the end
OPS['utf8dec'] = async (chunks_txt) => {
    const util = require('util');
    const decoder = new util.TextDecoder('utf-8', {fatal: true, ignoreBOM: true});
    const buffers = dec_list(chunks_txt).map(p => Buffer.from(p.split('').map(c => c.charCodeAt(0))));
    let pieces = [];
    try {
        for (const b of buffers) pieces.push(decoder.decode(b, {stream: true}));
        const tail = decoder.decode();
        if (tail.length) pieces.push(tail);
    } catch (e) {
        return 'err';
    }
    return 'ok ' + enc_list(pieces);
};

OPS['readjsbulk'] = async (pol, enc, hdr, modi, d, comment, text) => {
    const p = tmpfile('bulk.csv');
    fs.writeFileSync(p, Buffer.from(dec_str(text), enc == 'utf-8' ? 'utf-8' : 'binary'));
    return await read_result(null, p, enc, pol, hdr, modi, dec_str(d), comment == '~' ? null : dec_str(comment));
};

OPS['readjsall'] = async (pol, enc, hdr, modi, d, comment, text, bytes_txt) => {
    const data = bytes_of(bytes_txt);
    const delim = dec_str(d);
    const cp = comment == '~' ? null : dec_str(comment);
    const p = tmpfile('bulk.csv');
    fs.writeFileSync(p, data);
    const baseline = await read_result(null, p, enc, pol, hdr, modi, delim, cp);
    const n = data.length;
    const nmasks = n <= 1 ? 1 : (1 << (n - 1));
    for (let mask = 0; mask < nmasks; mask++) {
        let buffers = [];
        let start = 0;
        for (let i = 1; i < n; i++) {
            if (mask & (1 << (i - 1))) { buffers.push(data.subarray(start, i)); start = i; }
        }
        if (n > 0) buffers.push(data.subarray(start, n));
        const r = await read_result(make_stream(buffers), null, enc, pol, hdr, modi, delim, cp);
        if (r != baseline)
            return `DIFF pieces=${buffers.map(b => b.toString('hex')).join('|')} stream=[${r}] bulk=[${baseline}]`;
    }
    return baseline;
};

function dec_cell(t) {
    if (t === 'N') return null;
    if (t.startsWith('L')) return t === 'L!' ? [] : t.slice(1).split('+').map(dec_cell);
    return dec_str(t);
}
function dec_cell_table(t) {
    if (t === '~') return [];
    return t.split(';').map(r => r === '!' ? [] : r.split(',').map(dec_cell));
}

async function do_write(pol, enc, d, linesep, hdr, table) {
    let chunks = [];
    const stream = new Writable({ write(chunk, encoding, cb) { chunks.push(Buffer.from(chunk)); cb(); } });
    let w;
    try {
        w = new rbql_csv.CSVWriter(stream, false, js_encoding(enc), d, pol, linesep);
        if (hdr !== null) await w.set_header(hdr);
        for (const rec of table) await w.write(rec.slice());
        await w.finish();
    } catch (e) {
        const msg = String(e && e.message ? e.message : e);
        if (msg.indexOf('Monocolumn') != -1) return ['err mono', null];
        let m = /Inconsistent number of columns in output header and the current record: (\d+) != (\d+)/.exec(msg);
        if (m) return [`err width ${m[1]} ${m[2]}`, null];
        return ['err io ' + enc_str(msg.slice(0, 200)), null];
    }
    const raw = Buffer.concat(chunks);
    const text = raw.toString(enc == 'utf-8' ? 'utf-8' : 'binary');
    const ws = w.get_warnings();
    const none_flag = ws.some(x => x.indexOf('null values') != -1);
    const delim_flag = ws.some(x => x.indexOf('contain separator') != -1);
    return [`ok ${enc_str(text)} none=${none_flag ? 1 : 0} delim=${delim_flag ? 1 : 0}`, raw];
}

OPS['write'] = async (pol, js, d, linesep, hdr, table) => {
    const header = hdr === 'N' ? null : dec_list(hdr.slice(1));
    return (await do_write(pol, 'utf-8', dec_str(d), dec_str(linesep), header, dec_cell_table(table)))[0];
};

OPS['roundtrip'] = async (pol, js, enc, d, linesep, table) => {
    if (enc == 'none') enc = 'utf-8';
    const [res, raw] = await do_write(pol, enc, dec_str(d), dec_str(linesep), null, dec_cell_table(table));
    if (raw === null) return res;
    const rd = await read_result(make_stream(raw.length ? [raw] : []), null, enc, pol, '0', 'n', dec_str(d), null);
    return res + ' | ' + rd;
};

OPS['readboth'] = async (pol, enc, hdr, modi, d, comment, text) => {
    const data = Buffer.from(dec_str(text), enc == 'utf-8' ? 'utf-8' : 'binary');
    const cp = comment == '~' ? null : dec_str(comment);
    const stream = await read_result(make_stream(data.length ? [data] : []), null, enc, pol, hdr, modi, dec_str(d), cp);
    // the bulk reader (bulk_read option) is a third reader of the same file: it must agree too
    const p = tmpfile('both.csv');
    fs.writeFileSync(p, data);
    const bulk = await read_result(null, p, enc, pol, hdr, modi, dec_str(d), cp);
    return stream == bulk ? stream : `DIFF stream=[${stream.slice(0, 300)}] bulk=[${bulk.slice(0, 300)}]`;
};

OPS['readjsfile'] = async (pol, enc, hdr, modi, d, comment, text) => {
    // a real file through fs.createReadStream (64 KiB chunks) against the bulk reader; prints the stream result
    const p = tmpfile('big.csv');
    fs.writeFileSync(p, Buffer.from(dec_str(text), enc == 'utf-8' ? 'utf-8' : 'binary'));
    const delim = dec_str(d), cp = comment == '~' ? null : dec_str(comment);
    const bulk = await read_result(null, p, enc, pol, hdr, modi, delim, cp);
    const stream = await read_result(fs.createReadStream(p), null, enc, pol, hdr, modi, delim, cp);
    return stream == bulk ? stream : `DIFF stream=[${stream.slice(0, 300)}] bulk=[${bulk.slice(0, 300)}]`;
};

module.exports = {read_result, make_stream, canon_warnings, tmpfile, js_encoding};
