"""C04 — JOIN pairs each A record with exactly its key-equal B records.

Tie: Lean `run` (hash-join map proved equal to filtering B by key; joiners inner/left/strict) vs
REAL rbql.query(join_table=B) over pairs of tables with duplicate keys, empty sides and ragged B,
the five join keywords, 1..3 key pairs (== or =, either side order, NR/aNR with bNR or a field),
and every downstream query shape: select/where, order/distinct/top, aggregates, UPDATE."""
import json
import random

import engine_corr
import qgen

RULE = ('seeded random table pairs (keys over 2-3 values so duplicates dominate; empty sides; ragged B) x {JOIN, INNER JOIN, LEFT JOIN, LEFT OUTER JOIN, '
        'STRICT LEFT JOIN} x 1..3 key pairs incl. NR/bNR x downstream {select/where, order by, distinct, top, aggregates, update}. '
        'non-trivial iff both tables are non-empty; distinct = distinct (query, tables)')


def gen_cases(rnd, n):
    cases = []
    for _ in range(n):
        keyvals = rnd.sample(['x', 'y', 'z', '1', '2'], rnd.randint(2, 3))
        acols = rnd.randint(1, 3)
        bcols = rnd.randint(1, 3)
        A = qgen.gen_table(rnd, nrows=rnd.randint(0, 5), ncols=acols, pool=keyvals, ragged=0.1, none_p=0.05, full_cols=0)
        B = qgen.gen_table(rnd, nrows=rnd.randint(0, 5), ncols=bcols, pool=keyvals + ['p', 'q'], ragged=0.15, none_p=0.05, full_cols=0)
        hdr = None
        if rnd.random() < 0.15:
            # tables with headers (rectangular, as the list front-end demands); the join table is often EMPTY: the LEFT JOIN
            # null record must still have one None per join column
            A = qgen.gen_table(rnd, nrows=rnd.randint(0, 4), ncols=acols, pool=keyvals, ragged=0.0, none_p=0.05, full_cols=acols)
            B = qgen.gen_table(rnd, nrows=rnd.choice([0, 0, 1, 3]), ncols=bcols, pool=keyvals + ['p', 'q'], ragged=0.0, none_p=0.05, full_cols=bcols)
            hdr = (['h%d' % (i + 1) for i in range(acols)], ['k%d' % (i + 1) for i in range(bcols)])
        q = {'join': qgen.gen_join(rnd, acols, bcols)}
        if hdr is not None and rnd.random() < 0.7:
            q['join']['kind'] = 'left'
        shape = rnd.choice(['select', 'select', 'order', 'distinct', 'agg', 'update', 'top'])
        if shape == 'update':
            q['update'] = True
            q['items'] = []
            q['join']['kind'] = rnd.choice(['inner', 'left', 'strict'])
            q['assigns'] = [[rnd.randrange(acols), rnd.choice([['b', rnd.randrange(bcols)], ['lit', 'U'], ['concat', ['lit', 'u'], ['b', 0]]])]]
            if rnd.random() < 0.4:
                q['where'] = qgen.gen_bool_expr(rnd, acols, 1, True, bcols)
        else:
            q['items'] = []
            for _i in range(rnd.randint(1, 3)):
                q['items'].append(rnd.choice([{'e': ['a', rnd.randrange(acols)]}, {'e': ['b', rnd.randrange(bcols)]}, {'e': ['bnr']}, {'e': ['nr']}, 'star', 'starB', 'starA']))
            if rnd.random() < 0.4:
                q['where'] = qgen.gen_bool_expr(rnd, acols, 1, True, bcols)
            if shape == 'order':
                # keys that are never None: NR / bNR would be None under LEFT JOIN; use NR and len of a literal concat
                q['order'] = [rnd.choice([['nr'], ['mod', ['nr'], ['lit', qgen.num(2)]]])]
                q['desc'] = rnd.random() < 0.5
            elif shape == 'distinct':
                q['distinct'] = rnd.choice(['yes', 'count'])
            elif shape == 'top':
                q['top'] = rnd.randint(0, 4)
            elif shape == 'agg':
                q['items'] = [{'e': ['mod', ['nr'], ['lit', qgen.num(2)]]}, {'agg': 'count', 'e': ['lit', qgen.num(1)]}, {'agg': 'array_agg', 'e': ['b', 0]}]
                q['group'] = [['mod', ['nr'], ['lit', qgen.num(2)]]]
        c = {'q': q, 'A': A, 'B': B}
        if hdr is not None:
            c['header_a'], c['header_b'] = hdr
        cases.append(c)
    return cases


def record_number_only_check(res):
    """the join table is used through its RECORD NUMBER alone (`b.NR` / `bNR` in the select list or in WHERE, no other b-variable): the spellings are
    interchangeable and give the model's rows, in both ports (D30: Python's init code skipped `b.NR` when the query had no other b-variable)"""
    import common
    A = [['x'], ['y'], ['z']]
    B = [['p'], ['q']]
    specs = []
    for kind, kw in (('inner', 'join'), ('left', 'left join')):
        for on_py in ('a.NR == b.NR', 'NR == bNR', 'aNR == b.NR'):          # the swapped order of two record numbers is refused (C04_record_numbers_swapped_counterexample)
            for sel in ('b.NR', 'bNR'):
                q = {'items': [{'e': ['a', 0]}, {'e': ['bnr']}], 'join': {'kind': kind, 'lhs': [None], 'rhs': [None]}}
                t = 'select a1, %s %s b on %s' % (sel, kw, on_py)
                specs.append((q, t))
        q = {'items': [{'e': ['a', 0]}], 'join': {'kind': kind, 'lhs': [0], 'rhs': [0]}, 'where': ['eq', ['bnr'], ['lit', qgen.num(1)]]}
        for sp in ('b.NR', 'bNR'):
            specs.append((q, 'select a1 %s b on a1 == b1 where %s == 1' % (kw, sp)))
    A2 = [['p'], ['q'], ['p']]
    lines = [engine_corr.make_line({'q': q, 'A': (A2 if q.get('where') else A), 'B': B}, lang_texts={'py': t, 'js': t.replace(' == 1', ' === 1')}) for q, t in specs]
    mout = [engine_corr.parse_out(o) for o in common.run_model(lines)]
    for impl_name, runner in (('py', common.run_impl_py), ('js', common.run_impl_js)):
        outs = [engine_corr.parse_out(o) for o in runner(lines)]
        nbad = 0
        for (q, t), m, o in zip(specs, mout, outs):
            res.evaluations += 1
            res.nontrivial.add(('bnr-only', impl_name, t))
            if engine_corr.canon_cells(o.get('rows')) != engine_corr.canon_cells(m.get('rows')) or (o.get('err') is None) != (m.get('err') is None):
                nbad += 1
                if nbad <= 2:
                    res.violations.append({'property': 'C04', 'impl': impl_name, 'why': 'a join used through the record number of the join table alone', 'query': t, 'A': A2 if q.get('where') else A, 'B': B,
                                           'model_says': m, 'impl_says': o, 'case_key': 'C04|bnr-only|%s|%s' % (impl_name, t)})
    res.count('record_number_only_cases', len(specs))


def run(res, tier, seed):
    res.rule = RULE
    record_number_only_check(res)
    res.assumptions = ["keys are compared with Python == ('1' != 1)"]
    rnd = random.Random(seed * 5800079 + 4)
    cases = gen_cases(rnd, 14000 if tier == 'quick' else 150000)
    for c in cases:
        res.count('join=%s pairs=%d' % (c['q']['join']['kind'], len(c['q']['join']['lhs'])))
        if c['A'] and c['B']:
            res.nontrivial.add(json.dumps([c['q'], c['A'], c['B']], sort_keys=True))
    for c in cases[:2] + cases[-2:]:
        res.sample({'query': qgen.render_query(c['q'], 'py'), 'A': c['A'], 'B': c['B']})
    engine_corr.run_cases(res, 'C04', cases, 'py', rnd=random.Random(seed + 8))
    engine_corr.js_leg(res, 'C04', cases, rnd=random.Random(seed + 108))
    # from the ON clause text to the key lists (Model/JoinResolve.lean vs the real resolve_join_variables / translate_except_expression)
    import translate_corr
    translate_corr.run_leg(res, tier, seed, {'joins'})


def replay(res, path):
    import translate_corr
    r = translate_corr.replay(res, path)
    return engine_corr.replay(res, path) if r is None else r
