"""C18 — Python and JavaScript implementations agree on the CSV dialect and headers.

Both implementations are run on the same cases and each must equal the ONE Lean dialect model
(splitters, quoting functions; Python reader model and JS reader model, which the model driver also
compares with each other: `MODELS-DIFFER` would be a disagreement with both).  In addition the two
implementation outputs are compared with each other directly."""
import itertools
import random

import common
import csvgen
from common import enc_str

RULE = ('exhaustive lines (<= L) over {a " delimiter space} for split (py AND js), exhaustive fields (<= 6) over {a " , LF CR space #} for '
        'quote_field / rfc_quote_field, exhaustive files (<= n) over {a " , LF CR #} x {quoted, quoted_rfc} x comment prefix read by both readers; '
        'random longer Unicode inputs. non-trivial iff the input contains a quote, a delimiter or a line break; distinct = distinct case line')


def gen(tier, seed):
    lines = []
    L = 6 if tier == 'quick' else 8
    exhaustive = {}
    # the space delimiter has its own code path (no whitespace allowed around quoted fields); `::` overlaps with itself
    for d, alpha in ((',', '", a'), ('##', '"# a'), (' ', '" a'), ('::', '": a'), (', ', '", a')):      # `, `: a delimiter CONTAINING a space (spaces around quoted fields stay allowed)
        for s in csvgen.all_strings(alpha, L + 2 if len(alpha) == 3 else L):
            lines.append('split quoted 0 %s %s' % (enc_str(d), enc_str(s)))
    exhaustive['split quoted len<=%d' % L] = True
    for s in csvgen.all_strings('a", \n\r#', 5 if tier == 'quick' else 6):
        for rfc in '01':
            lines.append('quote %s 0 2c %s' % (rfc, enc_str(s)))
    exhaustive['quote_field/rfc_quote_field len<=%d' % (5 if tier == 'quick' else 6)] = True
    for s in csvgen.all_strings('a" ', 7):
        lines.append('unquote 0 %s' % enc_str(s))
    exhaustive['unquote_field len<=7 over {a " space}'] = True
    n = 5 if tier == 'quick' else 6
    for pol in ('quoted', 'quoted_rfc'):
        for comment in (None, '#'):
            for t in csvgen.all_strings(csvgen.JS_ALPHABET, n):
                lines.append('readboth %s utf-8 0 n 2c %s %s' % (pol, '~' if comment is None else enc_str(comment), enc_str(t)))
    exhaustive['files len<=%d x {quoted,quoted_rfc} x comment' % n] = True
    for t in csvgen.all_strings(csvgen.JS_ALPHABET, 4):
        lines.append('readboth quoted utf-8 1 n 2c 23 %s' % enc_str(t))
        lines.append('readboth quoted_rfc latin-1 0 h 2c ~ %s' % enc_str(t))
        lines.append('readboth quoted utf-8 0 n 2c ~ %s' % enc_str('﻿' + t))
    rnd = random.Random(seed * 32452843 + 18)
    for _ in range(3000 if tier == 'quick' else 40000):
        t = csvgen.random_csv_text(rnd, extra='﻿')
        pol = rnd.choice(['quoted', 'quoted_rfc', 'simple', 'whitespace', 'monocolumn'])
        d = ' ' if pol == 'whitespace' else rnd.choice([',', ';', '##', '\t', '¦', ' ', '::', ', ', ' | ', ' ,'])
        comment = rnd.choice([None, '#', '##', 'a'])
        lines.append('readboth %s utf-8 %s %s %s %s %s' % (pol, rnd.choice('01'), rnd.choice(['n', 'n', 'h', 'N']), enc_str(d),
                                                           '~' if comment is None else enc_str(comment), enc_str(t)))
        s = csvgen.random_csv_text(rnd, 30)
        lines.append('split %s %s %s %s' % (pol, rnd.choice('01'), enc_str(d), enc_str(s.replace('\n', ' '))))
        lines.append('quote %s 0 %s %s' % (rnd.choice('01'), enc_str(d), enc_str(s)))
    return lines, exhaustive


def run(res, tier, seed):
    res.rule = RULE
    res.assumptions = ['Python reads the file through TextIOWrapper (universal newlines); JS through a Readable / Buffer',
                       "unquote_field: Python's `$` also matches before a final LF; generated fields contain no LF"]
    lines, exhaustive = gen(tier, seed)
    res.exhaustive = exhaustive
    for l in lines:
        res.count('op=' + l.split(' ', 1)[0])
        parts = l.split(' ')
        payload = parts[-1]
        if any(h in payload.split('.') for h in ('22', 'a', 'd', '2c', '23')):
            res.nontrivial.add(l)
    for l in lines[2000:2002] + lines[-3:]:
        res.sample(l)
    mout = common.run_model(lines)
    pout = common.run_impl_py(lines)
    jout = common.run_impl_js(lines)
    res.evaluations += 2 * len(lines)
    n = 0
    for l, m, p, j in zip(lines, mout, pout, jout):
        if m == p == j:
            continue
        n += 1
        if n <= 10:
            which = 'py-vs-js' if p != j else 'both-vs-model'
            res.violations.append({'property': 'C18', 'line': l, 'model_says': m[:1500], 'python_says': p[:1500], 'js_says': j[:1500], 'kind': which,
                                   'impl': 'py' if m != p else 'js', 'case_key': 'C18|' + l[:300], 'replay_cmd': './check C18 --replay <this file>'})
    res.count('disagreements', n)


def replay(res, path):
    import json
    v = json.load(open(path))
    if 'line' not in v:
        print(v)
        return False
    l = v['line']
    m = common.run_model([l])[0]
    p = common.run_impl_py([l])[0]
    j = common.run_impl_js([l])[0]
    print('line  : %s\nmodel : %s\npython: %s\njs    : %s' % (l, m, p, j))
    return m == p == j
