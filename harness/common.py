"""Shared machinery of the RBQL verification harness (stdlib only).

- codec of the line protocol shared by the Lean model driver and the implementation drivers
- building / auditing the Lean project (file lock, cached by source hash)
- running a batch of protocol lines through a driver with crash/hang recovery
- evidence and replay writers
"""
import fcntl
import hashlib
import json
import os
import re
import subprocess
import sys
import tempfile
import time
from pathlib import Path

ROOT = Path(__file__).resolve().parent.parent
REPO = Path(os.environ.get('VERIF_REPO', '/repo'))
LEAN_DIR = ROOT / 'lean'
MODEL_BIN = LEAN_DIR / '.lake' / 'build' / 'bin' / 'rbql_model'
PY = os.environ.get('VERIF_PYTHON', '/venv/bin/python')
NODE = os.environ.get('VERIF_NODE', 'node')
NPROC = int(os.environ.get('VERIF_JOBS', '0')) or min(16, os.cpu_count() or 4)
ALLOWED_AXIOMS = {'propext', 'Classical.choice', 'Quot.sound'}
FORBIDDEN_RGX = re.compile(r'\bsorry\b|\badmit\b|^\s*axiom\s|native_decide|bv_decide|implemented_by|\bunsafe\s|maxHeartbeats\s+0\b', re.M)

TRUSTED_BASE = [
    'Lean 4.33.0 kernel and elaborator',
    'axioms: subset of {propext, Classical.choice, Quot.sound}, audited with #print axioms on every run',
    'hand-written Lean model; tied to /repo by the correspondence check of this run (differential, bounded by its generators)',
    'harness: generators, protocol codec, implementation drivers, canonicalisation',
]

# --------------------------------------------------------------------------------------- codec

def enc_str(s):
    if s == '':
        return '-'
    return '.'.join(format(ord(c), 'x') for c in s)


def dec_str(t):
    if t == '-':
        return ''
    return ''.join(chr(int(h, 16)) for h in t.split('.'))


def enc_list(l):
    if not l:
        return '!'
    return ','.join(enc_str(x) for x in l)


def dec_list(t):
    if t == '!':
        return []
    return [dec_str(x) for x in t.split(',')]


def enc_table(t):
    if not t:
        return '~'
    return ';'.join(enc_list(r) for r in t)


def dec_table(t):
    if t == '~':
        return []
    return [dec_list(r) for r in t.split(';')]


def enc_opt_list(o):
    return 'N' if o is None else 'S' + enc_list(o)


def enc_bool(b):
    return '1' if b else '0'

# --------------------------------------------------------------------------------------- lean


class LeanFailure(Exception):
    def __init__(self, what, detail):
        Exception.__init__(self, what)
        self.what = what
        self.detail = detail


def _lean_sources():
    """The Lean files that are part of the build: everything imported from Rbql.lean, the driver, the audit file."""
    files = [LEAN_DIR / 'Rbql.lean', LEAN_DIR / 'Audit.lean', LEAN_DIR / 'RbqlGen.lean'] + [LEAN_DIR / ('AuditGen_%s.lean' % st) for st in GEN_FILES]
    root = _roots_text()
    for m in re.finditer(r'^import\s+(Rbql(?:\.\w+)+)\s*$', root, re.M):
        files.append(LEAN_DIR / (m.group(1).replace('.', '/') + '.lean'))
    files += sorted((LEAN_DIR / 'Driver').glob('*.lean'))
    files = [f for f in files if f.exists()]
    files.append(LEAN_DIR / 'lakefile.toml')
    return files


def _sources_hash():
    h = hashlib.sha256()
    for p in _lean_sources():
        if 'Generated' in p.parts:
            continue
        h.update(str(p.relative_to(LEAN_DIR)).encode())
        h.update(p.read_bytes())
    return h.hexdigest()


# theorem files that depend on source-derived (regenerated) Lean files: each is built and audited on its own, never cached, and a
# failure concerns only its property.  file stem -> property
GEN_FILES = {'C16Gen': 'C16', 'C06Gen': 'C06'}
GEN_PROPS = tuple(sorted(set(GEN_FILES.values())))


def _roots_text():
    t = (LEAN_DIR / 'Rbql.lean').read_text()
    g = LEAN_DIR / 'RbqlGen.lean'
    return t + ('\n' + g.read_text() if g.exists() else '')


def strip_lean_comments(text):
    # remove nested block comments and line comments
    out = []
    i = 0
    depth = 0
    n = len(text)
    while i < n:
        if text.startswith('/-', i):
            depth += 1
            i += 2
        elif depth and text.startswith('-/', i):
            depth -= 1
            i += 2
        elif depth:
            i += 1
        elif text.startswith('--', i):
            j = text.find('\n', i)
            i = n if j == -1 else j
        else:
            out.append(text[i])
            i += 1
    return ''.join(out)


def _theorem_files():
    """every file of lean/Rbql/Theorems/ that is imported from the build roots (Rbql.lean / RbqlGen.lean)"""
    root = _roots_text()
    d = LEAN_DIR / 'Rbql' / 'Theorems'
    return [p for p in sorted(d.glob('*.lean')) if re.search(r'^import\s+Rbql\.Theorems\.%s\s*$' % re.escape(p.stem), root, re.M)]


def theorem_names(prop):
    """Property theorems = every `theorem Cxx_…` of the files of lean/Rbql/Theorems/ that are part of the build
    (Cxx.lean itself, and later files such as C20b.lean or Extra.lean that need proofs importing the earlier theorem files)."""
    out = []
    for p in _theorem_files():
        txt = strip_lean_comments(p.read_text())
        out += re.findall(r'^theorem\s+(' + prop + r'_\w+)', txt, re.M)
    return out


def all_theorems():
    res = {}
    for i in range(1, 21):
        prop = 'C%02d' % i
        names = theorem_names(prop)
        if names:
            res[prop] = names
    return res


def write_if_changed(path, content):
    path = Path(path)
    if path.exists() and path.read_text() == content:
        return False
    path.parent.mkdir(parents=True, exist_ok=True)
    path.write_text(content)
    return True


def theorem_names_by_file():
    """{file stem: [theorem names]} for every theorem file of the build"""
    out = {}
    for p in _theorem_files():
        txt = strip_lean_comments(p.read_text())
        out[p.stem] = re.findall(r'^theorem\s+(C\d\d_\w+)', txt, re.M)
    return out


def generate_audit():
    thms = all_theorems()
    lines = ['-- GENERATED by harness/common.py from Rbql/Theorems/*.lean; do not edit',
             'import Rbql']
    gen = {st: ['-- GENERATED by harness/common.py: audit of the theorems of Rbql/Theorems/%s.lean, which depends on source-derived Lean files' % st,
                'import Rbql.Theorems.%s' % st] for st in GEN_FILES}
    for stem, names in theorem_names_by_file().items():
        for n in names:
            (gen[stem] if stem in GEN_FILES else lines).append('#print axioms Rbql.%s' % n)
    write_if_changed(LEAN_DIR / 'Audit.lean', '\n'.join(lines) + '\n')
    for st, gl in gen.items():
        write_if_changed(LEAN_DIR / ('AuditGen_%s.lean' % st), '\n'.join(gl) + '\n')
    return thms


def lean_build_and_audit(generated_hook=None, prop=None):
    """Build the Lean project (under a file lock) and audit axioms. Returns dict
    {theorem_name: [axioms]}. Raises LeanFailure when the build, the forbidden-token grep or the
    audit fails. Results are cached under lean/.lake keyed by the hash of all Lean sources."""
    lock_dir = LEAN_DIR / '.lake'
    lock_dir.mkdir(exist_ok=True)
    with open(lock_dir / 'verif.lock', 'w') as lock:
        fcntl.flock(lock, fcntl.LOCK_EX)
        if generated_hook is not None:
            generated_hook()
        generate_audit()
        key = _sources_hash()
        cache = lock_dir / 'verif_audit_cache.json'
        if cache.exists() and MODEL_BIN.exists():
            try:
                c = json.loads(cache.read_text())
                if c.get('key') == key:
                    if c.get('failure'):
                        raise LeanFailure(c['failure'][0], c['failure'][1])
                    return _with_generated(c['axioms'], prop)
            except (ValueError, KeyError):
                pass
        failure = None
        axioms = {}
        try:
            # forbidden tokens
            for p in _lean_sources():
                if p.suffix != '.lean':
                    continue
                m = FORBIDDEN_RGX.search(strip_lean_comments(p.read_text()))
                if m:
                    raise LeanFailure('forbidden-token', '%s: %r' % (p.relative_to(LEAN_DIR), m.group(0)))
            r = subprocess.run(['lake', 'build', 'Rbql', 'rbql_model'], cwd=str(LEAN_DIR), stdout=subprocess.PIPE, stderr=subprocess.STDOUT, text=True)
            if r.returncode != 0:
                raise LeanFailure('lake-build', r.stdout[-4000:])
            r = subprocess.run(['lake', 'env', 'lean', 'Audit.lean'], cwd=str(LEAN_DIR), stdout=subprocess.PIPE, stderr=subprocess.STDOUT, text=True)
            if r.returncode != 0:
                raise LeanFailure('audit', r.stdout[-4000:])
            out = r.stdout.replace('\n  ', ' ').replace('\n ', ' ')
            for m in re.finditer(r"'Rbql\.(\w+)' depends on axioms: \[([^\]]*)\]", out):
                axioms[m.group(1)] = [a.strip() for a in m.group(2).split(',') if a.strip()]
            for m in re.finditer(r"'Rbql\.(\w+)' does not depend on any axioms", out):
                axioms[m.group(1)] = []
        except LeanFailure as e:
            failure = (e.what, e.detail)
        cache.write_text(json.dumps({'key': key, 'axioms': axioms, 'failure': failure}))
        if failure:
            raise LeanFailure(failure[0], failure[1])
        return _with_generated(axioms, prop)


def _parse_axioms(text, axioms):
    out = text.replace('\n  ', ' ').replace('\n ', ' ')
    for m in re.finditer(r"'Rbql\.(\w+)' depends on axioms: \[([^\]]*)\]", out):
        axioms[m.group(1)] = [a.strip() for a in m.group(2).split(',') if a.strip()]
    for m in re.finditer(r"'Rbql\.(\w+)' does not depend on any axioms", out):
        axioms[m.group(1)] = []


def _with_generated(axioms, prop):
    """For a property with theorems that depend on source-derived Lean files, build and audit those files now (they change
    with /repo, so this is never cached). A failure concerns only that property."""
    if prop not in GEN_PROPS:
        return axioms
    axioms = dict(axioms)
    for stem, pr in GEN_FILES.items():
        if pr != prop or not (LEAN_DIR / 'Rbql' / 'Theorems' / (stem + '.lean')).exists():
            continue
        r = subprocess.run(['lake', 'build', '+Rbql.Theorems.' + stem], cwd=str(LEAN_DIR), stdout=subprocess.PIPE, stderr=subprocess.STDOUT, text=True)
        if r.returncode != 0:
            errs = [l for l in r.stdout.split('\n') if l.startswith('error') or 'is false' in l or 'Generated.' in l]
            e = LeanFailure('lake-build (source-derived obligations of %s)' % stem, '\n'.join(errs)[-3000:] or r.stdout[-3000:])
            e.axioms = axioms       # what was audited so far stays valid: only this file's theorems are missing
            raise e
        r = subprocess.run(['lake', 'env', 'lean', 'AuditGen_%s.lean' % stem], cwd=str(LEAN_DIR), stdout=subprocess.PIPE, stderr=subprocess.STDOUT, text=True)
        if r.returncode != 0:
            e = LeanFailure('audit (source-derived obligations of %s)' % stem, r.stdout[-3000:])
            e.axioms = axioms
            raise e
        _parse_axioms(r.stdout, axioms)
    return axioms


def _module_imports(mod):
    f = LEAN_DIR / (mod.replace('.', '/') + '.lean')
    if not f.exists():
        return []
    return re.findall(r'^import\s+(Rbql(?:\.\w+)+)\s*$', f.read_text(), re.M)


def theorem_modules_closure(prop):
    """the theorem modules of a property and every Rbql module they import, transitively (models, specs, proofs)"""
    todo = ['Rbql.Theorems.' + p.stem for p in _theorem_files() if re.search(r'^theorem\s+' + prop + r'_', strip_lean_comments(p.read_text()), re.M)]
    seen = []
    while todo:
        m = todo.pop()
        if m in seen:
            continue
        seen.append(m)
        todo.extend(_module_imports(m))
    return sorted(seen)


def leanchecker(prop):
    """thorough tier: re-check the compiled theorem modules of the property (and everything of this project they depend on) with the
    toolchain's independent checker; results are cached per module under lean/.lake, keyed by the hash of the sources"""
    mods = theorem_modules_closure(prop)
    cache = LEAN_DIR / '.lake' / 'verif_leanchecker_cache.json'
    key = _sources_hash()
    try:
        c = json.loads(cache.read_text())
        if c.get('key') != key:
            c = {'key': key, 'ok': []}
    except (OSError, ValueError):
        c = {'key': key, 'ok': []}
    gen_stems = ['Rbql.Theorems.' + st for st in GEN_FILES]
    pending = [m for m in mods if m not in c['ok'] or m in gen_stems or 'Generated' in m]
    if pending:
        r = subprocess.run(['lake', 'env', 'leanchecker'] + pending, cwd=str(LEAN_DIR), stdout=subprocess.PIPE, stderr=subprocess.STDOUT, text=True)
        if r.returncode != 0:
            return {'modules': len(mods), 'ok': False, 'detail': r.stdout[-1500:]}
        c['ok'] = sorted(set(c['ok']) | set(pending))
        try:
            cache.write_text(json.dumps(c))
        except OSError:
            pass
    return {'modules': len(mods), 'ok': True, 'rechecked_now': len(pending)}


def proof_status(prop, axioms):
    """(obligations, discharged, problems) for the theorems of one property."""
    names = theorem_names(prop)
    problems = []
    ok = 0
    for n in names:
        if n not in axioms:
            problems.append('%s: not checked by the audit' % n)
        elif not set(axioms[n]) <= ALLOWED_AXIOMS:
            problems.append('%s: axioms %s' % (n, axioms[n]))
        else:
            ok += 1
    return len(names), ok, problems

# --------------------------------------------------------------------------------------- batches


def run_driver(cmd, lines, env=None, per_batch_timeout=600, cwd=None):
    """Feed protocol lines to a driver that prints exactly one output line per input line.
    Recovers from crashes and hangs: the offending case yields 'CRASH …' / 'HANG'."""
    results = [None] * len(lines)
    start = 0
    while start < len(lines):
        with tempfile.TemporaryDirectory(prefix='rbqlverif_') as td:
            inp = os.path.join(td, 'in.txt')
            outp = os.path.join(td, 'out.txt')
            with open(inp, 'w') as f:
                for l in lines[start:]:
                    f.write(l + '\n')
            status = 'ok'
            errtxt = ''
            with open(inp) as fi, open(outp, 'w') as fo:
                try:
                    r = subprocess.run(cmd, stdin=fi, stdout=fo, stderr=subprocess.PIPE, env=env, timeout=per_batch_timeout, cwd=cwd)
                    if r.returncode != 0:
                        status = 'crash'
                        errtxt = r.stderr.decode('utf-8', 'replace')[-600:]
                except subprocess.TimeoutExpired:
                    status = 'hang'
            with open(outp) as f:
                got = f.read().split('\n')
            if got and got[-1] == '':
                got.pop()
            complete = got if status == 'ok' else got  # a partially written last line is unlikely (line buffered)
            for i, g in enumerate(complete):
                if start + i < len(lines):
                    results[start + i] = g
            done = start + len(complete)
            if status == 'ok':
                if done < len(lines):
                    # driver ended early without failing: treat the next case as a crash
                    results[done] = 'CRASH early-exit'
                    start = done + 1
                else:
                    start = done
            else:
                if done < len(lines):
                    results[done] = 'HANG' if status == 'hang' else 'CRASH ' + errtxt.replace('\n', ' | ')
                start = done + 1
    return results


def chunked(lst, n):
    k = max(1, (len(lst) + n - 1) // n)
    return [lst[i:i + k] for i in range(0, len(lst), k)]


def run_driver_parallel(cmd, lines, env=None, jobs=None, per_batch_timeout=600, cwd=None):
    from concurrent.futures import ThreadPoolExecutor
    jobs = jobs or NPROC
    if len(lines) < 2000 or jobs <= 1:
        return run_driver(cmd, lines, env, per_batch_timeout, cwd)
    parts = chunked(lines, jobs)
    with ThreadPoolExecutor(max_workers=len(parts)) as ex:
        outs = list(ex.map(lambda p: run_driver(cmd, p, env, per_batch_timeout, cwd), parts))
    res = []
    for o in outs:
        res.extend(o)
    return res


def run_model(lines):
    return run_driver_parallel([str(MODEL_BIN)], lines)


def impl_env():
    env = dict(os.environ)
    env['PYTHONPATH'] = str(REPO / 'rbql-py')
    env['PYTHONWARNINGS'] = 'ignore'
    env['VERIF_REPO'] = str(REPO)
    env['PYTHONDONTWRITEBYTECODE'] = '1'
    return env


def run_impl_py(lines, per_batch_timeout=600):
    return run_driver_parallel([PY, '-W', 'ignore', str(ROOT / 'harness' / 'impl_py.py')], lines, env=impl_env(), per_batch_timeout=per_batch_timeout)


def run_impl_js(lines, per_batch_timeout=600):
    return run_driver_parallel([NODE, str(ROOT / 'harness' / 'impl_js.js')], lines, env=impl_env(), per_batch_timeout=per_batch_timeout)

# --------------------------------------------------------------------------------------- results


class Result:
    """Accumulates what one check run covered."""

    def __init__(self, prop, tier, seed):
        self.prop = prop
        self.tier = tier
        self.seed = seed
        self.t0 = time.time()
        self.evaluations = 0
        self.nontrivial = set()
        self.samples = []
        self.histogram = {}
        self.exhaustive = {}
        self.violations = []      # dicts
        self.known = []           # strings
        self.rule = ''
        self.notes = []
        self.assumptions = []
        self.proof_problems = []

    def count(self, key, n=1):
        self.histogram[key] = self.histogram.get(key, 0) + n

    def sample(self, case, limit=6):
        if len(self.samples) < limit:
            self.samples.append(case)


def write_replay(res, n, payload):
    d = ROOT / 'replays'
    d.mkdir(exist_ok=True)
    p = d / ('%s-%s-%d.json' % (res.prop, res.seed, n))
    p.write_text(json.dumps(payload, indent=1, ensure_ascii=True, default=str))
    return p


def write_evidence(res, obligations, discharged, extra=None):
    cov = {
        'obligations': obligations,
        'discharged': discharged,
        'checker_cmd': 'cd lean && lake build Rbql rbql_model && lake env lean Audit.lean   (# print axioms of every theorem in Rbql/Theorems/%s.lean)' % res.prop,
        'trusted_base': TRUSTED_BASE,
        'theorems': theorem_names(res.prop),
        'evaluations': res.evaluations,
        'distinct_nontrivial': len(res.nontrivial),
        'rule': res.rule,
        'samples': res.samples,
        'histogram': res.histogram,
        'exhaustive_subspaces': res.exhaustive,
        'exhaustive': bool(res.exhaustive) and all(res.exhaustive.values()),
        'notes': res.notes,
    }
    if extra:
        cov.update(extra)
    if not obligations:
        # no theorem registered for this property yet: fall back to the exploration-style keys only
        del cov['obligations'], cov['discharged']
    ev = {
        'property_id': res.prop,
        'tier': res.tier,
        'seed': res.seed,
        'level': 'proof',
        'coverage': cov,
        'assumptions': res.assumptions,
        'wall_s': round(time.time() - res.t0, 2),
        'violations': len(res.violations),
    }
    d = ROOT / 'evidence'
    d.mkdir(exist_ok=True)
    (d / (res.prop + '.json')).write_text(json.dumps(ev, indent=1, ensure_ascii=True, default=str) + '\n')
    return ev


def load_known_findings():
    p = ROOT / 'known_findings.json'
    if not p.exists():
        return {'known': [], 'fixed': []}
    return json.loads(p.read_text())

# --------------------------------------------------------------------------------------- differential


def differential(res, lines, impls=('py',), canon=None, model_canon=None):
    """Run protocol lines through the model and the implementations; return the list of
    disagreements as dicts {index, line, model, impl, got}. `canon(impl_name, line, out)` may
    normalise an implementation's output line; `model_canon(line, out)` the model's."""
    mout = run_model(lines)
    if model_canon:
        mout = [model_canon(l, o) for l, o in zip(lines, mout)]
    bad = []
    for name in impls:
        iout = run_impl_py(lines) if name == 'py' else run_impl_js(lines)
        if canon:
            iout = [canon(name, l, o) for l, o in zip(lines, iout)]
        for i, (m, o) in enumerate(zip(mout, iout)):
            if m != o:
                bad.append({'index': i, 'line': lines[i], 'model': m, 'impl': name, 'got': o})
    res.evaluations += len(lines) * len(impls)
    return bad


def disagrees(line, impl, canon=None, model_canon=None):
    m = run_driver([str(MODEL_BIN)], [line])[0]
    if model_canon:
        m = model_canon(line, m)
    if impl == 'py':
        o = run_driver([PY, '-W', 'ignore', str(ROOT / 'harness' / 'impl_py.py')], [line], env=impl_env(), per_batch_timeout=60)[0]
    else:
        o = run_driver([NODE, str(ROOT / 'harness' / 'impl_js.js')], [line], env=impl_env(), per_batch_timeout=60)[0]
    if canon:
        o = canon(impl, line, o)
    return m != o, m, o


def shrink_candidates(value):
    """Smaller variants of a str or list (delete one element / one half)."""
    n = len(value)
    out = []
    if n > 3:
        out.append(value[:n // 2])
        out.append(value[n // 2:])
    for i in range(n):
        out.append(value[:i] + value[i + 1:])
    return out


def shrink(value, make_line, impl, canon=None, model_canon=None, max_rounds=60):
    """Greedy shrink of one str/list argument while model and implementation still disagree."""
    cur = value
    for _ in range(max_rounds):
        cands = [c for c in shrink_candidates(cur)]
        if not cands:
            break
        lines = [make_line(c) for c in cands]
        mout = run_driver([str(MODEL_BIN)], lines)
        if model_canon:
            mout = [model_canon(l, o) for l, o in zip(lines, mout)]
        if impl == 'py':
            iout = run_driver([PY, '-W', 'ignore', str(ROOT / 'harness' / 'impl_py.py')], lines, env=impl_env(), per_batch_timeout=120)
        else:
            iout = run_driver([NODE, str(ROOT / 'harness' / 'impl_js.js')], lines, env=impl_env(), per_batch_timeout=120)
        if canon:
            iout = [canon(impl, l, o) for l, o in zip(lines, iout)]
        nxt = None
        for c, m, o in zip(cands, mout, iout):
            if m != o and 'bad-op' not in (m, o):
                nxt = c
                break
        if nxt is None:
            break
        cur = nxt
    return cur


def replay_generic(res, path, canon=None, model_canon=None):
    """Replay a violation file written by a differential check: re-run its protocol line."""
    v = json.loads(Path(path).read_text())
    if 'line' not in v:
        print('replay: %s names a proof obligation, not an input: %s' % (path, v.get('no_longer_checks')))
        return False
    bad, m, o = disagrees(v['line'], v.get('impl', 'py'), canon, model_canon)
    print('line : %s\nmodel: %s\nimpl : %s\n%s' % (v['line'], m, o, 'STILL DISAGREES' if bad else 'agrees now'))
    return not bad
