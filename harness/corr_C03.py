"""C03 — Aggregates / GROUP BY: one exact result row per group, in key order.

Tie: Lean `run` (operational accumulators; theorems C03_* relate them to the mathematical
aggregates) vs REAL rbql.query over numeric-string / number columns, group sizes 1..6, 1-2 keys,
WHERE that empties groups, all defined spellings, TOP/LIMIT.  Numbers are compared as exact
rationals (floats mapped back with limit_denominator; generated values are dyadic decimals)."""
import datetime
import json
import random

import engine_corr
import qgen

RULE = ('seeded random tables with a key part (1-2 columns over 2-3 values) and numeric columns (homogeneous numeric strings or numbers, '
        'dyadic decimals), select lists mixing the 9 aggregates (all defined spellings, COUNT(*)/COUNT(1)/COUNT(x), expression arguments) with '
        'group keys and constants x {no GROUP BY, 1-2 keys} x WHERE x TOP/LIMIT; includes non-constant columns and DISTINCT/ORDER BY misuse. '
        'non-trivial iff some group has >= 2 records; distinct = distinct (query, table)')

AGGS = ['min', 'max', 'sum', 'avg', 'variance', 'median', 'count', 'array_agg', 'any_value']


def gen_cases(rnd, n):
    cases = []
    for _ in range(n):
        nkeys = rnd.choice([0, 1, 1, 2])
        keyvals = rnd.sample(['x', 'y', 'z', '10', '9', 'New', 'New York'], rnd.randint(1, 3))
        nnum = rnd.randint(1, 2)
        as_numbers = rnd.random() < 0.3
        nrows = rnd.randint(0, 8)
        npool = qgen.num_pool(rnd)
        none_keys = rnd.random() < 0.08      # None group keys: one None key is fine, None next to a string cannot be ordered
        A = []
        for _r in range(nrows):
            row = [(None if none_keys and rnd.random() < 0.3 else rnd.choice(keyvals)) for _k in range(max(nkeys, 1))]
            for _c in range(nnum):
                v = rnd.choice(npool)
                row.append(qgen.num(v) if as_numbers else v)
            A.append(row)
        kcols = max(nkeys, 1)
        q = {'items': []}
        if nkeys:
            q['group'] = [['a', k] for k in range(nkeys)]
            if rnd.random() < 0.1:
                q['group'] = [['len', ['a', 0]]]
        for k in range(nkeys):
            if rnd.random() < 0.8:
                q['items'].append({'e': ['a', k]})
        for _i in range(rnd.randint(1, 3)):
            kind = rnd.choice(AGGS)
            col = kcols + rnd.randrange(nnum)
            if kind == 'count':
                arg = rnd.choice([['lit', qgen.num(1)], ['a', col], ['a', 0]])
            elif kind in ('array_agg', 'any_value'):
                arg = ['a', rnd.randrange(kcols + nnum)]
            else:
                arg = ['a', col]
                if as_numbers and rnd.random() < 0.3:
                    arg = ['add', ['a', col], ['lit', qgen.num(rnd.randint(0, 2))]]
                if as_numbers and rnd.random() < 0.15:
                    arg = ['mul', ['a', col], ['nr']]
            q['items'].append({'agg': kind, 'e': arg})
        if rnd.random() < 0.12:
            q['items'].append({'e': ['lit', 'const']})
        if rnd.random() < 0.1:
            q['items'].append({'e': ['a', kcols + rnd.randrange(nnum)]})    # probably non-constant within a group
        rnd.shuffle(q['items'])
        if rnd.random() < 0.3:
            q['where'] = rnd.choice([['ne', ['a', 0], ['lit', keyvals[0]]], ['lt', ['nr'], ['lit', qgen.num(rnd.randint(1, 6))]],
                                     ['eq', ['a', 0], ['lit', 'nothing']]])
        if rnd.random() < 0.25:
            q['top'] = rnd.randint(0, 3)
        if rnd.random() < 0.04:
            q['distinct'] = rnd.choice(['yes', 'count'])
        if rnd.random() < 0.03 and not nkeys:
            q['order'] = [['a', 0]]
        cases.append({'q': q, 'A': A, 'B': None})
    return cases


BIG = ['9007199254740993', '9007199254740995', '18014398509481985', '9007199254740992', '-9007199254740993', '123456789012345678901', '36028797018963969', '1']


def gen_bigint_cases(rnd, n):
    """whole numbers beyond 2**53 given as strings (64-bit ids, nanosecond timestamps): the integer aggregates are exact in Python,
    so a detour through a double shows.  Python only (a JS number cannot hold them); AVG / VARIANCE / even MEDIAN divide in floating point."""
    cases = []
    for _ in range(n):
        grouped = rnd.random() < 0.5
        nrows = rnd.choice([1, 3, 5]) if not grouped else rnd.randint(1, 6)
        as_numbers = rnd.random() < 0.25
        A = [[rnd.choice(['x', 'y']), (qgen.num(int(v)) if as_numbers else v)] for v in (rnd.choice(BIG) for _r in range(nrows))]
        kinds = ['min', 'max', 'sum', 'count', 'any_value', 'array_agg'] + ([] if grouped else ['median'])
        q = {'items': ([{'e': ['a', 0]}] if grouped else []) + [{'agg': rnd.choice(kinds), 'e': ['a', 1]} for _i in range(rnd.randint(1, 3))]}
        if grouped:
            q['group'] = [['a', 0]]
        cases.append({'q': q, 'A': A, 'B': None})
    return cases


RICH = [' 12 ', '1_000', '+5', '2.5e1', '1e2', '.5', '7.', '-0.25', '1_0.5', '\t3\n', '-1_6', '25E-2', '0_0', '007', '1.e1', '+.75', '\xa08', '16\u2003']
RICH_BAD = ['1__0', 'x', '', '0x10', '1_', '_1', '1e', '\x1c1', '1 2', '--1', '1,5']


def gen_rich_numeric_cases(rnd, n):
    """numeric strings in the FULL grammar of Python's int() / float() (Model/Number.lean: underscores, signs, blanks incl. non-ASCII ones, exponents,
    bare points) with exactly representable values, now and then one that is NOT a number (the aggregate must fail at that record). Python only:
    rbql.js reads numbers with Number(), whose grammar differs (tied on its own in number_corr)."""
    cases = []
    for _ in range(n):
        grouped = rnd.random() < 0.5
        nrows = rnd.randint(1, 6)
        vals = [rnd.choice(RICH) for _r in range(nrows)]
        if rnd.random() < 0.2:
            vals[rnd.randrange(nrows)] = rnd.choice(RICH_BAD)
        A = [[rnd.choice(['x', 'y']), v] for v in vals]
        kinds = ['min', 'max', 'sum', 'avg', 'variance', 'median', 'count', 'any_value', 'array_agg']
        q = {'items': ([{'e': ['a', 0]}] if grouped else []) + [{'agg': rnd.choice(kinds), 'e': ['a', 1]} for _i in range(rnd.randint(1, 3))]}
        if grouped:
            q['group'] = [['a', 0]]
        cases.append({'q': q, 'A': A, 'B': None})
    return cases


def gen_mixed_type_cases(rnd, n):
    """the SAME aggregate several times in one select list, over a column of NUMBERS and over a column of numeric STRINGS whose numeric and alphabetic orders
    differ ('9' < '100' as numbers, not as text): what one column decides about its values (text or number) must not be decided for the other. Python only
    (a JS table of numbers and strings goes through Number() either way)."""
    cases = []
    for _ in range(n):
        nrows = rnd.randint(1, 5)
        A = [[rnd.choice(['x', 'y']), qgen.num(rnd.choice([3, 5, 40, 7])), rnd.choice(['9', '100', '25', '8', '1000'])] for _r in range(nrows)]
        kind = rnd.choice(['min', 'max', 'sum', 'avg', 'median', 'variance'])
        cols = [1, 2] if rnd.random() < 0.5 else [2, 1]
        items = [{'agg': kind, 'e': ['a', c]} for c in cols]
        if rnd.random() < 0.3:
            items.append({'agg': kind, 'e': ['mul', ['a', 1], ['lit', qgen.num(2)]]})
        grouped = rnd.random() < 0.4
        q = {'items': ([{'e': ['a', 0]}] if grouped else []) + items}
        if grouped:
            q['group'] = [['a', 0]]
        cases.append({'q': q, 'A': A, 'B': None})
    return cases


def run(res, tier, seed):
    res.rule = RULE
    res.assumptions = ['numeric arguments are homogeneous: numeric strings (Python: the int()/float() grammar of Model/Number.lean, tied string by string; rbql.js legs: the common plain grammar -?d+(.d+)?) or numbers; inf / nan and non-ASCII digits excluded', 'group keys of one type',
                       'IEEE rounding is outside the model: values are dyadic decimals, results recovered exactly with limit_denominator(10**6)']
    rnd = random.Random(seed * 4256233 + 3)
    cases = gen_cases(rnd, 15000 if tier == 'quick' else 150000)
    for c in cases:
        res.count('group_keys=%d' % len(c['q'].get('group') or []))
        for it in c['q']['items']:
            if isinstance(it, dict) and 'agg' in it:
                res.count('agg=' + it['agg'])
        if len(c['A']) >= 2:
            res.nontrivial.add(json.dumps([c['q'], c['A']], sort_keys=True))
    for c in cases[:2] + cases[-2:]:
        res.sample({'query': qgen.render_query(c['q'], 'py'), 'A': c['A']})
    engine_corr.run_cases(res, 'C03', cases, 'py', rnd=random.Random(seed + 7))
    engine_corr.js_leg(res, 'C03', cases, rnd=random.Random(seed + 107))
    big = gen_bigint_cases(random.Random(seed * 17 + 3), 400 if tier == 'quick' else 6000)
    res.count('bigint_cases(beyond 2**53, Python only)', len(big))
    engine_corr.run_cases(res, 'C03', big, 'py', rnd=random.Random(seed + 8))
    rich = gen_rich_numeric_cases(random.Random(seed * 19 + 3), 1500 if tier == 'quick' else 20000)
    res.count('rich_numeric_string_cases(full int()/float() grammar, Python only)', len(rich))
    engine_corr.run_cases(res, 'C03', rich, 'py', rnd=random.Random(seed + 9))
    mixed = gen_mixed_type_cases(random.Random(seed * 23 + 3), 600 if tier == 'quick' else 8000)
    res.count('same_aggregate_over_number_and_string_columns(Python only)', len(mixed))
    engine_corr.run_cases(res, 'C03', mixed, 'py', rnd=random.Random(seed + 10))
    import number_corr
    number_corr.run_leg(res, tier, seed, 'C03')
    builtin_dispatch_check(res)


def builtin_dispatch_check(res):
    """lower-case min/max/sum with several arguments or one iterable keep their Python builtin meaning (per record, no aggregation);
    with one scalar/str argument they aggregate. Oracle computed here with Python's own builtins."""
    import common
    A = [['3', 'b', '10'], ['1', 'a', '7'], ['2', 'c', '8']]
    checks = [
        ('select min(a1, a2)', [[min(r[0], r[1])] for r in A]),
        ('select max(a1, a2, a3)', [[max(r)] for r in A]),
        ('select max(len(a1), 2), NR', [[max(len(r[0]), 2), i + 1] for i, r in enumerate(A)]),
        ('select sum([NR, 10])', [[i + 1 + 10] for i in range(len(A))]),
        ('select min([int(a1), int(a3)])', [[min(int(r[0]), int(r[2]))] for r in A]),
        ('select max(a2.split("x"))', [[max(r[1].split('x'))] for r in A]),
        ('select sum(int(x) for x in [a1, a3])', [[int(r[0]) + int(r[2])] for r in A]),
        ('select min(a1)', [[1]]),
        ('select max(a3)', [[10]]),
        ('select sum(a1)', [[6]]),
        ('select max(int(a3))', [[10]]),
        ('select min(a1), max(a3), sum(a3)', [[1, 10, 25]]),
        # ONE ITERABLE argument INSIDE an aggregate query (argument of an aggregate, WHERE, group key): still the builtin, on every record — not only on the first
        ('select ARRAY_AGG(max([int(a1), int(a3)]))', [[[10, 7, 8]]]),
        ('select SUM(min([int(a1), 2])), COUNT(*)', [[5, 3]]),
        ('select count(*), MAX(a1) where min([int(a1), 2]) > 1', [[2, 3]]),
        ('select a2, sum([int(a1), int(a3)]), count(*) group by a2', [['a', 8, 1], ['b', 13, 1], ['c', 10, 1]]),
        ('select max(x for x in [int(a1), 0]), MIN(a3) group by max(x for x in [int(a1), 0])', [[1, 7], [2, 8], [3, 10]]),
        ('select ARRAY_AGG(sum((int(a1), NR)))', [[[4, 3, 5]]]),
        ('select a2, min(a1) group by a2', [['a', 1], ['b', 3], ['c', 2]]),
        # ONE argument that is neither text nor a number nor iterable (a date): the builtin refuses it (TypeError), so it is the aggregate — min stays min, max stays max
        ('select min(datetime.date(2020, 1, int(a1))), max(datetime.date(2020, 1, int(a3)))', [[datetime.date(2020, 1, 1), datetime.date(2020, 1, 10)]]),
        ('select a2, max(datetime.date(2020, int(a1), 1)), min(datetime.date(2020, int(a1), 2)) group by a2', [[r[1], datetime.date(2020, int(r[0]), 1), datetime.date(2020, int(r[0]), 2)] for r in sorted(A, key=lambda r: r[1])]),
        ('select min(datetime.timedelta(int(a3))), max(datetime.timedelta(int(a3)))', [[datetime.timedelta(7), datetime.timedelta(10)]]),
    ]
    cases = [{'q': {'items': []}, 'A': A, 'B': None} for _ in checks]
    # an EMPTY cell under the lower-case spellings (D28: the builtin sum('') is 0): every one of them is the aggregate, which refuses the cell at that record
    empties = [('select sum(a1)', [['5'], [''], ['3']], 2), ('select sum(a1)', [[''], ['5']], 1), ('select min(a1)', [['5'], ['']], 2), ('select max(a1)', [['']], 1),
               ('select a2, sum(a1) group by a2', [['', 'x'], ['', 'y']], 1), ('select sum(a1), max(a1)', [['1'], ['2'], ['']], 3)]
    elines = [engine_corr.make_line({'q': {'items': []}, 'A': T, 'B': None}, lang_texts={'py': t, 'js': t}) for t, T, _n in empties]
    for (t, T, n), o in zip(empties, [engine_corr.parse_out(x) for x in common.run_impl_py(elines)]):
        res.evaluations += 1
        if not (isinstance(o.get('err'), list) and o['err'][0] == 'runtime' and o['err'][1] == n):
            res.violations.append({'property': 'C03', 'impl': 'py', 'why': 'an empty cell under a lower-case aggregate spelling must fail the aggregate at that record (as SUM / MIN / MAX do)', 'query_py': t, 'A': T,
                                   'expected_error_at_record': n, 'impl_says': o, 'case_key': 'C03|dispatch-empty|%s|%s' % (t, json.dumps(T))})
    lines = [engine_corr.make_line(c, lang_texts={'py': t, 'js': t}) for c, (t, _e) in zip(cases, checks)]
    outs = [engine_corr.parse_out(o) for o in common.run_impl_py(lines)]
    res.evaluations += len(lines)
    nbad = 0
    for (t, exp), o in zip(checks, outs):
        want = [[qgen.value_to_cell(v) for v in r] for r in exp]
        if o.get('err') is not None or o.get('rows') != want:
            nbad += 1
            res.violations.append({'property': 'C03', 'impl': 'py', 'why': 'builtin/aggregate dispatch of lower-case min/max/sum', 'query_py': t, 'A': A,
                                   'expected_rows': want, 'impl_says': o, 'case_key': 'C03|dispatch|' + t})
    res.count('builtin_dispatch_checks', len(checks))
    res.count('builtin_dispatch_failures', nbad)


def replay(res, path):
    return engine_corr.replay(res, path)
