"""Correspondence of the query-translation layer (lean/Rbql/Model/Translate.lean) with the REAL functions of rbql_engine.py and
rbql.js: star rewrites, COUNT(*) rewrite, AS-alias rewrite, translate_select_expression, translate_update_expression,
parse_basic_variables / parse_array_variables, and the rbql-js header parser; plus the cross-port agreement of the column
infos derived from a select-list text (Python: ast; JS: span parser; model: span parser).

Used as an extra leg by corr_C01 (select translation), corr_C05 (update translation), corr_C07 (column infos), corr_C09
(variable discovery).  Inputs: every string up to length k over a small alphabet that contains every character the patterns
mention, then seeded random token sequences."""
import itertools
import random

import common
import csvgen
from common import enc_str, enc_list

PH0 = '___RBQL_STRING_LITERAL0___'
PH1 = '___RBQL_STRING_LITERAL1___'

SEL_ALPHA = 'a.*, bS'          # exhaustive alphabet for the star / alias scanners (S stands in for "as" via tokens below)
SEL_TOKENS = ['*', 'a.*', 'b.*', ',', ',', ' ', ' ', 'a1', 'b2', 'COUNT(*)', 'count( * )', 'Count(*)', 'COUNT(1)', ' as x', ' AS y1', ' as  z_2 ', ' As q', 'as', ' as',
              '(', ')', 'x', '\n', '*a', ',,', 'a.', '.*', 'a.*x', 'NR', 'f(a1, *)', '[a1, *]', ' as 1x', ' as x y', 'a1 as', '\t', ' ', ' as x,', '*,', ',*']
UPD_TOKENS = ['a1', 'a[2]', 'a.x', 'a["k"]', '=', '=', '==', ',', ',', ' ', ' ', 'b1', PH0, 'a#', 'x', '1', '!=', '<=', 'a', 'aa1', 'a1 ', '(', ')', 'f(a2, a3 = 1)', ' ', '\t', 'a[' + PH0 + ']']
VAR_TOKENS = ['a1', 'a12', 'a0', 'b3', 'b10', '_a1', 'a1_', 'xa1', 'a1x', ' ', ',', '(', ')', 'a[1]', 'a[0]', 'a[12]', 'b[3]', 'a[1', 'a [2]', '\n', 'é', 'a', '1', 'a01', '.a1', 'a.a1', 'A1', 'a1\n']
SPAN_TOKENS = ['a1', 'b2', 'a0', 'a[1]', 'b[12]', 'a[0]', 'a.name', 'b._x1', 'a.1x', 'NR', '_v', ' as x', ' AS y_1', ' as  z ', ' As w', ' as 1x', '(', ')', '[', ']', '{', '}', ',', ',', ' ', ' ',
               '__RBQL_INTERNAL_STAR', 'a.__RBQL_INTERNAL_STAR', 'b.__RBQL_INTERNAL_STAR', PH0, PH1, 'a[' + PH0 + ']', 'b[' + PH1 + ']', 'a[' + PH1 + '5]', '___RBQL_STRING_LITERAL7___', 'a[___RBQL_STRING_LITERAL7___]',
               '+', 'x', '\n', ' ', 'as', 'c.name', 'a.b.c', '1']
LITS_POOL = [["'na\\'me'", '"q\\"x\\\\y"'], ["'x'", '"t, u"'], ['"col 1"', "'b'"], ["' as z'", '"(["'], ["''", '""'],
             ['"x\\ty"', "'n\\nl\\r'"], ['"b\\\\s\\\\"', "'p\\\\q'"], ["'it\\'s \\\"q\\\"'", '"\\\\t"']]

# literals whose escapes Python and JavaScript read differently from the header parser (\\x41 is `A` for both evaluators, four characters for
# unquote_string): only for the direct comparison of the rbql-js span parser with its model
LITS_POOL_JS = LITS_POOL + [["'\\x41\\q'", '"\\u0041"'], ['"tab\\there\\', "'"]]


def token_strings(rnd, tokens, n, maxlen=7):
    out = []
    for _ in range(n):
        out.append(''.join(rnd.choice(tokens) for _i in range(rnd.randint(0, maxlen))))
    return out


# select lists made of well-formed items (the class on which Python's ast route and the JS span route must agree)
ITEM_KINDS = [
    ('a1', 'Fa0'), ('a3', 'Fa2'), ('b2', 'Fb1'), ('a[2]', 'Fa1'), ('b[1]', 'Fb0'), ('a.name', 'N' + enc_str('name')), ('b.x_1', 'N' + enc_str('x_1')),
    ('NR', 'N' + enc_str('NR')), ('NF', 'N' + enc_str('NF')), ('*', 'S*'), ('a.*', 'Sa'), ('b.*', 'Sb'),
    ('a1 + 1', 'O'), ('len(a2)', 'O'), ('f(a1, a2)', 'O'), ('[a1, a2][0]', 'O'), ('(a1, a2)', 'O'), ('{1: 2, 3: 4}[1]', 'O'), ('a1 + b1', 'O'), ('1', 'O'),
    ('a1 as x', 'A' + enc_str('x')), ('a2 + 1 AS total_2', 'A' + enc_str('total_2')), ('f(a1, a2)  as   r', 'A' + enc_str('r')), ('NR as n', 'A' + enc_str('n')),
    ('a[' + PH0 + ']', None), ('b[' + PH1 + ']', None), (PH0, 'O'), (PH0 + ' as lit', 'A' + enc_str('lit')), ('COUNT(*)', 'O'), ('count( * )', 'O'), ('COUNT(*) as cnt', 'A' + enc_str('cnt')),
    ('MAX(a1)', 'O'), ('a1 == a2', 'O'),
]
# aliases on expressions whose top-level operator binds weaker than a comparison (the Python route rewrites `AS x` into `== f(x)`)
ITEM_KINDS_PY = [('a1 or a2 as contact', 'A'), ('not a1 as missing', 'A'), ('a1 if a2 else a3 as shown', 'A'), ('a1 and a2 AS both', 'A'), ('a1 in (a2, a3) as member', 'A'),
                 ('a1 < a2 as less', 'A'), ('a1 is None as absent', 'A'), ('lambda: 1 as fn', 'A'), ('(a1, a2) as pair', 'A'), ('a1 or (a2, a3)', 'O'), ('not a1', 'O'), ('(a1, a2)', 'O')]
ITEM_KINDS_JS = [('a1 || a2 as contact', 'A'), ('!a1 as missing', 'A'), ('a1 ? a2 : a3 as shown', 'A'), ('a1 && a2 AS both', 'A'), ('[a2, a3].indexOf(a1) as pos', 'A'),
                 ('a1 < a2 as less', 'A'), ('a1 === null as absent', 'A'), ('(a1, a2) as pair', 'A'), ('!a1', 'O'), ('(a1, a2)', 'O')]


def gen_select_lists(rnd, n, lang):
    out = []
    pool = ITEM_KINDS + (ITEM_KINDS_PY if lang == 'py' else ITEM_KINDS_JS)
    for _ in range(n):
        k = rnd.randint(1, 5)
        items = [rnd.choice(pool)[0] for _i in range(k)]
        seps = [rnd.choice([',', ', ', ' , ', ',  ']) for _i in range(k - 1)]
        text = rnd.choice(['', ' ', '  ']) + ''.join(a + b for a, b in zip(items, seps + [''])) + rnd.choice(['', ' '])
        out.append((text, rnd.choice(LITS_POOL)))
    return out


NAME_POOL = ['id', 'name two', 'ta\tb', 'back\\slash', 'q"uote', "it's", 'a.b', 'x', 'NR', 'n3', 'é', '', 'a1', 'x y (z)', 'col]', '#h', '`bt`', 'id', 'line\nbreak', 'name', 'name2', '_u', 'two  spaces', 'k:v;w']


def py_escape(name, q):
    s = name.replace('\\', '\\\\').replace('\n', '\\n').replace('\r', '\\r').replace('\t', '\\t')
    return s.replace(q, '\\' + q)


def gen_name_cases(rnd, n):
    """(header names, query text): references to the columns in every spelling, near misses, fragments of names"""
    out = []
    for _ in range(n):
        names = [rnd.choice(NAME_POOL) for _i in range(rnd.randint(1, 4))]
        toks = []
        for _i in range(rnd.randint(0, 6)):
            nm = rnd.choice(names + [rnd.choice(NAME_POOL)])
            pfx = rnd.choice('aab')
            r = rnd.random()
            if r < 0.3:
                q = rnd.choice('"\'')
                toks.append('%s[%s%s%s]' % (pfx, q, py_escape(nm, q), q))
            elif r < 0.5:
                toks.append('%s.%s' % (pfx, nm))
            elif r < 0.6:
                toks.append(nm)
            elif r < 0.7:
                toks.append(nm[:max(1, len(nm) // 2)])
            elif r < 0.8:
                toks.append(rnd.choice(['a[', 'b[', 'a[1]', 'xa[', '_a.id', 'xa.id', 'a .x', 'a.', 'a.1x', 'a.id2', 'ba.id', 'a.NR', 'aNR', 'b.NR']))
            else:
                toks.append(rnd.choice([' ', ', ', ' + ', '(', ')', ' == ', 'select ', ' where ']))
        out.append((names, rnd.choice(['', ' ', ', ']).join(toks)))
    return out


def run_leg(res, tier, seed, kinds):
    """kinds: subset of {'select', 'update', 'vars', 'infos'}.  Appends violations to res."""
    rnd = random.Random(seed * 7919 + 101)
    quick = tier == 'quick'
    prop = res.prop
    jobs = []   # (impl, line, what, canon?)

    def add(impls, line, what):
        for i in impls:
            jobs.append((i, line, what))

    if 'select' in kinds:
        k = 5 if quick else 7
        strs = list(csvgen.all_strings('a.*, ', k)) + list(csvgen.all_strings('*, \n', 5))
        strs += token_strings(rnd, SEL_TOKENS, 4000 if quick else 60000)
        res.exhaustive['translate: star/alias/COUNT(*) rewrites on every string of length <= %d over {a . * , space}' % k] = True
        for s in strs:
            e = enc_str(s)
            add(('py', 'js'), 'starcount %s %s', ('starcount', e))
            add(('py',), 'starvars 0 %s' % e, None)
            add(('py', 'js'), 'starmarker %s %s', ('starmarker', e))
            add(('py', 'js'), 'trsel %s %s', ('trsel', e))
    if 'update' in kinds:
        k = 5 if quick else 7
        strs = list(csvgen.all_strings('a1=, ', k)) + token_strings(rnd, UPD_TOKENS, 4000 if quick else 60000, 9)
        res.exhaustive['translate: update assignments on every string of length <= %d over {a 1 = , space}' % k] = True
        for s in strs:
            add(('py', 'js'), 'updpairs %s %s', ('updpairs', enc_str(s)))
    if 'vars' in kinds:
        k = 5 if quick else 6
        strs = list(csvgen.all_strings('a1_ [0]', k if quick else k)) + token_strings(rnd, VAR_TOKENS, 4000 if quick else 60000)
        res.exhaustive['translate: variable discovery on every string of length <= %d over {a 1 _ space [ 0 ]}' % k] = True
        for s in strs:
            e = enc_str(s)
            add(('py',), 'basicvars 1 %s %s' % (enc_str('a'), e), None)
            add(('js',), 'basicvars 0 %s %s' % (enc_str('a'), e), None)
            add(('py', 'js'), 'arrayvars %s %s' % (enc_str('a'), e), None)
            if 'b' in s:
                add(('py',), 'basicvars 1 %s %s' % (enc_str('b'), e), None)
                add(('py', 'js'), 'arrayvars %s %s' % (enc_str('b'), e), None)
    if 'infos' in kinds:
        k = 5 if quick else 6
        strs = list(csvgen.all_strings('a1[](, ', k)) + list(csvgen.all_strings('a.x s', 6 if quick else 7))
        res.exhaustive['translate: rbql-js span parser on every string of length <= %d over {a 1 [ ] ( , space} and {a . x space s}' % k] = True
        for s in strs:
            add(('js',), 'colinfos %s %s' % (enc_str(s), enc_list([])), None)
        for s in token_strings(rnd, SPAN_TOKENS, 6000 if quick else 80000, 8):
            add(('js',), 'colinfos %s %s' % (enc_str(s), enc_list(rnd.choice(LITS_POOL_JS))), None)
        for lang in ('py', 'js'):
            for text, lits in gen_select_lists(rnd, 3000 if quick else 40000, lang):
                add((lang,), 'selinfos %%s %s %s' % (enc_str(text), enc_list(lits)), ('selinfos1',))

    if 'names' in kinds:
        for names, text in gen_name_cases(rnd, 4000 if quick else 60000):
            for pfx in ('a', 'b'):
                add(('py', 'js'), 'dictvars %%s %s %s %s' % (enc_str(pfx), enc_str(text), enc_list(names)), ('flagonly',))
                add(('py', 'js'), 'attrvars %%s %s %s %s' % (enc_str(pfx), enc_str(text), enc_list(names)), ('flagonly',))
            add(('py',), 'directvars %s %s' % (enc_str(text), enc_list(names)), None)

    if 'joins' in kinds:
        from common import enc_table
        VARS_A = ['a1', 'a2', 'a[1]', 'a.id', 'a["name two"]', 'NR', 'aNR', 'a.NR', 'x', 'shared', 'a3']
        VARS_B = ['b1', 'b2', 'b[2]', 'b.id', 'b["k"]', 'bNR', 'b.NR', 'y', 'shared', 'b3']
        for _ in range(3000 if quick else 40000):
            inm = [[v, str(rnd.randrange(4))] for v in rnd.sample(['a1', 'a2', 'a[1]', 'a.id', 'a["name two"]', 'x', 'shared', 'a3'], rnd.randint(0, 6))]
            jm = [[v, str(rnd.randrange(4))] for v in rnd.sample(['b1', 'b2', 'b[2]', 'b.id', 'b["k"]', 'y', 'shared', 'b3'], rnd.randint(0, 6))]
            pairs = []
            for _i in range(rnd.randint(1, 3)):
                l, r = rnd.choice(VARS_A), rnd.choice(VARS_B)
                if rnd.random() < 0.3:
                    l, r = r, l
                if rnd.random() < 0.1:
                    r = rnd.choice(VARS_A)
                pairs.append([l, r])
            add(('py', 'js'), 'joinresolve %s %s %s' % (enc_table(inm), enc_table(jm), enc_table(pairs)), None)
        EXC = ['a1', 'a2', 'a[1]', 'a.id', 'a3', ' a1 ', 'a1 ', '', 'b1', 'a1,a2', '\ta2', 'a.id ', 'a9']
        for _ in range(2000 if quick else 30000):
            inm = [[v, str(rnd.randrange(5))] for v in rnd.sample(['a1', 'a2', 'a[1]', 'a.id', 'a3'], rnd.randint(1, 5))]
            text = rnd.choice([',', ', ', ' ,', ' , ']).join(rnd.choice(EXC) for _i in range(rnd.randint(1, 4)))
            add(('py', 'js'), 'exceptcols %%s %s %s' % (enc_table(inm), enc_str(text)), ('flagonly',))

    if 'tablevars' in kinds:
        POS = ['a1', 'a2', 'a3', 'a[1]', 'a[2]', 'b1', 'a10', 'a1 ', ' a2,', 'xa1', 'a1x']
        for names, text in gen_name_cases(rnd, 2500 if quick else 40000):
            # positional-looking and ordinary names mixed; some headers made of identifiers only (direct mode)
            if rnd.random() < 0.5:
                names = rnd.sample(['a1', 'a2', 'a3', 'b1', 'x', 'id', 'name', 'a10', '_u', 'NR'], rnd.randint(1, 4))
            text = text + rnd.choice([' ', ', ']) + rnd.choice([' ', ', ']).join(rnd.choice(POS + names) for _i in range(rnd.randint(0, 4)))
            norm = rnd.choice('01')
            width = rnd.choice(['~', str(len(names)), str(len(names)), str(len(names) + 1)])
            hdr = 'N' if rnd.random() < 0.15 else 'S' + enc_list(names)
            add(('py', 'js'), 'tablevars %%s %s %s %s %s %s' % (enc_str('a'), enc_str(text), hdr, norm, width), ('flagonly',))
            # the same passes inside the other input adapters (Model/Variables.lean: iteratorVariablesMap) — the REAL iterators over a table with these column names
            pfx = rnd.choice('ab')
            csv_ok = hdr == 'N' or (len(names) > 0 and names != [''] and all('\r' not in n for n in names))
            add(('py',), 'itervars pandas 0 %s %s %s %s' % (enc_str(pfx), enc_str(text), hdr, norm), None)
            if csv_ok:
                add(('py',), 'itervars csv 0 %s %s %s 1' % (enc_str(pfx), enc_str(text), hdr), None)
                add(('js',), 'itervars csv 1 %s %s %s 1' % (enc_str(pfx), enc_str(text), hdr), None)
            if hdr != 'N' and len(set(n.lower() for n in names)) == len(names) and all(n and '\x00' not in n for n in names):
                add(('py',), 'itervars sqlite 0 %s %s %s 1' % (enc_str(pfx), enc_str(text), hdr), None)

    # group by implementation; lines with a %s placeholder for the js flag get it filled per implementation
    def vars_canon(line, out):
        if line.startswith('basicvars') or line.startswith('arrayvars'):
            if out in ('!', '') or not all(p.isdigit() for p in out.split(',')):
                return out
            return ','.join(str(x) for x in sorted(set(int(p) for p in out.split(','))))
        return out

    def attr_canon(line, out):
        # parse_attribute_variables of rbql_engine.py walks a `set` of names: the insertion order of its map is arbitrary
        if (line.startswith('attrvars') or line.startswith('tablevars') or line.startswith('itervars')) and out.startswith('ok ') and out != 'ok ~':
            return 'ok ' + ' '.join(sorted(out[3:].split(' ')))
        return out

    def reject_canon(line, out):
        if line.startswith('selinfos') and (out == 'SYNTAX' or out.startswith('err open') or out.startswith('err close') or out == 'err parse'):
            return 'REJECT'
        return out

    nbad = 0
    for impl in ('py', 'js'):
        flag = '0' if impl == 'py' else '1'
        lines = []
        for i, line, what in jobs:
            if i != impl:
                continue
            if what is None:
                lines.append(line)
            elif what[0] in ('selinfos1', 'flagonly'):
                lines.append(line % flag)
            else:
                lines.append(line % (flag, what[1]))
        if not lines:
            continue
        lines = list(dict.fromkeys(lines))
        mout = [attr_canon(l, reject_canon(l, vars_canon(l, o))) for l, o in zip(lines, common.run_model(lines))]
        iout = common.run_impl_py(lines) if impl == 'py' else common.run_impl_js(lines)
        iout = [attr_canon(l, reject_canon(l, vars_canon(l, o))) for l, o in zip(lines, iout)]
        res.evaluations += len(lines)
        for l, m, o in zip(lines, mout, iout):
            op = l.split(' ')[0]
            res.count('translate:%s:%s' % (impl, op))
            if m not in ('', '-', '!', 'err empty', 'err notassign', 'ok O') and not m.startswith('EXC'):
                res.nontrivial.add(('tr', impl, l))
            if m == o:
                continue
            nbad += 1
            if nbad <= 3:
                args = l.split(' ')
                # shrink the text argument (the last but one for colinfos/selinfos, the last otherwise)
                pos = len(args) - 2 if op in ('colinfos', 'selinfos', 'dictvars', 'attrvars', 'directvars') else (3 if op == 'tablevars' else 4 if op == 'itervars' else len(args) - 1)
                if op == 'joinresolve':
                    res.violations.append({'property': prop, 'impl': impl, 'why': 'resolve_join_variables differs from its model (Model/JoinResolve.lean)', 'op': op, 'line': l, 'model_says': m, 'impl_says': o, 'case_key': '%s|translate|%s|%s|%s' % (prop, impl, op, l)})
                    continue
                text = common.dec_str(args[pos])

                def mk(t, args=args, pos=pos):
                    return ' '.join(args[:pos] + [enc_str(t)] + args[pos + 1:])
                cm = lambda ln, out: attr_canon(ln, reject_canon(ln, vars_canon(ln, out)))
                small = common.shrink(text, mk, impl, canon=lambda name, ln, out: cm(ln, out), model_canon=cm)
                sl = mk(small)
                _b, m2, o2 = common.disagrees(sl, impl, canon=lambda name, ln, out: cm(ln, out), model_canon=cm)
                res.violations.append({'property': prop, 'impl': impl,
                                       'why': 'the query-translation layer (%s) differs from its model (Model/Translate.lean): %s' % ('rbql_engine.py' if impl == 'py' else 'rbql.js', op),
                                       'op': op, 'text': small, 'line': sl, 'model_says': m2, 'impl_says': o2,
                                       'case_key': '%s|translate|%s|%s|%s' % (prop, impl, op, small)})
    return nbad


def _cm(line, out):
    if line.startswith('basicvars') or line.startswith('arrayvars'):
        if out not in ('!', '') and all(p.isdigit() for p in out.split(',')):
            out = ','.join(str(x) for x in sorted(set(int(p) for p in out.split(','))))
    if line.startswith('selinfos') and (out == 'SYNTAX' or out.startswith('err open') or out.startswith('err close') or out == 'err parse'):
        return 'REJECT'
    if (line.startswith('attrvars') or line.startswith('tablevars')) and out.startswith('ok ') and out != 'ok ~':
        return 'ok ' + ' '.join(sorted(out[3:].split(' ')))
    return out


def replay(res, path):
    """replay of a violation written by run_leg; None when the file is some other kind of violation"""
    import json
    v = json.loads(open(path).read())
    if '|translate|' not in str(v.get('case_key', '')):
        return None
    print(json.dumps(v, indent=1, ensure_ascii=False)[:3000])
    return common.replay_generic(res, path, canon=lambda name, ln, out: _cm(ln, out), model_canon=_cm)


PYAST_ITEMS = ['a1', 'b2', 'a[1]', 'a[0]', 'a[-1]', 'a[True]', 'a[1.0]', 'a[1:2]', 'a["name two"]', "b['k']", 'a.name', 'b.id', 'c.id', 'a.b.c', 'x.a', 'NR', 'NF', 'a0', 'a007', 'b12',
               '__RBQL_INTERNAL_STAR', 'a.__RBQL_INTERNAL_STAR', 'b.__RBQL_INTERNAL_STAR', 'c.__RBQL_INTERNAL_STAR', '(a1)', '(a1, a2)', '[a1, a2]', 'a1 + 1', 'f(a1)', 'a1 if a2 else a3',
               'alias_column_as_pseudo_func(foo)', 'a1 + alias_column_as_pseudo_func(bar)', 'f(alias_column_as_pseudo_func(x), alias_column_as_pseudo_func(y))',
               'g(h(alias_column_as_pseudo_func(deep)), alias_column_as_pseudo_func(shallow))', 'alias_column_as_pseudo_func(a, b)', 'alias_column_as_pseudo_func()',
               'alias_column_as_pseudo_func(1)', 'alias_column_as_pseudo_func(a.b)', 'x.alias_column_as_pseudo_func(z)', 'alias_column_as_pseudo_func(q).attr', 'alias_column_as_pseudo_func(q)[0]',
               'a[alias_column_as_pseudo_func(w)]', 'f(k=alias_column_as_pseudo_func(kw))', 'f(*alias_column_as_pseudo_func(st))', 'lambda: alias_column_as_pseudo_func(lam)',
               '"lit"', "'a1'", '1', 'None', 'a1 == 2', 'not a1', '-a1', 'a[b1]', 'a[b[1]]', 'a["x"]["y"]', 'a.x.y', 'a1.upper()', 'len(a.name)', 'a1,', '*a1', 'a = 1', 'a1; a2', '']


def pyast_leg(res, tier, seed):
    """the Python `ast` route to column infos: Model/PyAst.lean (pyColumnInfos) fed with the tree the REAL parser builds, against the real
    ast_parse_select_expression_to_column_infos.  Two phases: the implementation driver parses each text and answers; the model is then given the tree."""
    rnd = random.Random(seed * 6007 + 17)
    quick = tier == 'quick'
    texts = list(PYAST_ITEMS)
    for _ in range(3000 if quick else 40000):
        k = rnd.randint(1, 4)
        texts.append(rnd.choice(['', ' ']) + rnd.choice([', ', ',', ' , ']).join(rnd.choice(PYAST_ITEMS[:-4]) for _i in range(k)) + rnd.choice(['', '', ',', ' ']))
    for text, lits in gen_select_lists(rnd, 1500 if quick else 20000, 'py'):
        try:
            import sys
            sys.path.insert(0, str(common.REPO / 'rbql-py'))
            from rbql import rbql_engine
            _t, for_ast = rbql_engine.translate_select_expression(text)
            texts.append(rbql_engine.combine_string_literals(for_ast, lits))
        except Exception:
            pass
    texts = list(dict.fromkeys(texts))
    outs = common.run_impl_py(['pyastinfos %s' % enc_str(t) for t in texts])
    lines, wants, kept = [], [], []
    nsyntax = 0
    for t, o in zip(texts, outs):
        if o == 'SYNTAX' or '\t' not in o:
            nsyntax += 1
            continue
        js, ans = o.split('\t', 1)
        lines.append('pyinfos ' + js)
        wants.append(ans)
        kept.append(t)
    mout = common.run_model(lines)
    res.evaluations += len(lines)
    nbad = 0
    for t, m, w in zip(kept, mout, wants):
        res.nontrivial.add(('pyast', t))
        res.count('pyast_outcome=%s' % w.split(' ')[0] + (' ' + w.split(' ')[1] if w.startswith('err') else ''))
        if m != w:
            nbad += 1
            if nbad <= 3:
                res.violations.append({'property': res.prop, 'impl': 'py', 'why': 'the Python ast route to column infos differs from its model (Model/PyAst.lean) on the tree the real parser builds',
                                       'select_list': t, 'model_says': m, 'impl_says': w, 'case_key': '%s|pyast|%s' % (res.prop, t)})
    res.count('pyast_texts', len(lines))
    res.count('pyast_not_python_syntax', nsyntax)
    res.count('pyast_disagreements', nbad)
