"""Source-derived Lean files, regenerated from /repo on every check run (only rewritten when their content changes)."""
import sys
import os

import common

sys.path.insert(0, str(common.ROOT / 'tools'))


def regenerate():
    import shared_state_scan
    src = common.REPO / 'rbql-py' / 'rbql' / 'rbql_engine.py'
    try:
        r = shared_state_scan.scan(str(src))
        text = shared_state_scan.to_lean(r, 'rbql-py/rbql/rbql_engine.py')
    except Exception as e:   # the source no longer parses / was removed: the obligation cannot be generated
        text = ('-- GENERATED: tools/shared_state_scan.py FAILED on rbql-py/rbql/rbql_engine.py: %s\n'
                'namespace Rbql.Generated\ndef moduleLevelMutable : List String := []\ndef globalsDeclared : List String := []\n'
                'def writtenOnQueryPath : List String := ["<scan failed>"]\ndef classLevelMutable : List String := []\ndef mutableDefaults : List String := []\nend Rbql.Generated\n' % str(e)[:200].replace('\n', ' '))
    common.write_if_changed(common.LEAN_DIR / 'Rbql' / 'Generated' / 'SharedState.lean', text)
