"""Source-derived Lean files, regenerated from /repo on every check run (only rewritten when their content changes)."""
import sys
import os

import common

sys.path.insert(0, str(common.ROOT / 'tools'))


def regenerate():
    import shared_state_scan
    src = common.REPO / 'rbql-py' / 'rbql' / 'rbql_engine.py'
    try:
        r = shared_state_scan.scan(str(src))
        fe = shared_state_scan.scan_frontends(str(src.parent))
        text = shared_state_scan.to_lean(r, 'rbql-py/rbql/rbql_engine.py', fe)
    except Exception as e:   # the source no longer parses / was removed: the obligation cannot be generated
        text = ('-- GENERATED: tools/shared_state_scan.py FAILED on rbql-py/rbql/rbql_engine.py: %s\n'
                'namespace Rbql.Generated\ndef moduleLevelMutable : List String := []\ndef globalsDeclared : List String := []\n'
                'def writtenOnQueryPath : List String := ["<scan failed>"]\ndef classLevelMutable : List String := []\ndef mutableDefaults : List String := []\ndef sharedInstancesUsed : List String := []\n'
                'def frontendWrittenOnQueryPath : List String := ["<scan failed>"]\ndef frontendClassLevelMutable : List String := []\ndef frontendMutableDefaults : List String := []\n'
                'def frontendSharedInstancesUsed : List String := []\ndef frontendCallerObjectsWritten : List String := []\nend Rbql.Generated\n' % str(e)[:200].replace('\n', ' '))
    common.write_if_changed(common.LEAN_DIR / 'Rbql' / 'Generated' / 'SharedState.lean', text)
    regenerate_row_flow()


def regenerate_row_flow():
    """C06: the row flow of both engines (tools/row_flow_scan.py -> Generated/RowFlow.lean)"""
    import row_flow_scan
    try:
        pf = row_flow_scan.scan_python(str(common.REPO / 'rbql-py' / 'rbql' / 'rbql_engine.py'), str(common.REPO / 'rbql-py'))
    except Exception as e:
        pf = row_flow_scan.Flow()
        pf.bind('out_fields', 'unknown', 'scan of rbql_engine.py failed: %s' % type(e).__name__)
        pf.write('out_fields')
    try:
        jf = row_flow_scan.scan_js(str(common.REPO / 'rbql-js' / 'rbql.js'), common.NODE)
    except Exception as e:
        jf = row_flow_scan.Flow()
        jf.bind('out_fields', 'unknown', 'scan of rbql.js failed: %s' % type(e).__name__)
        jf.write('out_fields')
    common.write_if_changed(common.LEAN_DIR / 'Rbql' / 'Generated' / 'RowFlow.lean', row_flow_scan.to_lean(pf, jf))
    return pf, jf
