"""Entry point of every registered check:  check.py <Cxx> [--tier quick|thorough] [--replay file]

Decision procedure (DESIGN.md section 4):
 1. regenerate source-derived Lean files, build the Lean project, audit the axioms of the property's theorems;
 2. run the property's correspondence (model vs real code, both at the property's observables);
 3. a disagreement is a concrete failing input -> VIOLATION (unless it is a pinned known finding);
 4. a broken proof obligation with no failing input -> VIOLATION ... no-failing-input-found.
Exit 0 = held on everything explored; 1 = violation; 2 = infrastructure failure."""
import argparse
import importlib
import json
import os
import sys
import time
import traceback

sys.path.insert(0, os.path.dirname(os.path.abspath(__file__)))
import common
from common import Result, LeanFailure


def generated_hook():
    try:
        import gen_lean
    except ImportError:
        return
    gen_lean.regenerate()


def main():
    ap = argparse.ArgumentParser()
    ap.add_argument('prop')
    ap.add_argument('--tier', default=os.environ.get('VERIF_TIER', 'quick'))
    ap.add_argument('--replay', default=None)
    args = ap.parse_args()
    prop = args.prop
    if prop == 'setup':
        # MANIFEST.setup_cmd: regenerate the source-derived Lean files from /repo FIRST (a stale committed copy must never
        # decide anything), build models + theorems + driver (must succeed), then the source-derived obligations (a failure
        # there concerns C16 alone and is reported by C16's check, not by the setup)
        import subprocess
        generated_hook()
        r = subprocess.run(['lake', 'build', 'Rbql', 'rbql_model'], cwd=str(common.LEAN_DIR))
        if r.returncode != 0:
            sys.exit(r.returncode)
        r = subprocess.run(['lake', 'build', 'RbqlGen'], cwd=str(common.LEAN_DIR))
        if r.returncode != 0:
            print('setup: source-derived obligations (RbqlGen) do not build on this tree; C16 will report it')
        sys.exit(0)
    tier = args.tier if args.tier in ('quick', 'thorough') else 'quick'
    seed = int(os.environ.get('VERIF_SEED', '0') or 0)
    res = Result(prop, tier, seed)
    for old in (common.ROOT / 'replays').glob('%s-%d-*.json' % (prop, seed)):
        old.unlink()

    # 1. proof obligations
    lean_failure = None
    axioms = {}
    try:
        axioms = common.lean_build_and_audit(generated_hook, prop)
    except LeanFailure as e:
        lean_failure = e
        axioms = getattr(e, 'axioms', {})
    if lean_failure is not None and not common.MODEL_BIN.exists():
        print('INFRA: Lean build failed and no model driver is available: %s\n%s' % (lean_failure.what, lean_failure.detail))
        sys.exit(2)
    obligations, discharged, problems = common.proof_status(prop, axioms)
    if lean_failure is not None:
        problems.append('lean: %s: %s' % (lean_failure.what, lean_failure.detail[-1500:]))
        if not axioms:
            discharged = 0
    res.proof_problems = problems
    lc = None
    if tier == 'thorough' and lean_failure is None and not args.replay:
        lc = common.leanchecker(prop)
        if not lc.get('ok'):
            problems.append('leanchecker rejects a compiled module: %s' % lc.get('detail', '')[-600:])

    try:
        mod = importlib.import_module('corr_' + prop)
    except ImportError:
        print('INFRA: no correspondence module for %s' % prop)
        traceback.print_exc()
        sys.exit(2)

    if args.replay:
        ok = mod.replay(res, args.replay)
        sys.exit(0 if ok else 1)

    # 2. generated proof obligations of the property (source-derived), if any
    if hasattr(mod, 'generated_obligations'):
        o, d, p = mod.generated_obligations(res)
        obligations += o
        discharged += d
        problems.extend(p)

    search_tier = tier
    if problems:
        search_tier = 'thorough'   # a broken obligation: look harder for a concrete failing input
        res.notes.append('proof obligation broken -> correspondence escalated to thorough budget')
    try:
        mod.run(res, search_tier, seed)
    except Exception:
        traceback.print_exc()
        print('INFRA: correspondence of %s crashed' % prop)
        sys.exit(2)

    # 3. classify violations against pinned known findings
    kf = common.load_known_findings()
    known = [k for k in kf.get('known', []) if k.get('property') == prop]
    exit_code = 0
    out_lines = []
    reported = 0
    seen_known = set()
    for v in res.violations:
        key = v.get('case_key')
        match = [k for k in known if k.get('case_key') == key]
        if match:
            if key not in seen_known:
                seen_known.add(key)
                out_lines.append('KNOWN-FINDING: property=%s %s' % (prop, match[0].get('what', key)))
            continue
        reported += 1
        if reported <= 5:
            path = common.write_replay(res, reported, v)
            out_lines.append('VIOLATION property=%s replay=%s' % (prop, path))
        exit_code = 1
    if problems and exit_code == 0:
        path = common.write_replay(res, 0, {'property': prop, 'kind': 'proof-obligation', 'no_longer_checks': problems,
                                           'note': 'no concrete failing input was found by the thorough correspondence search'})
        out_lines.append('VIOLATION property=%s replay=%s no-failing-input-found' % (prop, path))
        exit_code = 1
    res.violations = [v for v in res.violations if not any(k.get('case_key') == v.get('case_key') for k in known)]
    common.write_evidence(res, max(obligations, 1) if obligations else 0, discharged,
                          extra={'proof_problems': problems, 'known_findings_seen': sorted(seen_known), 'leanchecker': lc})
    for l in out_lines:
        print(l)
    print('%s tier=%s seed=%d evaluations=%d nontrivial=%d theorems=%d/%d wall=%.1fs -> %s' % (
        prop, tier, seed, res.evaluations, len(res.nontrivial), discharged, obligations, time.time() - res.t0,
        'OK' if exit_code == 0 else 'VIOLATION'))
    sys.exit(exit_code)


if __name__ == '__main__':
    main()
