"""Engine-level ops of the Python implementation driver: `query <json>` runs the REAL rbql.query
with a counting input iterator and a recording (optionally refusing) output writer."""
import json
import re
import sys

import rbql
from rbql import rbql_engine

import impl_py
import qgen


class CountingIterator(rbql_engine.TableIterator):
    def __init__(self, table, column_names=None, normalize_column_names=True, variable_prefix='a'):
        rbql_engine.TableIterator.__init__(self, table, column_names, normalize_column_names, variable_prefix)
        self.pulled = 0

    def get_record(self):
        r = rbql_engine.TableIterator.get_record(self)
        if r is not None:
            self.pulled += 1
        return r


class RecordingWriter(rbql_engine.RBQLOutputWriter):
    def __init__(self, refuse_from=None):
        self.rows = []
        self.writes = 0
        self.refuse_from = refuse_from
        self.after_refusal = 0
        self.finished = 0
        self.header = None
        self.set_header_calls = 0
        self.header_after_write = False

    def write(self, fields):
        self.writes += 1
        if self.refuse_from is not None and self.writes >= self.refuse_from:
            if self.writes > self.refuse_from:
                self.after_refusal += 1
            return False
        self.rows.append(fields)
        return True

    def finish(self):
        self.finished += 1

    def set_header(self, header):
        self.set_header_calls += 1
        if self.writes:
            self.header_after_write = True
        self.header = header


def classify_error(e):
    msg = str(e)
    name = type(e).__name__
    if name == 'RbqlRuntimeError':
        m = re.search(r'No "a(\d+)" field at record (\d+)', msg)
        if m:
            return ['runtime', int(m.group(2)), int(m.group(1))]
        m = re.search(r'No field with index (\d+) at record (\d+) in "B" table', msg)
        if m:
            return ['joinB', int(m.group(2)), int(m.group(1))]
        m = re.search(r'At record (\d+)', msg)
        if m:
            return ['runtime', int(m.group(1)), None]
        return ['runtime-other', msg[:120]]
    if name == 'RbqlParsingError':
        if 'Only one UNNEST' in msg:
            return ['parsing', 'unnest-twice']
        if 'not allowed in aggregate queries' in msg:
            return ['parsing', 'agg-order-distinct']
        return ['parsing', 'other: ' + msg[:120]]
    if name == 'RbqlIOHandlingError':
        return ['io', msg[:120]]
    return ['exception', name, msg[:120]]


def run_case(case, text):
    A = [[qgen.cell_to_py(c) for c in r] for r in case['A']]
    B = None if case.get('B') is None else [[qgen.cell_to_py(c) for c in r] for r in case['B']]
    if case.get('share_rows'):
        # a table is a list of row OBJECTS: value-equal rows become one shared object (and the join table the input table itself when equal)
        for i in range(len(A)):
            for j in range(i):
                if A[i] == A[j]:
                    A[i] = A[j]
                    break
        if B is not None and B == A:
            B = A
    it = CountingIterator(A, case.get('header_a'))
    w = RecordingWriter(case['q'].get('refuse'))
    warnings = []
    registry = None
    if B is not None:
        registry = rbql_engine.ListTableRegistry([rbql_engine.ListTableInfo('b', B, case.get('header_b')), rbql_engine.ListTableInfo('B', B, case.get('header_b'))])
    err = None
    try:
        rbql_engine.query(text, it, w, warnings, registry)
    except Exception as e:
        err = classify_error(e)
    return it, w, warnings, err


def parse_fields_warning(msg):
    m = re.search(r'record (\d+) -> (\d+) fields, record (\d+) -> (\d+) fields', msg)
    return [int(m.group(2)), int(m.group(1)), int(m.group(4)), int(m.group(3))] if m else ['unparsed', msg[:80]]


def result_json(it, w, err, warnings=()):
    if err is not None:
        return json.dumps({'err': err}, sort_keys=True, ensure_ascii=False, separators=(',', ':'), default=repr)
    own = it.get_warnings()
    warn_a = parse_fields_warning(own[0]) if own else None
    rest = list(warnings)[len(own):]
    fw = [x for x in rest if 'Number of fields' in x]
    warn_b = parse_fields_warning(fw[0]) if fw else None
    other = [x for x in rest if 'Number of fields' not in x]
    d = {'rows': [[qgen.value_to_cell(v) for v in r] for r in w.rows], 'err': None, 'pulled': it.pulled, 'writes': w.writes,
         'afterRefusal': w.after_refusal, 'finished': w.finished, 'warnA': warn_a, 'warnB': warn_b}
    if other:
        d['otherWarnings'] = other
    return json.dumps(d, sort_keys=True, ensure_ascii=False, separators=(',', ':'), default=repr)


def op_query(payload):
    case = json.loads(payload)
    it, w, warnings, err = run_case(case, case['py'])
    return result_json(it, w, err, warnings)


def op_querytrace(payload):
    case = json.loads(payload)
    it, w, warnings, err = run_case(case, case['py'])
    return json.dumps({'err': err, 'setHeaderCalls': w.set_header_calls, 'headerAfterWrite': w.header_after_write, 'finished': w.finished,
                       'writes': w.writes, 'header': w.header}, sort_keys=True, ensure_ascii=False)


impl_py.RAW_OPS['query'] = op_query
impl_py.RAW_OPS['querytrace'] = op_querytrace
