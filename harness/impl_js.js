// Implementation driver for rbql-js: same line protocol as the Lean model driver.
'use strict';
const path = require('path');
const fs = require('fs');
const repo = process.env.VERIF_REPO || '/repo';
const csv_utils = require(path.join(repo, 'rbql-js', 'csv_utils.js'));

function enc_str(s) {
    if (s === '') return '-';
    let out = [];
    for (const ch of s) out.push(ch.codePointAt(0).toString(16));
    return out.join('.');
}
function dec_str(t) {
    if (t === '-') return '';
    return t.split('.').map(h => String.fromCodePoint(parseInt(h, 16))).join('');
}
function enc_list(l) { return l.length ? l.map(enc_str).join(',') : '!'; }
function dec_list(t) { return t === '!' ? [] : t.split(',').map(dec_str); }
function enc_table(t) { return t.length ? t.map(enc_list).join(';') : '~'; }
function dec_table(t) { return t === '~' ? [] : t.split(';').map(dec_list); }
function enc_bool(b) { return b ? '1' : '0'; }
function enc_opt_list(o) { return o === null || o === undefined ? 'N' : 'S' + enc_list(o); }

const OPS = {};
OPS['split'] = async (pol, pres, d, s) => {
    let [fields, warn] = csv_utils.smart_split(dec_str(s), dec_str(d), pol, pres === '1');
    return enc_list(fields) + ' ' + enc_bool(warn);
};
OPS['quote'] = async (rfc, js, d, f) => {
    let fn = rfc === '1' ? csv_utils.rfc_quote_field : csv_utils.quote_field;
    return enc_str(fn(dec_str(f), dec_str(d)));
};
OPS['unquote'] = async (py, f) => enc_str(csv_utils.unquote_field(dec_str(f)));

const RAW_OPS = {};
module.exports = {OPS, RAW_OPS, enc_str, dec_str, enc_list, dec_list, enc_table, dec_table, enc_bool, enc_opt_list, repo};

async function main() {
    for (const extra of ['impl_js_csv.js', 'impl_js_engine.js', 'impl_js_translate.js']) {
        const p = path.join(__dirname, extra);
        if (fs.existsSync(p)) require(p);
    }
    const lines = fs.readFileSync(0, 'utf-8').split('\n');
    if (lines.length && lines[lines.length - 1] === '') lines.pop();
    for (const line of lines) {
        let parts = line.split(' ');
        let fn = OPS[parts[0]];
        if (RAW_OPS[parts[0]]) {
            fn = RAW_OPS[parts[0]];
            parts = [parts[0], line.slice(parts[0].length + 1)];
        }
        let out;
        if (!fn) {
            out = 'bad-op';
        } else {
            try {
                out = await fn(...parts.slice(1));
            } catch (e) {
                out = 'EXC ' + (e && e.constructor ? e.constructor.name : 'Error') + ' ' + enc_str(String(e && e.message ? e.message : e).slice(0, 200));
            }
        }
        fs.writeSync(1, out + '\n');
    }
}

if (require.main === module) main();
