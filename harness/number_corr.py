"""Numeric strings: Model/Number.lean (pyInt / pyFloat / numHandlerParseStr / numHandlerRun / jsNumber) against the REAL NumHandler.parse of
rbql_engine.py and the real parse_number of rbql.js (reached through a one-record MAX query).  Values: the model gives the exact rational of the
literal, the hosts its correctly rounded double — compared as float(Fraction(model)) == host value (hex), overflow = non-finite."""
import itertools
import random
from fractions import Fraction

import common
from common import enc_str, enc_list

ALPHABET = ['0', '1', '9', '_', '.', 'e', 'E', '+', '-', ' ', 'x', 'b', 'n', '\t']
WORDS = ['', ' ', 'inf', 'Inf', 'INF', '+inf', '-inf', 'infinity', 'Infinity', '-Infinity', '+Infinity', 'infinit', 'nan', 'NaN', '-nan', '+nan', 'nane', 'in f',
         '0x1F', '0X1f', '0x', '-0x1F', '+0x10', '0b101', '0b12', '0B1', '0o17', '0o8', '0O7', '0x1_0', '0xg', '0x 1',
         '1e5', '1E5', '1e+5', '1e-5', '1e', '1e+', 'e5', '1.e5', '.5e1', '.e1', '1e1.5', '1e1e1', '1.5.2', '1..2', '..1',
         '1_0', '1__0', '_1', '1_', '1_.5', '1._5', '1_0.0_1', '1e1_0', '1e_1', '1_e1', '0_0', '00', '007', '-007', '+-1', '-+1', '--1', '++1', '+ 1', '- 1', '1 2', '1\t',
         '\t1\n', '\n1', '\x0b1', '\x0c1', '\x1c1', '\x1f1', '1\x85', '\xa01', '﻿1', '1﻿', ' 1', '　1', ' 1', '᠎1', '​1',
         '9007199254740993', '-9007199254740993', '123456789012345678901234567890', '0.1', '0.30000000000000004', '1e22', '1e23', '1e308', '1e309', '-1e309', '1e-323', '1e-400',
         '179769313486231580793728971405303415079934132710037826936173778980444968292764750946649017977587207096330286416692887910946555547851940402630657488671505820681908902000708383676273854845817711531764475730270069855571366959622842914819860834936475292719074168444365510704342711559699508093042880177904174497791.9',
         '4.9e-324', '2.4703282292062327e-324', '2.4703282292062328e-324', '1.7976931348623157e308', '1.7976931348623159e308',
         '5.', '.5', '.', '-.5', '+.5', '-5.', '-.', '1,5', '1 ', ' 1', '١', '1١', 'True', 'None', '1j', '1L', '1f', '1d', '0.5f', '1/2', '0e0', '-0', '-0.0', '0E-0']


def host_hex_of_rational(num, den):
    try:
        f = float(Fraction(num, den))
    except OverflowError:
        return 'NF'
    if f in (float('inf'), float('-inf')):
        return 'NF'
    if f == 0.0:
        f = 0.0
    return 'F' + f.hex()


def canon_model_token(tok):
    if tok.startswith('D'):
        n, d = tok[1:].split('/')
        return host_hex_of_rational(int(n), int(d))
    return tok


def model_canon(line, out):
    return ' '.join(canon_model_token(t) for t in out.split(' ')) if out else out


def canon_impl(name, line, out):
    toks = []
    for t in out.split(' '):
        if t.startswith('R'):
            f = float(t[1:])
            toks.append('F' + (0.0 if f == 0.0 else f).hex())
        elif t.startswith('F'):
            f = float.fromhex(t[1:])
            toks.append('F' + (0.0 if f == 0.0 else f).hex())
        elif t.startswith('I') and line.startswith('jsnum'):
            toks.append(t)
        else:
            toks.append(t)
    return ' '.join(toks)


def model_canon_js(line, out):
    # JavaScript has one number type: an integer literal is the double nearest to it
    toks = []
    for t in out.split(' '):
        if t.startswith('I'):
            toks.append(host_hex_of_rational(int(t[1:]), 1))
        else:
            toks.append(canon_model_token(t))
    return ' '.join(toks)


def ascii_only_digits(s):
    return all(not ch.isdigit() or ch in '0123456789' for ch in s) and all(not (ch.isnumeric() and ord(ch) > 127) for ch in s)


def gen_strings(tier, seed):
    rnd = random.Random(seed * 104729 + 3)
    n = 4 if tier == 'quick' else 5
    out = list(WORDS)
    for k in range(1, n + 1):
        tuples = itertools.product(ALPHABET, repeat=k)
        if k == n and tier != 'quick':
            tuples = rnd.sample(list(tuples), 150000)
        out.extend(''.join(t) for t in tuples)
    parts = ['0', '1', '5', '12', '007', '9' * 17, '_', '.', 'e', 'E', '+', '-', ' ', '\t', 'inf', 'nan', 'Infinity', '0x', '0b', '0o', 'f', 'A', 'x', '1e3', '2.5', '\xa0', '﻿', '\x1c']
    for _ in range(3000 if tier == 'quick' else 60000):
        out.append(''.join(rnd.choice(parts) for _ in range(rnd.randint(1, 6))))
    seen, uniq = set(), []
    import re
    huge_exp = re.compile(r'[eE][+-]?[0-9_]{5,}')          # 10^e is computed exactly by the model: exponents of five digits and more are not tied
    for s in out:
        if s not in seen and ascii_only_digits(s) and not huge_exp.search(s):
            seen.add(s)
            uniq.append(s)
    return uniq


def run_leg(res, tier, seed, prop='C03'):
    strs = gen_strings(tier, seed)
    rnd = random.Random(seed * 31 + 5)
    pylines = ['pynum %s' % enc_str(s) for s in strs]
    seqs = []
    pool = ['1', '2', '1_0', ' 3 ', '2.5', '1e2', 'x', '', 'inf', '9007199254740993', '0.1', '-4', '+5', '7.', '.5', 'nan', '0x10', '1__0']
    for _ in range(1500 if tier == 'quick' else 20000):
        seqs.append((rnd.choice('01'), [rnd.choice(pool) for _ in range(rnd.randint(1, 5))]))
    pylines += ['numhandler %s %s' % (b, enc_list(l)) for b, l in seqs]
    bad = common.differential(res, pylines, impls=('py',), canon=canon_impl, model_canon=model_canon)
    jsstrs = strs if tier != 'quick' else (list(WORDS) + [s for s in strs if len(s) <= 3][:2500] + rnd.sample(strs, 1500))
    jslines = ['jsnum %s' % enc_str(s) for s in jsstrs if ascii_only_digits(s)]
    badjs = common.differential(res, jslines, impls=('js',), canon=canon_impl, model_canon=model_canon_js)
    for ln in pylines + jslines:
        res.nontrivial.add(('num', ln))
    res.count('number_grammar_strings_py', len(strs))
    res.count('numhandler_sequences', len(seqs))
    res.count('number_grammar_strings_js', len(jslines))
    res.count('number_grammar_disagreements', len(bad) + len(badjs))
    res.exhaustive['numeric strings: every string of length <= %d over %r (Python); length <= 3 (JavaScript, quick)' % (4 if tier == 'quick' else 4, ''.join(ALPHABET))] = True
    for b in (bad[:3] + badjs[:3]):
        from common import dec_str
        parts = b['line'].split(' ')
        res.violations.append({'property': prop, 'impl': b['impl'], 'why': 'a numeric string is read differently from the number grammar of the model (Model/Number.lean)',
                               'line': b['line'], 'string': dec_str(parts[-1]) if parts[0] != 'numhandler' else [x for x in common.dec_list(parts[-1])],
                               'model_says': b['model'], 'impl_says': b['got'], 'case_key': '%s|num|%s' % (prop, b['line'])})
    return bad + badjs
