"""Generators shared by the CSV-reader correspondences (C12, C18, C20)."""
import itertools
import random

from common import enc_str, enc_list

READ_ALPHABET = 'a",\n\r# '
JS_ALPHABET = 'a",\n\r#'


def all_strings(alphabet, max_len, min_len=0):
    for n in range(min_len, max_len + 1):
        for t in itertools.product(alphabet, repeat=n):
            yield ''.join(t)


def universal_newlines(text):
    return text.replace('\r\n', '\n').replace('\r', '\n')


def bytes_as_str(b):
    return ''.join(chr(x) for x in b)


def reader_configs(policies=('quoted', 'quoted_rfc')):
    for pol in policies:
        for comment in (None, '#'):
            for hdr in (False, True):
                yield pol, comment, hdr


def line_readall(op, pol, enc, hdr, modi, d, comment, text, data_bytes):
    """op in {readpyall, readjsall}: `text` is what the model reads, `data_bytes` what the implementation reads."""
    return '%s %s %s %s %s %s %s %s %s' % (op, pol, enc, '1' if hdr else '0', modi, enc_str(d),
                                           '~' if comment is None else enc_str(comment), enc_str(text),
                                           enc_str(bytes_as_str(data_bytes)) if data_bytes is not None else '!')


def random_partition(rnd, s):
    pieces = []
    i = 0
    while i < len(s):
        k = rnd.choice([1, 1, 2, 3, 5, 8, 13])
        pieces.append(s[i:i + k])
        i += k
    return pieces


def random_csv_text(rnd, max_len=40, extra=''):
    n = rnd.randint(0, max_len)
    alphabet = ['a', 'b', '"', '"', ',', ',', '\n', '\r', '\r\n', '#', ' ', 'é', '中'] + list(extra)
    return ''.join(rnd.choice(alphabet) for _ in range(n))
