"""C01 — SELECT/WHERE yields exactly the projected matching records, in input order.

Tie: the Lean `run` (which theorem C01_select_where_exact relates to filter/flatMap over the joined
expansion) against the REAL rbql.query on (a) every table with <= 2 rows x <= 2 cells over
{None,'','x','x;y'} (ragged and empty included) x a fixed battery of query shapes covering every
combination of item kinds (field, expression, literal, *, a.*, b.*, * EXCEPT, UNNEST) x WHERE x JOIN,
(b) seeded random larger tables and queries."""
import itertools
import random

import engine_corr
import qgen

RULE = ('exhaustive small tables (<=2 rows x <=2 cells over {None,"","x","x;y"}, ragged/empty included) x battery of select/where/join shapes; '
        'seeded random tables (<=5 rows x <=4 cols) x random select lists over item kinds {field, expression, literal, star forms, EXCEPT, UNNEST} '
        'x WHERE x JOIN kinds. non-trivial iff the query has a WHERE, a JOIN, a star form, EXCEPT or UNNEST and the table is non-empty; '
        'distinct = distinct (query text, tables)')

CELLS = [None, '', 'x', 'x;y']


def small_tables(max_rows=2, max_cells=2):
    rows = [list(t) for n in range(max_cells + 1) for t in itertools.product(CELLS, repeat=n)]
    for n in range(max_rows + 1):
        for t in itertools.product(rows, repeat=n):
            yield [list(r) for r in t]


BATTERY = [
    {'items': [{'e': ['a', 0]}]},
    {'items': [{'e': ['a', 1]}, {'e': ['a', 0]}]},
    {'items': [{'e': ['nr']}, {'e': ['nf']}, {'e': ['a', 2]}]},
    {'items': ['star']},
    {'items': ['starA', {'e': ['lit', 'k']}]},
    {'items': [{'e': ['lit', 'select * where']}, 'star', {'e': ['nr']}]},
    {'items': [{'e': ['a', 0]}], 'where': ['eq', ['a', 0], ['lit', 'x']]},
    {'items': ['star'], 'where': ['ne', ['a', 1], ['lit', None]]},
    {'items': [{'e': ['concat', ['a', 0], ['lit', '-']]}]},
    {'items': [{'e': ['a', 0]}, {'unnest': ['split', ['a', 1], ';']}]},
    {'items': [{'unnest': ['split', ['a', 0], ';']}, {'e': ['nr']}], 'where': ['lt', ['nr'], ['lit', qgen.num(2)]]},
    {'items': [{'e': ['nr']}, {'unnest': ['splitne', ['a', 0], ';']}, {'e': ['a', 1]}]},
    {'items': [{'unnest': ['splitne', ['a', 1], 'x']}], 'where': ['ne', ['a', 0], ['lit', None]]},
    {'items': [], 'except': [0]},
    {'items': [], 'except': [1, 0]},
    {'items': [{'e': ['len', ['a', 0]]}], 'where': ['like', ['a', 0], 'x%']},
    {'items': [{'e': ['a', 0]}, {'unnest': ['split', ['a', 0], ';']}, {'unnest': ['split', ['a', 1], ';']}]},
    {'items': ['star', 'starA'], 'where': ['or', ['eq', ['a', 0], ['lit', '']], ['eq', ['nf'], ['lit', qgen.num(2)]]]},
]
JOIN_BATTERY = [
    {'items': [{'e': ['a', 0]}, {'e': ['b', 1]}], 'join': {'kind': 'inner', 'lhs': [0], 'rhs': [0]}},
    {'items': ['star'], 'join': {'kind': 'left', 'lhs': [0], 'rhs': [0]}},
    {'items': ['starB', 'starA'], 'join': {'kind': 'inner', 'lhs': [0], 'rhs': [0]}, 'where': ['ne', ['b', 1], ['lit', 'x']]},
    {'items': [{'e': ['a', 0]}, {'e': ['bnr']}, {'unnest': ['split', ['a', 1], ';']}], 'join': {'kind': 'inner', 'lhs': [0], 'rhs': [0]}},
    {'items': [{'e': ['nr']}, {'e': ['b', 0]}], 'join': {'kind': 'left', 'lhs': [None], 'rhs': [None]}},
    {'items': [{'e': ['a', 1]}, {'e': ['b', 1]}], 'join': {'kind': 'strict', 'lhs': [0], 'rhs': [0]}},
]


def gen_random(rnd, n):
    cases = []
    for _ in range(n):
        ncols = rnd.randint(1, 4)
        A = qgen.gen_table(rnd, ncols=ncols)
        q = {'items': []}
        use_join = rnd.random() < 0.35
        B = None
        bcols = 2
        if use_join:
            bcols = rnd.randint(1, 3)
            B = qgen.gen_table(rnd, ncols=bcols, ragged=0.1)
            q['join'] = qgen.gen_join(rnd, ncols, bcols)
        if rnd.random() < 0.12 and not use_join:
            q['except'] = sorted(set(rnd.randrange(ncols + 2) for _ in range(rnd.randint(1, 2))), reverse=rnd.random() < 0.5)
            if rnd.random() < 0.3:      # the same column named twice (two spellings) and columns beyond the record
                q['except'].insert(rnd.randrange(len(q['except']) + 1), rnd.choice(q['except']))
        else:
            has_unnest = False
            for _i in range(rnd.randint(1, 4)):
                r = rnd.random()
                if r < 0.35:
                    q['items'].append({'e': qgen.gen_str_expr(rnd, ncols, 2, use_join, bcols)})
                elif r < 0.5:
                    q['items'].append({'e': qgen.gen_num_expr(rnd, ncols, 2)})
                elif r < 0.6:
                    q['items'].append({'e': ['lit', rnd.choice(qgen.STR_POOL + [None, 'from a', 'a1, a2', '*'])]})
                elif r < 0.72:
                    q['items'].append('star')
                elif r < 0.8:
                    q['items'].append('starA')
                elif r < 0.86 and use_join:
                    q['items'].append('starB')
                elif r < 0.95 and (not has_unnest or rnd.random() < 0.1):
                    has_unnest = True
                    q['items'].append({'unnest': [rnd.choice(['split', 'splitne']), ['a', rnd.randrange(ncols)], rnd.choice([';', 'x', ' '])]})
                else:
                    q['items'].append({'e': qgen.gen_bool_expr(rnd, ncols, 1)})
        if rnd.random() < 0.55:
            q['where'] = qgen.gen_bool_expr(rnd, ncols, 2, use_join, bcols)
        cases.append({'q': q, 'A': A, 'B': B})
    return cases


def nontrivial(c):
    q = c['q']
    return bool(c['A']) and (q.get('where') is not None or q.get('join') or q.get('except') is not None or
                             any(it in ('star', 'starA', 'starB') or (isinstance(it, dict) and 'unnest' in it) for it in q.get('items', [])))


def run(res, tier, seed):
    import json
    res.rule = RULE
    res.assumptions = ["Python's own evaluation of the user expressions is trusted (expressions are opaque functions in the theorems)"]
    cases = []
    tabs = list(small_tables(2, 2))
    for q in BATTERY:
        for A in tabs:
            cases.append({'q': q, 'A': A, 'B': None})
    res.exhaustive['%d query shapes x all %d tables (<=2 rows x <=2 cells)' % (len(BATTERY), len(tabs))] = True
    small_b = list(small_tables(2, 2))
    rnd = random.Random(seed * 611953 + 1)
    tabs1 = list(small_tables(1, 2)) + [[['x', 'x;y'], ['x', '']], [['', 'x'], ['x', 'x']], [['x'], ['x;y', 'x'], ['x', None]]]
    for q in JOIN_BATTERY:
        for A in tabs1:
            for B in (small_b if tier == 'thorough' else rnd.sample(small_b, 40)):
                cases.append({'q': q, 'A': A, 'B': B})
    cases += gen_random(rnd, 12000 if tier == 'quick' else 120000)
    for c in cases:
        if nontrivial(c):
            res.nontrivial.add(json.dumps([c['q'], c['A'], c['B']], sort_keys=True))
    for c in cases[3000:3002] + cases[-3:]:
        res.sample({'query': qgen.render_query(c['q'], 'py'), 'A': c['A'], 'B': c['B']})
    engine_corr.run_cases(res, 'C01', cases, 'py', rnd=random.Random(seed + 5))
    engine_corr.js_leg(res, 'C01', cases, rnd=random.Random(seed + 105))
    # the text-to-code step in front of the engine: star forms, COUNT(*), aliases (Model/Translate.lean vs the real translate_select_expression)
    import translate_corr
    translate_corr.run_leg(res, tier, seed, {'select'})


def replay(res, path):
    import translate_corr
    r = translate_corr.replay(res, path)
    return engine_corr.replay(res, path) if r is None else r
