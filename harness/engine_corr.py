"""Correspondence runner for engine-level cases (abstract query + tables): Lean `run` vs the REAL
Python engine (`rbql.query` with a counting iterator and a recording writer) and, for `js`, the REAL
rbql-js engine.  Results are compared as parsed JSON at the level the properties talk about:
rows (typed cells, numbers as exact rationals), error class + record number + field, number of
records pulled, and the writer call counters."""
import copy
import json

import common
import qgen


ALL_FIELDS = ('rows', 'err', 'pulled', 'writes', 'afterRefusal', 'finished', 'warnA', 'warnB', 'otherWarnings')


def make_line(case, rnd=None, lang_texts=None):
    texts = lang_texts or {'py': qgen.render_query(case['q'], 'py', rnd, case.get('header_a'), case.get('header_b')),
                           'js': qgen.render_query(case['q'], 'js', rnd, case.get('header_a'), case.get('header_b'))}
    d = {'q': case['q'], 'A': case['A']}
    if case.get('B') is not None:
        d['B'] = case['B']
    for k in ('header_a', 'header_b'):
        if case.get(k) is not None:
            d[k] = case[k]
    if case.get('share_rows'):
        d['share_rows'] = True
    d.update(texts)
    return 'query ' + json.dumps(d, ensure_ascii=False, separators=(',', ':'))


def parse_out(o):
    try:
        return json.loads(o)
    except ValueError:
        return {'unparsable': o[:300]}


def canon_cells(x):
    """JS numbers arrive as {"f": double}; map them to the exact small rational like the Python side does"""
    if isinstance(x, list):
        return [canon_cells(y) for y in x]
    if isinstance(x, dict) and 'f' in x and len(x) == 1:
        return qgen.value_to_cell(float(x['f'])) if x['f'] is not None else {'float': 'nan'}
    return x


def observable(d, fields=ALL_FIELDS):
    if not isinstance(d, dict):
        return d
    if 'rows' in d and d['rows'] is not None:
        d = dict(d)
        d['rows'] = canon_cells(d['rows'])
    if d.get('err') is not None:
        e = d['err']
        if isinstance(e, list) and e and e[0] == 'exception':
            e = e[:2]          # host exception: class name only (the message is the host language's)
        return {'err': e}
    return {k: d.get(k) for k in fields if k in d} if 'rows' in d else d


SPEC_MISMATCHES = []


REFINE_MISMATCHES = []


def compare(lines, impl, fields):
    # the rbql-js leg is answered by the model of the rbql.js engine (Model/EngineJs.lean: JSON-keyed Set/Map, sort with NR, …),
    # which the refinement theorem relates to the reference model
    mout = common.run_model(['queryjs ' + l[6:] if impl == 'js' and l.startswith('query ') else l for l in lines])
    iout = common.run_impl_py(lines) if impl == 'py' else common.run_impl_js(lines)
    res = []
    for l, m, o in zip(lines, mout, iout):
        pmraw = parse_out(m)
        if isinstance(pmraw, dict) and pmraw.get('specOk') is False:
            SPEC_MISMATCHES.append(l)
        if isinstance(pmraw, dict) and pmraw.get('refinesOk') is False:
            REFINE_MISMATCHES.append(l)
        pm = observable(pmraw, fields)
        po = observable(parse_out(o), fields)
        res.append((pm == po, pm, po))
    return res


def shrink_candidates(case):
    out = []
    for key in ('A', 'B'):
        t = case.get(key)
        if t and len(t) > 24:
            # a large table: delete contiguous blocks (halves, quarters, eighths) instead of single rows
            for parts in (2, 4, 8):
                size = (len(t) + parts - 1) // parts
                for start in range(0, len(t), size):
                    c = dict(case)
                    c['q'] = copy.deepcopy(case['q'])
                    c[key] = t[:start] + t[start + size:]
                    out.append(c)
        elif t:
            for i in range(len(t)):
                c = copy.deepcopy(case)
                del c[key][i]
                out.append(c)
    q = case['q']
    for k in ('where', 'top', 'order', 'group'):
        if q.get(k) is not None:
            c = copy.deepcopy(case)
            c['q'][k] = None
            out.append(c)
    if q.get('distinct', 'no') != 'no':
        c = copy.deepcopy(case)
        c['q']['distinct'] = 'no'
        out.append(c)
    if q.get('desc'):
        c = copy.deepcopy(case)
        c['q']['desc'] = False
        out.append(c)
    for k in ('items', 'assigns'):
        if q.get(k) and len(q[k]) > 1:
            for i in range(len(q[k])):
                c = copy.deepcopy(case)
                del c['q'][k][i]
                out.append(c)
    if q.get('join') and len(q['join']['lhs']) > 1:
        for i in range(len(q['join']['lhs'])):
            c = copy.deepcopy(case)
            del c['q']['join']['lhs'][i]
            del c['q']['join']['rhs'][i]
            out.append(c)
    for key in ('A', 'B'):
        t = case.get(key)
        if t and len(t) <= 24 and case.get('header_' + key.lower()) is None:     # with a header the table stays as wide as the header
            for i, r in enumerate(t):
                if len(r) > 1:
                    c = copy.deepcopy(case)
                    c[key][i] = r[:-1]
                    out.append(c)
    return out


def shrink(case, impl, fields, rounds=40, valid=None):
    import time
    cur = case
    t_end = time.time() + 45       # shrinking is a convenience, never a reason to hang: the unshrunk case is a replay too
    big = max(len(case.get('A') or []), len(case.get('B') or [])) > 24
    for _ in range(rounds * (4 if big else 1)):
        if time.time() > t_end:
            break
        cands = [c for c in shrink_candidates(cur) if valid is None or valid(c)]
        if not cands:
            break
        lines = [make_line(c) for c in cands]
        r = compare(lines, impl, fields)
        nxt = None
        for c, (same, pm, po) in zip(cands, r):
            if not same and 'unparsable' not in pm and 'bad' not in json.dumps(pm)[:20]:
                nxt = c
                break
        if nxt is None:
            break
        cur = nxt
    return cur


def run_cases(res, prop, cases, impl='py', rnd=None, fields=ALL_FIELDS, max_report=6, texts=None, valid=None):
    """cases: list of dicts {q, A, B?, header_a?, header_b?}. Returns number of disagreements."""
    lines = [make_line(c, rnd, None if texts is None else texts[i]) for i, c in enumerate(cases)]
    r = compare(lines, impl, fields)
    res.evaluations += len(lines)
    nbad = 0
    for c, l, (same, pm, po), mraw in zip(cases, lines, r, [None] * len(lines)):
        if pm.get('err') is not None if isinstance(pm, dict) else False:
            res.count('model_outcome=error:' + str(pm['err'][0]))
        else:
            res.count('model_outcome=ok')
        if same:
            continue
        nbad += 1
        if nbad <= max_report:
            small = shrink(c, impl, fields, valid=valid)
            sl = make_line(small)
            (same2, pm2, po2), = compare([sl], impl, fields)
            if same2:   # the canonical respelling agrees: keep the original spelling
                small, sl, pm2, po2 = c, l, pm, po
            res.violations.append({'property': prop, 'impl': impl, 'query_py': json.loads(sl[6:])['py'], 'query_js': json.loads(sl[6:])['js'],
                                   'A': small['A'], 'B': small.get('B'), 'abstract_query': small['q'], 'line': sl,
                                   'model_says': pm2, 'impl_says': po2,
                                   'case_key': '%s|%s|%s|%s|%s' % (prop, impl, json.loads(sl[6:])['py'], json.dumps(small['A']), json.dumps(small.get('B'))),
                                   'replay_cmd': './check %s --replay <this file>' % prop})
    res.count('disagreements_' + impl, nbad)
    if REFINE_MISMATCHES:
        # the model of the rbql.js engine and the reference model differ where the refinement theorem says they agree
        print('INFRA: rbql.js engine model and reference model differ on %d case(s), e.g. %s' % (len(REFINE_MISMATCHES), REFINE_MISMATCHES[0][:600]))
        raise SystemExit(2)
    if SPEC_MISMATCHES:
        # the executable specification layer disagrees with the operational model: a defect of the machinery, not of the repository
        print('INFRA: specification layer and operational model differ on %d case(s), e.g. %s' % (len(SPEC_MISMATCHES), SPEC_MISMATCHES[0][:600]))
        raise SystemExit(2)
    return nbad


def js_leg(res, prop, cases, rnd=None, max_report=4):
    """The same cases on the REAL rbql-js engine, restricted to the class of cases whose expressions mean the same in
    Python and JS (corr_C19.in_class: rectangular None-free tables, field references inside the table, no null operands
    of + / .length / like / split / <).  The JavaScript twin of a statement is part of the system the property talks about."""
    import corr_C19
    import qgen
    sub = [c for c in cases if corr_C19.in_class(c)]
    res.count('js_leg_cases', len(sub))
    if not sub:
        return 0
    return run_cases(res, prop, sub, 'js', rnd=rnd, max_report=max_report, valid=corr_C19.in_class)


def replay(res, path, fields=ALL_FIELDS):
    v = json.loads(open(path).read())
    if 'line' not in v:
        print('replay: %s names a proof obligation, not an input: %s' % (path, v.get('no_longer_checks')))
        return False
    (same, pm, po), = compare([v['line']], v.get('impl', 'py'), fields)
    print('query: %s\nA: %s\nB: %s\nmodel: %s\nimpl : %s\n%s' % (v.get('query_py'), v.get('A'), v.get('B'), pm, po, 'agrees now' if same else 'STILL DISAGREES'))
    return same
