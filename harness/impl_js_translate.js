// Ops of the query-translation layer for the rbql-js implementation driver (model: lean/Rbql/Model/Translate.lean).
'use strict';
const path = require('path');
const base = require('./impl_js.js');
const {OPS, enc_str, dec_str, enc_list, dec_list, enc_table, repo} = base;
const rbql = require(path.join(repo, 'rbql-js', 'rbql.js'));

const enc_nats = l => l.length ? l.join(',') : '!';
function is_parsing_error(e) { return e && e.constructor && e.constructor.name == 'RbqlParsingError'; }

OPS['starcount'] = async (js, s) => enc_str(rbql.replace_star_count(dec_str(s)));
OPS['starmarker'] = async (js, s) => enc_str(rbql.replace_star_vars_for_header_parsing(dec_str(s)));
OPS['trsel'] = async (js, s) => {
    let r;
    try { r = rbql.translate_select_expression(dec_str(s)); } catch (e) { if (is_parsing_error(e)) return 'err empty'; throw e; }
    return 'ok ' + enc_str(r[0]) + ' ' + enc_str(r[1]);
};
// an input_variables_map that knows every name; the index it reports encodes the name
const any_map = new Proxy({}, {
    get(target, prop) {
        if (prop === 'hasOwnProperty') return (k) => true;
        if (typeof prop !== 'string') return undefined;
        return {initialize: true, index: '\x00' + enc_str(prop) + '\x00'};
    },
    has(target, prop) { return true; }
});
OPS['updpairs'] = async (js, s) => {
    let code;
    try { code = rbql.translate_update_expression(dec_str(s), any_map, [], ''); } catch (e) { if (is_parsing_error(e)) return 'err notassign'; throw e; }
    const rgx = /safe_set\(up_fields, \x00([^\x00]*)\x00, /g;
    let ms = [];
    let m;
    while ((m = rgx.exec(code)) !== null) ms.push(m);
    let pairs = [];
    for (let i = 0; i < ms.length; i++) {
        const end = i + 1 < ms.length ? ms[i + 1].index : code.length;
        let rhs = code.substring(ms[i].index + ms[i][0].length, end);
        const tail = i + 1 < ms.length ? ');\n' : ');';
        if (!rhs.endsWith(tail)) throw new Error('unexpected update code: ' + JSON.stringify(code));
        rhs = rhs.substring(0, rhs.length - tail.length);
        pairs.push([dec_str(ms[i][1]), rhs]);
    }
    return 'ok ' + enc_table(pairs);
};
function var_nums(fn, s, pfx) {
    let d = {};
    fn(dec_str(s), dec_str(pfx), d);
    let nums = Object.values(d).map(v => v.index + 1);
    nums.sort((a, b) => a - b);
    return enc_nats(nums);
}
OPS['basicvars'] = async (py, pfx, s) => var_nums(rbql.parse_basic_variables, s, pfx);
OPS['arrayvars'] = async (pfx, s) => var_nums(rbql.parse_array_variables, s, pfx);
function enc_info(ci) {
    if (ci === null || ci === undefined) return 'O';
    if (ci.is_star) return 'S' + (ci.table_name === null ? '*' : ci.table_name);
    if (ci.alias_name !== null && ci.column_name === null) return 'A' + enc_str(ci.alias_name);
    if (ci.column_name !== null) return 'N' + enc_str(ci.column_name);
    if (ci.column_index !== null) return ci.column_index < 0 ? 'O' : 'F' + ci.table_name + ci.column_index;
    return 'O';
}
function bracket_error(e) {
    const msg = String(e && e.message);
    let m = /No matching opening bracket for closing "(.)"/.exec(msg);
    if (m) return 'err open ' + enc_str(m[1]);
    m = /No matching closing bracket for opening "(.)"/.exec(msg);
    if (m) return 'err close ' + enc_str(m[1]);
    return null;
}
OPS['colinfos'] = async (s, lits) => {
    let infos;
    try { infos = rbql.adhoc_parse_select_expression_to_column_infos(dec_str(s), dec_list(lits)); } catch (e) { const b = bracket_error(e); if (b) return b; throw e; }
    return 'ok ' + infos.map(enc_info).join(' ');
};
OPS['selinfos'] = async (js, s, lits) => {
    let r;
    try { r = rbql.translate_select_expression(dec_str(s)); } catch (e) { if (is_parsing_error(e)) return 'err empty'; throw e; }
    let infos;
    try { infos = rbql.adhoc_parse_select_expression_to_column_infos(r[1], dec_list(lits)); } catch (e) { const b = bracket_error(e); if (b) return b; throw e; }
    return 'ok ' + infos.map(enc_info).join(' ');
};

function enc_varmap(d) {
    const keys = Object.keys(d);
    if (!keys.length) return 'ok ~';
    return 'ok ' + keys.map(k => enc_str(k) + '=' + (d[k].initialize ? '1' : '0') + ':' + d[k].index).join(' ');
}
OPS['dictvars'] = async (js, pfx, query, names) => { let d = {}; rbql.parse_dictionary_variables(dec_str(query), dec_str(pfx), dec_list(names), d); return enc_varmap(d); };
OPS['attrvars'] = async (js, pfx, query, names) => {
    let d = {};
    try { rbql.parse_attribute_variables(dec_str(query), dec_str(pfx), dec_list(names), 'table header', d); } catch (e) { if (is_parsing_error(e)) return 'err notfound'; throw e; }
    return enc_varmap(d);
};

function dec_map(t) { let d = {}; for (const r of base.dec_table(t)) d[r[0]] = {initialize: true, index: parseInt(r[1])}; return d; }
OPS['joinresolve'] = async (inm, jm, pairs) => {
    let r;
    try { r = rbql.resolve_join_variables(dec_map(inm), dec_map(jm), base.dec_table(pairs), []); } catch (e) {
        if (!is_parsing_error(e)) throw e;
        const msg = String(e.message);
        return msg.indexOf('mbiguous') != -1 ? 'err ambiguous' : msg.indexOf('Input table does not have') != -1 ? 'err no-input-field' : msg.indexOf('Join table does not have') != -1 ? 'err no-join-field' : 'err other';
    }
    const enc_l = r[0].length ? r[0].map(x => x == 'NR' ? 'N' : /record_a, (\d+)\)/.exec(x)[1]).join(',') : '!';
    const enc_r = r[1].length ? r[1].map(x => x == -1 ? 'N' : String(x)).join(',') : '!';
    return 'ok ' + enc_l + ' ' + enc_r;
};
OPS['exceptcols'] = async (js, inm, text) => {
    let r;
    try { r = rbql.translate_except_expression(dec_str(text), dec_map(inm), [], null); } catch (e) { if (is_parsing_error(e)) return 'err unknown'; throw e; }
    const m = /^select_except\(record_a, \[([0-9,]*)\]\)$/.exec(r[1]);
    return 'ok ' + (m[1] ? m[1] : '!');
};
OPS['seplitjs'] = async (t) => { const r = rbql.separate_string_literals(dec_str(t)); return enc_str(r[0]) + ' ' + enc_list(r[1]); };

OPS['tablevars'] = async (js, pfx, query, names, norm, width) => {
    const ns = names === 'N' ? null : dec_list(names.slice(1));
    const table = width === '~' ? [] : [Array(parseInt(width)).fill('x')];
    const it = new rbql.TableIterator(table, ns, norm === '1', dec_str(pfx));
    let d;
    try { d = await it.get_variables_map(dec_str(query)); } catch (e) {
        const msg = String(e && e.message);
        if (msg.indexOf('different lengths') != -1) return 'err width';
        if (msg.indexOf('Unable to use column name') != -1) return 'err badname';
        if (is_parsing_error(e)) return 'err notfound';
        throw e;
    }
    return enc_varmap(d);
};

// the REAL parse_number of rbql.js, reached through a one-record MAX query (the function itself is not exported)
OPS['jsnum'] = async (s) => {
    const out = [];
    try {
        await rbql.query_table('select MAX(a1)', [[dec_str(s)]], out, []);
    } catch (e) {
        if (String(e && e.message).indexOf('Unable to convert value') != -1) return 'BAD';
        throw e;
    }
    const v = out[0][0];
    if (typeof v !== 'number') return 'OTHER';
    return Number.isFinite(v) ? 'R' + String(v) : 'NF';
};

// get_variables_map of the REAL rbql_csv.js record iterator over a stream whose first line is the header
OPS['itervars'] = async (kind, js, pfx, query, names, norm) => {
    if (kind !== 'csv') return 'err kind';
    const {Readable} = require('stream');
    const rbql_csv = require(path.join(repo, 'rbql-js', 'rbql_csv.js'));
    const csv_utils = require(path.join(repo, 'rbql-js', 'csv_utils.js'));
    const ns = names === 'N' ? null : dec_list(names.slice(1));
    const text = ns === null ? 'x,y\n' : ns.map(n => csv_utils.rfc_quote_field(n, ',')).join(',') + '\nx\n';
    const it = new rbql_csv.CSVRecordIterator(Readable.from([Buffer.from(text, 'utf-8')]), null, 'utf-8', ',', 'quoted_rfc', ns !== null, null, 'input', dec_str(pfx));
    let d;
    try { d = await it.get_variables_map(dec_str(query)); } catch (e) {
        if (is_parsing_error(e)) return 'err notfound';
        throw e;
    }
    return enc_varmap(d);
};
