"""C14 — Errors name the first offending record; warnings appear iff the anomaly occurred.

(a) one poisoned record at every position k of tables of 1..6 rows x every clause that can evaluate
    it (SELECT item, WHERE, ORDER BY, GROUP BY, aggregate argument, UPDATE right-hand side and target,
    JOIN key on either side): Lean `run` vs REAL rbql.query, canonical error = (class, record, field);
(b) mistakes detectable from the query text: must be reported as parsing (or syntax) errors with NO
    write call on the user's writer (direct oracle on the implementation);
(c) warnings exact: field-count warning (with its record numbers) via the engine tie, CSV-level
    warnings (None written, delimiter in simple output, BOM, defective quoting, quoted_rfc error) via the
    writer/reader ties on tables with and without each anomaly."""
import json
import random

import common
import csvgen
import engine_corr
import qgen
from common import enc_str

RULE = ('(a) poison at every position k=1..n of tables with n=1..6 rows x 9 clause kinds; (b) battery of statically wrong queries; '
        '(c) tables/files with and without each anomaly. non-trivial iff the case contains a poisoned record or an anomaly; distinct = distinct case')


def poison_cases():
    cases = []
    for n in range(1, 7):
        for k in range(1, n + 1):
            # good rows have 3 fields; the poisoned row k has only 1, so a3 is None there and a3-dependent code raises
            A = [['g%d' % (i % 2), str(i), 'v%d' % i] for i in range(1, n + 1)]
            A[k - 1] = ['g0', 'oops']   # a2 is not numeric, a3 is missing
            B = [['g0', 'p', 'P'], ['g1', 'q', 'Q']]
            poison = ['len', ['a', 2]]
            shapes = [
                {'items': [{'e': ['a', 0]}, {'e': poison}]},
                {'items': ['star'], 'where': ['lt', poison, ['lit', qgen.num(9)]]},
                {'items': [{'e': ['a', 0]}], 'order': [poison]},
                {'items': [{'agg': 'count', 'e': ['lit', qgen.num(1)]}], 'group': [poison]},
                {'items': [{'agg': 'sum', 'e': poison}]},
                {'items': [{'agg': 'max', 'e': ['a', 1]}]},             # numeric conversion of a non-numeric string
                {'items': [{'agg': 'min', 'e': ['a', 1]}]},
                {'items': [{'e': ['a', 0]}, {'agg': 'min', 'e': ['a', 1]}], 'group': [['a', 0]]},
                {'items': [{'agg': 'sum', 'e': ['a', 1]}]},
                {'items': [{'e': ['a', 0]}, {'agg': 'sum', 'e': ['a', 1]}], 'group': [['a', 0]]},
                {'items': [{'agg': 'avg', 'e': ['a', 1]}]},
                {'items': [{'e': ['a', 0]}, {'agg': 'avg', 'e': ['a', 1]}], 'group': [['a', 0]]},
                {'items': [{'agg': 'variance', 'e': ['a', 1]}]},
                {'items': [{'e': ['a', 0]}, {'agg': 'variance', 'e': ['a', 1]}], 'group': [['a', 0]]},
                {'items': [{'agg': 'median', 'e': ['a', 1]}]},
                {'items': [{'e': ['a', 0]}, {'agg': 'median', 'e': ['a', 1]}], 'group': [['a', 0]]},
                {'items': [{'agg': 'count', 'e': poison}], 'group': [['a', 0]]},
                {'items': [{'agg': 'array_agg', 'e': poison}], 'group': [['a', 0]]},
                {'items': [{'agg': 'any_value', 'e': poison}], 'group': [['a', 0]]},
                {'items': [{'agg': 'median', 'e': poison}], 'group': [['a', 0]]},
                {'items': [{'agg': 'min', 'e': poison}], 'group': [['a', 0]]},
                {'update': True, 'items': [], 'assigns': [[0, ['concat', ['a', 2], ['lit', '!']]]]},
                {'update': True, 'items': [], 'assigns': [[2, ['lit', 'new']]]},     # assigning to a field the record does not have
                {'items': [{'e': ['a', 0]}, {'e': ['b', 1]}], 'join': {'kind': 'inner', 'lhs': [2], 'rhs': [0]}},   # join key on a missing field
                {'items': [{'e': ['a', 0]}], 'join': {'kind': 'strict', 'lhs': [0], 'rhs': [1]}},
                {'items': [{'e': ['concat', ['a', 1], ['lit', 'x']]}], 'top': k},
            ]
            for q in shapes:
                cases.append({'q': q, 'A': A, 'B': B if q.get('join') else None})
            # ragged B: the offending record is in the join table
            Bbad = [['g0', 'p']] * (k - 1) + [['g1']] + [['g0', 'q']] * (n - k)
            cases.append({'q': {'items': ['star'], 'join': {'kind': 'left', 'lhs': [0], 'rhs': [1]}}, 'A': A, 'B': Bbad})
    return cases


STATIC_ERRORS = [
    'select', 'select a1 where a1 = "x"', 'update a1', 'update a1 = 1 order by a1', 'select a1 order by a1 group by a2', 'select a1 limit x',
    'select a1 join', 'select a1 join b on a1', 'select a1 join b on a1 == b1 and', 'select a1 join c on a1 == c1', 'select a1 select a2',
    'select a1 where a2 == 1 where a1 == 2', 'select * except a9x', 'select * except a1 join b on a1 == b1', 'select a1, (a2', 'select a1 a2 a3',
    'delete a1', 'select top 2 a1 limit 3 limit 4', 'update set zz = 5', 'select a1 as x, *',
    'select a1, count(*) group by a1 order by a1', 'select count(*) group by a1 order by a1 desc', 'update set a1 = 1 group by a1',
    'select UNNEST(a1.split(";")), UNNEST(a2.split(";"))', 'select max(a1) + 1', 'select distinct count(*)', 'select a1, count(*) order by a1',
]
# the last four are found when the first record is evaluated (the select list has to run); every other mistake is found in the query TEXT, so it is reported
# whatever the data are — on an empty table and when WHERE lets nothing through as well
DYNAMIC_STATIC_ERRORS = STATIC_ERRORS[-4:]


def static_error_check(res):
    code = r'''
import sys, json
from rbql import rbql_engine
class W(rbql_engine.RBQLOutputWriter):
    def __init__(self): self.writes = 0
    def write(self, f): self.writes += 1; return True
out = []
for q, A in json.loads(sys.argv[1]):
    w = W()
    it = rbql_engine.TableIterator(A, None)
    reg = rbql_engine.ListTableRegistry([rbql_engine.ListTableInfo('b', [['1', 'p']], None)])
    try:
        rbql_engine.query(q, it, w, [], reg)
        out.append(['no-error', w.writes])
    except Exception as e:
        out.append([rbql_engine.exception_to_error_info(e)[0], w.writes, type(e).__name__])
print(json.dumps(out, default=repr))
'''
    import subprocess
    full = [['1', 'x;y', 'u'], ['2', 'z', 'v']]
    jobs = [(q, full) for q in STATIC_ERRORS]
    for q in STATIC_ERRORS:
        if q not in DYNAMIC_STATIC_ERRORS:
            jobs.append((q, []))
            jobs.append((q, [['nothing', 'passes', 'here']]) if ' where ' in q else (q.replace(' group by', ' where a1 == "never" group by', 1) if ' group by' in q and q.startswith('select') and ' order by a1 group' not in q else q, [['1', 'x', 'u']]))
    r = subprocess.run([common.PY, '-W', 'ignore', '-c', code, json.dumps(jobs)], env=common.impl_env(), stdout=subprocess.PIPE, stderr=subprocess.PIPE, timeout=120)
    try:
        out = json.loads(r.stdout.decode())
    except ValueError:
        out = [['harness-failure', 0, r.stderr.decode()[-200:]]] * len(jobs)
    res.evaluations += len(jobs)
    nbad = 0
    for (q, _A), o in zip(jobs, out):
        res.count('static_error_class=' + str(o[0]))
        ok = o[0] in ('query parsing', 'syntax error') and o[1] == 0
        if q == 'select a1, (a2' or q == 'select a1 a2 a3':
            ok = o[0] in ('query parsing', 'syntax error') and o[1] == 0
        if not ok:
            nbad += 1
            res.violations.append({'property': 'C14', 'impl': 'py', 'why': 'a mistake detectable from the query text was not reported as a parsing/syntax error before any write',
                                   'query_py': q, 'A': _A, 'observed_class_writes_exception': o, 'case_key': 'C14|static|%s|%d' % (q, len(_A))})
    res.count('static_error_failures', nbad)


WIDTH_IMPL = r'''
import sys, json
import rbql
from rbql import rbql_engine
out = []
for q, names, jnames, norm in json.loads(sys.argv[1]):
    res = []
    try:
        rbql.query_table(q, [['1', 'x'], ['2', 'y']], res, [], [['1', 'p'], ['2', 'r']], names, jnames, normalize_column_names=norm)
        out.append(['no-error', len(res)])
    except Exception as e:
        out.append([rbql_engine.exception_to_error_info(e)[0], len(res), str(e)[:80]])
print(json.dumps(out))
'''


def width_mismatch_check(res):
    """a list of column names that does not fit the table (input or join, normalised or direct mode) is inconsistent input: an IO-handling error, in both modes,
    before anything is written"""
    import subprocess
    jobs = []
    for norm in (True, False):
        for names, jnames in ((['id'], None), (['id', 'name', 'extra'], None), (['id', 'name'], ['k']), (['id', 'name'], ['k', 'v', 'w']), (None, ['k'])):
            for q in ('select a1', 'select a1, b1 join b on a1 == b1'):
                jobs.append((q, names, jnames, norm))
    r = subprocess.run([common.PY, '-W', 'ignore', '-c', WIDTH_IMPL, json.dumps(jobs)], env=common.impl_env(), stdout=subprocess.PIPE, stderr=subprocess.PIPE, timeout=120)
    try:
        outs = json.loads(r.stdout.decode().strip().split('\n')[-1])
    except (ValueError, IndexError):
        raise RuntimeError('C14 width driver failed: ' + r.stderr.decode()[-300:])
    nbad = 0
    for (q, names, jnames, norm), o in zip(jobs, outs):
        res.evaluations += 1
        res.nontrivial.add(('width', q, json.dumps([names, jnames, norm])))
        input_bad = names is not None and len(names) != 2
        join_bad = jnames is not None and len(jnames) != 2 and ' join ' in q
        want_err = input_bad or join_bad
        ok = (o[0] == 'IO handling' and o[1] == 0) if want_err else (o[0] == 'no-error')
        if not ok:
            nbad += 1
            if nbad <= 3:
                res.violations.append({'property': 'C14', 'impl': 'py', 'why': 'column names that do not fit the table must be refused with an IO-handling error (both name modes), consistent ones accepted',
                                       'query': q, 'input_column_names': names, 'join_column_names': jnames, 'normalize_column_names': norm, 'observed': o,
                                       'case_key': 'C14|width|%s|%s' % (q, json.dumps([names, jnames, norm]))})
    res.count('width_mismatch_cases', len(jobs))
    res.count('width_mismatch_failures', nbad)


def csv_anomaly_lines():
    lines = []
    # writer-side: None in output, delimiter in simple output (with and without the anomaly)
    import corr_C10
    for pol, d in (('simple', ','), ('simple', '\t'), ('quoted', ','), ('whitespace', ' '), ('quoted', '|'), ('quoted_rfc', ';')):
        for table in ([['a', 'b']], [['a', None]], [['a,b', 'c']], [['a b', 'c']], [['a\tb', 'c']], [[None, 'x,y'], ['p', 'q']], [['a', 'b'], ['c', 'd']],
                      # list-valued cells (split / ARRAY_AGG / list literals): a None INSIDE the list is a None written to CSV as well
                      [['a', ['x', 'y']]], [['a', ['x', None]]], [[[None], 'b']], [[[], 'b']], [['a', ['x', 'y']], ['c', [None, None, 'z']]], [[['p|q', 'r;s'], 'b']]):
            for js, enc in ((0, 'none'), (1, 'utf-8')):
                lines.append('roundtrip %s %d %s %s %s %s' % (pol, js, enc, enc_str(d), enc_str('\n'), corr_C10.enc_cell_table(table)))
    # reader-side: BOM, defective quoting (warning under quoted, IO error under quoted_rfc), field counts with record numbers
    texts = ['a,b\nc,d\n', '﻿a,b\nc,d\n', 'a,b\nc"x,d\n', 'a,"b"x\n', 'a,b\nc\nd,e,f\n', 'a\nb,c\nd\n', '"a\nb",c\nd,"e"f\n', 'a,b\n#x\nc\n', '"a,b\n', 'x,"y""z",w\n']
    for t in texts:
        for pol in ('quoted', 'quoted_rfc', 'simple'):
            for comment in ('~', '23'):
                lines.append('readpy %s %s 0 n 4 2c %s %s' % (pol, 'utf-8' if '﻿' in t else 'none', comment, enc_str(t) if '﻿' not in t else enc_str(t)))
    return lines


COLOR_IMPL = r"""
import sys, json, io
from rbql import rbql_csv
out = []
for delim, policy, table in json.loads(sys.stdin.read()):
    st = io.StringIO()
    w = rbql_csv.CSVWriter(st, False, None, delim, policy, colorize_output=True)
    for r in table:
        w.write(list(r))
    w.finish()
    out.append([('separator' in x) for x in w.get_warnings()].count(True))
print(json.dumps(out))
"""


def color_writer_check(res):
    """the colourised writer (terminal output of the command line) checks the separator BEFORE joining: the warning must appear iff some
    field of SOME record contains the delimiter, wherever that record is (direct oracle; single-character delimiters)"""
    import itertools
    import subprocess
    import common
    cases = []
    for delim, policy in ((',', 'simple'), ('\t', 'simple'), (' ', 'whitespace')):
        bad = 'x' + delim + 'y'
        for n in (1, 2, 3, 4):
            for poisoned in itertools.product([False, True], repeat=n):
                table = [['a%d' % i, bad if p else 'ok', 'z'] for i, p in enumerate(poisoned)]
                cases.append((delim, policy, table, any(poisoned)))
    r = subprocess.run([common.PY, '-W', 'ignore', '-c', COLOR_IMPL], input=json.dumps([c[:3] for c in cases]).encode(), env=common.impl_env(), stdout=subprocess.PIPE, stderr=subprocess.PIPE, timeout=300)
    try:
        outs = json.loads(r.stdout.decode().strip().split('\n')[-1])
    except (ValueError, IndexError):
        raise RuntimeError('C14 colour driver failed: ' + r.stderr.decode()[-400:])
    res.evaluations += len(cases)
    res.exhaustive['colourised simple/whitespace writer: every subset of <= 4 records carrying the delimiter in a field'] = True
    nbad = 0
    for (delim, policy, table, want), got in zip(cases, outs):
        res.nontrivial.add(('color', delim, policy, json.dumps(table)))
        if (got > 0) != want or got > 1:
            nbad += 1
            if nbad <= 3:
                res.violations.append({'property': 'C14', 'impl': 'py', 'why': 'colourised writer: the separator-in-field warning must appear (once) iff some record carried the delimiter inside a field',
                                       'delim': delim, 'policy': policy, 'table': table, 'warning_expected': want, 'warnings_reported': got,
                                       'case_key': 'C14|color|%s|%s|%s' % (delim, policy, json.dumps(table))})
    res.count('colour_writer_cases', len(cases))


BOM_IMPL_PY = r"""
import sys, json, os, tempfile, shutil
from rbql import rbql_csv
out = []
d = tempfile.mkdtemp(prefix='rbqlverif_bom_')
try:
    for data, jdata, enc, pol, hdr, query in json.loads(sys.stdin.read()):
        inp, outp, jp = os.path.join(d, 'in.csv'), os.path.join(d, 'out.csv'), os.path.join(d, 'j.csv')
        open(inp, 'wb').write(bytes(data)); open(jp, 'wb').write(bytes(jdata))
        w = []
        try:
            rbql_csv.query_csv(query.replace('JOINFILE', jp), inp, ',', pol, outp, ',', pol, enc, w, hdr)
            out.append({'warnings': w, 'output': list(open(outp, 'rb').read())})
        except Exception as e:
            out.append({'error': type(e).__name__ + ': ' + str(e)[:100]})
finally:
    shutil.rmtree(d, ignore_errors=True)
print(json.dumps(out))
"""

BOM_IMPL_JS = r"""
const fs = require('fs'), os = require('os'), path = require('path');
const rbql_csv = require(process.env.VERIF_REPO + '/rbql-js/rbql_csv.js');
(async () => {
    const cases = JSON.parse(fs.readFileSync(0, 'utf-8')); const out = [];
    const d = fs.mkdtempSync(path.join(os.tmpdir(), 'rbqlverif_bomjs_'));
    for (const [data, jdata, enc, pol, hdr, query] of cases) {
        const inp = path.join(d, 'in.csv'), outp = path.join(d, 'out.csv'), jp = path.join(d, 'j.csv');
        fs.writeFileSync(inp, Buffer.from(data)); fs.writeFileSync(jp, Buffer.from(jdata));
        const w = [];
        try {
            await rbql_csv.query_csv(query.replace('JOINFILE', jp), inp, ',', pol, outp, ',', pol, enc, w, hdr);
            out.push({warnings: w, output: Array.from(fs.readFileSync(outp))});
        } catch (e) { out.push({error: String(e).slice(0, 100)}); }
    }
    fs.rmSync(d, {recursive: true, force: true});
    console.log(JSON.stringify(out));
})();
"""


def bom_end_to_end_check(res):
    """query_csv on FILES (bytes through the real decoder): the BOM warning appears iff the table's bytes begin with EF BB BF,
    names the right table, and the mark never reaches the output (direct oracle, both ports, utf-8 and latin-1)"""
    import subprocess
    import common
    BOM = [0xef, 0xbb, 0xbf]
    body = list('k1,x\nk2,y\n'.encode())
    jbody = list('k1,J1\nk2,J2\n'.encode())
    cases = []
    for enc in ('utf-8', 'latin-1'):
        for pol in ('quoted', 'simple', 'quoted_rfc'):
            for hdr in (False, True):
                for ib in (False, True):
                    for jb in (False, True):
                        for query in ('select *', 'select a1, b2 join JOINFILE on a1 == b1', 'select a1 where a1 == "k1"', 'select count(*)'):
                            if 'join' not in query and jb:
                                continue
                            cases.append(((BOM if ib else []) + body, (BOM if jb else []) + jbody, enc, pol, hdr, query, ib, jb))
    payload = json.dumps([c[:6] for c in cases]).encode()
    for impl in ('py', 'js'):
        if impl == 'py':
            r = subprocess.run([common.PY, '-W', 'ignore', '-c', BOM_IMPL_PY], input=payload, env=common.impl_env(), stdout=subprocess.PIPE, stderr=subprocess.PIPE, timeout=600)
        else:
            r = subprocess.run(['node', '-e', BOM_IMPL_JS], input=payload, env=common.impl_env(), stdout=subprocess.PIPE, stderr=subprocess.PIPE, timeout=600)
        try:
            outs = json.loads(r.stdout.decode().strip().split('\n')[-1])
        except (ValueError, IndexError):
            raise RuntimeError('C14 BOM driver (%s) failed: %s' % (impl, r.stderr.decode()[-400:]))
        nbad = 0
        for c, o in zip(cases, outs):
            res.evaluations += 1
            res.nontrivial.add(('bom', impl, json.dumps(c[2:])))
            why = None
            if 'error' in o:
                why = 'query_csv failed: ' + o['error']
            else:
                wi = [w for w in o['warnings'] if 'BOM' in w and 'in input table' in w]
                wj = [w for w in o['warnings'] if 'BOM' in w and 'in input table' not in w]       # the join table is named by its path
                if (len(wi) == 1) != c[6] or len(wi) > 1:
                    why = 'BOM warning for the input table: expected %s, warnings %s' % (c[6], o['warnings'])
                elif (len(wj) == 1) != c[7] or len(wj) > 1:
                    why = 'BOM warning for the join table: expected %s, warnings %s' % (c[7], o['warnings'])
                elif bytes(BOM) in bytes(o['output']) or '﻿'.encode() in bytes(o['output']) or 'ï»¿'.encode() in bytes(o['output']):
                    why = 'the byte order mark reached the output'
            if why:
                nbad += 1
                if nbad <= 3:
                    res.violations.append({'property': 'C14', 'impl': impl, 'why': why, 'input_bytes': c[0], 'join_bytes': c[1], 'encoding': c[2], 'policy': c[3], 'with_headers': c[4],
                                           'query': c[5], 'observed': o, 'case_key': 'C14|bom|%s|%s' % (impl, json.dumps(c[2:]))})
        res.count('bom_end_to_end_cases_' + impl, len(cases))
        res.count('bom_end_to_end_failures_' + impl, nbad)


def run(res, tier, seed):
    res.rule = RULE
    color_writer_check(res)
    bom_end_to_end_check(res)
    res.assumptions = ['host exceptions (TypeError text, UnicodeDecodeError) are classified, not modelled']
    cases = poison_cases()
    rnd = random.Random(seed * 9576890 + 14)
    # random positions in random tables with ragged rows (field-count warnings with record numbers; full scans only)
    for _ in range(5000 if tier == 'quick' else 40000):
        A = qgen.gen_table(rnd, nrows=rnd.randint(0, 6), ncols=rnd.randint(1, 3), ragged=0.4, none_p=0.1)
        q = rnd.choice([{'items': ['star']}, {'items': [{'e': ['nf']}]}, {'items': [{'e': ['a', 0]}], 'where': ['ne', ['a', 0], ['lit', 'x']]},
                        {'update': True, 'items': [], 'assigns': [[0, ['lit', 'u']]]}])
        cases.append({'q': q, 'A': A, 'B': None})
    # JOIN keys: a key cell that EXISTS but holds None is a value (it joins with None keys of B), a key cell that is MISSING is the offending field of
    # that record — the two must not be confused in the error that names the record and the field
    for _ in range(600 if tier == 'quick' else 6000):
        A = qgen.gen_table(rnd, nrows=rnd.randint(1, 5), ncols=2, ragged=0.3, none_p=0.3, pool=['k1', 'k2', 'x'])
        B = qgen.gen_table(rnd, nrows=rnd.randint(0, 4), ncols=2, ragged=rnd.choice([0.0, 0.4]), none_p=0.2, full_cols=0, pool=['k1', 'k2', 'v'])        # a ragged join table: its field-count warning must appear
        kind = rnd.choice(['inner', 'left', 'strict'])
        q = rnd.choice([{'items': [{'e': ['a', 0]}, {'e': ['b', 1]}], 'join': {'kind': kind, 'lhs': [1], 'rhs': [0]}},
                        {'items': ['star'], 'join': {'kind': kind, 'lhs': [0, 1], 'rhs': [0, 1]}},
                        {'update': True, 'items': [], 'assigns': [[0, ['b', 1]]], 'join': {'kind': 'inner' if kind == 'strict' else kind, 'lhs': [1], 'rhs': [0]}}])
        cases.append({'q': q, 'A': A, 'B': B})
    for c in cases:
        res.nontrivial.add(json.dumps([c['q'], c['A'], c['B']], sort_keys=True))
    for c in cases[:2] + cases[-2:]:
        res.sample({'query': qgen.render_query(c['q'], 'py'), 'A': c['A'], 'B': c['B']})
    engine_corr.run_cases(res, 'C14', cases, 'py')
    static_error_check(res)
    width_mismatch_check(res)
    lines = csv_anomaly_lines()
    # the BOM cases must reach the reader as text with encoding utf-8: use readboth-free path (pieces as text need enc none); keep enc none for text
    lines = [l.replace(' utf-8 ', ' none ') for l in lines]
    jslines = [l for l in lines if l.startswith('roundtrip ') and l.split(' ')[2] == '1']
    lines = [l for l in lines if l not in jslines]
    badjs = common.differential(res, jslines, impls=('js',))
    for b in badjs[:5]:
        res.violations.append({'property': 'C14', 'impl': 'js', 'why': 'CSV-level warning/error differs from the model', 'line': b['line'], 'model_says': b['model'], 'impl_says': b['got'],
                               'case_key': 'C14|csv|' + b['line']})
    res.count('csv_anomaly_cases_js', len(jslines))
    res.count('csv_anomaly_disagreements_js', len(badjs))
    bad = common.differential(res, lines, impls=('py',))
    for b in bad[:5]:
        res.violations.append({'property': 'C14', 'impl': 'py', 'why': 'CSV-level warning/error differs from the model', 'line': b['line'], 'model_says': b['model'], 'impl_says': b['got'],
                               'case_key': 'C14|csv|' + b['line']})
    res.count('csv_anomaly_cases', len(lines))
    res.count('csv_anomaly_disagreements', len(bad))


def replay(res, path):
    v = json.loads(open(path).read())
    if v.get('line', '').startswith('query '):
        return engine_corr.replay(res, path)
    return common.replay_generic(res, path)
