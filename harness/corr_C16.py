"""C16 — Queries are isolated: consecutive and thread-interleaved runs do not interfere.

(1) GENERATED obligation: tools/shared_state_scan.py re-derives the shared-state footprint of rbql_engine.py
    on every run (lean/Rbql/Generated/SharedState.lean); theorem C16_no_shared_writes must still check;
(2) two threads under a cooperative scheduler that hands control over at every get_record / write / finish call:
    ALL interleavings of two queries of different kinds over tables of <= 2 records (quick; <= 3 thorough), each
    result compared with the result of the same query run alone in a fresh interpreter;
(3) ALL sequences of <= 3 (quick) / <= 4 (thorough) queries from a pool of succeeding / parse-error / runtime-error
    scenarios in one interpreter, each result compared with the fresh-interpreter result; the solo results are also
    compared with the Lean model (engine tie)."""
import itertools
import json
import subprocess
from concurrent.futures import ThreadPoolExecutor

import common
import engine_corr
import qgen

RULE = ('(2) all C(k1+k2,k1) interleavings of the get_record/write/finish steps of two queries of different kinds (select+where, update, sorted, aggregate, join, '
        'distinct count, unnest, runtime error) over <= 2 (3) records; (3) all sequences of <= 3 (4) queries from a pool of 7 incl. parsing and runtime errors. '
        'non-trivial iff the schedule really alternates (both queries take steps between each other\'s); distinct = distinct (pair, schedule) or sequence')

POOL = [
    ('select', {'items': [{'e': ['a', 0]}, {'e': ['concat', ['a', 1], ['lit', '!']]}], 'where': ['ne', ['a', 0], ['lit', 'skip']]}, False),
    ('update', {'update': True, 'items': [], 'assigns': [[1, ['concat', ['lit', 'u'], ['a', 0]]]]}, False),
    ('sorted', {'items': [{'e': ['a', 1]}, {'e': ['nr']}], 'order': [['a', 1]], 'desc': True}, False),
    ('aggregate', {'items': [{'e': ['a', 0]}, {'agg': 'count', 'e': ['lit', qgen.num(1)]}, {'agg': 'array_agg', 'e': ['a', 1]}], 'group': [['a', 0]]}, False),
    ('join', {'items': [{'e': ['a', 0]}, {'e': ['b', 1]}], 'join': {'kind': 'left', 'lhs': [0], 'rhs': [0]}}, True),
    ('dcount', {'items': [{'e': ['a', 0]}], 'distinct': 'count'}, False),
    ('unnest', {'items': [{'e': ['nr']}, {'unnest': ['split', ['a', 1], ';']}]}, False),
    ('like', {'items': [{'e': ['a', 0]}], 'where': ['like', ['a', 1], '%;%']}, False),
    ('rterror', {'items': [{'e': ['len', ['a', 5]]}]}, False),
]
PROBES = [('probe-recursion', 'select deep(1500), a1', 'def deep(n):\n    return 0 if n == 0 else 1 + deep(n - 1)\n'),
          ('probe-cwd-env', 'select os.getcwd() == os.path.realpath(os.getcwd()), len(sys.path) < 1000, sys.getswitchinterval() < 1, a1', 'import os, sys\n')]
# failures at every stage: shallow parse, header synthesis, compile() of the main loop (WHERE / ORDER BY / UPDATE text), join table lookup,
# first record, later record, finish
STAGE_FAILURES = [('fail-compile-where', 'select a1 where a1 = 1'), ('fail-compile-order', 'select a1 order by a1 a2'), ('fail-compile-update', 'update set a1 = (1'),
                  ('fail-header', 'select a1, (a2'), ('fail-join-table', 'select a1 join zz on a1 == zz1'), ('fail-first-record', 'select int(a1)'),
                  ('fail-late-record', 'select a1 where 1 // (2 - NR)'), ('fail-join-key', 'select a1, b2 strict left join b on a1 == b1')]
PARSE_ERRORS = ['select a1 where a1 = 1', 'select', 'select a1 join zz on a1 == b1']
CONTEXT_VARIANTS = [
    ('ctx-named-1', 'select a.name, a.id where a.id != "k2"', [['k1', 'ann', 'p'], ['k2', 'bob', 'q'], ['k3', 'cid', 'r']], ['id', 'name', 'team'], None, None),
    ('ctx-named-2', 'select a.name, a.id where a.id != "k2"', [['eve', 'qa', 'k2'], ['fay', 'qa', 'k7']], ['name', 'team', 'id'], None, None),
    ('ctx-join-1', 'select a1, b.v join b on a1 == b.k', [['k1', 'x'], ['k2', 'y']], None, [['k1', 'B1'], ['k2', 'B2']], ['k', 'v']),
    ('ctx-join-2', 'select a1, b.v join b on a1 == b.k', [['k1', 'x'], ['k2', 'y']], None, [['B1', 'k1'], ['B2', 'k2']], ['v', 'k']),
    # the same select list with and without DISTINCT COUNT (the count column is prepended to the column infos), and with aliases
    ('ctx-dcount', 'select distinct count a.name, a.id', [['k1', 'ann'], ['k2', 'bob'], ['k1', 'ann']], ['id', 'name'], None, None),
    ('ctx-plain-list', 'select a.name, a.id', [['k1', 'ann'], ['k2', 'bob']], ['id', 'name'], None, None),
    ('ctx-alias-list', 'select a.name as who, a.id', [['k1', 'ann']], ['id', 'name'], None, None),
    # the same aggregate over native numbers and over numeric strings (what a number handler decides on its first value must not survive)
    ('ctx-avg-native', 'select a1, AVG(a2), SUM(a2), VARIANCE(a2) group by a1', [['p', 1], ['p', 2], ['q', 5]], None, None, None),
    ('ctx-avg-str', 'select a1, AVG(a2), SUM(a2), VARIANCE(a2) group by a1', [['p', '1'], ['p', '2'], ['q', '5']], None, None, None),
    ('ctx-minmax-native', 'select MIN(a2), MAX(a2), MEDIAN(a2)', [['p', 3], ['p', 10]], None, None, None),
    ('ctx-minmax-str', 'select MIN(a2), MAX(a2), MEDIAN(a2)', [['p', '3'], ['p', '10']], None, None, None),
    ('ctx-update-1', 'update set a.name = a.name + "!"', [['k1', 'ann']], ['id', 'name'], None, None),
    ('ctx-update-2', 'update set a.name = a.name + "!"', [['ann', 'k1']], ['name', 'id'], None, None),
]
TABLES = {2: [['k1', 'x;y'], ['k2', 'z']], 3: [['k1', 'x;y'], ['k2', 'z'], ['k1', 'w;v;u']]}
BTABLE = [['k1', 'B1'], ['k1', 'B2']]

IMPL = r'''
import sys, json, threading, itertools
from rbql import rbql_engine

mode = sys.argv[1]
arg = json.loads(sys.stdin.read())
REAL_STDOUT, REAL_STDERR, REAL_STDIN = sys.stdout, sys.stderr, sys.stdin

def std_streams_problem():
    # interpreter-wide objects a query has no business replacing: checked after every run, restored so that the report still gets out
    bad = [n for n, o, r in (('sys.stdout', sys.stdout, REAL_STDOUT), ('sys.stderr', sys.stderr, REAL_STDERR), ('sys.stdin', sys.stdin, REAL_STDIN)) if o is not r]
    sys.stdout, sys.stderr, sys.stdin = REAL_STDOUT, REAL_STDERR, REAL_STDIN
    return bad

def canon(v):
    if isinstance(v, float): return ['f', repr(v)]
    if isinstance(v, (list, tuple)): return [canon(x) for x in v]
    return v

class Sched(object):
    def __init__(self, schedule):
        self.schedule = list(schedule); self.pos = 0; self.cv = threading.Condition(); self.done = [False, False]; self.steps = [0, 0]
    def yield_point(self, tid):
        with self.cv:
            while True:
                if self.pos >= len(self.schedule) or self.done[1 - tid]:
                    break
                if self.schedule[self.pos] == tid:
                    self.pos += 1
                    break
                self.cv.wait(5.0)
            self.steps[tid] += 1
            self.cv.notify_all()
    def finish(self, tid):
        with self.cv:
            self.done[tid] = True
            self.cv.notify_all()

class It(rbql_engine.TableIterator):
    def __init__(self, table, sched, tid, header=None, prefix='a'):
        rbql_engine.TableIterator.__init__(self, table, header, True, prefix); self.sched = sched; self.tid = tid
    def get_record(self):
        if self.sched is not None: self.sched.yield_point(self.tid)
        return rbql_engine.TableIterator.get_record(self)

class Wr(rbql_engine.RBQLOutputWriter):
    def __init__(self, sched, tid): self.rows = []; self.sched = sched; self.tid = tid; self.finished = 0; self.header = None
    def set_header(self, h): self.header = None if h is None else list(h)
    def write(self, f):
        if self.sched is not None: self.sched.yield_point(self.tid)
        self.rows.append(f); return True
    def finish(self):
        if self.sched is not None: self.sched.yield_point(self.tid)
        self.finished += 1

def run_one(text, table, btable, sched=None, tid=0, header=None, bheader=None, init='', shared=None):
    if sched is not None and shared is None:
        sched.yield_point(tid)        # the START of a query is a scheduling point too: parsing (and the join-table read in the middle of it) can be interleaved with the other query
    if shared is not None:
        # the caller's OBJECTS are handed to every query of the sequence: the same input table, the same join table, ONE registry object
        it = It(table, sched, tid, header); w = Wr(sched, tid); warnings = []
        key = id(btable)
        if btable is not None and key not in shared:
            shared[key] = rbql_engine.ListTableRegistry([rbql_engine.ListTableInfo('b', btable, bheader)])
        reg = None if btable is None else shared[key]
    else:
        it = It([r[:] for r in table], sched, tid, header); w = Wr(sched, tid); warnings = []
        # the JOIN table is read through the scheduler too: the other query may run between two of its records (the join table is read in the MIDDLE of parsing)
        class JReg(rbql_engine.RBQLTableRegistry):
            def get_iterator_by_table_id(self, table_id, single_char_alias):
                return It([r[:] for r in btable], sched, tid, bheader, single_char_alias) if table_id == 'b' else None
        reg = None if btable is None else JReg()
    if ' from t1' in text:
        # the input table comes from the registry (query(.., input_iterator=None, ..)): the FROM statement must be recognised
        class Reg(rbql_engine.RBQLTableRegistry):
            def get_iterator_by_table_id(self, table_id, single_char_alias):
                if table_id == 't1' and single_char_alias == 'a': return It([r[:] for r in table], sched, tid, header)
                if table_id == 'b' and btable is not None: return rbql_engine.TableIterator([r[:] for r in btable], bheader, True, single_char_alias)
                return None
        it, reg = None, Reg()
    try:
        rbql_engine.query(text, it, w, warnings, reg, init or '')
        res = {'rows': canon(w.rows), 'finished': w.finished, 'warnings': warnings, 'header': w.header}
    except Exception as e:
        res = {'err': rbql_engine.exception_to_error_info(e)[0], 'msg': str(e)[:60]}
    if sched is not None: sched.finish(tid)
    return res

if mode == 'solo':
    text, table, btable, header, bheader = arg[:5]
    init = arg[5] if len(arg) > 5 else ''
    it = It(table, None, 0)
    # count the yield points of a solo run
    class Count(object):
        def __init__(self): self.n = 0
        def yield_point(self, tid): self.n += 1
        def finish(self, tid): pass
    c = Count()
    r = run_one(text, table, btable, c, 0, header, bheader, init)
    r['steps'] = c.n
    print(json.dumps(r, default=repr))
elif mode == 'interleave':
    (qa, qb), limit = arg
    ka, kb = qa['steps'], qb['steps']
    bad = []; n = 0; alternating = 0
    import math, random as _random
    total = math.comb(ka + kb, ka)
    if limit and total > limit:
        # too many schedules to enumerate: a seeded random sample of them (not a lexicographic prefix, which would only ever move the LAST steps around)
        _rnd = _random.Random(ka * 1000 + kb)
        def sampled():
            seen = set()
            base = [0] * ka + [1] * kb
            while len(seen) < limit:
                _rnd.shuffle(base)
                t = tuple(base)
                if t not in seen:
                    seen.add(t)
                    yield [i for i, v in enumerate(t) if v == 0]
        all_zeros = sampled()
    else:
        all_zeros = itertools.combinations(range(ka + kb), ka)
    for zeros in all_zeros:
        sched_list = [1] * (ka + kb)
        for z in zeros: sched_list[z] = 0
        n += 1
        s = Sched(sched_list)
        out = [None, None]
        def th(i, q):
            out[i] = run_one(q['text'], q['table'], q['btable'], s, i, q.get('header'), q.get('bheader'), q.get('init', ''))
        t0 = threading.Thread(target=th, args=(0, qa)); t1 = threading.Thread(target=th, args=(1, qb))
        t0.start(); t1.start(); t0.join(20); t1.join(20)
        if t0.is_alive() or t1.is_alive():
            # the two queries wait for each other (or one holds the other up for good): under this schedule they do not both finish
            stuck = qa if t0.is_alive() else qb
            bad.append({'schedule': sched_list, 'query': stuck['text'], 'solo': {k: v for k, v in stuck['solo'].items() if k != 'steps'}, 'interleaved': 'DID NOT FINISH within 20 s (the queries block each other)',
                        'other_query': (qb if stuck is qa else qa)['text']})
            print(json.dumps({'n': n, 'alternating': alternating, 'bad': bad}, default=repr))
            sys.stdout.flush()
            import os
            os._exit(0)
        replaced = std_streams_problem()
        if replaced:
            bad.append({'schedule': sched_list, 'query': qa['text'], 'solo': 'leaves the standard streams of the interpreter alone', 'interleaved': 'after the two queries finished, %s is another object than before' % ', '.join(replaced),
                        'other_query': qb['text']})
            break
        switches = sum(1 for i in range(1, len(sched_list)) if sched_list[i] != sched_list[i - 1])
        if switches >= 3: alternating += 1
        for i, q in ((0, qa), (1, qb)):
            want = {k: v for k, v in q['solo'].items() if k != 'steps'}
            if out[i] != want:
                bad.append({'schedule': sched_list, 'query': q['text'], 'solo': want, 'interleaved': out[i], 'other_query': (qb if i == 0 else qa)['text']})
                break
        if len(bad) >= 3: break
    print(json.dumps({'n': n, 'alternating': alternating, 'bad': bad}, default=repr))
elif mode in ('history', 'shared-history'):
    pool, maxlen = arg
    shared = {} if mode == 'shared-history' else None
    if shared is not None:
        canon_t = {}
        for q in pool:      # equal tables become ONE object, as a caller holding a table would pass it
            q['table'] = canon_t.setdefault('a' + json.dumps(q['table']), q['table'])
            if q['btable'] is not None:
                q['btable'] = canon_t.setdefault('b' + json.dumps(q['btable']), q['btable'])
    bad = []; n = 0
    executed = []      # every query this process has run so far, in order: the true history of each comparison
    for L in range(1, maxlen + 1):
        for seq in itertools.product(range(len(pool)), repeat=L):
            n += 1
            for pos, qi in enumerate(seq):
                q = pool[qi]
                got = run_one(q['text'], q['table'], q['btable'], None, 0, q.get('header'), q.get('bheader'), q.get('init', ''), shared)
                want = {k: v for k, v in q['solo'].items() if k != 'steps'}
                replaced = std_streams_problem()
                if replaced and len(bad) < 3:
                    got = dict(got, standard_streams_replaced=replaced)
                if got != want and len(bad) < 3:
                    bad.append({'sequence': [pool[j]['text'] for j in seq], 'position': pos, 'query': q['text'], 'table': q['table'], 'header': q.get('header'),
                                'btable': q['btable'], 'bheader': q.get('bheader'), 'fresh': want, 'in_sequence': got,
                                'queries_run_before_in_this_process (last 12: name, header, bheader)': [[pool[j]['name'], pool[j].get('header'), pool[j].get('bheader')] for j in executed[-12:]]})
                executed.append(qi)
    print(json.dumps({'n': n, 'bad': bad}, default=repr))
'''


CSV_IMPL = r'''
import sys, json, os, itertools
from rbql import rbql_csv, rbql_engine
mode = sys.argv[1]
base, pool, seqs = json.loads(sys.stdin.read())

def run_q(q, k):
    name, text, d, cwd = q
    outp = os.path.join(base, 'out_%s_%d.csv' % (mode, k))
    saved = os.getcwd()
    os.chdir(os.path.join(base, cwd))
    w = []
    try:
        try:
            rbql_csv.query_csv(text, os.path.join(base, d, 'in.csv'), ',', 'quoted', outp, ',', 'quoted', 'utf-8', w, False)
            r = {'output': open(outp).read(), 'warnings': sorted(w)}
        except Exception as e:
            r = {'err': rbql_engine.exception_to_error_info(e)[0], 'msg': str(e).replace(base, '<base>')[:80]}
    finally:
        os.chdir(saved)
        if os.path.exists(outp): os.remove(outp)
    return r

out = []
k = 0
for seq in seqs:
    res = []
    for qi in seq:
        k += 1
        res.append(run_q(pool[qi], k))
    out.append(res)
print(json.dumps(out))
'''


def csv_history_check(res, tier):
    """the CSV front-end in one process: all sequences of <= 3 (4) query_csv calls from a pool in which the SAME relative join-table name
    denotes different files (resolved against the directory of the input table, or against the working directory), plus failing calls;
    each result must equal that of the same call alone in a fresh process"""
    import tempfile, shutil, os
    base = tempfile.mkdtemp(prefix='rbqlverif_c16csv_')
    try:
        for d, tag in (('d1', 'ONE'), ('d2', 'TWO'), ('d3', 'THREE')):
            os.mkdir(os.path.join(base, d))
            open(os.path.join(base, d, 'in.csv'), 'w').write('k1,%s-x\nk2,%s-y\n' % (tag, tag))
            if d != 'd3':
                open(os.path.join(base, d, 'j.csv'), 'w').write('k1,J-%s-1\nk2,J-%s-2\n' % (tag, tag))
        os.mkdir(os.path.join(base, 'cwd2'))
        open(os.path.join(base, 'cwd2', 'j.csv'), 'w').write('k1,J-CWD-1\nk2,J-CWD-2\n')
        pool = [('join-d1', 'select a1, a2, b2 join j.csv on a1 == b1', 'd1', 'd3'), ('join-d2', 'select a1, a2, b2 join j.csv on a1 == b1', 'd2', 'd3'),
                ('join-cwd', 'select a1, a2, b2 join j.csv on a1 == b1', 'd3', 'cwd2'), ('join-none', 'select a1, a2, b2 join j.csv on a1 == b1', 'd3', 'd3'),
                ('plain-d1', 'select a2 where a1 == "k2"', 'd1', 'd3'), ('bad-key', 'select a1 join j.csv on a1 == b9', 'd1', 'd3'), ('syntax', 'select a1 where a1 = 1', 'd2', 'd3')]
        maxlen = 3 if tier == 'quick' else 4
        seqs = [list(sq) for L in range(1, maxlen + 1) for sq in itertools.product(range(len(pool)), repeat=L)]

        def call(mode, sq):
            r = subprocess.run([common.PY, '-W', 'ignore', '-c', CSV_IMPL, mode], input=json.dumps([base, pool, sq]).encode(), env=common.impl_env(), stdout=subprocess.PIPE, stderr=subprocess.PIPE, timeout=1800)
            try:
                return json.loads(r.stdout.decode().strip().split('\n')[-1])
            except (ValueError, IndexError):
                raise RuntimeError('C16 csv driver failed: ' + r.stderr.decode()[-500:])
        with ThreadPoolExecutor(max_workers=common.NPROC) as ex:
            solos = list(ex.map(lambda i: call('solo%d' % i, [[i]])[0][0], range(len(pool))))
        res.sample({'csv_pool_fresh_results': [[p[0], s] for p, s in zip(pool, solos)]})
        if len(set(json.dumps(s) for s in solos[:4])) < 4:
            raise RuntimeError('C16 csv history: the four join scenarios are meant to differ in a fresh process: %s' % solos[:4])
        outs = call('hist', seqs)
        nbad = 0
        for sq, rs in zip(seqs, outs):
            res.evaluations += 1
            res.nontrivial.add(('csv-history', tuple(sq)))
            for pos, (qi, r) in enumerate(zip(sq, rs)):
                if r != solos[qi]:
                    nbad += 1
                    if nbad <= 2:
                        res.violations.append({'property': 'C16', 'impl': 'py', 'why': 'query_csv after other query_csv calls in the same process gave a result different from the fresh-process run',
                                               'sequence': [pool[j] for j in sq], 'position': pos, 'fresh': solos[qi], 'in_sequence': r,
                                               'files': 'd1/, d2/ hold in.csv and j.csv (different contents), d3/ only in.csv, cwd2/ only j.csv; each entry = (name, query, dir of the input table, working dir)',
                                               'case_key': 'C16|csv-history|%s|%d' % (json.dumps([pool[j][0] for j in sq]), pos)})
                    break
        res.count('csv_histories', len(seqs))
        res.count('csv_history_failures', nbad)
        res.exhaustive['all sequences of <= %d query_csv calls from a pool of %d (same relative join name, different directories)' % (maxlen, len(pool))] = True
    finally:
        shutil.rmtree(base, ignore_errors=True)


SQLITE_IMPL = r'''
import sys, json, os, sqlite3
from rbql import rbql_engine, rbql_sqlite
dbp, outdir, pool, seqs, fresh = json.loads(sys.stdin.read())

def run_q(conn, q, k):
    kind, text, enc = q
    try:
        if kind == 'csv':
            outp = os.path.join(outdir, 'o_%d_%d.csv' % (os.getpid(), k))
            w = []
            rbql_sqlite.query_sqlite_to_csv(text, conn, 't', outp, ',', 'quoted', enc, w)
            data = open(outp, 'rb').read()
            os.remove(outp)
            return {'bytes': list(data), 'warnings': w}
        res = []
        rbql_engine.query(text, rbql_sqlite.SqliteRecordIterator(conn, 't'), rbql_engine.TableWriter(res), [], rbql_sqlite.SqliteDbRegistry(conn))
        return {'rows': res}
    except Exception as e:
        return {'err': rbql_engine.exception_to_error_info(e)[0], 'msg': str(e)[:80]}

out = []
k = 0
conn = None if fresh else sqlite3.connect(dbp)
for seq in seqs:
    r = []
    for qi in seq:
        k += 1
        c = sqlite3.connect(dbp) if fresh else conn
        r.append(run_q(c, pool[qi], k))
        if fresh: c.close()
    out.append(r)
print(json.dumps(out))
'''


def sqlite_history_check(res, tier):
    """the sqlite front-end: all sequences of <= 3 (4) queries over ONE connection the caller keeps (different encodings of the CSV output, list output, a
    join, a failing query), each result against the same query over a fresh connection in a fresh process — the connection is the caller's object"""
    import tempfile, shutil, os, sqlite3
    base = tempfile.mkdtemp(prefix='rbqlverif_c16sq_')
    try:
        dbp = os.path.join(base, 'db.sqlite')
        conn = sqlite3.connect(dbp)
        conn.execute('CREATE TABLE t (id TEXT, name TEXT)')
        conn.executemany('INSERT INTO t VALUES (?, ?)', [('1', 'caf\u00e9'), ('2', 'na\u00efve'), ('3', 'plain')])
        conn.execute('CREATE TABLE u (id TEXT, other TEXT)')
        conn.executemany('INSERT INTO u VALUES (?, ?)', [('1', '\u00fcber'), ('3', 'x')])
        conn.commit(); conn.close()
        pool = [('csv', 'select a1, a2', 'utf-8'), ('csv', 'select a2, a1', 'latin-1'), ('list', 'select a1, a2', None), ('list', 'select a2, b2 join u on a1 == b1', None),
                ('csv', 'select a1, b2 join u on a1 == b1', 'latin-1'), ('csv', 'select a1 where a2 = 1', 'utf-8'), ('list', 'select int(a2)', None)]
        maxlen = 3 if tier == 'quick' else 4
        seqs = [list(sq) for L in range(1, maxlen + 1) for sq in itertools.product(range(len(pool)), repeat=L)]

        def call(sq, fresh):
            r = subprocess.run([common.PY, '-W', 'ignore', '-c', SQLITE_IMPL], input=json.dumps([dbp, base, pool, sq, fresh]).encode(), env=common.impl_env(), stdout=subprocess.PIPE, stderr=subprocess.PIPE, timeout=1800)
            try:
                return json.loads(r.stdout.decode().strip().split('\n')[-1])
            except (ValueError, IndexError):
                raise RuntimeError('C16 sqlite driver failed: ' + r.stderr.decode()[-500:])
        solos = [call([[i]], True)[0][0] for i in range(len(pool))]
        outs = call(seqs, False)
        nbad = 0
        for sq, rs in zip(seqs, outs):
            res.evaluations += 1
            res.nontrivial.add(('sqlite-history', tuple(sq)))
            for pos, (qi, r) in enumerate(zip(sq, rs)):
                if r != solos[qi]:
                    nbad += 1
                    if nbad <= 2:
                        res.violations.append({'property': 'C16', 'impl': 'py', 'why': 'a query over an sqlite connection that served other RBQL queries before gave a result different from the same query over a fresh connection',
                                               'sequence (kind, query, csv encoding)': [pool[j] for j in sq], 'position': pos, 'fresh': solos[qi], 'in_sequence': r,
                                               'case_key': 'C16|sqlite-history|%s|%d' % (json.dumps(sq), pos)})
                    break
        res.count('sqlite_histories', len(seqs))
        res.count('sqlite_history_failures', nbad)
        res.exhaustive['all sequences of <= %d queries from a pool of %d over one sqlite connection' % (maxlen, len(pool))] = True
    finally:
        shutil.rmtree(base, ignore_errors=True)


def impl(mode, arg, timeout=900):
    r = subprocess.run([common.PY, '-W', 'ignore', '-c', IMPL, mode], input=json.dumps(arg).encode(), env=common.impl_env(), stdout=subprocess.PIPE, stderr=subprocess.PIPE, timeout=timeout)
    try:
        return json.loads(r.stdout.decode().strip().split('\n')[-1])
    except (ValueError, IndexError):
        raise RuntimeError('C16 driver failed: ' + r.stderr.decode()[-500:])


def generated_obligations(res):
    """the footprint as regenerated on this run (also checked by Lean: theorem C16_no_shared_writes)"""
    import sys
    sys.path.insert(0, str(common.ROOT / 'tools'))
    import shared_state_scan
    try:
        r = shared_state_scan.scan(str(common.REPO / 'rbql-py' / 'rbql' / 'rbql_engine.py'))
    except Exception as e:
        return 1, 0, ['generated obligation C16_no_shared_writes: rbql_engine.py could not be scanned: %s' % e]
    res.notes.append('shared-state footprint: %s' % json.dumps({k: r[k] for k in ('moduleLevelMutable', 'globalsDeclared', 'writtenOnQueryPath', 'classLevelMutable', 'mutableDefaults')}))
    problems = []
    for k in ('writtenOnQueryPath', 'classLevelMutable', 'mutableDefaults', 'sharedInstancesUsed'):
        if r[k]:
            problems.append('generated obligation C16_no_shared_writes fails: %s = %s' % (k, r[k]))
    fe = shared_state_scan.scan_frontends(str(common.REPO / 'rbql-py' / 'rbql'))
    res.notes.append('front-end footprint: %s' % json.dumps(fe))
    fproblems = []
    for k in ('writtenOnQueryPath', 'classLevelMutable', 'mutableDefaults', 'sharedInstancesUsed', 'callerObjectsWritten'):
        if fe[k]:
            fproblems.append('generated obligation C16_frontends_no_shared_writes fails: %s = %s' % (k, fe[k]))
    return 2, (0 if problems else 1) + (0 if fproblems else 1), problems + fproblems


def run(res, tier, seed):
    res.rule = RULE
    res.assumptions = ['threads switch only at iterator / writer calls (cooperative scheduler); preemptive switches inside a step and C-level races are not expressible',
                       'fresh interpreter = a fresh Python process']
    nrec = 2 if tier == 'quick' else 3
    table = TABLES[nrec]
    queries = []
    for name, q, needs_b in POOL:
        text = qgen.render_query(q, 'py')
        queries.append({'name': name, 'text': text, 'table': table, 'btable': BTABLE if needs_b else None, 'abstract': q})
    for t in PARSE_ERRORS:
        queries.append({'name': 'parse-error', 'text': t, 'table': table, 'btable': None, 'abstract': None})
    # queries whose input table is named by FROM and comes from the registry, mixed with queries over a fixed input
    # two ORDER BY queries and one that FAILS after it has buffered records: a buffer that outlives its query shows in the next sorted query
    # a JOIN query with string literals of its own: its join table is read in the middle of parsing, between the moment the literals are cut out and the moment they are put back
    queries.append({'name': 'join-lit', 'text': 'select a1 + "@J", b2 + \'#j\' join b on a1 == b1 where a2 != "none of these"', 'table': table, 'btable': BTABLE, 'abstract': None})
    for name, text in (('sorted2', 'select a2, a1 order by a1 desc'), ('sorted-fail', 'select a1, a2 order by 1 // (2 - NR)'), ('sorted-top', 'select top 1 a1 order by a2')):
        queries.append({'name': name, 'text': text, 'table': table, 'btable': None, 'abstract': None})
    for name, text, needs_b in (('from-select', 'select a2, a1 from t1 where a1 != "skip"', False), ('from-join', 'select a1, b2 from t1 join b on a1 == b1', True),
                                ('from-missing', 'select a1 from nope', False)):
        queries.append({'name': name, 'text': text, 'table': table, 'btable': BTABLE if needs_b else None, 'abstract': None})
    # the SAME query text in different contexts (column names mapping to other positions, another join table header,
    # another record width): whatever a run derives from its context must not survive into the next run
    ctx_table = [['k1', 'x;y', 'p'], ['k2', 'z', 'q']]
    for name, text, tab, hdr, btab, bhdr in CONTEXT_VARIANTS:
        queries.append({'name': name, 'text': text, 'table': tab, 'btable': btab, 'abstract': None, 'header': hdr, 'bheader': bhdr})
    # PROBES of interpreter-wide state a query could leave changed (recursion limit, …): their outcome in a fresh interpreter is
    # an error / a fixed value; run after queries that FAIL AT DIFFERENT STAGES they must give the same
    for name, text, init in PROBES:
        queries.append({'name': name, 'text': text, 'table': table, 'btable': None, 'abstract': None, 'init': init})
    for name, text in STAGE_FAILURES:
        queries.append({'name': name, 'text': text, 'table': table, 'btable': BTABLE, 'abstract': None})
    # solo runs, each in a fresh interpreter
    with ThreadPoolExecutor(max_workers=common.NPROC) as ex:
        solos = list(ex.map(lambda q: impl('solo', [q['text'], q['table'], q['btable'], q.get('header'), q.get('bheader'), q.get('init', '')]), queries))
    for q, s in zip(queries, solos):
        q['solo'] = s
        q['steps'] = s['steps']
    res.evaluations += len(queries)
    # engine tie of the solo results
    cases = [{'q': q['abstract'], 'A': q['table'], 'B': q['btable']} for q in queries if q['abstract'] is not None]
    engine_corr.run_cases(res, 'C16', cases, 'py')
    # (2) all interleavings of pairs of different kinds
    runnable = [q for q in queries if q['abstract'] is not None]
    pairs = [(a, b) for i, a in enumerate(runnable) for b in runnable[i + 1:]]
    if tier == 'quick':
        import random
        rnd = random.Random(seed + 16)
        pairs = rnd.sample(pairs, 8)
    # always: two queries of the SAME kind side by side (two sorts, two aggregates, two DISTINCTs) — state kept per CLASS of writer would be shared exactly there
    byname = {q['name']: q for q in queries}
    for a, b in (('sorted', 'sorted2'), ('aggregate', 'aggregate'), ('dcount', 'dcount'), ('sorted', 'sorted-top'), ('join-lit', 'select')):
        if a in byname and b in byname:
            pairs.append((byname[a], dict(byname[b])))
    limit = 4000 if tier == 'quick' else 6000        # pairs with more schedules than this are sampled (seeded), the others enumerated exhaustively
    with ThreadPoolExecutor(max_workers=common.NPROC) as ex:
        outs = list(ex.map(lambda p: impl('interleave', [[p[0], p[1]], limit], 3000), pairs))
    for (a, b), o in zip(pairs, outs):
        res.evaluations += o['n']
        res.count('interleavings %s+%s' % (a['name'], b['name']), o['n'])
        for k in range(o['alternating']):
            res.nontrivial.add((a['name'], b['name'], k))
        for bd in o['bad'][:2]:
            res.violations.append({'property': 'C16', 'impl': 'py', 'why': 'a query interleaved with another one gave a result different from its solo run', 'detail': bd,
                                   'case_key': 'C16|interleave|%s|%s|%s' % (bd['query'], bd['other_query'], json.dumps(bd['schedule']))})
    res.exhaustive['all interleavings (pairs with <= %d schedules; larger ones sampled) of %d pairs over %d records' % (limit, len(pairs), nrec)] = True
    res.sample({'pair': [pairs[0][0]['text'], pairs[0][1]['text']], 'steps': [pairs[0][0]['steps'], pairs[0][1]['steps']], 'interleavings': outs[0]['n']})
    # (3) histories
    hist_pool = [q for q in queries if q['name'] in ('select', 'update', 'aggregate', 'like', 'rterror', 'parse-error', 'sorted')][:7] + \
                [q for q in queries if q['name'] in ('from-select', 'from-join', 'sorted2', 'sorted-fail')]
    maxlen = 3 if tier == 'quick' else 4
    h = impl('history', [hist_pool, maxlen], 3000)
    res.evaluations += h['n']
    res.count('histories', h['n'])
    for k in range(h['n']):
        res.nontrivial.add(('history', k))
    res.exhaustive['all sequences of <= %d queries from a pool of %d' % (maxlen, len(hist_pool))] = True
    # same text / different context histories (plus two ordinary queries and an error in between)
    ctx_pool = [q for q in queries if q['name'].startswith('ctx-')] + [q for q in queries if q['name'] in ('select', 'rterror')]
    ctx_len = 2 if tier == 'quick' else 3
    h2 = impl('history', [ctx_pool, ctx_len], 3000)
    res.evaluations += h2['n']
    res.count('context_histories', h2['n'])
    for k in range(h2['n']):
        res.nontrivial.add(('ctx-history', k))
    res.exhaustive['all sequences of <= %d queries from a pool of %d same-text/different-context queries' % (ctx_len, len(ctx_pool))] = True
    # probes after failures at every stage (and after successes)
    probe_pool = [q for q in queries if q['name'].startswith('probe-') or q['name'].startswith('fail-') or q['name'].startswith('from-')] + [q for q in queries if q['name'] in ('select', 'aggregate')]
    h3 = impl('history', [probe_pool, 2], 3000)
    res.evaluations += h3['n']
    res.count('probe_histories', h3['n'])
    for k in range(h3['n']):
        res.nontrivial.add(('probe-history', k))
    res.exhaustive['all sequences of <= 2 queries from a pool of %d stage failures, probes of interpreter-wide state and two ordinary queries' % len(probe_pool)] = True
    # the caller's objects shared by the whole sequence (one input table object, one join table object, one registry object): a query that
    # keeps, drains or edits what it was handed shows up in the next one
    sh_names = ('select', 'update', 'sorted', 'aggregate', 'join', 'dcount', 'unnest')
    sh_pool = [dict(q) for q in queries if q['name'] in sh_names]
    for name, text, needs_b in (('star', 'select *', False), ('star-dcount', 'select distinct count *', False), ('star-distinct', 'select distinct *', False),
                                ('join-star', 'select * join b on a1 == b1', True), ('join-bstar', 'select b.* left join b on a1 == b1', True),
                                ('strict-join', 'select a1, b2 strict left join b on a2 == b1', True), ('update-join', 'update set a2 = b2 join b on a1 == b1', True),
                                # a join that FAILS while the join table is being read (no such key field), and one that is cut short by TOP: what they leave half-read
                                # must not be what the next query starts from
                                ('join-badkey', 'select a1 join b on a1 == b5', True), ('join-top', 'select top 1 a1, b2 join b on a1 == b1', True)):
        sh_pool.append({'name': name, 'text': text, 'table': table, 'btable': BTABLE if needs_b else None, 'abstract': None})
    with ThreadPoolExecutor(max_workers=common.NPROC) as ex:
        sh_solos = list(ex.map(lambda q: impl('solo', [q['text'], q['table'], q['btable'], q.get('header'), q.get('bheader'), q.get('init', '')]), sh_pool))
    for q, so in zip(sh_pool, sh_solos):
        q['solo'] = so
    h4 = impl('shared-history', [sh_pool, 2 if tier == 'quick' else 3], 3000)
    res.evaluations += h4['n']
    res.count('shared_object_histories', h4['n'])
    for k in range(h4['n']):
        res.nontrivial.add(('shared-history', k))
    res.exhaustive['all sequences of <= %d queries from a pool of %d over the SAME table objects and ONE registry object' % (2 if tier == 'quick' else 3, len(sh_pool))] = True
    for bd in h4['bad'][:2]:
        res.violations.append({'property': 'C16', 'impl': 'py', 'why': 'a query run after other queries over the same table / registry objects gave a result different from the fresh-interpreter run', 'detail': bd,
                               'case_key': 'C16|shared-history|%s|%d' % (json.dumps(bd['sequence']), bd['position'])})
    csv_history_check(res, tier)
    sqlite_history_check(res, tier)
    for bd in h['bad'][:2] + h2['bad'][:2] + h3['bad'][:2]:
        res.violations.append({'property': 'C16', 'impl': 'py', 'why': 'a query run after other queries gave a result different from the fresh-interpreter run', 'detail': bd,
                               'case_key': 'C16|history|%s|%d' % (json.dumps(bd['sequence']), bd['position'])})


def replay(res, path):
    v = json.loads(open(path).read())
    print(json.dumps(v, indent=1, ensure_ascii=False)[:3000])
    return False
