"""C07 — Output header always matches output records and follows the naming rules.

Tie: select lists generated from item KINDS (alias, field aN/a[N], named a.name / a["name"] / bare NR, star forms,
other expressions with nested brackets and commas inside calls and literals) rendered to text; the REAL engine's
output_column_names (rbql.query_table), the first line of rbql.query_csv output and the columns of
rbql.query_pandas_dataframe are compared with the Lean `queryHeader` applied to the kinds; and, independently,
the header width is compared with the width of every output record."""
import json
import os
import random
import subprocess
import tempfile

import common
import qgen

RULE = ('seeded select lists over item kinds {alias (AS/as), aN, a[N], a.name, a["name"], a[\'name\'], bare NR/NF, *, a.*, b.*, other expressions with nested '
        'brackets / commas in calls / commas and keywords in literals} x {header, no header} x {join, no join} x {none, DISTINCT, DISTINCT COUNT, TOP, GROUP BY + aggregates, EXCEPT}; '
        'observed through query_table, query_csv and pandas. non-trivial iff the list has >= 2 items of different kinds; distinct = distinct query text')

OTHER_PY = ["a1 + a2", "len(a1)", "'lit, with comma'", "(a1, a2)[0]", "max(a1, a2)", "[a1, a2][1]", "a1.upper()", "'-'.join([a1, (a2)])", "str(NR) + 'as x'", "a1 + ' as '",
            "{'k': a1}['k']", "'select a1, * from b'", "a2[0:1]", "a[1] + a[2]",
            # operators that bind weaker than the `==` the AS rewrite introduces; a parenthesised tuple as a whole item (D19)
            "a1 or a2", "not a1", "a1 if a2 else a1", "a1 and a2", "a1 in (a2, 'x')", "(a1, a2)", "lambda: a1"]
OTHER_JS = ["a1 + a2", "a1.length", "'lit, with comma'", "[a1, a2][1]", "Math.max(1, 2)", "a1.toUpperCase()", "[a1, (a2)].join('-')", "String(NR) + 'as x'", "a1 + ' as '",
            "'select a1, * from b'", "a2.slice(0, 1)", "a[1] + a[2]",
            "a1 || a2", "!a1", "a1 ? a2 : a1", "a1 && a2", "(a1, a2)"]
AGGS = ["count(*)", "COUNT(1)", "max(a1)", "ARRAY_AGG(a2)", "MIN(a1)"]


def gen_cases(rnd, n, lang):
    cases = []
    other = OTHER_PY if lang == 'py' else OTHER_JS
    for _ in range(n):
        has_header = rnd.random() < 0.7
        join = rnd.random() < 0.3
        ih = ['id', rnd.choice(['name two', 'name two', 'ta\tb', 'back\\slash']), 'n3'][:rnd.choice([2, 3])]     # a TAB / backslash inside a column name: written escaped in a["…"]
        if rnd.random() < 0.15:
            # the input is itself the output of an earlier query: its columns are CALLED col1, col2, … — a name that is literally `colK` must
            # not disturb the positional name of a later unnamed item
            ih = rnd.choice([['col1', 'col2', 'col3'], ['col2', 'col1', 'col3'], ['col3', 'col2']])
        jh = ['id', 'val']
        A = [['1', 'x', 'p'][:len(ih)], ['2', 'y', 'q'][:len(ih)], ['1', 'x', 'p'][:len(ih)]]
        # the join table may be empty or have no partner at all: under LEFT JOIN the null record must still be as wide as the join header
        B = rnd.choice([[['1', 'u'], ['2', 'v']], [['1', 'u'], ['2', 'v']], [], [['9', 'w']]])
        left = rnd.random() < 0.4
        mode = rnd.choice(['plain', 'plain', 'distinct', 'dcount', 'top', 'group', 'except', 'update'])
        if mode == 'except' and join:
            join = False
        if mode == 'update':
            # UPDATE hands the INPUT header to the writer unchanged, join or not
            k = rnd.randrange(len(ih))
            text = rnd.choice(['update set a%d = "u"', 'UPDATE a SET a%d = "u"', 'update a%d = a1 + "!"']) % (k + 1)
            if join:
                text += ' join b on a1 == b1'
            if rnd.random() < 0.3:
                text += ' where a1 != "1"'
            if lang == 'js':
                text = text.replace('"', "'")
            cases.append({'text': text, 'dc': False, 'ih': ih if has_header else None, 'jh': (jh if has_header else None) if join else None, 'infos': [], 'except': None,
                          'A': A, 'B': B if join else None, 'nkinds': 2, 'update': True})
            continue
        infos, texts = [], []
        if mode == 'except' and rnd.random() < 0.35:
            # a WIDE table: excluded positions such as 2 and 10 sort differently as numbers and as text
            ih = ['c%d' % (k + 1) for k in range(rnd.choice([11, 12, 13]))]
            A = [['r%dc%d' % (r, k) for k in range(len(ih))] for r in range(2)]
            join = False
        if mode == 'except':
            cols = sorted(set(rnd.randrange(len(ih)) for _ in range(rnd.randint(1, 3 if len(ih) > 3 else 2))))
            text = 'select %s* except %s' % (rnd.choice(['', '', 'distinct count ', 'distinct ', 'top 2 ', 'top 2 distinct ', 'TOP 1 DISTINCT COUNT ']), ', '.join(rnd.choice(['a%d', 'a[%d]']) % (c + 1) for c in cols))
            dc = 'distinct count' in text.lower()
            cases.append({'text': text, 'dc': dc, 'ih': ih if has_header else None, 'jh': None, 'infos': [], 'except': cols, 'A': A, 'B': None, 'nkinds': 1})
            continue
        nitems = rnd.randint(1, 5)
        for _i in range(nitems):
            r = rnd.random()
            if mode == 'group':
                if r < 0.5:
                    infos.append(['other'])
                    texts.append(rnd.choice(AGGS))
                else:
                    infos.append(['field', 'a', 0])
                    texts.append(rnd.choice(['a1', 'a[1]']))
                continue
            if r < 0.2:
                i = rnd.randrange(len(ih) + 1)
                infos.append(['field', 'a', i])
                texts.append(rnd.choice(['a%d', 'a[%d]']) % (i + 1))
            elif r < 0.3 and join:
                i = rnd.randrange(3)
                infos.append(['field', 'b', i])
                texts.append(rnd.choice(['b%d', 'b[%d]']) % (i + 1))
            elif r < 0.42 and has_header:
                i = rnd.randrange(len(ih))
                nm = ih[i]
                esc = nm.replace('\\', '\\\\').replace('\t', '\\t')
                forms = ['a["%s"]' % esc, "a['%s']" % esc]
                if nm.isidentifier():
                    forms.append('a.%s' % nm)
                infos.append(['named', nm])
                texts.append(rnd.choice(forms))
            elif r < 0.5:
                v = rnd.choice(['NR', 'NF'])
                infos.append(['named', v])
                texts.append(v)
            elif r < 0.65:
                nm = rnd.choice(['foo', 'Bar_1', 'x', 'col2', 'col3'])
                infos.append(['alias', nm])
                texts.append('%s %s %s' % (rnd.choice(other + ['a1', 'NR']), rnd.choice(['as', 'AS']), nm))
            elif r < 0.75:
                infos.append(['star'])
                texts.append('*')
            elif r < 0.8:
                infos.append(['starA'])
                texts.append('a.*')
            elif r < 0.85 and join:
                infos.append(['starB'])
                texts.append('b.*')
            else:
                infos.append(['other'])
                texts.append(rnd.choice(other))
        head = 'select '
        dc = False
        if mode == 'distinct':
            head += 'distinct '
        elif mode == 'dcount':
            head += 'distinct count '
            dc = True
        elif mode == 'top':
            head += 'top 2 '
        text = head + ', '.join(texts)
        if mode != 'group' and rnd.random() < 0.04:
            text += rnd.choice([',', ', ', ' ,'])        # a trailing comma adds no column (D22)
        if join:
            text += (' left join b on a1 == b1' if left else ' join b on a1 == b1')
        if mode == 'group':
            text += ' group by a1'
        cases.append({'text': text, 'dc': dc, 'ih': ih if has_header else None, 'jh': (jh if has_header else None) if join else None, 'infos': infos, 'except': None,
                      'A': A, 'B': B if join else None, 'nkinds': len(set(i[0] for i in infos))})
    return cases


IMPL = r'''
import sys, json, os, io, tempfile
from rbql import rbql_engine, rbql_csv
import rbql
cases = json.loads(sys.stdin.read())
out = []
try:
    import pandas, rbql.rbql_pandas as rp
except Exception:
    pandas = None
d = tempfile.mkdtemp(prefix='rbqlverif_hdr_')
for c in cases:
    o = {}
    names = []; rows = []; w = []
    try:
        rbql.query_table(c['text'], [r[:] for r in c['A']], rows, w, None if c['B'] is None else [r[:] for r in c['B']], c['ih'], c['jh'], names)
        o['table'] = {'header': names if (names or c.get('expect_header')) else (names if names else None), 'widths': sorted(set(len(r) for r in rows))}
    except Exception as e:
        o['table'] = {'err': type(e).__name__ + ': ' + str(e)[:80]}
    if c.get('csv'):
        try:
            inp = os.path.join(d, 'in.csv'); outp = os.path.join(d, 'out.csv')
            # every third CSV case: both files begin with COMMENT lines and the query runs with a comment prefix — the header is the first line that is not a comment, in both tables
            commented = (len(out) % 3 == 0) and not any(x.startswith('#') for x in (c['ih'] or []) + [y for r in c['A'] for y in r[:1]])
            with open(inp, 'w') as f:
                if commented: f.write('# exported by some tool\n#second,comment,line,with,many,commas\n')
                for r in ([c['ih']] if c['ih'] else []) + c['A']:
                    f.write(','.join(rbql.csv_utils.quote_field(x, ',') for x in r) + '\n')
            text = c['text']
            if c['B'] is not None:
                jp = os.path.join(d, 'j.csv')
                with open(jp, 'w') as f:
                    if commented: f.write('# join table,of,the,tool\n')
                    for r in ([c['jh']] if c['jh'] else []) + c['B']:
                        f.write(','.join(r) + '\n')
                text = text.replace(' join b on', ' join %s on' % jp)
            ww = []
            rbql_csv.query_csv(text, inp, ',', 'quoted', outp, ',', 'quoted', 'utf-8', ww, c['ih'] is not None, '#' if commented else None)
            lines = open(outp).read().split('\n')
            o['csv'] = {'first': rbql.csv_utils.split_quoted_str(lines[0], ',')[0] if lines and lines[0] != '' or len(lines) > 1 else None, 'nlines': len([l for l in lines if l != ''])}
        except Exception as e:
            o['csv'] = {'err': type(e).__name__ + ': ' + str(e)[:120]}
    if c.get('pandas') and pandas is not None:
        try:
            df = pandas.DataFrame(c['A'], columns=c['ih'])
            jdf = None if c['B'] is None else pandas.DataFrame(c['B'], columns=c['jh'])
            res = rp.query_dataframe(c['text'], df, [], jdf) if hasattr(rp, 'query_dataframe') else rbql.query_pandas_dataframe(c['text'], df, [], jdf)
            o['pandas'] = {'columns': [str(x) for x in res.columns], 'width': res.shape[1]}
        except Exception as e:
            o['pandas'] = {'err': type(e).__name__ + ': ' + str(e)[:120]}
    out.append(o)
import shutil; shutil.rmtree(d, ignore_errors=True)
print(json.dumps(out, default=repr))
'''


IMPL_JS = r"""
const path = require('path');
const repo = process.env.VERIF_REPO || '/repo';
const rbql = require(path.join(repo, 'rbql-js', 'rbql.js'));
let data = '';
process.stdin.on('data', d => data += d);
process.stdin.on('end', async () => {
    const cases = JSON.parse(data);
    const out = [];
    for (const c of cases) {
        const rows = [], w = [], names = [];
        try {
            await rbql.query_table(c.text, c.A.map(r => r.slice()), rows, w, c.B === null ? null : c.B.map(r => r.slice()), c.ih, c.jh, names);
            const widths = Array.from(new Set(rows.map(r => r.length))).sort((a, b) => a - b);
            out.push({table: {header: names.length ? names : null, widths: widths}});
        } catch (e) {
            out.push({table: {err: (e.constructor ? e.constructor.name : 'Error') + ': ' + String(e.message === undefined ? e : e.message).slice(0, 80)}});
        }
    }
    console.log(JSON.stringify(out));
});
"""


def run_impl_js(cases):
    env = common.impl_env()
    r = subprocess.run([common.NODE, '-e', IMPL_JS], input=json.dumps(cases).encode(), env=env, stdout=subprocess.PIPE, stderr=subprocess.PIPE, timeout=900)
    try:
        return json.loads(r.stdout.decode().strip().split('\n')[-1])
    except (ValueError, IndexError):
        raise RuntimeError('js header driver failed: ' + r.stderr.decode()[-400:])


def compare_table(c, m, t):
    """header of query_table against the model's queryHeader, and against the width of every output record"""
    if 'err' in m:
        if 'err' not in t or 'star' not in t['err']:
            return 'model: star and alias without header must be rejected; implementation: %s' % t
        return None
    if 'err' in t:
        return 'implementation raised: %s' % t['err']
    mh = m['header']
    ih = t['header'] if t['header'] else None
    if (mh or None) != ih:
        return 'header differs: model %s, implementation %s' % (mh, ih)
    if ih is not None and t['widths'] and t['widths'] != [len(ih)]:
        return 'header has %d names but records have %s fields' % (len(ih), t['widths'])
    return None


def js_leg(res, rnd, n):
    cases = gen_cases(rnd, n, 'js')
    # rbql-js has no a['name'] / a["name"]-with-space difference, and aggregates are spelled the same; GROUP BY of `max(a1)` is Math-free
    mout = model_headers(cases)
    iout = run_impl_js(cases)
    res.evaluations += len(cases)
    nbad = 0
    for c, m, o in zip(cases, mout, iout):
        if c['nkinds'] >= 2 or c['except'] is not None:
            res.nontrivial.add('js|' + c['text'] + '|' + json.dumps(c['ih']))
        why = compare_table(c, m, o['table'])
        if why:
            nbad += 1
            if nbad <= 5:
                res.violations.append({'property': 'C07', 'impl': 'js', 'why': why, 'query_js': c['text'], 'input_header': c['ih'], 'join_header': c['jh'], 'kinds': c['infos'],
                                       'A': c['A'], 'B': c['B'], 'model_says': m, 'impl_says': o, 'case_key': 'C07|js|' + c['text'] + '|' + json.dumps(c['ih'])})
    res.count('js_cases', len(cases))
    res.count('js_disagreements', nbad)


def run_impl_py(cases):
    r = subprocess.run([common.PY, '-W', 'ignore', '-c', IMPL], input=json.dumps(cases).encode(), env=common.impl_env(), stdout=subprocess.PIPE, stderr=subprocess.PIPE, timeout=900)
    try:
        return json.loads(r.stdout.decode().strip().split('\n')[-1])
    except (ValueError, IndexError):
        raise RuntimeError('header driver failed: ' + r.stderr.decode()[-400:])


def model_headers(cases):
    lines = ['header ' + json.dumps({'dc': c['dc'], 'ih': c['ih'], 'jh': c['jh'], 'infos': c['infos'], 'except': c['except'], 'update': bool(c.get('update'))}, separators=(',', ':')) for c in cases]
    return [json.loads(o) for o in common.run_model(lines)]


def run(res, tier, seed):
    res.rule = RULE
    res.assumptions = ['the classification of an item text into its kind is Python ast / the JS span parser (tied here, not proved)',
                       'sources are rectangular (records as wide as their header)']
    rnd = random.Random(seed * 31 + 7)
    cases = gen_cases(rnd, 2500 if tier == 'quick' else 40000, 'py')
    for i, c in enumerate(cases):
        c['csv'] = (i % 5 == 0) and not any(x in c['text'] for x in ('ARRAY_AGG',))
        c['pandas'] = (i % 7 == 0) and c['ih'] is not None and c['B'] is None
        res.count('items=%d' % len(c['infos']))
        if c['nkinds'] >= 2 or c['except'] is not None:
            res.nontrivial.add(c['text'] + '|' + json.dumps(c['ih']))
    for c in cases[:3]:
        res.sample({'query': c['text'], 'input_header': c['ih'], 'join_header': c['jh'], 'kinds': c['infos']})
    mout = model_headers(cases)
    iout = run_impl_py(cases)
    res.evaluations += len(cases)
    nbad = 0
    for c, m, o in zip(cases, mout, iout):
        why = None
        t = o['table']
        if 'err' in m:
            if 'err' not in t or 'star' not in t['err']:
                why = 'model: star and alias without header must be rejected; implementation: %s' % t
        elif 'err' in t:
            why = 'implementation raised: %s' % t['err']
        else:
            mh = m['header']
            ih = t['header'] if t['header'] else None
            if (mh or None) != ih:
                why = 'header differs: model %s, implementation %s' % (mh, ih)
            elif ih is not None and t['widths'] and t['widths'] != [len(ih)]:
                why = 'header has %d names but records have %s fields' % (len(ih), t['widths'])
        if why is None and 'csv' in o and 'err' not in m:
            cv = o['csv']
            if 'err' in cv:
                why = 'query_csv raised: %s' % cv['err']
            elif m['header'] and cv['first'] != m['header']:     # (a zero-column table has no CSV representation)
                why = 'first line of query_csv output %s is not the header %s' % (cv['first'], m['header'])
        if why is None and 'pandas' in o and 'err' not in m and m['header'] is not None:
            pv = o['pandas']
            if 'err' in pv:
                why = 'query_pandas_dataframe raised: %s' % pv['err']
            elif pv['columns'] != m['header']:
                why = 'pandas columns %s differ from the header %s' % (pv['columns'], m['header'])
        if why:
            nbad += 1
            if nbad <= 5:
                res.violations.append({'property': 'C07', 'impl': 'py', 'why': why, 'query_py': c['text'], 'input_header': c['ih'], 'join_header': c['jh'], 'kinds': c['infos'],
                                       'A': c['A'], 'B': c['B'], 'model_says': m, 'impl_says': o, 'case_key': 'C07|' + c['text'] + '|' + json.dumps(c['ih'])})
    res.count('disagreements', nbad)
    js_leg(res, random.Random(seed * 31 + 8), 1500 if tier == 'quick' else 20000)
    res.count('csv_checked', sum(1 for c in cases if c['csv']))
    res.count('pandas_checked', sum(1 for c in cases if c['pandas']))
    # how an item's TEXT becomes a column info: the rbql-js span parser is modelled (Model/Translate.lean) and tied on both ports
    import translate_corr
    translate_corr.run_leg(res, tier, seed, {'infos', 'select'})
    translate_corr.pyast_leg(res, tier, seed)


def replay(res, path):
    import translate_corr
    r = translate_corr.replay(res, path)
    if r is not None:
        return r
    v = json.loads(open(path).read())
    print(json.dumps(v, indent=1, ensure_ascii=False)[:3000])
    c = {'text': v['query_py'], 'dc': 'distinct count' in v['query_py'], 'ih': v['input_header'], 'jh': v['join_header'], 'infos': v['kinds'], 'except': None, 'A': v['A'], 'B': v['B'], 'csv': True, 'pandas': False}
    print('now:', run_impl_py([c])[0])
    return False
