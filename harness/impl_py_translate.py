"""Implementation ops for the query-translation layer (model: lean/Rbql/Model/Translate.lean): the REAL functions of
rbql_engine.py on protocol lines.  Registered by impl_py.main()."""
import re

from common import enc_str, dec_str, enc_list, dec_list, enc_table
import impl_py
from rbql import rbql_engine


def enc_nats(l):
    return ','.join(str(x) for x in l) if l else '!'


def op_starcount(js, s):
    return enc_str(rbql_engine.replace_star_count(dec_str(s)))


def op_starvars(js, s):
    return enc_str(rbql_engine.replace_star_vars(dec_str(s)))


def op_starmarker(js, s):
    return enc_str(rbql_engine.replace_star_vars_for_ast(dec_str(s)))


def op_trsel(js, s):
    try:
        a, b = rbql_engine.translate_select_expression(dec_str(s))
    except rbql_engine.RbqlParsingError:
        return 'err empty'
    return 'ok %s %s' % (enc_str(a), enc_str(b))


class _Marker(object):
    def __init__(self, name):
        self.name = name

    def __str__(self):
        return '\x00' + enc_str(self.name) + '\x00'

    __repr__ = __str__
    __format__ = lambda self, spec: str(self)


class _AnyMap(object):
    """input_variables_map that knows every name; the index it reports encodes the name"""

    def get(self, name, default=None):
        return rbql_engine.VariableInfo(initialize=True, index=_Marker(name))


_SAFE_SET = re.compile('safe_set\\(up_fields, \x00([^\x00]*)\x00, ', re.S)


def op_updpairs(js, s):
    try:
        code = rbql_engine.translate_update_expression(dec_str(s), _AnyMap(), [])
    except rbql_engine.RbqlParsingError:
        return 'err notassign'
    pairs = []
    ms = list(_SAFE_SET.finditer(code))
    for i, m in enumerate(ms):
        end = ms[i + 1].start() if i + 1 < len(ms) else len(code)
        rhs = code[m.end():end]
        if i + 1 < len(ms):
            assert rhs.endswith(')\n'), repr(code)
            rhs = rhs[:-2]
        else:
            assert rhs.endswith(')'), repr(code)
            rhs = rhs[:-1]
        pairs.append([dec_str(m.group(1)), rhs])
    return 'ok ' + enc_table(pairs)


def op_basicvars(py, pfx, s):
    d = {}
    rbql_engine.parse_basic_variables(dec_str(s), dec_str(pfx), d)
    return enc_nats(sorted(v.index + 1 for v in d.values()))


def op_arrayvars(pfx, s):
    d = {}
    rbql_engine.parse_array_variables(dec_str(s), dec_str(pfx), d)
    return enc_nats(sorted(v.index + 1 for v in d.values()))


def enc_info(ci):
    if ci is None:
        return 'O'
    if ci.is_star:
        return 'S' + ('*' if ci.table_name is None else ci.table_name)
    if ci.alias_name is not None and ci.column_name is None:
        return 'A' + enc_str(ci.alias_name)
    if ci.column_name is not None:
        return 'N' + enc_str(ci.column_name)
    if ci.column_index is not None:
        if ci.column_index < 0:
            return 'O'
        return 'F%s%d' % (ci.table_name, ci.column_index)
    return 'O'


def op_selinfos(js, s, lits):
    """the Python route from a select-list text to its column infos (translate, restore the literals, ast)"""
    lits = dec_list(lits)
    try:
        _t, for_ast = rbql_engine.translate_select_expression(dec_str(s))
    except rbql_engine.RbqlParsingError:
        return 'err empty'
    try:
        infos = rbql_engine.ast_parse_select_expression_to_column_infos(rbql_engine.combine_string_literals(for_ast, lits))
    except SyntaxError:
        return 'SYNTAX'
    except rbql_engine.RbqlParsingError:
        return 'err parse'
    return 'ok ' + ' '.join(enc_info(ci) for ci in infos)


def op_clidialect(d, pol, fmt):
    """the dialects run_with_python_csv really hands to query_csv (query_csv itself replaced by a recorder)"""
    import argparse
    from rbql import rbql_main, rbql_csv
    seen = {}

    def recorder(query, input_path, delim, policy, output_path, out_delim, out_policy, *rest, **kw):
        seen['r'] = (delim, policy, out_delim, out_policy)
    saved = rbql_csv.query_csv
    rbql_csv.query_csv = recorder
    try:
        args = argparse.Namespace(debug_mode=False, delim=dec_str(d), policy=None if pol == '~' else pol, query='select *', with_headers=False, input=None, output=None,
                                  encoding='utf-8', out_format=fmt, init_source_file=None, comment_prefix=None, color=False)
        rbql_main.run_with_python_csv(args, False)
    finally:
        rbql_csv.query_csv = saved
    r = seen['r']
    return '%s %s %s %s' % (enc_str(r[0]), r[1], enc_str(r[2]), r[3])


def enc_varmap(d):
    if not d:
        return 'ok ~'
    return 'ok ' + ' '.join('%s=%s:%d' % (enc_str(k), '1' if v.initialize else '0', v.index) for k, v in d.items())


def op_dictvars(js, pfx, query, names):
    d = {}
    rbql_engine.parse_dictionary_variables(dec_str(query), dec_str(pfx), dec_list(names), d)
    return enc_varmap(d)


def op_attrvars(js, pfx, query, names):
    d = {}
    try:
        rbql_engine.parse_attribute_variables(dec_str(query), dec_str(pfx), dec_list(names), 'table header', d)
    except rbql_engine.RbqlParsingError:
        return 'err notfound'
    return enc_varmap(d)


def op_directvars(query, names):
    d = {}
    try:
        rbql_engine.map_variables_directly(dec_str(query), dec_list(names), d)
    except rbql_engine.RbqlIOHandlingError:
        return 'err badname'
    return enc_varmap(d)


def _dec_map(t):
    from common import dec_table
    return dict((r[0], rbql_engine.VariableInfo(initialize=True, index=int(r[1]))) for r in dec_table(t))


def op_joinresolve(inm, jm, pairs):
    from common import dec_table
    try:
        lhs, rhs = rbql_engine.resolve_join_variables(_dec_map(inm), _dec_map(jm), [tuple(r) for r in dec_table(pairs)], [])
    except rbql_engine.RbqlParsingError as e:
        msg = str(e)
        return 'err ambiguous' if 'mbiguous' in msg else 'err no-input-field' if 'Input table does not have' in msg else 'err no-join-field' if 'Join table does not have' in msg else 'err other'
    enc_l = ','.join('N' if x == 'NR' else re.search(r'record_a, (\d+)\)', x).group(1) for x in lhs) if lhs else '!'
    enc_r = ','.join('N' if x == -1 else str(x) for x in rhs) if rhs else '!'
    return 'ok %s %s' % (enc_l, enc_r)


def op_exceptcols(js, inm, text):
    try:
        _h, code = rbql_engine.translate_except_expression(dec_str(text), _dec_map(inm), [], None)
    except rbql_engine.RbqlParsingError:
        return 'err unknown'
    m = re.fullmatch(r'select_except\(record_a, \[([0-9,]*)\]\)', code)
    return 'ok ' + (m.group(1) if m.group(1) else '!')


def op_tablevars(js, pfx, query, names, norm, width):
    """TableIterator.get_variables_map on a table of the given width"""
    ns = None if names == 'N' else dec_list(names[1:])
    table = [] if width == '~' else [['x'] * int(width)]
    it = rbql_engine.TableIterator(table, ns, norm == '1', dec_str(pfx))
    try:
        d = it.get_variables_map(dec_str(query))
    except rbql_engine.RbqlIOHandlingError as e:
        return 'err width' if 'different lengths' in str(e) else 'err badname'
    except rbql_engine.RbqlParsingError:
        return 'err notfound'
    return enc_varmap(d)


def _enc_num(v):
    import math
    if isinstance(v, bool):
        return 'OTHER'
    if isinstance(v, int):
        return 'I%d' % v
    if isinstance(v, float):
        return 'NF' if (math.isinf(v) or math.isnan(v)) else 'F' + v.hex()
    return 'OTHER'


def _nh_parse(h, s):
    try:
        return _enc_num(h.parse(s))
    except rbql_engine.RbqlRuntimeError:
        return 'BAD'


def op_pynum(s):
    """the REAL NumHandler.parse on a string, in integer mode (MIN/MAX/SUM/MEDIAN) and in float mode (AVG/VARIANCE)"""
    s = dec_str(s)
    return _nh_parse(rbql_engine.NumHandler(True), s) + ' ' + _nh_parse(rbql_engine.NumHandler(False), s)


def op_numhandler(start_int, l):
    h = rbql_engine.NumHandler(start_int == '1')
    return ' '.join(_nh_parse(h, s) for s in dec_list(l))


def _ast_json(node):
    """the parts of a Python AST that column_info_from_node / ast.walk look at (Model/PyAst.lean: PyNode)"""
    import ast
    if isinstance(node, ast.Name):
        return {'k': 'name', 'id': node.id}
    if isinstance(node, ast.Attribute):
        return {'k': 'attr', 'attr': node.attr, 'v': _ast_json(node.value)}
    if isinstance(node, ast.Subscript):
        return {'k': 'sub', 'v': _ast_json(node.value), 's': _ast_json(node.slice)}
    if isinstance(node, ast.Constant):
        v = node.value
        if isinstance(v, str):
            return {'k': 'cstr', 's': v}
        if isinstance(v, bool):
            return {'k': 'cbool'}
        if isinstance(v, int):
            return {'k': 'cint', 'n': str(v)}
        return {'k': 'cother'}
    if isinstance(node, ast.Call):
        return {'k': 'call', 'f': _ast_json(node.func), 'a': [_ast_json(x) for x in node.args], 'r': [_ast_json(x) for x in node.keywords]}
    return {'k': 'other', 'c': [_ast_json(c) for c in ast.iter_child_nodes(node) if not isinstance(c, ast.expr_context)]}


def op_pyastinfos(s):
    """a select-list text (literals already in place) -> the tree Python's parser builds for it, as the model's input, and the REAL
    ast_parse_select_expression_to_column_infos answer.  Output: <json> TAB <answer>"""
    import ast, json
    text = dec_str(s)
    try:
        root = ast.parse(text)
    except (SyntaxError, ValueError, RecursionError, MemoryError):
        return 'SYNTAX'
    stmts = [[_ast_json(c) for c in ast.iter_child_nodes(st) if not isinstance(c, ast.expr_context)] for st in root.body]
    is_tuple = len(root.body) == 1 and len(list(ast.iter_child_nodes(root.body[0]))) == 1 and isinstance(list(ast.iter_child_nodes(root.body[0]))[0], ast.Tuple)
    elts = []
    if is_tuple:
        try:
            elts = [_ast_json(e) for e in ast.parse('[' + text + ']').body[0].value.elts]
        except SyntaxError:
            return 'SYNTAX'
    try:
        infos = rbql_engine.ast_parse_select_expression_to_column_infos(text)
        ans = 'ok ' + (' '.join(enc_info2(ci) for ci in infos) if infos else '~')
    except rbql_engine.RbqlParsingError as e:
        m = str(e)
        ans = 'err 118' if '#118' in m else 'err 119' if '#119' in m else 'err alias' if 'column alias' in m else 'err other'
    except SyntaxError:
        return 'SYNTAX'
    return json.dumps({'stmts': stmts, 'tuple': is_tuple, 'elts': elts}, ensure_ascii=True, separators=(',', ':')) + '\t' + ans


def enc_info2(ci):
    if ci is None:
        return 'O'
    if ci.is_star:
        return 'S' + ('*' if ci.table_name is None else ci.table_name)
    if ci.alias_name is not None:
        return 'A' + enc_str(ci.alias_name)
    if ci.column_name is not None:
        return 'N' + enc_str(ci.column_name)
    if ci.column_index is not None:
        return 'O' if ci.column_index < 0 else 'F%s%d' % (ci.table_name, ci.column_index)
    return 'O'


def op_itervars(kind, js, pfx, query, names, norm):
    """get_variables_map of the REAL input adapters (lists, pandas dataframe, CSV stream, sqlite table) on a table with the given column names"""
    import io
    ns = None if names == 'N' else dec_list(names[1:])
    q, p = dec_str(query), dec_str(pfx)
    try:
        if kind == 'table':
            it = rbql_engine.TableIterator([], ns, norm == '1', p)
        elif kind == 'pandas':
            import pandas
            from rbql import rbql_pandas
            df = pandas.DataFrame([['x'] * 2]) if ns is None else pandas.DataFrame([['x'] * len(ns)], columns=ns)
            it = rbql_pandas.DataframeIterator(df, norm == '1', p)
        elif kind == 'csv':
            from rbql import rbql_csv, csv_utils
            text = 'x,y\n' if ns is None else ','.join(csv_utils.rfc_quote_field(n, ',') for n in ns) + '\nx\n'
            it = rbql_csv.CSVRecordIterator(io.StringIO(text), None, ',', 'quoted_rfc', has_header=ns is not None, variable_prefix=p)
        elif kind == 'sqlite':
            import sqlite3
            from rbql import rbql_sqlite
            conn = sqlite3.connect(':memory:')
            conn.execute('CREATE TABLE t (%s)' % ', '.join('"%s" TEXT' % n.replace('"', '""') for n in ns))
            it = rbql_sqlite.SqliteRecordIterator(conn, 't', p)
        else:
            return 'err kind'
        d = it.get_variables_map(q)
    except rbql_engine.RbqlIOHandlingError as e:
        return 'err width' if 'different lengths' in str(e) else 'err badname'
    except rbql_engine.RbqlParsingError:
        return 'err notfound'
    return enc_varmap(d)


def op_tablepath(cwd, home, main_dir, table_id, files, index):
    """the REAL find_table_path over a real directory tree: the given absolute paths are created under a scratch root (every path of the protocol is
    re-rooted there and mapped back), HOME and the working directory are set, ~/.rbql_table_names is written"""
    import os, tempfile, shutil
    from rbql import rbql_csv
    root = tempfile.mkdtemp(prefix='rbqlverif_tp_')
    saved_cwd, saved_home = os.getcwd(), os.environ.get('HOME')
    rr = lambda p: root + p if p.startswith('/') else p
    try:
        cw, hm = dec_str(cwd), dec_str(home)
        for d in (cw, hm):
            os.makedirs(rr(d), exist_ok=True)
        listed = dec_list(files)
        for f in sorted(listed, key=len):
            is_dir = any(g.startswith(f + '/') for g in listed) or f in (cw, hm)
            if is_dir:
                os.makedirs(rr(f), exist_ok=True)
            elif not f.endswith('/.rbql_table_names'):
                os.makedirs(os.path.dirname(rr(f)), exist_ok=True)
                open(rr(f), 'w').close()
        if index != 'N':
            with open(os.path.join(rr(hm), '.rbql_table_names'), 'w', newline='') as fh:
                for ln in dec_list(index[1:]):
                    # the registered paths are absolute paths of the protocol: re-root them like everything else
                    parts = ln.split('\t')
                    if len(parts) > 1:
                        parts[1] = rr(parts[1])
                    parts[0] = rr(parts[0])
                    fh.write('\t'.join(parts) + '\n')
        os.environ['HOME'] = rr(hm)
        os.chdir(rr(cw))
        md = None if main_dir == 'N' else rr(dec_str(main_dir[1:]))
        tid = dec_str(table_id)
        r = rbql_csv.find_table_path(md, rr(tid) if tid.startswith('/') else tid)
        if r is None:
            return 'N'
        return 'S' + enc_str(r[len(root):] if r.startswith(root) else r)
    finally:
        os.chdir(saved_cwd)
        if saved_home is None:
            os.environ.pop('HOME', None)
        else:
            os.environ['HOME'] = saved_home
        shutil.rmtree(root, ignore_errors=True)


for _n, _f in (('tablepath', op_tablepath), ('itervars', op_itervars), ('pyastinfos', op_pyastinfos), ('pynum', op_pynum), ('numhandler', op_numhandler), ('tablevars', op_tablevars), ('joinresolve', op_joinresolve), ('exceptcols', op_exceptcols), ('dictvars', op_dictvars), ('attrvars', op_attrvars), ('directvars', op_directvars), ('clidialect', op_clidialect), ('starcount', op_starcount), ('starvars', op_starvars), ('starmarker', op_starmarker), ('trsel', op_trsel), ('updpairs', op_updpairs),
               ('basicvars', op_basicvars), ('arrayvars', op_arrayvars), ('selinfos', op_selinfos)):
    impl_py.register(_n, _f)
