"""C10 — CSV written by RBQL reads back as the identical table, in every dialect.

Tie: CSVWriter -> text/bytes -> CSVRecordIterator of the REAL code (Python, and rbql-js) against the
Lean writer + reader models on the whole observable (written text, writer warnings, records read
back, reader warnings).  Independent oracle: an explicit reference predicate `representable`
(written from the property's quantifier, not from the code); representable tables must read back
identical without warnings, None cells and delimiter-bearing simple/whitespace fields must warn."""
import itertools
import random

import common
import csvgen
from common import enc_str, dec_str, dec_table

RULE = ('exhaustive one-row tables (1-2 fields, field length <= L over {" delim-chars space LF CR a e-acute}) per (policy, delimiter) with '
        'line separators LF/CRLF/CR cycled, all 256 latin-1 code points, seeded random multi-row Unicode tables incl. None cells; py and js. '
        'non-trivial iff some field contains a quote, a delimiter character, a space or a line break, or is None; distinct = distinct case line')

CONFIGS = [('quoted', ','), ('quoted_rfc', ','), ('simple', ','), ('quoted', '##'), ('simple', '##'), ('whitespace', ' '),
           ('monocolumn', ''), ('quoted', ' '), ('quoted_rfc', '\t'), ('quoted_rfc', '##')]


def enc_cell(c):
    if isinstance(c, list):
        return 'L' + ('!' if not c else '+'.join(enc_cell(x) for x in c))
    return 'N' if c is None else enc_str(c)


def cell_has_none(c):
    return c is None or (isinstance(c, list) and any(x is None for x in c))


def flat_cell(c, d):
    """what normalize_fields makes of a cell (reference, from the property text: a list is joined by the sub-array delimiter)"""
    if isinstance(c, list):
        return (';' if d == '|' else '|').join('' if x is None else x for x in c)
    return c


def enc_cell_table(t):
    if not t:
        return '~'
    return ';'.join(('!' if not r else ','.join(enc_cell(c) for c in r)) for r in t)


def line_rt(pol, js, enc, d, sep, table):
    return 'roundtrip %s %d %s %s %s %s' % (pol, js, enc, enc_str(d), enc_str(sep), enc_cell_table(table))


def representable(pol, d, enc, table):
    """Reference dialect, from the property text."""
    if not table:
        return True
    for r in table:
        if not r:
            return False
        for f in r:
            if f is None or isinstance(f, list):
                return False      # the property quantifies over tables of strings
    first = table[0][0]
    if first.startswith('﻿') and enc in ('utf-8',):
        return False
    if first.startswith('ï»¿') and enc == 'latin-1':
        return False
    for r in table:
        if pol == 'monocolumn' and len(r) != 1:
            return False
        for f in r:
            has_nl = ('\n' in f) or ('\r' in f)
            if has_nl and pol != 'quoted_rfc':
                return False
            if pol == 'whitespace' and (f == '' or ' ' in f):
                return False
            raw = pol in ('simple',) or (pol in ('quoted', 'quoted_rfc') and '"' not in f and d not in f and not (pol == 'quoted_rfc' and has_nl))
            if raw and d != '' and (f + d).find(d) != len(f):
                return False
            if pol == 'simple' and '"' in f:
                pass
    return True


def expected_readback(pol, table):
    if pol == 'quoted_rfc':
        return [[f.replace('\r\n', '\n').replace('\r', '\n') for f in r] for r in table]
    return table


def gen(tier, seed):
    cases = []   # (pol, js, enc, d, sep, table)
    L = 2 if tier == 'quick' else 3
    exhaustive = {}
    seps = ['\n', '\r\n', '\r']
    k = 0
    for pol, d in CONFIGS:
        alpha = sorted(set('" \n\raé' + d + ('#' if '#' in d else ',')))
        fields = list(csvgen.all_strings(alpha, L))
        rows = [[f] for f in fields]
        if pol != 'monocolumn':
            f2 = list(csvgen.all_strings(alpha, 2 if tier == 'quick' else 2))
            rows += [[a, b] for a in fields for b in f2]
        for r in rows:
            sep = seps[k % 3]
            k += 1
            for js in (0, 1):
                enc = ['none', 'utf-8', 'latin-1'][k % 3] if js == 0 else ['utf-8', 'latin-1'][k % 2]
                cases.append((pol, js, enc, d, sep, [r]))
        exhaustive['%s d=%r one-row tables, field1 len<=%d, field2 len<=2, alphabet=%r' % (pol, d, L, ''.join(alpha))] = True
    # a BOM-like prefix anywhere but at the very start of the data is ordinary content
    for pol, d in CONFIGS:
        if pol in ('whitespace',):
            continue
        for enc, bom in (('utf-8', '\ufeff'), ('latin-1', 'ï»¿'), ('none', '\ufeff')):
            for js in (0, 1):
                if js and enc == 'none':
                    continue
                tabs = [[['x'], [bom + 'q']], [['x'], ['y'], [bom]], [['x', bom + 'q']], [['x' + bom, 'y'], [bom + bom, 'z']]]
                if pol == 'quoted_rfc':
                    tabs.append([['a\n' + bom + 'b', 'c']])
                for t in tabs:
                    if pol == 'monocolumn':
                        t = [r[:1] for r in t]
                    cases.append((pol, js, enc, d, '\n', t))
    # latin-1: every byte value survives
    allbytes = [chr(i) for i in range(256)]
    for pol, d in (('quoted_rfc', ','), ('quoted', ';')):
        for js in (0, 1):
            t = [[c for c in allbytes[i:i + 16] if c not in ('\n', '\r') or pol == 'quoted_rfc'] for i in range(0, 256, 16)]
            t[14][15] = 'x'  # keep 0xEF 0xBB 0xBF out of the first position only; they are inside the table
            cases.append((pol, js, 'latin-1', d, '\n', t))
            cases.append((pol, js, 'latin-1', d, '\r\n', [[''.join(c for c in allbytes if c not in '\r\n"'), ''.join(allbytes[32:128])]]))
    exhaustive['all 256 latin-1 code points in one table'] = True
    rnd = random.Random(seed * 49979687 + 10)
    pool = ['a', 'b', '"', ',', ' ', '\t', '\n', '\r', '#', ';', '|', 'é', '中', '\U0001F600', '\\', "'", '\ufeff']
    for _ in range(3000 if tier == 'quick' else 50000):
        pol = rnd.choice(['quoted', 'quoted_rfc', 'simple', 'whitespace', 'monocolumn'])
        d = {'whitespace': ' ', 'monocolumn': ''}.get(pol) if pol in ('whitespace', 'monocolumn') else rnd.choice([',', ';', '\t', '|', ' ', '##', ',;', '¦', ', '])      # (a delimiter must not BEGIN with a space: the pattern's trailing ' *' after a quoted field eats it — outside the dialect, GoodDelim)
        nrows = rnd.randint(0, 4)
        ncols = 1 if pol == 'monocolumn' else rnd.randint(1, 4)
        table = []
        for _r in range(nrows):
            row = []
            for _c in range(ncols if rnd.random() < 0.9 else rnd.randint(1, 4)):
                x = rnd.random()
                if x < 0.05:
                    row.append(None)
                elif x < 0.09:
                    row.append([(None if rnd.random() < 0.25 else ''.join(rnd.choice(pool) for _i in range(rnd.randint(0, 3)))) for _j in range(rnd.randint(0, 3))])
                else:
                    row.append(''.join(rnd.choice(pool + list(d)) for _i in range(rnd.randint(0, 6))))
            if pol == 'monocolumn' and rnd.random() < 0.95:
                row = row[:1]
            table.append(row)
        js = rnd.choice([0, 1])
        enc = rnd.choice(['none', 'utf-8']) if js == 0 else 'utf-8'
        cases.append((pol, js, enc, d, rnd.choice(seps), table))
    return cases, exhaustive


def nontrivial(c):
    for r in c[5]:
        for f in r:
            if f is None or isinstance(f, list) or any(ch in f for ch in '" \n\r\t') or (c[3] and any(ch in f for ch in c[3])):
                return True
    return False


def oracle(c, out):
    """Independent check of the property on the implementation's own output."""
    pol, js, enc, d, sep, table = c
    if not out.startswith('ok '):
        return None
    try:
        wpart, rpart = out.split(' | ')
        wtok = wpart.split(' ')
        none_flag = 'none=1' in wtok
        delim_flag = 'delim=1' in wtok
        rtok = rpart.split(' ')
    except ValueError:
        return 'unparsable output'
    has_none = any(cell_has_none(f) for r in table for f in r)
    if has_none and not none_flag:
        return 'None written (as a cell or inside a list cell) without the None warning'
    if none_flag and not has_none:
        return 'None warning without a None in the output'
    if pol in ('simple', 'whitespace') and d and any(f is not None and d in flat_cell(f, d) for r in table for f in r) and not delim_flag:
        return 'delimiter inside a simple/whitespace field without warning'
    eff_enc = enc if not (js and enc == 'none') else 'utf-8'
    if representable(pol, d, eff_enc, table):
        if rtok[0] != 'ok':
            return 'representable table not read back: ' + rpart[:80]
        got = dec_table(rtok[2])
        if got != expected_readback(pol, table):
            return 'representable table read back differently'
        ragged = len(set(len(r) for r in table)) > 1
        rw = [] if rtok[3] == '~' else rtok[3].split(',')
        if ragged:
            rw = [w for w in rw if not w.startswith('fields:')]   # a ragged table legitimately raises the field-count warning
        if rw or none_flag or delim_flag:
            return 'representable table raised warnings'
    return None


def run(res, tier, seed):
    res.rule = RULE
    res.assumptions = ["Python codecs / Node Buffer encodings are correct", 'os.linesep is LF (TextIOWrapper write translation)']
    cases, exhaustive = gen(tier, seed)
    res.exhaustive = exhaustive
    n_repr = 0
    for c in cases:
        res.count('policy=%s js=%d' % (c[0], c[1]))
        if nontrivial(c):
            res.nontrivial.add(line_rt(*c))
    for c in cases[100:102] + cases[-2:]:
        res.sample({'policy': c[0], 'js': c[1], 'encoding': c[2], 'delim': c[3], 'line_separator': c[4], 'table': c[5]})
    for impl, flag in (('py', 0), ('js', 1)):
        sub = [c for c in cases if c[1] == flag]
        lines = [line_rt(*c) for c in sub]
        mout = common.run_model(lines)
        iout = common.run_impl_py(lines) if impl == 'py' else common.run_impl_js(lines)
        res.evaluations += len(lines)
        nbad = 0
        for c, l, m, o in zip(sub, lines, mout, iout):
            why = None
            if m != o:
                why = 'model and implementation differ'
            else:
                why = oracle(c, o)
                if why is None and o.startswith('ok ') and ' | ok ' in o:
                    eff_enc = c[2] if not (c[1] and c[2] == 'none') else 'utf-8'
                    if representable(c[0], c[3], eff_enc, c[5]):
                        n_repr += 1
            if why:
                nbad += 1
                if nbad <= 8:
                    res.violations.append({'property': 'C10', 'impl': impl, 'why': why, 'policy': c[0], 'encoding': c[2], 'delim': c[3], 'line_separator': c[4],
                                           'table': c[5], 'line': l, 'model_says': m[:1500], 'impl_says': o[:1500],
                                           'case_key': 'C10|' + l[:300], 'replay_cmd': './check C10 --replay <this file>'})
        res.count('disagreements_' + impl, nbad)
    res.count('representable_tables_round_tripped_silently', n_repr)
    hl = header_lines(seed)
    for impl, flag in (('py', '0'), ('js', '1')):
        sub = [l for l in hl if l.split(' ')[2] == flag]
        bad = common.differential(res, sub, impls=(impl,))
        for b in bad[:3]:
            res.violations.append({'property': 'C10', 'impl': impl, 'why': 'header + records written by CSVWriter differ from the writer model (the header line is quoted like a record)',
                                   'line': b['line'], 'model_says': b['model'][:800], 'impl_says': b['got'][:800], 'case_key': 'C10|hdr|' + b['line'][:300]})
        res.count('header_write_cases_' + impl, len(sub))


def header_lines(seed):
    """the header goes through the same quoting as the records (set_header): names containing the delimiter, quotes, spaces"""
    rnd = random.Random(seed * 7919 + 101)
    names = ['id', 'last, first', 'said "what"', 'a b', 'x;y', 'tab\there', 'é', '', 'n#', '##']
    lines = []
    for pol, d in (('quoted', ','), ('quoted_rfc', ','), ('quoted', ';'), ('simple', '\t'), ('quoted', '##'), ('quoted_rfc', '\t')):
        for _ in range(12):
            k = rnd.randint(1, 3)
            hdr = rnd.sample(names, k)
            table = [[rnd.choice(['1', 'v, w', 'q"q', '']) for _c in range(k)] for _r in range(rnd.randint(0, 2))]
            for js in (0, 1):
                lines.append('write %s %d %s %s S%s %s' % (pol, js, enc_str(d), enc_str('\n'), common.enc_list(hdr), enc_cell_table(table)))
    return lines


def replay(res, path):
    return common.replay_generic(res, path)
