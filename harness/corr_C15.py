"""C15 — Broken pipes, bad bytes and errors are handled cleanly at every point.

(a) user writer refusing at every write index k x every query shape: Lean `run` with a refusing sink
    vs REAL rbql.query with a recording writer (rows accepted, records pulled, write calls, calls
    after a refusal, finish calls); plus the header protocol of the real writer calls;
(b) CSVWriter over a stream raising BrokenPipeError from its k-th write call: the query returns without
    error having emitted a prefix of the full output (direct oracle on the implementation);
(c) an invalid UTF-8 byte at every position x every chunk size: IO-handling error, never garbage;
(d) /proc/self/fd before and after rbql_csv.query_csv on success, parsing error, runtime error, IO error,
    missing files, with and without a join file: tied to the resource machine of Model/Resources.lean."""
import json
import random
import subprocess

import common
import engine_corr
import qgen

RULE = ('(a) every refusal index k=1..|full|+2 x shapes {streaming, where, unnest, sorted, distinct, distinct-count, aggregated, top, join, update}; '
        '(b) every stream-write index at which the pipe breaks x shapes; (c) every byte position x chunk sizes {1,2,3,5,1024}; (d) 14 fault scenarios of query_csv. '
        'non-trivial iff a refusal/fault actually fires; distinct = distinct (shape, table, fault index)')

SHAPES = [
    {'items': [{'e': ['a', 0]}, {'e': ['a', 1]}]},
    {'items': ['star'], 'where': ['ne', ['a', 1], ['lit', 'skip']]},
    {'items': [{'e': ['a', 0]}, {'unnest': ['split', ['a', 1], ';']}]},
    {'items': [{'e': ['a', 0]}], 'order': [['a', 0]], 'desc': True},
    {'items': [{'e': ['a', 0]}], 'distinct': 'yes'},
    {'items': [{'e': ['a', 0]}], 'distinct': 'count'},
    {'items': [{'e': ['a', 0]}, {'agg': 'count', 'e': ['lit', qgen.num(1)]}], 'group': [['a', 0]]},
    {'items': ['star'], 'top': 3},
    {'items': [{'e': ['a', 0]}, {'e': ['b', 1]}], 'join': {'kind': 'left', 'lhs': [0], 'rhs': [0]}},
    {'update': True, 'items': [], 'assigns': [[1, ['lit', 'u']]]},
    {'items': [{'e': ['a', 0]}], 'order': [['a', 1]], 'distinct': 'yes', 'top': 2},
]
TABLE = [['k1', 'x;y'], ['k2', 'skip'], ['k1', 'z'], ['k3', 'p;q;r'], ['k2', 'w']]
BTABLE = [['k1', 'B1'], ['k1', 'B2'], ['k3', 'B3']]


def refusal_cases():
    cases = []
    for q in SHAPES:
        for k in range(1, 12):
            qq = dict(q)
            qq['refuse'] = k
            cases.append({'q': qq, 'A': TABLE, 'B': BTABLE if q.get('join') else None})
        for A in ([], TABLE[:1]):
            qq = dict(q)
            qq['refuse'] = 1
            cases.append({'q': qq, 'A': A, 'B': BTABLE if q.get('join') else None})
    return cases


IMPL_CODE = r'''
import sys, os, io, json
from rbql import rbql_engine, rbql_csv
import qgen

mode = sys.argv[1]
arg = json.loads(sys.stdin.read())
out = []

class BreakingStream(object):
    def __init__(self, k): self.k = k; self.n = 0; self.chunks = []
    def write(self, s):
        self.n += 1
        if self.n >= self.k: raise BrokenPipeError('broken pipe')
        self.chunks.append(s)
    def flush(self): pass
    def close(self): pass

if mode == 'pipe':
    for text, table, k in arg:
        st = BreakingStream(k) if k else BreakingStream(10 ** 9)
        w = rbql_csv.CSVWriter(st, False, None, ',', 'quoted')
        it = rbql_engine.TableIterator(table)
        it_calls = [0]
        orig = it.get_record
        def counted(orig=orig):
            r = orig()
            if r is not None: it_calls[0] += 1
            return r
        it.get_record = counted
        reg = rbql_engine.ListTableRegistry([rbql_engine.ListTableInfo('b', arg and [['k1', 'B1'], ['k1', 'B2'], ['k3', 'B3']], None)])
        try:
            rbql_engine.query(text, it, w, [], reg)
            out.append({'ok': True, 'text': ''.join(st.chunks), 'broken': w.broken_pipe, 'pulled': it_calls[0], 'stream_writes': st.n})
        except BaseException as e:
            out.append({'ok': False, 'exc': type(e).__name__ + ': ' + str(e)[:100]})
elif mode == 'badbytes':
    for data, chunk, pol in arg:
        raw = bytes(data)
        try:
            it = rbql_csv.CSVRecordIterator(io.BytesIO(raw), 'utf-8', ',', pol, chunk_size=chunk)
            recs = it.get_all_records()
            out.append({'outcome': 'records', 'n': len(recs)})
        except rbql_engine.RbqlIOHandlingError as e:
            out.append({'outcome': 'io-error', 'msg': str(e)[:60]})
        except BaseException as e:
            out.append({'outcome': 'raw-exception', 'exc': type(e).__name__})
elif mode == 'badbytes-file':
    import tempfile, shutil
    d = tempfile.mkdtemp(prefix='rbqlverif_big_')
    try:
        for data, _errors, pol, query in arg:
            inp = os.path.join(d, 'in.csv')
            with open(inp, 'wb') as f: f.write(bytes(data))
            try:
                rbql_csv.query_csv(query, inp, ',', pol, os.path.join(d, 'out.csv'), ',', pol, 'utf-8', [], False)
                out.append({'outcome': 'returned'})
            except Exception as e:
                et = rbql_engine.exception_to_error_info(e)[0]
                out.append({'outcome': 'io-error' if et == 'IO handling' else 'other-error', 'error_type': et, 'msg': str(e)[:80]})
    finally:
        shutil.rmtree(d, ignore_errors=True)
elif mode == 'badbytes-stdin':
    # the table arrives on stdin (query_csv(input_path=None)) and the interpreter's stdin has the given error handler
    # (CPython itself uses surrogateescape under the C/POSIX locale and in UTF-8 mode): the handler of the stream RBQL is
    # given must not decide whether bad bytes are reported
    import tempfile, shutil
    d = tempfile.mkdtemp(prefix='rbqlverif_stdin_')
    saved = sys.stdin
    try:
        for data, errors, pol, query in arg:
            sys.stdin = io.TextIOWrapper(io.BytesIO(bytes(data)), encoding='utf-8', errors=errors)
            try:
                rbql_csv.query_csv(query, None, ',', pol, os.path.join(d, 'out.csv'), ',', pol, 'utf-8', [], False)
                out.append({'outcome': 'returned', 'output': open(os.path.join(d, 'out.csv'), 'rb').read()[:60].hex()})
            except rbql_engine.RbqlIOHandlingError as e:
                out.append({'outcome': 'io-error', 'msg': str(e)[:60]})
            except BaseException as e:
                out.append({'outcome': 'raw-exception', 'exc': type(e).__name__ + ': ' + str(e)[:80]})
    finally:
        sys.stdin = saved
        shutil.rmtree(d, ignore_errors=True)
elif mode == 'fds':
    import tempfile, shutil
    d = tempfile.mkdtemp(prefix='rbqlverif_fd_')
    try:
        def put(name, data):
            p = os.path.join(d, name)
            with open(p, 'wb') as f: f.write(data)
            return p
        good = put('good.csv', b'k1,x\nk2,y\nk1,z\n')
        joinf = put('j.csv', b'k1,J1\nk2,J2\n')
        bad = put('bad.csv', b'k1,x\n\xff\xfe,y\n')
        badjoin = put('bj.csv', b'\xffk1,J1\n')
        rfc = put('rfc.csv', b'a,"b"x\n')
        rfcjoin = put('rj.csv', b'k1,"J"x\n')
        latebadjoin = put('lbj.csv', b'k1,J1\n' * 3000 + b'\xffk2,J2\n')
        for name, query, inp, outp, pol in arg:
            inp_path = {'good': good, 'bad': bad, 'missing': os.path.join(d, 'nope.csv'), 'rfc': rfc}[inp]
            out_path = os.path.join(d, 'out_%d.csv' % len(out)) if outp == 'file' else os.path.join(d, 'nodir', 'x.csv')
            query = query.replace('JOINFILE', joinf).replace('LATEBADJOIN', latebadjoin).replace('BADJOIN', badjoin).replace('RFCJOIN', rfcjoin).replace('NOJOIN', os.path.join(d, 'nojoin.csv'))
            before = sorted(os.listdir('/proc/self/fd'))
            warnings = []
            try:
                rbql_csv.query_csv(query, inp_path, ',', pol, out_path, ',', pol, 'utf-8', warnings, False)
                outcome = 'ok'
            except BaseException as e:
                outcome = rbql_engine.exception_to_error_info(e)[0] if isinstance(e, Exception) else type(e).__name__
                if type(e).__name__ in ('FileNotFoundError',): outcome = 'FileNotFoundError'
            after = sorted(os.listdir('/proc/self/fd'))
            out.append({'name': name, 'outcome': outcome, 'leaked': sorted(set(after) - set(before)), 'lost': sorted(set(before) - set(after)),
                        'stdio_open': all(not s.closed for s in (sys.stdin, sys.stdout, sys.stderr))})
    finally:
        shutil.rmtree(d, ignore_errors=True)
elif mode == 'fds-pipe':
    # the result goes to standard output, which is a real OS pipe whose reader is already gone: small results break only at
    # the FINAL flush, large ones inside the main loop. query_csv must return, and must not leave a descriptor it opened behind.
    import tempfile, shutil
    d = tempfile.mkdtemp(prefix='rbqlverif_pipe_')
    real_stdout = sys.stdout
    try:
        for name, query, nrows in arg:
            inp = os.path.join(d, 'in.csv')
            with open(inp, 'wb') as f:
                for i in range(nrows): f.write(('%d,name%d,%d\n' % (i, i, i % 3)).encode())
            r_end, w_end = os.pipe()
            os.close(r_end)
            fake = io.TextIOWrapper(os.fdopen(w_end, 'wb'), encoding='utf-8')
            def fds():
                m = {}
                for n in os.listdir('/proc/self/fd'):
                    try: m[int(n)] = os.readlink('/proc/self/fd/' + n)
                    except OSError: pass
                return m
            before = fds()
            sys.stdout = fake
            outcome = 'ok'
            try:
                try:
                    rbql_csv.query_csv(query, inp, ',', 'quoted', None, ',', 'quoted', 'utf-8', [], False)
                except BaseException as e:
                    outcome = type(e).__name__ + ': ' + str(e)[:80]
            finally:
                sys.stdout = real_stdout
            after = fds()
            leaked = sorted((k, v) for k, v in after.items() if k not in before)
            for k, _v in leaked:
                try: os.close(k)
                except OSError: pass
            try: fake.close()
            except Exception: pass
            out.append({'name': name, 'outcome': outcome, 'leaked': leaked})
    finally:
        sys.stdout = real_stdout
        shutil.rmtree(d, ignore_errors=True)
elif mode == 'fds-fifo':
    # the result goes to an OUTPUT PATH that is a pipe (a FIFO; /dev/stdout and process substitution behave alike) whose reader opens it and goes away at once:
    # small results meet the broken pipe when the writer CLOSES the file (D29), large ones inside the main loop
    import tempfile, shutil, threading
    d = tempfile.mkdtemp(prefix='rbqlverif_fifo_')
    try:
        jp = os.path.join(d, 'j.csv')
        with open(jp, 'wb') as f: f.write(b'0,J0\n1,J1\n')
        for name, query, nrows in arg:
            inp = os.path.join(d, 'in.csv')
            with open(inp, 'wb') as f:
                for i in range(nrows): f.write(('%d,name%d,%d\n' % (i, i, i % 3)).encode())
            fifo = os.path.join(d, 'out_%d.fifo' % len(out))
            os.mkfifo(fifo)
            def reader(p=fifo):
                fh = open(p, 'rb'); fh.close()
            def fdset():
                m = set()
                for n in os.listdir('/proc/self/fd'):
                    try: tgt = os.readlink('/proc/self/fd/' + n)
                    except OSError: continue
                    if '/proc/' in tgt and tgt.endswith('/fd'): continue          # the listing itself
                    m.add((n, tgt))
                return m
            before = fdset()
            t = threading.Thread(target=reader); t.start()
            outcome = 'ok'
            try:
                rbql_csv.query_csv(query.replace('JOINFILE', jp), inp, ',', 'quoted', fifo, ',', 'quoted', 'utf-8', [], False)
            except BaseException as e:
                outcome = type(e).__name__ + ': ' + str(e)[:80]
            t.join(10)
            after = fdset()
            out.append({'name': name, 'outcome': outcome, 'leaked': sorted(after - before)})
    finally:
        shutil.rmtree(d, ignore_errors=True)
print(json.dumps(out, default=repr))
'''


def run_impl(mode, arg):
    env = common.impl_env()
    env['PYTHONPATH'] = env['PYTHONPATH'] + ':' + str(common.ROOT / 'harness')
    r = subprocess.run([common.PY, '-W', 'ignore', '-c', IMPL_CODE, mode], input=json.dumps(arg).encode(), env=env, stdout=subprocess.PIPE, stderr=subprocess.PIPE, timeout=1800)
    try:
        return json.loads(r.stdout.decode().strip().split('\n')[-1])
    except (ValueError, IndexError):
        return [{'harness_failure': r.stderr.decode()[-300:]}]


def broken_pipe_check(res):
    shapes = [q for q in SHAPES]
    items = []
    meta = []
    for q in shapes:
        text = qgen.render_query(q, 'py')
        items.append((text, TABLE, 0))
        meta.append((text, 0))
    full = run_impl('pipe', items)
    items2 = []
    meta2 = []
    for (text, _k), f in zip(meta, full):
        if not f.get('ok'):
            res.violations.append({'property': 'C15', 'why': 'unbroken run failed', 'query_py': text, 'observed': f, 'case_key': 'C15|pipe0|' + text})
            continue
        nw = f['stream_writes']
        for k in range(1, nw + 2):
            items2.append((text, TABLE, k))
            meta2.append((text, k, f))
    outs = run_impl('pipe', items2)
    res.evaluations += len(items) + len(items2)
    nbad = 0
    for (text, k, f), o in zip(meta2, outs):
        res.nontrivial.add(('pipe', text, k))
        why = None
        if not o.get('ok'):
            why = 'the query raised instead of returning: %s' % o.get('exc', o)
        elif not f['text'].startswith(o['text']):
            why = 'the text written before the pipe broke is not a prefix of the full output'
        elif k <= f['stream_writes'] and not o['broken']:
            why = 'broken_pipe flag not set'
        elif k <= f['stream_writes'] and o['stream_writes'] > k:
            why = 'the stream was written to again after it raised BrokenPipeError'
        if why:
            nbad += 1
            if nbad <= 3:
                res.violations.append({'property': 'C15', 'impl': 'py', 'why': why, 'query_py': text, 'A': TABLE, 'break_at_stream_write': k, 'observed': o,
                                       'full_output': f['text'], 'case_key': 'C15|pipe|%s|%d' % (text, k)})
    res.count('broken_pipe_runs', len(items2))
    res.count('broken_pipe_failures', nbad)


def bad_bytes_check(res, tier):
    base = b'ab,cd\n"e,f",g\r\nh\xc3\xa9,i\n'
    items = []
    for pos in range(len(base) + 1):
        for bad in (0xff, 0xc3, 0x80):
            data = base[:pos] + bytes([bad]) + base[pos:]
            try:
                data.decode('utf-8')
                continue            # this insertion happens to be valid UTF-8
            except UnicodeDecodeError:
                pass
            for chunk in ((1, 2, 3, 5, 1024) if tier == 'quick' else (1, 2, 3, 4, 5, 7, 8, 16, 1024)):
                for pol in ('quoted', 'quoted_rfc'):
                    items.append((list(data), chunk, pol))
    # every line-break convention around a decoder-block boundary (io.TextIOWrapper decodes 8192 bytes at a time): a block ending in an empty CR / CRLF / LF line,
    # the reader's one-character look-ahead after a CR falling on the boundary, the bad byte in the NEXT block
    for brk in (b'\r', b'\r\n', b'\n'):
        line = b'ab' + brk
        m = (8192 - 2 * len(brk) - 1) // len(line)
        k = 8192 - 2 * len(brk) - m * len(line)
        block = line * m + b'a' * k + brk + brk          # 8192 bytes ending with an empty line
        assert len(block) == 8192 and k >= 1, (len(block), k)
        for tail in (b'cd' + brk + b'\xff' + b'ef' + brk, b'\xffcd' + brk, brk + b'x\xff'):
            data = block + tail
            for chunk in ((1, 2, 3, 5, 8191, 1024) if tier == 'quick' else (1, 2, 3, 4, 5, 7, 8, 16, 1024, 4096, 8191, 8192, 8193)):
                for pol in ('quoted', 'quoted_rfc', 'simple'):
                    items.append((list(data), chunk, pol))
    outs = run_impl('badbytes', items)
    res.evaluations += len(items)
    nbad = 0
    for it, o in zip(items, outs):
        res.nontrivial.add(('badbyte', bytes(it[0]), it[1], it[2]))
        if o.get('outcome') != 'io-error':
            nbad += 1
            if nbad <= 3:
                res.violations.append({'property': 'C15', 'impl': 'py', 'why': 'an invalid UTF-8 byte did not produce an IO-handling error', 'bytes': it[0], 'chunk_size': it[1],
                                       'policy': it[2], 'observed': o, 'case_key': 'C15|badbyte|%s|%d|%s' % (bytes(it[0]).hex(), it[1], it[2])})
    res.count('bad_byte_runs', len(items))
    res.count('bad_byte_failures', nbad)
    # LARGE inputs: the decoder works in blocks (io.TextIOWrapper: 8192 bytes), the first of which is read while the iterator is constructed;
    # a bad byte in a LATER block surfaces inside the main loop, and must still be an IO-handling error of the QUERY (through rbql.query_csv)
    big_items = []
    row = b'1234567,abcdefgh,some text here\n'
    for total in (9000, 20000):
        body = row * (total // len(row) + 1)
        for pos in (8191, 8192, 8193, 8300, total - 1):
            data = body[:pos] + b'\xff' + body[pos:total]
            for query in ('select a1', 'select count(*)', 'select top 1 a1 order by a2', 'update set a1 = a2'):
                big_items.append((list(data), 'strict', 'quoted', query))
    outs = run_impl('badbytes-file', big_items)
    res.evaluations += len(big_items)
    n3 = 0
    for it, o in zip(big_items, outs):
        res.nontrivial.add(('badbyte-big', len(it[0]), bytes(it[0]).find(b'\xff'), it[3]))
        if o.get('outcome') != 'io-error':
            n3 += 1
            if n3 <= 2:
                res.violations.append({'property': 'C15', 'impl': 'py', 'why': 'an invalid UTF-8 byte deep inside a large input file did not produce an IO-handling error of the query',
                                       'input_size': len(it[0]), 'bad_byte_offset': bytes(it[0]).find(b'\xff'), 'query': it[3], 'observed': o,
                                       'case_key': 'C15|badbyte-big|%d|%d|%s' % (len(it[0]), bytes(it[0]).find(b'\xff'), it[3])})
    res.count('bad_byte_large_file_runs', len(big_items))
    res.count('bad_byte_large_file_failures', n3)
    # the same through stdin whose own error handler is lenient
    items = []
    for pos in (0, 1, 6, len(base) // 2, len(base) - 1, len(base)):
        data = base[:pos] + b'\xff' + base[pos:]
        for errors in ('strict', 'surrogateescape', 'replace', 'ignore', 'backslashreplace'):
            for pol, query in (('quoted', 'select *'), ('quoted_rfc', 'select a1, len(a2)'), ('quoted', 'select count(*)'), ('simple', 'select top 1 a1 order by a2')):
                items.append((list(data), errors, pol, query))
    outs = run_impl('badbytes-stdin', items)
    res.evaluations += len(items)
    n2 = 0
    for it, o in zip(items, outs):
        res.nontrivial.add(('badbyte-stdin', bytes(it[0]), it[1], it[2], it[3]))
        if o.get('outcome') != 'io-error':
            n2 += 1
            if n2 <= 3:
                res.violations.append({'property': 'C15', 'impl': 'py', 'why': 'an invalid UTF-8 byte arriving on stdin (error handler of sys.stdin: %s) did not produce an IO-handling error' % it[1],
                                       'bytes': it[0], 'stdin_errors': it[1], 'policy': it[2], 'query': it[3], 'observed': o,
                                       'case_key': 'C15|badbyte-stdin|%s|%s|%s|%s' % (bytes(it[0]).hex(), it[1], it[2], it[3])})
    res.count('bad_byte_stdin_runs', len(items))
    res.count('bad_byte_stdin_failures', n2)


def bad_bytes_check_js(res, tier):
    """the rbql-js stream and bulk readers on invalid / truncated UTF-8 (every position incl. after the last line terminator, every partition)"""
    import corr_C20
    cases = corr_C20.bad_byte_cases(tier)
    lines = [corr_C20.to_line(c) for c in cases]
    outs = common.run_impl_js(lines)
    res.evaluations += len(lines)
    nbad = 0
    for c, l, o in zip(cases, lines, outs):
        res.nontrivial.add(('badbyte-js', c[8], c[1]))
        if o != 'err decode':
            nbad += 1
            if nbad <= 3:
                res.violations.append({'property': 'C15', 'impl': 'js', 'why': 'invalid / truncated UTF-8 did not produce an IO-handling (decoding) error in rbql-js for some chunking or for the bulk read',
                                       'bytes': c[8].hex(), 'policy': c[1], 'line': l, 'observed': o[:500], 'case_key': 'C15|badbyte-js|%s|%s' % (c[8].hex(), c[1])})
    res.count('bad_byte_runs_js', len(lines))
    res.count('bad_byte_failures_js', nbad)


FD_SCENARIOS = [
    ('success', 'select a1, a2', 'good', 'file', 'quoted'),
    ('success-join', 'select a1, b2 join JOINFILE on a1 == b1', 'good', 'file', 'quoted'),
    ('parsing-error', 'select a1 where a1 = 1', 'good', 'file', 'quoted'),
    ('syntax-error', 'select a1, (a2', 'good', 'file', 'quoted'),
    ('runtime-error', 'select int(a2)', 'good', 'file', 'quoted'),
    ('runtime-error-join', 'select int(b2) join JOINFILE on a1 == b1', 'good', 'file', 'quoted'),
    ('io-error-input', 'select a1', 'bad', 'file', 'quoted'),
    ('io-error-join', 'select a1, b2 join BADJOIN on a1 == b1', 'good', 'file', 'quoted'),
    ('missing-join', 'select a1, b2 join NOJOIN on a1 == b1', 'good', 'file', 'quoted'),
    ('missing-input', 'select a1', 'missing', 'file', 'quoted'),
    ('bad-output-dir', 'select a1', 'good', 'baddir', 'quoted'),
    ('rfc-quote-error', 'select a1', 'rfc', 'file', 'quoted_rfc'),
    ('join-key-error', 'select a1 join JOINFILE on a1 == b7', 'good', 'file', 'quoted'),
    ('strict-left-error', 'select a1 strict left join JOINFILE on a2 == b1', 'good', 'file', 'quoted'),
]


# the error CLASS each scenario must end in (exception_to_error_info): whatever else fails while the query is wound up (closing files, collecting warnings)
# must not replace the error that stopped it
FD_EXPECTED = {'success': 'ok', 'success-join': 'ok', 'parsing-error': 'query parsing', 'syntax-error': 'syntax error', 'runtime-error': 'query execution', 'runtime-error-join': 'query execution',
               'io-error-input': 'IO handling', 'io-error-join': 'IO handling', 'missing-join': 'IO handling', 'missing-input': 'FileNotFoundError', 'bad-output-dir': 'FileNotFoundError',
               'rfc-quote-error': 'IO handling', 'join-key-error': 'query execution', 'strict-left-error': 'query execution',
               'io-error-join-headers': 'IO handling', 'rfc-error-join': 'IO handling', 'io-error-join-late': 'IO handling'}
FD_SCENARIOS_EXTRA = [('io-error-join-headers', 'select a1, b2 join BADJOIN on a1 == b1 with (header)', 'good', 'file', 'quoted'),
                      ('rfc-error-join', 'select a1, b2 join RFCJOIN on a1 == b1', 'good', 'file', 'quoted_rfc'),
                      ('io-error-join-late', 'select a1, b2 join LATEBADJOIN on a1 == b1', 'good', 'file', 'quoted')]


def fd_check(res):
    FD_SCENARIOS.extend(s for s in FD_SCENARIOS_EXTRA if s not in FD_SCENARIOS)
    outs = run_impl('fds', FD_SCENARIOS)
    res.evaluations += len(FD_SCENARIOS)
    # the model: which step fails in each scenario (index into allSteps), checked closed by theorem C15_fds_closed
    nbad = 0
    for sc, o in zip(FD_SCENARIOS, outs):
        res.nontrivial.add(('fd', sc[0]))
        res.count('fd_outcome=%s' % o.get('outcome'))
        if o.get('leaked') or o.get('lost') or not o.get('stdio_open', False) or 'harness_failure' in o or o.get('outcome') != FD_EXPECTED.get(sc[0], o.get('outcome')):
            nbad += 1
            res.violations.append({'property': 'C15', 'impl': 'py', 'why': 'file descriptors differ before/after query_csv, or the query ended in another error class than the one that stopped it (expected %s)' % FD_EXPECTED.get(sc[0]), 'scenario': sc, 'observed': o,
                                   'case_key': 'C15|fd|' + sc[0]})
    res.count('fd_failures', nbad)
    res.sample({'fd_scenarios': [[s[0], o.get('outcome')] for s, o in zip(FD_SCENARIOS, outs)]})


PIPE_SCENARIOS = [(n + '/%d' % rows, q, rows) for rows in (0, 1, 20, 30000) for n, q in (
    ('plain', 'select a1, a2'), ('sorted', 'select a1, a2 order by int(a1) desc'), ('agg', 'select a3, count(*) group by a3'),
    ('distinct', 'select distinct a3'), ('update', 'update set a2 = "x"'), ('top', 'select top 3 a1'))]


def stdout_pipe_check(res):
    outs = run_impl('fds-pipe', PIPE_SCENARIOS)
    res.evaluations += len(PIPE_SCENARIOS)
    nbad = 0
    for sc, o in zip(PIPE_SCENARIOS, outs):
        res.nontrivial.add(('stdout-pipe', sc[0]))
        if 'harness_failure' in o or o.get('outcome') != 'ok' or o.get('leaked'):
            nbad += 1
            if nbad <= 3:
                res.violations.append({'property': 'C15', 'impl': 'py', 'why': 'standard output is a pipe whose reader is gone: query_csv must return and leave no descriptor it opened behind',
                                       'scenario': sc, 'observed': o, 'case_key': 'C15|stdout-pipe|' + sc[0]})
    fifo_scen = PIPE_SCENARIOS + [('join/%d' % rows, 'select a1, b2 left join JOINFILE on a1 == b1', rows) for rows in (0, 1, 20, 30000)]
    fouts = run_impl('fds-fifo', fifo_scen)
    res.evaluations += len(fifo_scen)
    for sc, o in zip(fifo_scen, fouts):
        res.nontrivial.add(('fifo', sc[0]))
        if 'harness_failure' in o or o.get('outcome') != 'ok' or o.get('leaked'):
            nbad += 1
            if nbad <= 3:
                res.violations.append({'property': 'C15', 'impl': 'py', 'why': 'the output path is a pipe whose reader is gone: query_csv must return (a broken pipe is not an error) and leave no descriptor behind',
                                       'scenario': sc, 'observed': o, 'case_key': 'C15|fifo|' + sc[0]})
    res.count('fifo_scenarios', len(fifo_scen))
    res.count('stdout_pipe_scenarios', len(PIPE_SCENARIOS))
    res.count('stdout_pipe_failures', nbad)


def header_protocol_check(res):
    """set_header at most once and before any write (real writer-call trace through the driver)"""
    code_cases = [{'q': q, 'A': TABLE, 'B': BTABLE if q.get('join') else None, 'header_a': ['c1', 'c2'], 'header_b': ['d1', 'd2'] if q.get('join') else None} for q in SHAPES]
    lines = [engine_corr.make_line(c) for c in code_cases]
    outs = [engine_corr.parse_out(o) for o in common.run_impl_py([l.replace('query ', 'querytrace ', 1) for l in lines])]
    res.evaluations += len(lines)
    for c, o in zip(code_cases, outs):
        if o.get('setHeaderCalls', 99) > 1 or o.get('headerAfterWrite', True) or (o.get('err') is None and o.get('finished') != 1):
            res.violations.append({'property': 'C15', 'impl': 'py', 'why': 'writer protocol: set_header at most once and before any write; finish exactly once',
                                   'query_py': qgen.render_query(c['q'], 'py'), 'observed': o, 'case_key': 'C15|hdr|' + qgen.render_query(c['q'], 'py')})


def run(res, tier, seed):
    res.rule = RULE
    res.assumptions = ['OS pipe semantics, TextIOWrapper buffering and the garbage collector are outside the model',
                       'the resource machine of Model/Resources.lean is a hand abstraction of query_csv; /proc/self/fd ties it']
    cases = refusal_cases()
    rnd = random.Random(seed * 13 + 15)
    for _ in range(400 if tier == 'quick' else 8000):
        A = qgen.gen_table(rnd, nrows=rnd.randint(0, 6), ncols=2, pool=['k1', 'k2', 'x;y', 'z'], ragged=0.0, none_p=0.0, full_cols=2)
        q = dict(rnd.choice(SHAPES))
        q['refuse'] = rnd.randint(1, 8)
        cases.append({'q': q, 'A': A, 'B': BTABLE if q.get('join') else None})
    for c in cases:
        res.nontrivial.add(json.dumps([c['q'], c['A']], sort_keys=True))
    res.sample({'query': qgen.render_query(cases[3]['q'], 'py'), 'refuse_from_write': cases[3]['q']['refuse'], 'A': cases[3]['A']})
    engine_corr.run_cases(res, 'C15', cases, 'py')
    header_protocol_check(res)
    broken_pipe_check(res)
    bad_bytes_check(res, tier)
    bad_bytes_check_js(res, tier)
    fd_check(res)
    stdout_pipe_check(res)


def replay(res, path):
    v = json.loads(open(path).read())
    if v.get('line', '').startswith('query '):
        return engine_corr.replay(res, path)
    print(json.dumps(v, indent=1)[:3000])
    return False
