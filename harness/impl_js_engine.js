// Engine-level ops for the rbql-js implementation driver.
'use strict';
const path = require('path');
const base = require('./impl_js.js');
const {OPS, enc_str, dec_str, enc_list, dec_list, enc_table, dec_table, repo} = base;
const rbql = require(path.join(repo, 'rbql-js', 'rbql.js'));

OPS['likebatch'] = async (js, table) => {
    const rows = dec_table(table);
    let out = [];
    let warnings = [];
    await rbql.query_table('select like(a1, a2)', rows, out, warnings);
    return out.map(r => r[0] === true ? '1' : (r[0] === false ? '0' : '?')).join('');
};

module.exports = {rbql};
