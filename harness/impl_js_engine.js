// Engine-level ops for the rbql-js implementation driver.
'use strict';
const path = require('path');
const base = require('./impl_js.js');
const {OPS, enc_str, dec_str, enc_list, dec_list, enc_table, dec_table, repo} = base;
const rbql = require(path.join(repo, 'rbql-js', 'rbql.js'));

// the shallow parser functions of rbql.js (a separate implementation of the Python ones), same output format as impl_py.py
const STMT_RANK = {'JOIN': 0, 'SELECT': 1, 'ORDER BY': 2, 'WHERE': 3, 'UPDATE': 4, 'GROUP BY': 5, 'LIMIT': 6, 'EXCEPT': 7};
function classify_parse_error(e) {
    const msg = String(e && e.message !== undefined ? e.message : e);
    if (e && e.constructor && e.constructor.name == 'AssertionError') return 'err assertion';
    let m = /More than one "(.*)" statements found/.exec(msg);
    if (m) return 'err more-than-one ' + m[1].replace(/ /g, '_');
    if (msg.indexOf('UPDATE keyword must be at the beginning') != -1) return 'err update-not-first';
    if (msg.indexOf('SELECT keyword must be at the beginning') != -1) return 'err select-not-first';
    if (msg.indexOf('must contain either SELECT or UPDATE') != -1) return 'err no-select-no-update';
    if (msg.indexOf('Invalid join syntax') != -1) return 'err invalid-join';
    if (msg.indexOf('ssert') != -1) return 'err assertion';
    return 'err other ' + enc_str(msg.slice(0, 60));
}
const enc_bool = b => b ? '1' : '0';
OPS['actionsjs'] = async (t) => {
    let r;
    try { r = rbql.separate_actions(dec_str(t)); } catch (e) { return classify_parse_error(e); }
    const w = r.hasOwnProperty('WITH') ? enc_str(r['WITH']) : '~';
    const keys = Object.keys(r).filter(k => k != 'WITH').sort((a, b) => (STMT_RANK[a] === undefined ? 8 : STMT_RANK[a]) - (STMT_RANK[b] === undefined ? 8 : STMT_RANK[b]));
    const opt = v => (v === null || v === undefined) ? '~' : v;
    const acts = keys.map(st => {
        const p = r[st];
        return [st.replace(/ /g, '_'), enc_str(p['text']), opt(p['join_subtype'] ? p['join_subtype'].replace(/ /g, '_') : null),
                opt(p.hasOwnProperty('reverse') ? enc_bool(p['reverse']) : null), opt(p['top'] === undefined || p['top'] === null ? null : String(p['top'])),
                enc_bool(!!p['distinct']), enc_bool(!!p['distinct_count'])].join(':');
    });
    return 'ok ' + w + ' ' + acts.join(' ');
};
OPS['joinexprjs'] = async (t) => {
    let r;
    try { r = rbql.parse_join_expression(dec_str(t)); } catch (e) { return classify_parse_error(e); }
    return 'ok ' + enc_str(r[0]) + ' ' + r[1].map(p => enc_str(p[0]) + '=' + enc_str(p[1])).join(' ');
};

OPS['likebatch'] = async (js, table) => {
    const rows = dec_table(table);
    let out = [];
    let warnings = [];
    await rbql.query_table('select like(a1, a2)', rows, out, warnings);
    return out.map(r => r[0] === true ? '1' : (r[0] === false ? '0' : '?')).join('');
};

module.exports = {rbql};

// ---------------------------------------------------------------------------------------------
// `query <json>`: the REAL rbql-js engine with a counting iterator and a recording writer.

function cell_to_js(c) {
    if (c === null || typeof c === 'string' || typeof c === 'boolean') return c;
    if (Array.isArray(c)) return c.map(cell_to_js);
    if (c && c.n) return c.n[1] === 1 ? c.n[0] : c.n[0] / c.n[1];
    return c;
}

function value_to_cell(v) {
    if (v === null || v === undefined) return null;
    if (typeof v === 'string' || typeof v === 'boolean') return v;
    if (typeof v === 'number') return {f: v};
    if (Array.isArray(v)) return v.map(value_to_cell);
    return {other: typeof v};
}

class CountingIterator extends rbql.TableIterator {
    constructor(table, column_names) { super(table, column_names); this.pulled = 0; }
    async get_record() {
        const r = await super.get_record();
        if (r !== null) this.pulled += 1;
        return r;
    }
}

class RecordingWriter extends rbql.RBQLOutputWriter {
    constructor(refuse_from) {
        super();
        this.rows = []; this.writes = 0; this.refuse_from = refuse_from; this.after_refusal = 0; this.finished = 0;
        this.header = null; this.set_header_calls = 0; this.header_after_write = false;
    }
    async write(fields) {
        this.writes += 1;
        if (this.refuse_from !== null && this.writes >= this.refuse_from) {
            if (this.writes > this.refuse_from) this.after_refusal += 1;
            return false;
        }
        this.rows.push(fields);
        return true;
    }
    async finish() { this.finished += 1; }
    set_header(header) { this.set_header_calls += 1; if (this.writes) this.header_after_write = true; this.header = header; }
    get_warnings() { return []; }
}

function classify_error(e) {
    const msg = String(e && e.message !== undefined ? e.message : e);
    const name = e && e.constructor ? e.constructor.name : 'Error';
    let m;
    if (name === 'RbqlRuntimeError') {
        if ((m = /No "a(\d+)" field at record (\d+)/.exec(msg))) return ['runtime', parseInt(m[2]), parseInt(m[1])];
        if ((m = /No field with index (\d+) at record (\d+) in "B" table/.exec(msg))) return ['joinB', parseInt(m[2]), parseInt(m[1])];
        if ((m = /At record (\d+)/.exec(msg))) return ['runtime', parseInt(m[1]), null];
        return ['runtime-other', msg.slice(0, 120)];
    }
    if (name === 'RbqlParsingError') {
        if (msg.indexOf('Only one UNNEST') != -1) return ['parsing', 'unnest-twice'];
        if (msg.indexOf('not allowed in aggregate queries') != -1) return ['parsing', 'agg-order-distinct'];
        return ['parsing', 'other: ' + msg.slice(0, 120)];
    }
    if (name === 'RbqlIOHandlingError') return ['io', msg.slice(0, 120)];
    return ['exception', name, msg.slice(0, 120)];
}

function snapshot(t) { return JSON.stringify(t); }

base.RAW_OPS['query'] = async (payload) => {
    const c = JSON.parse(payload);
    const A = c.A.map(r => r.map(cell_to_js));
    let B = (c.B === undefined || c.B === null) ? null : c.B.map(r => r.map(cell_to_js));
    if (c.share_rows) {
        // value-equal rows become one shared object (and the join table the input table itself when equal)
        for (let i = 0; i < A.length; i++) for (let j = 0; j < i; j++) if (JSON.stringify(A[i]) === JSON.stringify(A[j])) { A[i] = A[j]; break; }
        if (B !== null && JSON.stringify(B) === JSON.stringify(A)) B = A;
    }
    const a_rows = A.slice();                 // identities of the caller's rows
    const snapA = snapshot(A), snapB = snapshot(B);
    const it = new CountingIterator(A, c.header_a || null);
    const w = new RecordingWriter(c.q.refuse === undefined ? null : c.q.refuse);
    const warnings = [];
    const registry = B === null ? null : new rbql.SingleTableRegistry(B, c.header_b || null);
    let err = null;
    try {
        await rbql.query(c.js, it, w, warnings, registry);
    } catch (e) {
        err = classify_error(e);
    }
    const mutated = snapshot(A) !== snapA || snapshot(B) !== snapB;
    let aliased = false;
    for (const r of w.rows) { if (a_rows.indexOf(r) != -1 || (B !== null && B.indexOf(r) != -1)) aliased = true; }
    if (err !== null) return JSON.stringify({err: err, sourcesMutated: mutated});
    const own = it.get_warnings();
    const parse_fw = (msg) => { const m = /record (\d+) -> (\d+) fields, record (\d+) -> (\d+) fields/.exec(msg); return m ? [parseInt(m[2]), parseInt(m[1]), parseInt(m[4]), parseInt(m[3])] : ['unparsed', msg.slice(0, 80)]; };
    const rest = warnings.slice(own.length);
    const fw = rest.filter(x => x.indexOf('Number of fields') != -1);
    const other = rest.filter(x => x.indexOf('Number of fields') == -1);
    let d = {rows: w.rows.map(r => r.map(value_to_cell)), err: null, pulled: it.pulled, writes: w.writes, afterRefusal: w.after_refusal, finished: w.finished,
             warnA: own.length ? parse_fw(own[0]) : null, warnB: fw.length ? parse_fw(fw[0]) : null, sourcesMutated: mutated, outputAliasesInput: aliased};
    if (other.length) d.otherWarnings = other;
    return JSON.stringify(d);
};
