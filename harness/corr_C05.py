"""C05 — UPDATE emits every record once, changing only assigned fields of matching rows.

Tie: Lean `run` (processUpdate: copy, right-hand sides see the original record, NU, safe_set) vs REAL
rbql.query over 1..3 assignments (all target spellings) x WHERE x INNER/LEFT JOIN, short rows to hit the
missing-field error.  Independent oracle on the implementation's own output: one output record per input
record, same width, unassigned fields unchanged, WHERE-false / partner-less rows unchanged."""
import json
import random

import engine_corr
import qgen

RULE = ('seeded random tables (ragged, short rows) x UPDATE [SET] lists of 1..3 assignments (aN, a[N] targets; rhs over fields, literals, NU, NR) '
        'x WHERE x {none, INNER JOIN, LEFT JOIN}; plus the direct oracle (length, order, untouched fields). '
        'non-trivial iff the table is non-empty and some record is updated; distinct = distinct (query, tables)')


def gen_cases(rnd, n):
    cases = []
    for _ in range(n):
        acols = rnd.randint(1, 3)
        A = qgen.gen_table(rnd, nrows=rnd.randint(0, 5), ncols=acols, ragged=0.2, none_p=0.1)
        q = {'update': True, 'items': [], 'assigns': []}
        B = None
        bcols = 2
        use_join = rnd.random() < 0.3
        if use_join:
            B = qgen.gen_table(rnd, nrows=rnd.randint(0, 4), ncols=bcols, ragged=0.0, none_p=0.0, full_cols=2)
            q['join'] = {'kind': rnd.choice(['inner', 'inner', 'left']), 'lhs': [rnd.randrange(acols)], 'rhs': [0]}
        for _i in range(rnd.randint(1, 3)):
            tgt = rnd.randrange(acols + (1 if rnd.random() < 0.2 else 0))
            rhs = rnd.choice([['a', rnd.randrange(acols)], ['lit', 'U'], ['nu'], ['nr'], ['concat', ['a', rnd.randrange(acols)], ['lit', '+']],
                              ['b', 1] if use_join else ['lit', None], ['add', ['nu'], ['nr']]])
            q['assigns'].append([tgt, rhs])
        if rnd.random() < 0.5:
            q['where'] = qgen.gen_bool_expr(rnd, acols, 1, use_join, bcols)
        if rnd.random() < 0.15:
            q['top'] = rnd.randint(0, 3)        # `UPDATE … LIMIT n` is accepted and means nothing: UPDATE emits every record
        case = {'q': q, 'A': A, 'B': B}
        if A and rnd.random() < 0.2:
            # a table is a list of row OBJECTS: the same row object several times (and, for a self-join, the table itself as join table);
            # the engine works on copies, so this is unobservable
            import copy
            for _k in range(rnd.randint(1, 3)):
                A.insert(rnd.randrange(len(A) + 1), copy.deepcopy(rnd.choice(A)))
            case['share_rows'] = True
            if use_join and rnd.random() < 0.5 and all(len(r) >= 1 for r in A):
                case['B'] = copy.deepcopy(A)
                q['join']['rhs'] = [0]
        cases.append(case)
    # the swap
    for A in ([['1', '2'], ['3', '4']], [['x', 'y', 'z']], []):
        cases.append({'q': {'update': True, 'items': [], 'assigns': [[0, ['a', 1]], [1, ['a', 0]]]}, 'A': A, 'B': None})
    return cases


def direct_oracle(res, cases):
    import common
    lines = [engine_corr.make_line(c) for c in cases]
    outs = [engine_corr.parse_out(o) for o in common.run_impl_py(lines)]
    res.evaluations += len(lines)
    nbad = 0
    for c, o in zip(cases, outs):
        if o.get('err') is not None or 'rows' not in o:
            continue
        why = None
        rows = o['rows']
        A = c['A']
        if len(rows) != len(A):
            why = 'number of output records differs from the number of input records'
        else:
            assigned = set(i for i, _ in c['q']['assigns'])
            for r_in, r_out in zip(A, rows):
                if len(r_in) != len(r_out):
                    why = 'output record has a different number of fields'
                    break
                for i, (x, y) in enumerate(zip(r_in, r_out)):
                    if i not in assigned and x != y:
                        why = 'an unassigned field changed'
                        break
                if why:
                    break
        if why:
            nbad += 1
            if nbad <= 3:
                res.violations.append({'property': 'C05', 'impl': 'py', 'why': why, 'query_py': qgen.render_query(c['q'], 'py'), 'A': A, 'B': c['B'],
                                       'line': engine_corr.make_line(c), 'impl_says': o, 'case_key': 'C05|oracle|' + qgen.render_query(c['q'], 'py') + json.dumps(A)})
    res.count('direct_oracle_failures', nbad)


def partner_exists(case, r_in, nr):
    j = case['q']['join']
    key = []
    for l in j['lhs']:
        if l is None:
            key.append(nr)
        elif l < len(r_in):
            key.append(r_in[l])
        else:
            return None
    for bnr, rb in enumerate(case['B'], 1):
        bk = []
        ok = True
        for r in j['rhs']:
            if r is None:
                bk.append(bnr)
            elif r < len(rb):
                bk.append(rb[r])
            else:
                ok = False
        if ok and bk == key:
            return True
    return False


def known_finding_witness(res):
    """D14 (known finding, see DESIGN.md section 5): UPDATE ... LEFT JOIN applies the assignments to records that have no partner
    (the null record counts as the single match). Pinned witness, replayed on every run."""
    import common
    c = {'q': {'update': True, 'items': [], 'assigns': [[1, ['lit', 'z']]], 'join': {'kind': 'left', 'lhs': [0], 'rhs': [0]}},
         'A': [['1', 'x'], ['2', 'y']], 'B': [['1', 'p']]}
    o = engine_corr.parse_out(common.run_impl_py([engine_corr.make_line(c)])[0])
    res.evaluations += 1
    if o.get('err') is None and o.get('rows') and len(o['rows']) == 2 and o['rows'][1] != ['2', 'y']:
        res.violations.append({'property': 'C05', 'impl': 'py', 'why': 'a record without join partner was modified by UPDATE ... LEFT JOIN',
                               'query_py': qgen.render_query(c['q'], 'py'), 'A': c['A'], 'B': c['B'], 'line': engine_corr.make_line(c), 'impl_says': o,
                               'case_key': 'C05|D14|update-left-join-unmatched'})


def partnerless_oracle(res, cases):
    """records without a join partner are emitted unchanged (INNER / STRICT joins; the LEFT JOIN class is the pinned known finding D14)"""
    import common
    sub = [c for c in cases if c['q'].get('join') and c['q']['join']['kind'] != 'left']
    outs = [engine_corr.parse_out(o) for o in common.run_impl_py([engine_corr.make_line(c) for c in sub])]
    res.evaluations += len(sub)
    nbad = 0
    for c, o in zip(sub, outs):
        if o.get('err') is not None or 'rows' not in o or len(o['rows']) != len(c['A']):
            continue
        for nr, (r_in, r_out) in enumerate(zip(c['A'], o['rows']), 1):
            if partner_exists(c, r_in, nr) is False and r_in != r_out:
                nbad += 1
                if nbad <= 3:
                    res.violations.append({'property': 'C05', 'impl': 'py', 'why': 'a record without join partner was modified', 'query_py': qgen.render_query(c['q'], 'py'),
                                           'A': c['A'], 'B': c['B'], 'line': engine_corr.make_line(c), 'impl_says': o,
                                           'case_key': 'C05|partnerless|' + qgen.render_query(c['q'], 'py') + json.dumps([c['A'], c['B']])})
                break
    res.count('partnerless_checks', len(sub))
    res.count('partnerless_failures', nbad)


def run(res, tier, seed):
    res.rule = RULE
    rnd = random.Random(seed * 7368787 + 5)
    cases = gen_cases(rnd, 12000 if tier == 'quick' else 120000)
    for c in cases:
        if c['A']:
            res.nontrivial.add(json.dumps([c['q'], c['A'], c['B']], sort_keys=True))
    for c in cases[:2] + cases[-2:]:
        res.sample({'query': qgen.render_query(c['q'], 'py'), 'A': c['A'], 'B': c['B']})
    engine_corr.run_cases(res, 'C05', cases, 'py', rnd=random.Random(seed + 9))
    engine_corr.js_leg(res, 'C05', cases, rnd=random.Random(seed + 109))
    direct_oracle(res, cases[:3000])
    partnerless_oracle(res, cases)
    # the text-to-code step in front of the engine: the assignment list (Model/Translate.lean vs the real translate_update_expression)
    import translate_corr
    translate_corr.run_leg(res, tier, seed, {'update'})
    known_finding_witness(res)


def replay(res, path):
    import translate_corr
    r = translate_corr.replay(res, path)
    return engine_corr.replay(res, path) if r is None else r
