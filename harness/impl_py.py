"""Implementation driver: runs the REAL Python code of /repo (PYTHONPATH=/repo/rbql-py) on protocol
lines read from stdin and prints one canonical result line per case.  Same protocol as the Lean
model driver (lean/Driver/Main.lean)."""
import io
import os
import re
import sys

sys.path.insert(0, os.path.dirname(os.path.abspath(__file__)))
from common import enc_str, dec_str, enc_list, dec_list, enc_table, dec_table, enc_opt_list, enc_bool

import rbql
from rbql import csv_utils, rbql_csv, rbql_engine

assert os.path.realpath(rbql.__file__).startswith(os.path.realpath(os.environ.get('VERIF_REPO', '/repo'))), rbql.__file__


class PieceStream(object):
    """Text stream whose read(n) returns at most n characters of the next prescribed piece."""

    def __init__(self, pieces):
        self.pieces = [p for p in pieces]

    def read(self, n=-1):
        if not self.pieces:
            return ''
        p = self.pieces[0]
        if n is None or n < 0:
            n = len(p)
        t = p[:n]
        rest = p[n:]
        if rest:
            self.pieces[0] = rest
        else:
            self.pieces.pop(0)
        return t


class PieceRaw(io.RawIOBase):
    """Binary raw stream handing out prescribed byte pieces (short reads)."""

    def __init__(self, pieces):
        io.RawIOBase.__init__(self)
        self.pieces = [bytes(p) for p in pieces]

    def readable(self):
        return True

    def readinto(self, b):
        if not self.pieces:
            return 0
        p = self.pieces[0]
        n = min(len(b), len(p))
        b[:n] = p[:n]
        if n < len(p):
            self.pieces[0] = p[n:]
        else:
            self.pieces.pop(0)
        return n


def canon_warnings(ws):
    out = []
    for w in ws:
        if 'Byte Order Mark' in w:
            out.append('bom')
            continue
        m = re.search(r'Inconsistent double quote escaping in .* table\. E\.g\. at line (\d+)', w)
        if m:
            out.append('defective:' + m.group(1))
            continue
        m = re.search(r'record (\d+) -> (\d+) fields, record (\d+) -> (\d+) fields', w)
        if m:
            out.append('fields:%s:%s:%s:%s' % (m.group(2), m.group(1), m.group(4), m.group(3)))
            continue
        out.append('other:' + enc_str(w))
    return ','.join(out) if out else '~'


def op_split(pol, pres, d, s):
    fields, warn = csv_utils.smart_split(dec_str(s), dec_str(d), pol, pres == '1')
    return '%s %s' % (enc_list(fields), enc_bool(warn))


def op_quote(rfc, js, d, f):
    fn = csv_utils.rfc_quote_field if rfc == '1' else csv_utils.quote_field
    return enc_str(fn(dec_str(f), dec_str(d)))


def op_unquote(py, f):
    return enc_str(csv_utils.unquote_field(dec_str(f)))


def make_stream(enc, pieces):
    if enc == 'none':
        return PieceStream(pieces), None
    raw = PieceRaw([bytes(ord(c) for c in p) for p in pieces])
    return io.BufferedReader(raw, buffer_size=8), enc


def read_result(stream, encoding, pol, hdr, modi, chunk, d, comment_prefix):
    try:
        it = rbql_csv.CSVRecordIterator(stream, encoding, d, pol, has_header=(hdr == '1'), comment_prefix=comment_prefix, chunk_size=chunk)
        if modi == 'h':
            it.handle_query_modifier('header')
        elif modi == 'N':
            it.handle_query_modifier('noheader')
        header = it.get_header()
        records = it.get_all_records()
        warnings = it.get_warnings()
    except rbql_engine.RbqlIOHandlingError as e:
        m = re.search(r'Inconsistent double quote escaping in .* table at record (\d+), line (\d+)', str(e))
        if m:
            return 'err rfc %s %s' % (m.group(1), m.group(2))
        if 'Unable to decode' in str(e):
            return 'err decode'
        return 'err io ' + enc_str(str(e))
    return 'ok %s %s %s' % (enc_opt_list(header), enc_table(records), canon_warnings(warnings))


def op_readpy(pol, enc, hdr, modi, chunk, d, comment, pieces_txt):
    stream, encoding = make_stream(enc, dec_list(pieces_txt))
    comment_prefix = None if comment == '~' else dec_str(comment)
    return read_result(stream, encoding, pol, hdr, modi, int(chunk), dec_str(d), comment_prefix)


def partitions(data):
    n = len(data)
    if n == 0:
        yield []
        return
    for mask in range(1 << (n - 1)):
        pieces = []
        start = 0
        for i in range(1, n):
            if mask & (1 << (i - 1)):
                pieces.append(data[start:i])
                start = i
        pieces.append(data[start:])
        yield pieces


def op_readpyall(pol, enc, hdr, modi, d, comment, text, bytes_txt):
    """Every partition of the text (or of its bytes) x every chunk size 1..n+1; the common result,
    or the first deviation from reading the input whole."""
    data = dec_str(text) if enc == 'none' else dec_str(bytes_txt)
    comment_prefix = None if comment == '~' else dec_str(comment)
    delim = dec_str(d)
    n = len(data)
    stream, encoding = make_stream(enc, [data] if n else [])
    baseline = read_result(stream, encoding, pol, hdr, modi, 1024, delim, comment_prefix)
    for pieces in partitions(data):
        for chunk in range(1, n + 2):
            stream, encoding = make_stream(enc, pieces)
            r = read_result(stream, encoding, pol, hdr, modi, chunk, delim, comment_prefix)
            if r != baseline:
                return 'DIFF pieces=%s chunk=%d got=[%s] whole=[%s]' % (enc_list(pieces), chunk, r, baseline)
    return baseline


def dec_cell(t):
    if t == 'N':
        return None
    if t.startswith('L'):
        return [] if t == 'L!' else [dec_cell(x) for x in t[1:].split('+')]
    return dec_str(t)


def dec_cell_table(t):
    if t == '~':
        return []
    return [([] if r == '!' else [dec_cell(x) for x in r.split(',')]) for r in t.split(';')]


def do_write(pol, enc, d, linesep, hdr, table):
    """returns (result line, written text or None)"""
    if enc == 'none':
        stream = io.StringIO(newline='')
        encoding = None
    else:
        stream = io.BytesIO()
        encoding = enc
    try:
        w = rbql_csv.CSVWriter(stream, False, encoding, d, pol, line_separator=linesep)
        w.set_header(hdr)
        for rec in table:
            w.write(rec[:])
        w.finish()
    except rbql_engine.RbqlIOHandlingError as e:
        msg = str(e)
        if 'Monocolumn' in msg:
            return 'err mono', None
        m = re.search(r'Inconsistent number of columns in output header and the current record: (\d+) != (\d+)', msg)
        if m:
            return 'err width %s %s' % (m.group(1), m.group(2)), None
        return 'err io ' + enc_str(msg), None
    raw = stream.getvalue()
    text = raw if enc == 'none' else raw.decode(enc)
    ws = w.get_warnings()
    none_flag = any('None values' in x for x in ws)
    delim_flag = any('contain separator' in x for x in ws)
    other = [x for x in ws if 'None values' not in x and 'contain separator' not in x]
    res = 'ok %s none=%s delim=%s' % (enc_str(text), enc_bool(none_flag), enc_bool(delim_flag))
    if other:
        res += ' other=' + enc_str('|'.join(other))
    return res, raw


def op_write(pol, js, d, linesep, hdr, table):
    header = None if hdr == 'N' else dec_list(hdr[1:])
    return do_write(pol, 'none', dec_str(d), dec_str(linesep), header, dec_cell_table(table))[0]


def op_roundtrip(pol, js, enc, d, linesep, table):
    res, raw = do_write(pol, enc, dec_str(d), dec_str(linesep), None, dec_cell_table(table))
    if raw is None:
        return res
    if enc == 'none':
        stream, encoding = make_stream('none', [raw] if raw else [])
    else:
        stream, encoding = make_stream(enc, [''.join(chr(x) for x in raw)] if raw else [])
    rd = read_result(stream, encoding, pol, '0', 'n', 1024, dec_str(d), None)
    return res + ' | ' + rd


def op_likebatch(js, table):
    rows = dec_table(table)
    out = []
    warnings = []
    rbql.query_table('select like(a1, a2)', rows, out, warnings)
    res = ''.join('1' if r[0] is True else ('0' if r[0] is False else '?') for r in out)
    if hasattr(rbql_engine, 'like_to_regex'):
        direct = ''.join('1' if re.match(rbql_engine.like_to_regex(r[1]), r[0]) is not None else '0' for r in rows)
        if direct != res:
            return 'INCONSISTENT query=%s like_to_regex=%s' % (res, direct)
    return res


STMT_RANK = {'JOIN': 0, 'SELECT': 1, 'ORDER BY': 2, 'WHERE': 3, 'UPDATE': 4, 'GROUP BY': 5, 'LIMIT': 6, 'EXCEPT': 7}


def classify_parse_error(e):
    msg = str(e)
    m = re.search(r'More than one "(.*)" statements found', msg)
    if m:
        return 'err more-than-one ' + m.group(1).replace(' ', '_')
    if 'UPDATE keyword must be at the beginning' in msg:
        return 'err update-not-first'
    if 'SELECT keyword must be at the beginning' in msg:
        return 'err select-not-first'
    if 'must contain either SELECT or UPDATE' in msg:
        return 'err no-select-no-update'
    if 'can not contain both SELECT and UPDATE' in msg:
        return 'err both-select-update'
    if 'Invalid join syntax' in msg:
        return 'err invalid-join'
    return 'err other ' + enc_str(msg[:60])


def op_cleanup(t):
    return enc_str(rbql_engine.cleanup_query(dec_str(t)))


def op_seplit(t):
    fe, lits = rbql_engine.separate_string_literals(dec_str(t))
    return '%s %s' % (enc_str(fe), enc_list(lits))


def op_combine(e, lits):
    return enc_str(rbql_engine.combine_string_literals(dec_str(e), dec_list(lits)))


def op_redundant(t):
    return enc_str(rbql_engine.remove_redundant_input_table_name(dec_str(t)))


def op_actions(t):
    groups = [g for g in rbql_engine.default_statement_groups if g != [rbql_engine.FROM]]
    try:
        r = rbql_engine.separate_actions(groups, dec_str(t))
    except rbql_engine.RbqlParsingError as e:
        return classify_parse_error(e)
    w = enc_str(r['WITH']) if 'WITH' in r else '~'
    acts = []
    for st in sorted((k for k in r if k != 'WITH'), key=lambda k: STMT_RANK.get(k, 8)):
        p = r[st]
        opt = lambda v: '~' if v is None else v
        acts.append('%s:%s:%s:%s:%s:%s:%s' % (st.replace(' ', '_'), enc_str(p['text']), opt(p.get('join_subtype', None) and p['join_subtype'].replace(' ', '_')),
                                               opt(None if 'reverse' not in p else enc_bool(p['reverse'])), opt(None if p.get('top') is None else str(p['top'])),
                                               enc_bool(p.get('distinct', False)), enc_bool(p.get('distinct_count', False))))
    return 'ok %s %s' % (w, ' '.join(acts))


def op_parse(t):
    q = rbql_engine.cleanup_query(dec_str(t))
    fe, lits = rbql_engine.separate_string_literals(q)
    fe = rbql_engine.remove_redundant_input_table_name(fe)
    return '%s | %s' % (enc_list(lits), op_actions(enc_str(fe)))


def op_joinexpr(t):
    try:
        tid, pairs = rbql_engine.parse_join_expression(dec_str(t))
    except rbql_engine.RbqlParsingError as e:
        return classify_parse_error(e)
    return 'ok %s %s' % (enc_str(tid), ' '.join(enc_str(a) + '=' + enc_str(b) for a, b in pairs))


def op_pyescape(q, name):
    return enc_str(rbql_engine.python_string_escape_column_name(dec_str(name), '"' if q == 'd' else "'"))


def op_pyeval(q, body):
    import ast
    qc = '"' if q == 'd' else "'"
    b = dec_str(body)
    if '\x00' in b:
        return 'N'
    try:
        v = ast.literal_eval(qc + b + qc)
    except (SyntaxError, ValueError):
        return 'N'
    if not isinstance(v, str):
        return 'N'
    return 'S' + enc_str(v)


def op_readboth(pol, enc, hdr, modi, d, comment, text):
    t = dec_str(text)
    data = t.encode('utf-8' if enc == 'utf-8' else 'latin-1')
    stream, encoding = make_stream(enc, [''.join(chr(x) for x in data)] if data else [])
    return read_result(stream, encoding, pol, hdr, modi, 1024, dec_str(d), None if comment == '~' else dec_str(comment))


OPS = {'readboth': op_readboth, 'cleanup': op_cleanup, 'seplit': op_seplit, 'combine': op_combine, 'redundant': op_redundant, 'actions': op_actions, 'joinexpr': op_joinexpr, 'parse': op_parse, 'pyescape': op_pyescape, 'pyeval': op_pyeval, 'likebatch': op_likebatch, 'write': op_write, 'roundtrip': op_roundtrip, 'split': op_split, 'quote': op_quote, 'unquote': op_unquote, 'readpy': op_readpy, 'readpyall': op_readpyall}


RAW_OPS = {}   # ops whose single argument is the rest of the line (JSON payloads)


def register(name, fn):
    OPS[name] = fn


def main():
    sys.modules['impl_py'] = sys.modules['__main__']
    import impl_py_engine  # noqa: F401  (registers the engine-level ops)
    import impl_py_translate  # noqa: F401  (registers the ops of the query-translation layer)
    out = sys.stdout
    for line in sys.stdin:
        line = line.rstrip('\n')
        parts = line.split(' ')
        fn = OPS.get(parts[0])
        if parts[0] in RAW_OPS:
            fn = RAW_OPS[parts[0]]
            parts = [parts[0], line[len(parts[0]) + 1:]]
        if fn is None:
            out.write('bad-op\n')
        else:
            try:
                out.write(fn(*parts[1:]) + '\n')
            except Exception as e:  # an implementation exception is an observation, not a harness failure
                out.write('EXC %s %s\n' % (type(e).__name__, enc_str(str(e)[:200])))
        out.flush()


if __name__ == '__main__':
    main()
