"""C02 — ORDER BY, DISTINCT and TOP/LIMIT compose as sort, then dedup, then truncate.

Tie: Lean `run` vs REAL rbql.query over tables whose key columns take 2-3 distinct values (ties
dominate) x {asc,desc} x {1,2 keys} x {none, DISTINCT, DISTINCT COUNT} x {none, TOP n, LIMIT n,
n in 0..|T|+1} x {WHERE, JOIN, UNNEST}; the number of records pulled from the input is part of the
observable (a bounded streaming query must stop pulling).  Independent oracle on the implementation's
own results: bounded = prefix of unbounded; DESC = reverse of ASC; and a never-ending iterator."""
import json
import random

import engine_corr
import qgen

RULE = ('seeded random tables with 2-3 distinct key values per column (ties dominate), every combination of {asc,desc} x {1,2 keys} x '
        '{none,DISTINCT,DISTINCT COUNT} x {none,TOP,LIMIT with n in 0..|T|+1} x {WHERE,JOIN,UNNEST}; pulled-record count compared. '
        'non-trivial iff the result has a tie under the sort key, a duplicate row, or is truncated; distinct = distinct (query, tables)')


def gen_cases(rnd, n):
    cases = []
    for _ in range(n):
        ncols = rnd.randint(2, 3)
        nrows = rnd.randint(0, 6)
        pool = rnd.sample(['x', 'y', 'z', 'x;y', '10', '9'], rnd.randint(2, 3))
        # one case in ten has None cells: a None sort key cannot be ordered by the host language (TypeError out of finish),
        # except as a component of a tuple key behind an equal prefix
        hostile = rnd.random() < 0.1
        A = qgen.gen_table(rnd, nrows=nrows, ncols=ncols, pool=pool, ragged=0.0, none_p=0.25 if hostile else 0.0, full_cols=0 if hostile else ncols)
        q = {'items': []}
        B = None
        use_join = rnd.random() < 0.25
        bcols = 2
        if use_join:
            B = qgen.gen_table(rnd, nrows=rnd.randint(0, 4), ncols=2, pool=pool, ragged=0.0, none_p=0.0, full_cols=2)
            q['join'] = {'kind': rnd.choice(['inner', 'left']), 'lhs': [rnd.randrange(ncols)], 'rhs': [0]}
        for _i in range(rnd.randint(1, 3)):
            r = rnd.random()
            if r < 0.6:
                q['items'].append({'e': ['a', rnd.randrange(ncols)]})
            elif r < 0.7 and use_join:
                q['items'].append({'e': ['b', 1]})
            elif r < 0.8:
                q['items'].append({'e': ['lit', 'k']})
            elif r < 0.9:
                q['items'].append('star')
            else:
                q['items'].append({'e': ['nr']})
        if rnd.random() < 0.15 and not any(isinstance(i, dict) and 'unnest' in i for i in q['items']):
            q['items'].append({'unnest': [rnd.choice(['split', 'splitne']), ['a', rnd.randrange(ncols)], ';']})
        if rnd.random() < 0.3:
            q['where'] = qgen.gen_bool_expr(rnd, ncols - 1, 1)
        r = rnd.random()
        if r < 0.65:
            keys = [['a', rnd.randrange(ncols)]]
            if rnd.random() < 0.35:
                keys.append(rnd.choice([['a', rnd.randrange(ncols)], ['nr'], ['len', ['a', 0]]]))
            if rnd.random() < 0.15:
                keys = [['len', ['a', rnd.randrange(ncols)]]]
            q['order'] = keys
            q['desc'] = rnd.random() < 0.5
        q['distinct'] = rnd.choice(['no', 'no', 'yes', 'count'])
        if rnd.random() < 0.6:
            q['top'] = rnd.randint(0, nrows + 1)
        cases.append({'q': q, 'A': A, 'B': B})
    return cases


def gen_large_cases(rnd, n):
    """a few LARGE tables (more than 1000 records beyond the bound): buffering writers that trim, batch or spill their state
    only show it there.  Few distinct values, so duplicates and sort ties dominate."""
    cases = []
    for _ in range(n):
        nrows = rnd.randint(1100, 2600)
        vals = rnd.sample(['x', 'y', 'z', 'w', 'v', 'u', 't'], rnd.randint(2, 5))
        A = [[rnd.choice(vals), rnd.choice(vals), str(i % rnd.choice([3, 7, 50]))] for i in range(nrows)]
        q = {'items': [{'e': ['a', rnd.randrange(2)]}] + ([{'e': ['a', 2]}] if rnd.random() < 0.5 else [])}
        q['order'] = [['a', rnd.randrange(3)]] + ([['a', rnd.randrange(3)]] if rnd.random() < 0.3 else [])
        q['desc'] = rnd.random() < 0.5
        q['distinct'] = rnd.choice(['yes', 'count', 'count', 'no'])
        q['top'] = rnd.choice([1, 2, 3, 5, 10, 40])
        if rnd.random() < 0.3:
            q['where'] = ['ne', ['a', 0], ['lit', vals[0]]]
        cases.append({'q': q, 'A': A, 'B': None})
    return cases


def gen_number_cases(rnd, n):
    """DISTINCT / DISTINCT COUNT over NUMBER cells whose host hashes collide (CPython: hash(-1) == hash(-2), hash(2**61 - 1) == hash(0)):
    records are identified by their values, never by a digest of them"""
    cases = []
    vals = [-1, -2, 0, 2 ** 61 - 1, 5, -1, -2, 2 ** 61 - 1]
    for _ in range(n):
        A = [[qgen.num(rnd.choice(vals)), rnd.choice(['x', 'y'])] for _r in range(rnd.randint(2, 7))]
        q = {'items': [{'e': ['a', 0]}] + ([{'e': ['a', 1]}] if rnd.random() < 0.4 else []), 'distinct': rnd.choice(['yes', 'yes', 'count'])}
        if rnd.random() < 0.4:
            q['top'] = rnd.randint(1, 4)
        if rnd.random() < 0.3:
            q['order'] = [['a', 1]]
        cases.append({'q': q, 'A': A, 'B': None})
    return cases


def impl_rows(case):
    """run the real engine in-process through the driver protocol (one line) and return parsed result"""
    import common
    line = engine_corr.make_line(case)
    return engine_corr.parse_out(common.run_impl_py([line])[0])


CSV_SINK_IMPL = r'''
import sys, json, os, tempfile, shutil
import rbql
from rbql import rbql_csv, csv_utils
out = []
d = tempfile.mkdtemp(prefix='rbqlverif_c02csv_')
try:
    for q, T in json.loads(sys.stdin.read()):
        inp, outp = os.path.join(d, 'in.csv'), os.path.join(d, 'out.csv')
        with open(inp, 'w', encoding='utf-8', newline='') as f:
            for r in T: f.write(','.join(csv_utils.quote_field(x, ',') for x in r) + '\n')
        o = {}
        try:
            ref = []
            rbql.query_table(q, [r[:] for r in T], ref, [])
            o['table'] = [['' if x is None else str(x) for x in r] for r in ref]
        except Exception as e:
            o['table'] = 'err ' + type(e).__name__
        try:
            rbql_csv.query_csv(q, inp, ',', 'quoted', outp, ',', 'quoted', 'utf-8', [], False)
            o['csv'] = [csv_utils.split_quoted_str(l, ',')[0] for l in open(outp, encoding='utf-8', newline='').read().split('\n')[:-1]]
        except Exception as e:
            o['csv'] = 'err ' + type(e).__name__
        out.append(o)
finally:
    shutil.rmtree(d, ignore_errors=True)
print(json.dumps(out))
'''


def csv_sink_check(res, tier, seed):
    """DISTINCT / ORDER BY / TOP in front of the CSV writer, which renders the record it is handed (numbers to text, quoting): the rendering must
    not leak back into what the DISTINCT / sort stages remember (oracle: the same query through query_table, rendered afterwards)"""
    import subprocess
    import common
    rnd = random.Random(seed * 53 + 2)
    cases = []
    pool = ['1', '2', '10', 'x,y', 'q"t', 'plain', '']
    for _ in range(250 if tier == 'quick' else 4000):
        T = [[rnd.choice(pool[:3]), rnd.choice(pool[3:])] for _r in range(rnd.randint(1, 7))]
        sel = rnd.choice(['int(a1)', 'a2', 'int(a1), a2', 'a2, int(a1) * 2', 'a1', '[int(a1), a2]', 'None if a2 == "" else a2, a1', 'float(a1), a2'])
        q = 'select %s%s%s%s' % (rnd.choice(['', 'top 2 ', 'top 3 ']), rnd.choice(['distinct ', 'distinct ', 'distinct count ', '']), sel, rnd.choice(['', '', ' order by int(a1)', ' order by a2 desc']))
        cases.append((q, T))
    r = subprocess.run([common.PY, '-W', 'ignore', '-c', CSV_SINK_IMPL], input=json.dumps(cases).encode(), env=common.impl_env(), stdout=subprocess.PIPE, stderr=subprocess.PIPE, timeout=900)
    try:
        outs = json.loads(r.stdout.decode().strip().split('\n')[-1])
    except (ValueError, IndexError):
        raise RuntimeError('C02 csv-sink driver failed: ' + r.stderr.decode()[-400:])
    nbad = 0
    for (q, T), o in zip(cases, outs):
        res.evaluations += 1
        res.nontrivial.add(('csv-sink', q, json.dumps(T)))
        if '[int(a1), a2]' in q and isinstance(o['table'], list):
            continue        # a list-valued cell is rendered by the CSV writer in its own way: only the error / no-error outcome is compared above
        if o['table'] != o['csv']:
            nbad += 1
            if nbad <= 3:
                res.violations.append({'property': 'C02', 'impl': 'py', 'why': 'the same DISTINCT / ORDER BY / TOP query gives another result when the records go to the CSV writer than when they go to a list', 'query': q, 'A': T,
                                       'through_query_table': o['table'], 'through_query_csv': o['csv'], 'case_key': 'C02|csv-sink|%s|%s' % (q, json.dumps(T))})
    res.count('csv_sink_cases', len(cases))
    res.count('csv_sink_failures', nbad)


def run(res, tier, seed):
    res.rule = RULE
    csv_sink_check(res, tier, seed)
    res.assumptions = ['ORDER BY keys of one type (Python raises TypeError otherwise)', 'DISTINCT rows hashable (no list-valued cells)']
    rnd = random.Random(seed * 2750159 + 2)
    cases = gen_cases(rnd, 14000 if tier == 'quick' else 150000)
    large = gen_large_cases(random.Random(seed * 31 + 77), 8 if tier == 'quick' else 80)
    res.count('large_tables(>1000 records beyond the bound)', len(large))
    cases = large + cases
    nums = gen_number_cases(random.Random(seed * 7 + 5), 300 if tier == 'quick' else 5000)     # Python only: 2**61 - 1 is not a JavaScript number
    res.count('number_cells_with_colliding_hashes', len(nums))
    for c in cases:
        q = c['q']
        if c['A'] and (q.get('order') or q.get('distinct', 'no') != 'no' or q.get('top') is not None):
            res.nontrivial.add(json.dumps([q, c['A'], c['B']], sort_keys=True))
    for c in cases[:2] + cases[-2:]:
        res.sample({'query': qgen.render_query(c['q'], 'py'), 'A': c['A'], 'B': c['B']})
    engine_corr.run_cases(res, 'C02', cases, 'py', rnd=random.Random(seed + 6))
    engine_corr.js_leg(res, 'C02', cases, rnd=random.Random(seed + 106))
    engine_corr.run_cases(res, 'C02', nums, 'py', rnd=random.Random(seed + 206))
    # metamorphic oracle on the implementation alone: bound = prefix, DESC = reverse
    import common
    import copy
    sub = [c for c in cases if c['q'].get('top') is not None or c['q'].get('order')][:1500 if tier == 'quick' else 20000]
    variants = []
    for c in sub:
        u = copy.deepcopy(c)
        u['q']['top'] = None
        r = copy.deepcopy(u)
        if r['q'].get('order'):
            r['q']['desc'] = not r['q'].get('desc', False)
        variants.append((c, u, r))
    lines = []
    for c, u, r in variants:
        lines += [engine_corr.make_line(c), engine_corr.make_line(u), engine_corr.make_line(r)]
    outs = [engine_corr.parse_out(o) for o in common.run_impl_py(lines)]
    res.evaluations += len(lines)
    nbad = 0
    for i, (c, u, r) in enumerate(variants):
        oc, ou, orr = outs[3 * i], outs[3 * i + 1], outs[3 * i + 2]
        why = None
        if ou.get('err') is None and oc.get('err') is None and 'rows' in ou:
            n = c['q'].get('top')
            if n is not None and oc['rows'] != ou['rows'][:n]:
                why = 'bounded result is not the first N records of the unbounded result'
            if why is None and u['q'].get('order') and u['q'].get('distinct', 'no') == 'no' and orr.get('err') is None and orr['rows'] != list(reversed(ou['rows'])):
                why = 'DESC is not the exact reverse of ASC'
        if why:
            nbad += 1
            if nbad <= 3:
                res.violations.append({'property': 'C02', 'impl': 'py', 'why': why, 'query_py': qgen.render_query(c['q'], 'py'), 'A': c['A'], 'B': c['B'],
                                       'line': engine_corr.make_line(c), 'bounded': oc, 'unbounded': ou, 'reversed_order': orr,
                                       'case_key': 'C02|meta|' + qgen.render_query(c['q'], 'py') + json.dumps(c['A'])})
    res.count('metamorphic_checks', len(variants))
    res.count('metamorphic_failures', nbad)
    # termination on unbounded input: a never-ending iterator
    nbad2 = unbounded_input_check(res, tier, rnd)
    res.count('unbounded_input_failures', nbad2)


def unbounded_input_check(res, tier, rnd):
    import subprocess
    import common
    import os
    code = r'''
import sys, json
from rbql import rbql_engine
class Endless(rbql_engine.RBQLInputIterator):
    def __init__(self): self.n = 0
    def get_variables_map(self, query_text):
        m = {}
        rbql_engine.parse_basic_variables(query_text, 'a', m); rbql_engine.parse_array_variables(query_text, 'a', m)
        return m
    def get_record(self):
        self.n += 1
        if self.n > 100000: raise RuntimeError('input never ended: pulled 100000 records')
        return [str(self.n % 3), 'v%d' % self.n]
class W(rbql_engine.RBQLOutputWriter):
    def __init__(self): self.rows = []
    def write(self, f): self.rows.append(f); return True
res = []
for q in json.loads(sys.argv[1]):
    it = Endless(); w = W()
    try:
        rbql_engine.query(q, it, w, [])
        res.append([len(w.rows), it.n])
    except Exception as e:
        res.append(['ERR', str(e)[:80]])
print(json.dumps(res))
'''
    queries = []
    expect = []
    for n in (0, 1, 2, 5):
        queries.append('select top %d a1, a2' % n); expect.append((n, n + 1))
        queries.append('select a2 limit %d' % n); expect.append((n, n + 1))
        queries.append('select distinct a1 limit %d' % n); expect.append((n if n <= 3 else None, None))
        queries.append("select top %d a2 where a1 == '1'" % n); expect.append((n, None))
    r = subprocess.run([common.PY, '-W', 'ignore', '-c', code, json.dumps(queries)], env=common.impl_env(), stdout=subprocess.PIPE, stderr=subprocess.PIPE, timeout=300)
    out = json.loads(r.stdout.decode() or '[]')
    nbad = 0
    res.evaluations += len(queries)
    for q, e, o in zip(queries, expect, out or [['ERR', r.stderr.decode()[-200:]]] * len(queries)):
        bad = False
        if e[0] is None:
            continue   # `select distinct a1 limit 5` over 3 distinct values legitimately never ends
        if o[0] == 'ERR' or o[0] != e[0] or (e[1] is not None and o[1] != e[1]):
            bad = True
        if bad:
            nbad += 1
            res.violations.append({'property': 'C02', 'impl': 'py', 'why': 'bounded streaming query over a never-ending iterator', 'query_py': q,
                                   'expected_rows_and_pulls': e, 'observed': o, 'case_key': 'C02|endless|' + q})
    return nbad


def replay(res, path):
    return engine_corr.replay(res, path)
