"""Abstract queries (language neutral, JSON), their rendering to RBQL text in Python and JS syntax with
spelling variants, and seeded generators of tables / expressions / queries.

Abstract query = what lean/Driver/EngineOps.lean decodes:
  {"update":bool, "items":[item], "except":[idx]|null, "where":expr|null,
   "join":{"kind":"inner|left|strict","lhs":[idx|null],"rhs":[idx|null]}|null,
   "order":[expr]|null, "desc":bool, "group":[expr]|null, "distinct":"no|yes|count", "top":n|null,
   "assigns":[[idx,expr]], "refuse":k|null}
  item = {"e":expr} | "star" | "starA" | "starB" | {"unnest":expr} | {"agg":kind,"e":expr}
  expr = ["a",i] | ["b",i] | ["nr"] | ["nf"] | ["bnr"] | ["nu"] | ["lit",cell] | [op, x, y] | ["len",x] | ["not",x]
         | ["like",x,"pat"] | ["split",x,"sep"]
  cell = null | "str" | {"n":[num,den]} | true | false
"""
import json
import random
from fractions import Fraction

AGG_SPELL = {
    'min': ['MIN', 'Min', 'min'], 'max': ['MAX', 'Max', 'max'], 'sum': ['SUM', 'Sum', 'sum'],
    'count': ['COUNT', 'Count', 'count'], 'avg': ['AVG', 'Avg', 'avg'], 'variance': ['VARIANCE', 'Variance', 'variance'],
    'median': ['MEDIAN', 'Median', 'median'], 'array_agg': ['ARRAY_AGG', 'array_agg'], 'any_value': ['ANY_VALUE', 'Any_value', 'any_value'],
}
JOIN_SPELL = {'inner': ['JOIN', 'INNER JOIN'], 'left': ['LEFT JOIN', 'LEFT OUTER JOIN'], 'strict': ['STRICT LEFT JOIN']}

# ----------------------------------------------------------------------------------------- cells


def num(x):
    f = Fraction(x)
    return {'n': [f.numerator, f.denominator]}


def cell_to_py(c):
    """abstract cell -> Python value handed to the engine"""
    if isinstance(c, dict):
        n, d = c['n']
        return n if d == 1 else n / d
    if isinstance(c, list):
        return [cell_to_py(x) for x in c]
    return c


def value_to_cell(v):
    """engine output value -> canonical abstract cell (numbers as exact small rationals)"""
    if v is None or isinstance(v, str):
        return v
    if isinstance(v, bool):
        return v
    if isinstance(v, int):
        return {'n': [v, 1]}
    if isinstance(v, float):
        if v != v or v in (float('inf'), float('-inf')):
            return {'float': repr(v)}
        f = Fraction(v).limit_denominator(10 ** 6)
        return {'n': [f.numerator, f.denominator]}
    if isinstance(v, (list, tuple)):
        return [value_to_cell(x) for x in v]
    return {'other': type(v).__name__, 'repr': str(v)[:60]}

# ----------------------------------------------------------------------------------------- rendering


def py_str(s, rnd=None):
    q = "'" if (rnd is None or rnd.random() < 0.5) else '"'
    out = []
    for ch in s:
        if ch == '\\':
            out.append('\\\\')
        elif ch == q:
            out.append('\\' + q)
        elif ch == '\n':
            out.append('\\n')
        elif ch == '\r':
            out.append('\\r')
        elif ch == '\t':
            out.append('\\t' if (rnd is None or rnd.random() < 0.5) else '\t')      # a RAW tab inside a literal is content too (tabs BETWEEN tokens are white space)
        else:
            out.append(ch)
    return q + ''.join(out) + q


def render_cell(c, lang, rnd=None):
    if c is None:
        return 'None' if lang == 'py' else 'null'
    if c is True:
        return 'True' if lang == 'py' else 'true'
    if c is False:
        return 'False' if lang == 'py' else 'false'
    if isinstance(c, dict):
        n, d = c['n']
        return str(n) if d == 1 else repr(n / d)
    return py_str(c, rnd)     # the same escapes are valid JS


class Spelling(object):
    """spelling choices; `plain` = canonical spelling"""

    def __init__(self, rnd=None, header_a=None, header_b=None):
        self.rnd = rnd
        self.header_a = header_a
        self.header_b = header_b

    def coin(self, p=0.5):
        return self.rnd is not None and self.rnd.random() < p

    def field(self, prefix, i):
        hdr = self.header_a if prefix == 'a' else self.header_b
        if hdr is not None and i < len(hdr) and self.coin(0.6):
            name = hdr[i]
            import re
            if re.match(r'^[_a-zA-Z][_a-zA-Z0-9]*$', name) and self.coin(0.5):
                return '%s.%s' % (prefix, name)
            return '%s[%s]' % (prefix, py_str(name, self.rnd))
        if self.coin(0.3):
            return '%s[%d]' % (prefix, i + 1)
        return '%s%d' % (prefix, i + 1)

    def kw(self, word):
        if self.rnd is None:
            return word
        r = self.rnd.random()
        if r < 0.4:
            return word
        if r < 0.8:
            return word.lower()
        return ''.join(c.upper() if self.rnd.random() < 0.5 else c.lower() for c in word)

    def sp(self):
        if self.rnd is None or self.rnd.random() < 0.7:
            return ' '
        return self.rnd.choice(['  ', '   ', ' \t ', '\t'])


def render_expr(e, lang, sp):
    t = e[0]
    R = lambda x: render_expr(x, lang, sp)
    if t == 'a':
        return sp.field('a', e[1])
    if t == 'b':
        return sp.field('b', e[1])
    if t == 'nr':
        return 'NR'
    if t == 'nf':
        return 'NF'
    if t == 'bnr':
        return 'bNR'
    if t == 'nu':
        return 'NU'
    if t == 'lit':
        return render_cell(e[1], lang, sp.rnd)
    if t in ('concat', 'add'):
        return '(%s + %s)' % (R(e[1]), R(e[2]))
    if t == 'mul':
        return '(%s * %s)' % (R(e[1]), R(e[2]))
    if t == 'mod':
        return '(%s %% %s)' % (R(e[1]), R(e[2]))
    if t == 'len':
        return 'len(%s)' % R(e[1]) if lang == 'py' else '(%s).length' % R(e[1])
    if t == 'eq':
        return '(%s %s %s)' % (R(e[1]), '==' if lang == 'py' else '===', R(e[2]))
    if t == 'ne':
        return '(%s %s %s)' % (R(e[1]), '!=' if lang == 'py' else '!==', R(e[2]))
    if t == 'lt':
        return '(%s < %s)' % (R(e[1]), R(e[2]))
    if t == 'le':
        return '(%s <= %s)' % (R(e[1]), R(e[2]))
    if t == 'and':
        return '(%s %s %s)' % (R(e[1]), 'and' if lang == 'py' else '&&', R(e[2]))
    if t == 'or':
        return '(%s %s %s)' % (R(e[1]), 'or' if lang == 'py' else '||', R(e[2]))
    if t == 'not':
        return '(not %s)' % R(e[1]) if lang == 'py' else '(!%s)' % R(e[1])
    if t == 'like':
        return 'like(%s, %s)' % (R(e[1]), py_str(e[2], sp.rnd))
    if t == 'split':
        return '%s.split(%s)' % (R(e[1]), py_str(e[2], sp.rnd))
    if t == 'splitne':
        if lang == 'py':
            return '[t for t in %s.split(%s) if t]' % (R(e[1]), py_str(e[2], sp.rnd))
        return '%s.split(%s).filter(t => t)' % (R(e[1]), py_str(e[2], sp.rnd))
    raise ValueError(t)


def strip_outer(text):
    """a top-level expression does not need its outermost parentheses: `(x or y)` -> `x or y` (what users write)"""
    if len(text) >= 2 and text[0] == '(' and text[-1] == ')':
        depth = 0
        in_str = None
        i = 0
        while i < len(text):
            ch = text[i]
            if in_str:
                if ch == '\\':
                    i += 1
                elif ch == in_str:
                    in_str = None
            elif ch in '"\'':
                in_str = ch
            elif ch == '(':
                depth += 1
            elif ch == ')':
                depth -= 1
                if depth == 0 and i != len(text) - 1:
                    return text
            i += 1
        return text[1:-1]
    return text


def render_top(e, lang, sp):
    t = render_expr(e, lang, sp)
    if sp.rnd is None or sp.rnd.random() < 0.7:
        return strip_outer(t)
    return t


def render_item(it, lang, sp):
    if it == 'star':
        return '*'
    if it == 'starA':
        return 'a.*'
    if it == 'starB':
        return 'b.*'
    if 'unnest' in it:
        return '%s(%s)' % (sp.rnd.choice(['UNNEST', 'unnest', 'Unnest']) if sp.rnd else 'UNNEST', render_expr(it['unnest'], lang, sp))
    if 'agg' in it:
        names = AGG_SPELL[it['agg']]
        name = sp.rnd.choice(names) if sp.rnd else names[0]
        if lang == 'js' and name in ('min', 'max', 'sum'):
            name = names[0]   # lower-case min/max/sum are Python builtins wrappers; not defined in rbql-js
        if it['agg'] == 'count' and it['e'] == ['lit', {'n': [1, 1]}] and sp.coin(0.5):
            return '%s(*)' % name
        return '%s(%s)' % (name, render_expr(it['e'], lang, sp))
    txt = render_top(it['e'], lang, sp)
    if it.get('alias'):
        txt += ' %s %s' % (sp.rnd.choice(['AS', 'as']) if sp.rnd else 'as', it['alias'])
    return txt


def render_join_key(side, k, sp):
    if k is None:
        # with a header `a.NR` / `b.NR` name a COLUMN called NR (attribute variables), so those spellings exist only without one
        hdr = sp.header_a if side == 'a' else sp.header_b
        a_sp = ['NR', 'aNR'] + (['a.NR'] if hdr is None else [])
        b_sp = ['bNR'] + (['b.NR'] if hdr is None else [])
        return (sp.rnd.choice(a_sp) if sp.rnd else 'NR') if side == 'a' else (sp.rnd.choice(b_sp) if sp.rnd else 'bNR')
    return '%s%d' % (side, k + 1) if not sp.coin(0.3) else '%s[%d]' % (side, k + 1)


def render_query(q, lang, rnd=None, header_a=None, header_b=None, join_table='b', shuffle_clauses=False, layout=False):
    """abstract query -> RBQL text. rnd=None gives the canonical spelling."""
    sp = Spelling(rnd, header_a, header_b)
    clauses = []
    if q.get('update'):
        head = sp.kw('UPDATE')
        if sp.coin(0.3):
            head += sp.sp() + 'a'
            head += sp.sp() + sp.kw('SET')
        elif sp.coin(0.5):
            head += sp.sp() + sp.kw('SET')
        assigns = []
        for idx, rhs in q['assigns']:
            assigns.append('%s = %s' % (sp.field('a', idx) if not sp.coin(0.0) else 'a%d' % (idx + 1), render_top(rhs, lang, sp)))
        head += sp.sp() + ', '.join(assigns)
        if q.get('top') is not None:
            clauses.append(sp.kw('LIMIT') + sp.sp() + str(q['top']))      # parsed and IGNORED by UPDATE (every record is emitted)
    else:
        head = sp.kw('SELECT')
        use_limit = q.get('top') is not None and (sp.coin(0.5))
        if q.get('top') is not None and not use_limit:
            head += sp.sp() + sp.kw('TOP') + sp.sp() + str(q['top'])
        if q.get('distinct') == 'yes':
            head += sp.sp() + sp.kw('DISTINCT')
        elif q.get('distinct') == 'count':
            head += sp.sp() + sp.kw('DISTINCT') + sp.sp() + sp.kw('COUNT')
        if q.get('except') is not None:
            head += sp.sp() + '*'
        else:
            head += sp.sp() + ', '.join(render_item(it, lang, sp) for it in q['items'])
        if use_limit:
            clauses.append(sp.kw('LIMIT') + sp.sp() + str(q['top']))
        if q.get('except') is not None:
            clauses.append(sp.kw('EXCEPT') + sp.sp() + ', '.join(sp.field('a', i) for i in q['except']))
    j = q.get('join')
    if j:
        names = JOIN_SPELL[j['kind']]
        name = rnd.choice(names) if rnd else names[0]
        pairs = []
        for l, r in zip(j['lhs'], j['rhs']):
            a = render_join_key('a', l, sp)
            b = render_join_key('b', r, sp)
            eq = '==' if not sp.coin(0.3) else '='
            if lang == 'js' and eq == '=':
                eq = '=='
            if sp.coin(0.3) and l is not None and r is not None:
                pairs.append('%s %s %s' % (b, eq, a))
            else:
                pairs.append('%s %s %s' % (a, eq, b))
        andkw = ' %s ' % (sp.kw('and') if lang == 'py' else sp.kw('and'))
        clauses.append('%s%s%s%s%s%s%s' % (' '.join(sp.kw(w) for w in name.split(' ')), sp.sp(), join_table, sp.sp(), sp.kw('ON'), sp.sp(), andkw.join(pairs)))
    if q.get('where') is not None:
        clauses.append(sp.kw('WHERE') + sp.sp() + render_top(q['where'], lang, sp))
    if q.get('group') is not None:
        clauses.append(' '.join(sp.kw(w) for w in ['GROUP', 'BY']) + sp.sp() + ', '.join(render_top(e, lang, sp) for e in q['group']))
    if q.get('order') is not None:
        txt = ' '.join(sp.kw(w) for w in ['ORDER', 'BY']) + sp.sp() + ', '.join(render_top(e, lang, sp) for e in q['order'])
        if q.get('desc'):
            txt += sp.sp() + sp.kw('DESC')
        elif sp.coin(0.3):
            txt += sp.sp() + sp.kw('ASC')
        clauses.append(txt)
    if shuffle_clauses and rnd is not None:
        rnd.shuffle(clauses)
    text = head
    cm = '#' if lang == 'py' else '//'      # comment lines: `#` in the Python port, `//` in rbql-js
    seps = [' ', '\n', '\n    ', ' \n%s where a1 == 5 select *\n ' % cm, '\t', '  \n\n  ', '\n%s;\n' % cm]
    for c in clauses:
        text += (rnd.choice(seps) if (layout and rnd is not None) else sp.sp()) + c
    if layout and rnd is not None:
        if not q.get('update') and rnd.random() < 0.25 and q.get('except') is None:
            # a redundant FROM a right after the select list is only valid before the other clauses: put it first
            pass
        text = rnd.choice(['', ' ', '\n', '%s leading comment\n' % cm]) + text + rnd.choice(['', ';', ' ;', ';;', '\n', ' \n;'])
    return text

# ----------------------------------------------------------------------------------------- generators


STR_POOL = ['', 'x', 'y', 'xy', 'x;y', 'a b', '10', '9', 'X', 'é', 'x;y;z', 'yy']
NUMSTR_POOL = ['1', '2', '3', '10', '-4', '2.5', '0.25', '7', '0', '12.75', '3', '2']
NONPOS_POOL = ['0', '-4', '-1', '-2.5', '0', '-10', '-0.5', '0']
TINY_POOLS = [['0', '-1', '1'], ['0', '0', '5'], ['0', '-3'], ['-2', '-7', '-2.5']]


def num_pool(rnd):
    """numeric-string pool of one case: mixed, zero/negative only (extrema and sums around 0), or tiny (many ties)"""
    x = rnd.random()
    if x < 0.55:
        return NUMSTR_POOL
    if x < 0.8:
        return NONPOS_POOL
    return rnd.choice(TINY_POOLS)


def gen_table(rnd, nrows=None, ncols=None, pool=None, ragged=0.15, none_p=0.1, full_cols=0):
    """rows of str / None cells; the first `full_cols` columns are always present and never None"""
    pool = pool or STR_POOL
    nrows = rnd.randint(0, 5) if nrows is None else nrows
    ncols = rnd.randint(1, 4) if ncols is None else ncols
    ncols = max(ncols, full_cols)
    t = []
    for _ in range(nrows):
        w = ncols
        if rnd.random() < ragged:
            w = rnd.randint(full_cols, ncols + 1)
        row = []
        for c in range(w):
            if c >= full_cols and rnd.random() < none_p:
                row.append(None)
            else:
                row.append(rnd.choice(pool))
        t.append(row)
    return t


SAFE = [False]   # when set, field references stay inside the table width (expressions that mean the same in Python and JS)


def _w(n):
    return n if SAFE[0] else n + 1


def gen_str_expr(rnd, ncols, depth=2, allow_b=False, bcols=2):
    r = rnd.random()
    if depth <= 0 or r < 0.45:
        if allow_b and rnd.random() < 0.35:
            return ['b', rnd.randrange(_w(bcols))]
        return ['a', rnd.randrange(_w(ncols))]
    if r < 0.6:
        # `$`-sequences are replacement patterns of JavaScript's String.replace / replaceAll: literal text must go through the code templates verbatim
        return ['lit', rnd.choice(STR_POOL + ['select', 'where x', '* ,', "it's", 'say "hi"', 'a1', '#c', '$$', '<$&>', "US$", '$`x', "$'", '$1', '{}', '{0}', '%s', '\\1', 'x\ty', '\t', 'L\x0cR', 'v\x0bt', 'fs\x1cx', 'n\x85m', 'u\u2028v', 'p\u2029#q'])]
    return ['concat', gen_str_expr(rnd, ncols, depth - 1, allow_b, bcols), gen_str_expr(rnd, ncols, depth - 1, allow_b, bcols)]


def gen_num_expr(rnd, ncols, depth=2):
    r = rnd.random()
    if depth <= 0 or r < 0.5:
        return rnd.choice([['nr'], ['nf'], ['lit', num(rnd.randint(1, 5))], ['len', ['a', rnd.randrange(_w(ncols))]]])
    op = rnd.choice(['add', 'mul', 'mod'])
    y = gen_num_expr(rnd, ncols, depth - 1)
    if op == 'mod':
        y = ['lit', num(rnd.randint(1, 4))]
    return [op, gen_num_expr(rnd, ncols, depth - 1), y]


def gen_bool_expr(rnd, ncols, depth=2, allow_b=False, bcols=2):
    r = rnd.random()
    if depth <= 0 or r < 0.35:
        x = gen_str_expr(rnd, ncols, 0, allow_b, bcols)
        return [rnd.choice(['eq', 'ne']), x, rnd.choice([['lit', rnd.choice(STR_POOL)], ['lit', None], gen_str_expr(rnd, ncols, 0)])]
    if r < 0.5:
        return [rnd.choice(['lt', 'le']), gen_num_expr(rnd, ncols, 1), gen_num_expr(rnd, ncols, 1)]
    if r < 0.6:
        return [rnd.choice(['lt', 'le']), ['a', rnd.randrange(ncols)], ['lit', rnd.choice(STR_POOL)]]
    if r < 0.7:
        return ['like', ['a', rnd.randrange(ncols)], rnd.choice(['x%', '%y', '_', '%', 'x_y', '%;%', '1_'])]
    if r < 0.8:
        return ['not', gen_bool_expr(rnd, ncols, depth - 1, allow_b, bcols)]
    return [rnd.choice(['and', 'or']), gen_bool_expr(rnd, ncols, depth - 1, allow_b, bcols), gen_bool_expr(rnd, ncols, depth - 1, allow_b, bcols)]


def gen_join(rnd, ncols, bcols, kinds=('inner', 'left', 'strict')):
    n = rnd.choice([1, 1, 1, 2, 3])
    lhs, rhs = [], []
    for _ in range(n):
        if rnd.random() < 0.15:
            lhs.append(None)
            rhs.append(None if rnd.random() < 0.6 else rnd.randrange(bcols))
        else:
            lhs.append(rnd.randrange(ncols))
            rhs.append(rnd.randrange(bcols) if rnd.random() < 0.9 else None)
    return {'kind': rnd.choice(kinds), 'lhs': lhs, 'rhs': rhs}


def case_json(q, A, B, texts):
    d = {'q': q, 'A': A}
    if B is not None:
        d['B'] = B
    d.update(texts)
    return json.dumps(d, ensure_ascii=False, separators=(',', ':'))
