"""C20 — the JavaScript stream reader is independent of chunk boundaries.

For every input the REAL rbql-js CSVRecordIterator is run over a Readable emitting every byte-level
partition of the input and over the bulk path (csv_path); every run must give what the Lean model
`jsBulk` gives for the decoded text (stream = bulk for every partition is theorem
C20_stream_eq_bulk); explicit-piece ASCII cases also run the model's chunk machine against the real one;
files crossing the 64 KiB default chunk size go through fs.createReadStream."""
import itertools
import random

import common
import csvgen
from common import enc_str, enc_list

RULE = ('exhaustive byte strings up to length n over {a " , LF CR #} x {quoted, quoted_rfc} x comment prefix, ALL 2^(n-1) byte partitions '
        'streamed + bulk; utf-8 samples with 2-,3-,4-byte characters and BOM under all byte partitions; random texts with explicit pieces; '
        'large files through fs.createReadStream. non-trivial iff the input has a line break, a quote, a multi-byte character or the comment '
        'character; distinct = distinct (config, input)')


def gen(tier, seed):
    cases = []
    n = 5 if tier == 'quick' else 6
    exhaustive = {}
    for pol in ('quoted', 'quoted_rfc'):
        for comment in (None, '#'):
            for t in csvgen.all_strings(csvgen.JS_ALPHABET, n):
                cases.append(('all', pol, 'utf-8', False, 'n', ',', comment, t, t.encode('utf-8')))
            exhaustive['%s comment=%r len<=%d all byte partitions + bulk' % (pol, comment, n)] = True
    for t in csvgen.all_strings(csvgen.JS_ALPHABET, 4):
        cases.append(('all', 'quoted', 'utf-8', True, 'n', ',', '#', t, t.encode('utf-8')))
        cases.append(('all', 'quoted_rfc', 'latin-1', True, 'N', ',', None, t, t.encode('latin-1')))
    units = ['é', '中', '\U0001F600', '﻿', ',', '\n', '\r', 'a', '"', '\ufffd']      # U+FFFD itself is valid input (EF BF BD)
    maxbytes = 7 if tier == 'quick' else 9
    for k in range(1, 4):
        for tup in itertools.product(units, repeat=k):
            t = ''.join(tup)
            b = t.encode('utf-8')
            if len(b) > maxbytes or all(ord(c) < 128 for c in t):
                continue
            for pol in ('quoted', 'quoted_rfc'):
                cases.append(('all', pol, 'utf-8', False, 'n', ',', None, t, b))
    exhaustive['utf-8 samples of <=3 units with <=%d bytes, all byte partitions' % maxbytes] = True
    lat = [0xef, 0xbb, 0xbf, 0xe9, 0x2c, 0x0a, 0x0d, 0x22]
    for k in range(1, 5):
        for tup in itertools.product(lat, repeat=k):
            if k >= 4 and tup[:3] != (0xef, 0xbb, 0xbf):
                continue
            b = bytes(tup)
            cases.append(('all', 'quoted', 'latin-1', False, 'n', ',', None, b.decode('latin-1'), b))
    rnd = random.Random(seed * 15485863 + 20)
    for _ in range(3000 if tier == 'quick' else 40000):
        t = ''.join(c for c in csvgen.random_csv_text(rnd) if ord(c) < 128)
        pol = rnd.choice(['quoted', 'quoted_rfc', 'simple', 'whitespace', 'monocolumn'])
        d = ' ' if pol == 'whitespace' else rnd.choice([',', ';', '##', '\t'])
        comment = rnd.choice([None, '#', '##', 'a'])
        hdr = rnd.random() < 0.3
        modi = rnd.choice(['n', 'n', 'h', 'N'])
        cases.append(('pieces', pol, rnd.choice(['utf-8', 'latin-1']), hdr, modi, d, comment, t, csvgen.random_partition(rnd, t)))
    # a SMALL chunk followed by a LARGE one (a header line flushed on its own, then a block; a pipe that delivers 5000 + 3 + the rest): whatever a reader
    # does to group small chunks, the bytes are processed in the order they arrived, multi-byte characters cut by the boundary included
    for i in range(4 if tier == 'quick' else 30):
        parts = []
        size = 0
        target = rnd.choice([6000, 9000, 15000])
        while size < target:
            s = rnd.choice(['a,b', '"x,""y"', 'é,中', 'z', '"multi\nline",q', '#c', 'u', '😀,1', 'id,name'])
            parts.append(s)
            size += len(s.encode('utf-8')) + 1
        text = rnd.choice(['\n', '\r\n']).join(parts) + '\n'
        data = text.encode('utf-8')
        for cuts in ([14], [35], [5000, 5003], [1, 4097], [4095], [4096, 4097], [100, 200, 4500], [3, 4100, 4101]):
            cuts = [c for c in cuts if c < len(data)]
            pieces, prev = [], 0
            for c in cuts + [len(data)]:
                pieces.append(data[prev:c]); prev = c
            cases.append(('bytes', 'quoted_rfc', 'utf-8', False, 'n', ',', '#', text, [p.decode('latin-1') for p in pieces if p]))
    # large files crossing the 64 KiB default chunk size of fs.createReadStream
    for i in range(3 if tier == 'quick' else 12):
        parts = []
        size = 0
        target = 65536 + rnd.randint(-3, 70000)
        while size < target:
            s = rnd.choice(['a,b', '"x,""y"', 'é,中', 'z', '"multi\nline",q', '#c', '', 'u\r', '😀,1'])
            parts.append(s)
            size += len(s.encode('utf-8')) + 1
        sep = rnd.choice(['\n', '\r\n'])
        text = sep.join(parts)
        # put a CRLF or a multi-byte character right at the 64 KiB boundary when possible
        cases.append(('file', 'quoted_rfc', 'utf-8', False, 'n', ',', '#', text, None))
    return cases, exhaustive


def to_line(c):
    kind, pol, enc, hdr, modi, d, comment, t, extra = c
    cm = '~' if comment is None else enc_str(comment)
    if kind == 'all':
        return csvgen.line_readall('readjsall', pol, enc, hdr, modi, d, comment, t, extra)
    if kind == 'bytes':
        return 'readjsbytes %s %s %s %s %s %s' % (pol, '1' if hdr else '0', modi, enc_str(d), cm, enc_list(extra))
    if kind == 'file':
        return 'readjsfile %s %s %s %s %s %s %s' % (pol, enc, '1' if hdr else '0', modi, enc_str(d), cm, enc_str(t))
    return 'readjs %s %s %s %s %s %s %s' % (pol, enc, '1' if hdr else '0', modi, enc_str(d), cm, enc_list(extra))


def nontrivial(c):
    t = c[7]
    return any(ch in t for ch in '\n\r"#') or any(ord(ch) > 127 for ch in t)


def bad_byte_cases(tier):
    """invalid and TRUNCATED UTF-8 at every position of small inputs — in particular a lone lead byte after the final line
    terminator and an input that is nothing but a truncated sequence: every partition of the stream and the bulk read must
    fail with the decoding error (never drop the bytes silently)"""
    bases = [b'', b'a,b\n', b'a,b\nc\n', b'a\r\n', b'"x\ny",z\n', b'h\xc3\xa9\n']
    bads = [b'\xff', b'\x80', b'\xe4', b'\xe4\xb8', b'\xf0\x9f', b'\xf0\x9f\x98', b'\xc3', b'\xed\xa0\x80', b'\xc0\xaf', b'\xf4\x90\x80\x80']
    out = []
    for base in bases:
        for bad in bads:
            for pos in sorted(set([0, len(base)] + (list(range(len(base) + 1)) if tier != 'quick' or len(base) <= 4 else [1, len(base) - 1]))):
                data = base[:pos] + bad + base[pos:]
                if len(data) > 9:
                    continue
                try:
                    data.decode('utf-8')
                    continue
                except UnicodeDecodeError:
                    pass
                for pol in ('quoted', 'quoted_rfc'):
                    out.append(('all', pol, 'utf-8', False, 'n', ',', None, '', data))
    return out


def byte_level_lines(tier, seed):
    """(1) the streaming decoder model against node's TextDecoder as rbql_csv.js uses it: every partition of every byte string
    of length <= n over boundary bytes; (2) byte chunks -> decoder -> stream reader (model) against the real reader on the same
    byte chunks: random CSV texts with multi-byte characters, cut at random BYTE positions, sometimes damaged."""
    from common import enc_list
    bs = [0x0a, 0x0d, 0x22, 0x2c, 0x61, 0x7f, 0x80, 0xbf, 0xc2, 0xc3, 0xa9, 0xe0, 0xa0, 0xe4, 0xb8, 0xad, 0xed, 0x9f, 0xef, 0xbb, 0xbd, 0xf0, 0x90, 0x9f, 0x98, 0xf4, 0x8f, 0xff]
    rnd = random.Random(seed * 1299709 + 20)
    lines = []
    as_str = lambda b: ''.join(chr(x) for x in b)
    n = 3 if tier == 'quick' else 4
    for k in range(1, n + 1):
        tuples = list(itertools.product(bs, repeat=k))
        if len(tuples) > 6000:
            tuples = rnd.sample(tuples, min(len(tuples), 6000 if tier == 'quick' else 40000))
        for tup in tuples:
            data = bytes(tup)
            for mask in range(1 << (k - 1)):
                chunks, start = [], 0
                for i in range(1, k):
                    if mask & (1 << (i - 1)):
                        chunks.append(data[start:i]); start = i
                chunks.append(data[start:])
                lines.append('utf8dec ' + enc_list([as_str(c) for c in chunks]))
    texts = ['é,中\n😀,"a\r\nb"\n', 'id,naïve\r\n1,日本語\r\n', '\ufeffx,y\n#c\n1,2\n', 'a\r', '"é\n""中""",z', '😀😀\n😀', 'a\ufffdb,\ufffd\n\ufffd', '\ufffd']
    for _ in range(400 if tier == 'quick' else 6000):
        t = rnd.choice(texts) if rnd.random() < 0.5 else ''.join(rnd.choice(['a', ',', '"', '\n', '\r', 'é', '中', '😀', '#', ' ', '\ufffd']) for _i in range(rnd.randint(0, 9)))
        data = bytearray(t.encode('utf-8'))
        if rnd.random() < 0.25 and data:
            pos = rnd.randrange(len(data) + 1)
            kind = rnd.random()
            if kind < 0.4:
                del data[pos:pos + 1]                       # drop a byte
            elif kind < 0.7:
                data[pos:pos] = bytes([rnd.choice([0xff, 0x80, 0xc0, 0xe4, 0xf0])])
            else:
                data = data[:pos]                           # truncate
        data = bytes(data)
        chunks, i = [], 0
        while i < len(data):
            step = rnd.choice([1, 1, 2, 3, 5, 64])
            chunks.append(data[i:i + step]); i += step
        pol = rnd.choice(['quoted', 'quoted_rfc', 'simple'])
        hdr = rnd.random() < 0.3
        lines.append('readjsbytes %s %s n %s %s %s' % (pol, '1' if hdr else '0', enc_str(','), rnd.choice(['~', enc_str('#')]), enc_list([as_str(c) for c in chunks])))
    return lines


def run(res, tier, seed):
    res.rule = RULE
    res.assumptions = ['util.TextDecoder with {stream:true} is a correct incremental UTF-8 decoder',
                       'a Readable never emits an empty chunk followed by a chunk starting with LF']
    cases, exhaustive = gen(tier, seed)
    res.exhaustive = exhaustive
    lines = [to_line(c) for c in cases]
    runs = 0
    for c in cases:
        res.count('kind=%s policy=%s enc=%s' % (c[0], c[1], c[2]))
        if nontrivial(c):
            res.nontrivial.add(c[1:8])
        if c[0] == 'all':
            runs += (1 << max(len(c[8]) - 1, 0)) + 1
        else:
            runs += 2 if c[0] == 'file' else 1
    res.count('real_reader_runs', runs)
    for c in cases[3000:3003] + cases[-5:-3]:
        res.sample({'kind': c[0], 'policy': c[1], 'encoding': c[2], 'header': c[3], 'modifier': c[4], 'delim': c[5], 'comment': c[6],
                    'text': c[7][:80], 'bytes_or_pieces': repr(c[8])[:120]})
    bad = common.differential(res, lines, impls=('js',))
    seen = set()
    for b in bad[:40]:
        c = cases[b['index']]
        line = to_line(c)
        if line in seen:
            continue
        seen.add(line)
        res.violations.append({'property': 'C20', 'impl': 'js', 'case': repr(c)[:2000], 'line': line if len(line) < 5000 else line[:5000] + '...',
                               'model_says': b['model'][:2000], 'impl_says': b['got'][:2000],
                               'case_key': 'C20|' + line[:300], 'replay_cmd': './check C20 --replay <this file>'})
    res.count('disagreements', len(bad))
    # byte level: the decoder model (Model/Utf8.lean) and the composed byte-chunk reader against the real code
    bl2 = byte_level_lines(tier, seed)
    bad2 = common.differential(res, bl2, impls=('js',))
    for b in bad2[:4]:
        res.violations.append({'property': 'C20', 'impl': 'js', 'why': 'byte level: streaming UTF-8 decoding / byte-chunk reading differs from the model', 'line': b['line'][:3000],
                               'model_says': b['model'][:1500], 'impl_says': b['got'][:1500], 'case_key': 'C20|bytes|' + b['line'][:300]})
    for l in bl2:
        res.count('op=' + l.split(' ', 1)[0])
        res.nontrivial.add(l[:400])
    res.count('byte_level_disagreements', len(bad2))
    bb = bad_byte_cases(tier)
    bl = [to_line(c) for c in bb]
    outs = common.run_impl_js(bl)
    res.evaluations += len(bl)
    nbb = 0
    for c, l, o in zip(bb, bl, outs):
        res.nontrivial.add(('badbytes', c[1], c[8]))
        if o != 'err decode':
            nbb += 1
            if nbb <= 3:
                res.violations.append({'property': 'C20', 'impl': 'js', 'why': 'invalid / truncated UTF-8 must fail with the decoding error for the bulk read and for every partition of the stream',
                                       'bytes': c[8].hex(), 'policy': c[1], 'line': l, 'model_says': 'err decode', 'impl_says': o[:500], 'case_key': 'C20|badbytes|' + c[1] + '|' + c[8].hex()})
    res.count('bad_byte_cases', len(bl))
    res.count('bad_byte_failures', nbb)


def replay(res, path):
    return common.replay_generic(res, path)
