-- GENERATED on every check run by tools/shared_state_scan.py from rbql-py/rbql/rbql_engine.py; do not edit.
namespace Rbql.Generated

/-- module-level names of rbql_engine.py bound to a mutable value -/
def moduleLevelMutable : List String := ["default_statement_groups"]
/-- names declared `global` in some function -/
def globalsDeclared : List String := ["debug_mode"]
/-- shared names stored to or mutated in place by code reachable from query() / query_table() -/
def writtenOnQueryPath : List String := []
/-- class attributes bound to a mutable value in a class body -/
def classLevelMutable : List String := []
/-- functions with a mutable default argument -/
def mutableDefaults : List String := []
/-- module-level instances of module-defined classes referred to by code reachable from query() -/
def sharedInstancesUsed : List String := []

end Rbql.Generated
