/-
  C03 — Aggregates / GROUP BY: one exact result row per group, in key order.
-/
import Rbql.Proofs.AggBridge
import Rbql.Proofs.Aggregates
import Rbql.Model.Dispatch
namespace Rbql

/-- The whole aggregate query: if no evaluation and no accumulation fails, the engine outputs exactly
`aggRowsSpec`: one record per distinct GROUP BY key among the records passing WHERE (key `[None]` without
GROUP BY; no record at all if nothing passes), in ascending key order, truncated by TOP/LIMIT, column `i`
being the accumulator of the `i`-th select-list values of that group's records in input order. -/
theorem C03_one_row_per_key_sorted (q : SemQuery) (A B : Table)
    (hsel : q.isUpdate = false) (hagg : q.isAgg = true) (ho : q.orderBy = none) (hd : q.distinct = .no)
    (hx : q.exceptCols = none)
    (hjb : ∀ js, q.join = some js → joinBError js.rhs B = none)
    (krs : List (List Val × Row × Env)) (hk : aggEmissions q B A 0 = .ok krs)
    (hw : ∀ kr ∈ krs, ∀ kr0 ∈ krs.head?, kr.2.1.length = (aggColKinds q.items kr0.2.2).length)
    (rows : List Row) (hr : aggRowsSpec q krs = .ok rows) :
    (run q A B).error = none ∧ (run q A B).rows = rows :=
  run_agg_eq_spec q A B hsel hagg ho hd hx hjb krs hk hw rows hr

theorem C03_nothing_passes_no_row (q : SemQuery) : aggRowsSpec q [] = .ok [] := rfl

/-- each accumulator computes the mathematical aggregate of its group's values, in input order -/
theorem C03_count (kvs : List (List Val × Val)) (c : AggCol) (h : foldIncr { kind := some .count } kvs = .ok c)
    (key : List Val) (hk : groupVals kvs key ≠ []) :
    (lookupAcc c.stats key).map Acc.final = some (Val.nat (groupVals kvs key).length) :=
  agg_count kvs c h key hk

theorem C03_sum (asStr : Bool) (kvs : List (List Val × Val)) (hom : ∀ p ∈ kvs, ∃ x, numOfVal asStr p.2 = some x)
    (c : AggCol) (h : foldIncr { kind := some .sum } kvs = .ok c) (key : List Val) (hk : groupVals kvs key ≠ []) :
    (lookupAcc c.stats key).map Acc.final = some (Val.num (ratSum ((groupVals kvs key).filterMap (numOfVal asStr)))) :=
  agg_sum asStr kvs hom c h key hk

theorem C03_min (asStr : Bool) (kvs : List (List Val × Val)) (hom : ∀ p ∈ kvs, ∃ x, numOfVal asStr p.2 = some x)
    (c : AggCol) (h : foldIncr { kind := some .min } kvs = .ok c) (key : List Val) (hk : groupVals kvs key ≠ []) :
    (lookupAcc c.stats key).map Acc.final = some (Val.num (ratMin ((groupVals kvs key).filterMap (numOfVal asStr)))) :=
  agg_min asStr kvs hom c h key hk

theorem C03_max (asStr : Bool) (kvs : List (List Val × Val)) (hom : ∀ p ∈ kvs, ∃ x, numOfVal asStr p.2 = some x)
    (c : AggCol) (h : foldIncr { kind := some .max } kvs = .ok c) (key : List Val) (hk : groupVals kvs key ≠ []) :
    (lookupAcc c.stats key).map Acc.final = some (Val.num (ratMax ((groupVals kvs key).filterMap (numOfVal asStr)))) :=
  agg_max asStr kvs hom c h key hk

/-- `ratMin` / `ratMax` are the mathematical extrema -/
theorem C03_min_is_minimum (xs : List Rat) (h : xs ≠ []) : ratMin xs ∈ xs ∧ ∀ x ∈ xs, ratMin xs ≤ x := ratMin_spec xs h
theorem C03_max_is_maximum (xs : List Rat) (h : xs ≠ []) : ratMax xs ∈ xs ∧ ∀ x ∈ xs, x ≤ ratMax xs := ratMax_spec xs h

theorem C03_avg (asStr : Bool) (kvs : List (List Val × Val)) (hom : ∀ p ∈ kvs, ∃ x, numOfVal asStr p.2 = some x)
    (c : AggCol) (h : foldIncr { kind := some .avg } kvs = .ok c) (key : List Val) (hk : groupVals kvs key ≠ []) :
    (lookupAcc c.stats key).map Acc.final = some (Val.num (ratAvg ((groupVals kvs key).filterMap (numOfVal asStr)))) :=
  agg_avg asStr kvs hom c h key hk

/-- population variance: what the code computes as Σx²/n − (Σx/n)² is the mean squared deviation from the mean -/
theorem C03_variance_population (asStr : Bool) (kvs : List (List Val × Val)) (hom : ∀ p ∈ kvs, ∃ x, numOfVal asStr p.2 = some x)
    (c : AggCol) (h : foldIncr { kind := some .variance } kvs = .ok c) (key : List Val) (hk : groupVals kvs key ≠ []) :
    (lookupAcc c.stats key).map Acc.final = some (Val.num (ratVariance ((groupVals kvs key).filterMap (numOfVal asStr)))) :=
  agg_variance asStr kvs hom c h key hk

theorem C03_median (asStr : Bool) (kvs : List (List Val × Val)) (hom : ∀ p ∈ kvs, ∃ x, numOfVal asStr p.2 = some x)
    (c : AggCol) (h : foldIncr { kind := some .median } kvs = .ok c) (key : List Val) (hk : groupVals kvs key ≠ []) :
    (lookupAcc c.stats key).map Acc.final = some (Val.num (medianOf ((groupVals kvs key).filterMap (numOfVal asStr)))) :=
  agg_median asStr kvs hom c h key hk

theorem C03_array_agg_input_order (kvs : List (List Val × Val)) (hsc : ∀ p ∈ kvs, ∃ a, p.2 = .at a) (c : AggCol)
    (h : foldIncr { kind := some .arrayAgg } kvs = .ok c) (key : List Val) (hk : groupVals kvs key ≠ []) :
    ∃ as : List Atom, as.map Val.at = groupVals kvs key ∧ (lookupAcc c.stats key).map Acc.final = some (Val.list as) :=
  agg_array_agg kvs hsc c h key hk

theorem C03_any_value_first (kvs : List (List Val × Val)) (c : AggCol) (h : foldIncr { kind := some .anyValue } kvs = .ok c)
    (key : List Val) (v : Val) (hv : (groupVals kvs key).head? = some v) :
    (lookupAcc c.stats key).map Acc.final = some v :=
  agg_any_value kvs c h key v hv

/-- a non-aggregate column must be constant within each group, otherwise the query fails (None counts as a value) -/
theorem C03_nonconstant_column_fails (kvs : List (List Val × Val)) :
    (∃ c, foldIncr { kind := none } kvs = .ok c) ↔
      ∀ key v w, v ∈ groupVals kvs key → w ∈ groupVals kvs key → v = w :=
  agg_const_iff kvs

/-- lower-case min/max/sum called with several arguments, or with one iterable, keep their Python builtin
meaning; with one str/int/float they aggregate (decision table of mad_max / mad_min / mad_sum) -/
theorem C03_builtin_dispatch :
    (∀ n kw a, 2 ≤ n → ∀ e, madMaxMin n kw a e ≠ .aggregate) ∧
    (∀ a, madMaxMin 1 false a false = (if a = .str ∨ a = .int ∨ a = .float then .aggregate else .builtin)) ∧
    (∀ a, a ≠ .other → ∀ e, madMaxMin 1 false a e = .aggregate) ∧
    (∀ n, 2 ≤ n → ∀ e, madSum n e ≠ .aggregate) ∧
    (madSum 1 false = .builtin) ∧ (madSum 1 true = .aggregate) := by
  refine ⟨?_, ?_, ?_, ?_, rfl, rfl⟩
  · intro n kw a hn e
    have : ¬ (n = 1) := by omega
    cases e <;> simp [madMaxMin, this]
  · intro a; cases a <;> simp [madMaxMin]
  · intro a ha e; cases a <;> simp_all [madMaxMin]
  · intro n hn e
    have : ¬ (n = 1) := by omega
    cases e <;> simp [madSum, this]

end Rbql
