/-
  C05 — UPDATE emits every record once, changing only assigned fields of matching rows.
-/
import Rbql.Proofs.UpdateSpec
namespace Rbql

/-- the engine's UPDATE is the specification `updateSpec` (one `updateOneSpec` per input record, NU
threaded), including which error is reported -/
theorem C05_update_refines_spec (q : SemQuery) (A B : Table) (hupd : q.isUpdate = true) (hg : q.groupBy = none)
    (hjb : ∀ js, q.join = some js → joinBError js.rhs B = none) :
    match updateSpec q B A 0 0 with
    | .ok rows => (run q A B).error = none ∧ (run q A B).rows = rows ∧ (run q A B).pulled = A.length
    | .error e => (run q A B).error = some e :=
  run_update_eq_spec q A B hupd hg hjb

/-- exactly one output record per input record, in order, with the same number of fields -/
theorem C05_same_length_and_order (q : SemQuery) (A B : Table) (hupd : q.isUpdate = true) (hg : q.groupBy = none)
    (hjb : ∀ js, q.join = some js → joinBError js.rhs B = none) (hok : (run q A B).error = none) :
    (run q A B).pulled = A.length ∧ (run q A B).rows.map List.length = A.map List.length :=
  let h := run_update_property q A B hupd hg hjb hok
  ⟨h.1, h.2.1⟩

/-- records failing WHERE are emitted unchanged (and NU does not move) -/
theorem C05_where_false_unchanged (q : SemQuery) (B : Table) (nr nu : Nat) (recA : Row) (e : Env) (w : Ex Bool)
    (h : expandRecord q B nr recA = .ok [e]) (hq : q.where_ = some w) (hw : w { e with nu := nu } = .ok false) :
    updateOneSpec q B nr nu recA = .ok (recA, nu) :=
  updateOneSpec_where_false q B nr nu recA e w h hq hw

/-- with a join, records having no partner are emitted unchanged -/
theorem C05_no_partner_unchanged (q : SemQuery) (B : Table) (nr nu : Nat) (recA : Row)
    (h : expandRecord q B nr recA = .ok []) : updateOneSpec q B nr nu recA = .ok (recA, nu) :=
  updateOneSpec_no_partner q B nr nu recA h

/-- in an updated record exactly the assigned fields change … -/
theorem C05_only_assigned_fields_change (as : List (Nat × Ex Val)) (e : Env) (r r' : Row)
    (h : applyAssigns as e r = .ok r') (j : Nat) (hj : ∀ p ∈ as, p.1 ≠ j) : r'[j]? = r[j]? :=
  applyAssigns_untouched as e r r' h j hj

/-- … each right-hand side being evaluated against the record's original values (simultaneous assignment) -/
theorem C05_rhs_sees_original (as : List (Nat × Ex Val)) (e : Env) (r r' : Row) (h : applyAssigns as e r = .ok r') :
    simultaneousAssign as e r = .ok r' :=
  applyAssigns_eq_simultaneous as e r r' h

/-- `a1 = a2, a2 = a1` swaps -/
theorem C05_swap (x y : Val) :
    applyAssigns [(0, fun e => .ok (safeGet e.a 1)), (1, fun e => .ok (safeGet e.a 0))] { nr := 1, a := [x, y] } [x, y] = .ok [y, x] := rfl

/-- NU counts the records updated so far: it grows by one exactly at updated records -/
theorem C05_nu_counts_updated (q : SemQuery) (B : Table) (nr nu : Nat) (recA row : Row) (nu' : Nat)
    (h : updateOneSpec q B nr nu recA = .ok (row, nu')) :
    (nu' = nu + 1 ↔ ∃ e, IsUpdated q B nr nu recA e) ∧ (nu' = nu ↔ ¬ ∃ e, IsUpdated q B nr nu recA e) :=
  updateOneSpec_nu q B nr nu recA row nu' h

/-- assigning to a field the record does not have fails with an error naming that record (and field) -/
theorem C05_missing_field_names_record (q : SemQuery) (B : Table) (nr nu : Nat) (recA : Row) (e : Env)
    (hu : IsUpdated q B nr nu recA e) (i : Nat)
    (h : applyAssigns q.assigns { e with nu := nu + 1 } recA = .error (.badField i)) :
    updateOneSpec q B nr nu recA = .error (.runtime nr (some (i + 1))) :=
  updateOneSpec_bad_field q B nr nu recA e hu i h

theorem C05_missing_field_detected (pre post : List (Nat × Ex Val)) (i : Nat) (rhs : Ex Val) (e : Env) (r : Row)
    (hpre : ∀ p ∈ pre, p.1 < r.length ∧ ∃ v, p.2 e = .ok v) (hv : ∃ v, rhs e = .ok v) (hi : r.length ≤ i) :
    applyAssigns (pre ++ (i, rhs) :: post) e r = .error (.badField i) :=
  applyAssigns_bad_field pre post i rhs e r hpre hv hi

/-- KNOWN FINDING D14 (the property is false of the code for LEFT JOIN, and of the model alike): a record
without partner under UPDATE … LEFT JOIN is paired with the null record, so it counts as matched and is
updated. Witness replayed on the real code by the check (known_findings.json). -/
theorem C05_left_join_unmatched_counterexample :
    let q : SemQuery := { isUpdate := true, assigns := [(1, fun _ => .ok (Val.str ['z']))],
                          join := some { kind := .left, lhs := [some 0], rhs := [some 0] } }
    (run q [[Val.str ['1'], Val.str ['x']], [Val.str ['2'], Val.str ['y']]] [[Val.str ['1'], Val.str ['p']]]).rows =
      [[Val.str ['1'], Val.str ['z']], [Val.str ['2'], Val.str ['z']]] := by
  decide

end Rbql
