/-
  C07 — the two routes from one select-list item to its column info agree on the common kinds of items.

  * rbql-js reads the item's TEXT: `colInfoOfSpan` (Model/Translate.lean), classified by kind in `C07_span_kinds` (Theorems/SpanParser.lean);
  * Python reads the TREE its own parser builds: `pyColumnInfo` (Model/PyAst.lean).

  `C07_py_kinds` is the mirror of `C07_span_kinds` over the tree that is the parse of each kind's text; `C07_py_js_agree_by_kind`
  puts the two side by side.  Vocabulary (`Proofs/SpanParser.lean`): `letter isB` (`a`/`b`), `natDigits n`, `STAR`, `LITP`, `markerOf`,
  `isIdent`, `isFieldVar`, `isAliasIdent`, `placeholder`; (`Proofs/PyKinds.lean`): `starTree x` = the parse of `markerOf x`.
  `STAR` and `pyStarMarker` are the same constant (`C07_py_star_constants_agree`).
-/
import Rbql.Proofs.PyKinds
import Rbql.Theorems.SpanParser
import Rbql.Theorems.C07PyAst
namespace Rbql
open SpanParser PyKinds

/-- the star marker of the span parser's vocabulary and the one `pyColumnInfo` compares with are the same text -/
theorem C07_py_star_constants_agree : STAR = pyStarMarker ∧ pyStarMarker = markerOf none := ⟨rfl, rfl⟩

/-- The classification of a tree, by kind (the mirror of `C07_span_kinds`; each tree is what Python's parser builds for the text of
that kind): `aN`/`bN` and `a[N]`/`b[N]` are field `N-1`; `a.name`/`b.name` and bare names are named columns; the star markers are
star infos; `a["name"]` is the (already evaluated) literal; and for the alias kind — a root whose children are `e`, then the call
`alias_column_as_pseudo_func(ident)`, then anything — the alias is `ident` for EVERY `e` that is not itself a call of the pseudo
function: `ast.walk` is breadth first, so whatever `e` CONTAINS (even another alias call) is visited after the call at depth 1. -/
theorem C07_py_kinds :
    (∀ (isB : Bool) (n : Nat), pyColumnInfo (.name (letter isB :: natDigits (n + 1))) = .ok (.field isB n)) ∧
    (∀ (isB : Bool) (n : Nat),
      pyColumnInfo (.subscript (.name [letter isB]) (.constant (.int ((n : Int) + 1)))) = .ok (.field isB n)) ∧
    (∀ (isB : Bool) (ident : Str), isIdent ident = true → ident ≠ STAR →
      pyColumnInfo (.attribute (.name [letter isB]) ident) = .ok (.named ident)) ∧
    (∀ t : Str, isIdent t = true → t ≠ STAR → isFieldVar t = false → pyColumnInfo (.name t) = .ok (.named t)) ∧
    (pyColumnInfo (.name STAR) = .ok (.star none) ∧
      ∀ isB : Bool, pyColumnInfo (.attribute (.name [letter isB]) STAR) = .ok (.star (some isB))) ∧
    (∀ (isB : Bool) (name : Str),
      pyColumnInfo (.subscript (.name [letter isB]) (.constant (.str name))) = .ok (.named name)) ∧
    (∀ (e : PyNode) (ident : Str) (rest : List PyNode), aliasOfNode e = none → ident ≠ [] →
      pyColumnInfo (.other (e :: .call (.name pyAliasFuncName) [.name ident] [] :: rest)) = .ok (.alias ident)) := by
  refine ⟨py_simple_field, py_bracket_field, ?_, fun t _ hs hv => py_ident t hs hv, ⟨py_star_all, py_star_table⟩, py_quoted,
    fun e ident rest he hne => py_alias e he ident hne rest⟩
  intro isB ident hid hne
  exact py_dotted_named isB ident (isIdent_ne_nil ident hid) hne

/-- The Python side needs less than the text side: the shape of a name is the parser's business (`isIdent` is not used — only
`ident ≠ []` for an attribute), a literal placeholder is an ordinary name, and in the alias kind ANY number of children that are
not themselves calls of the pseudo function (`pre`: the left operand, an operator node, …) may precede the call, which may carry
keyword nodes (`kw`). -/
theorem C07_py_kinds_weakest_hypotheses :
    (∀ (isB : Bool) (ident : Str), ident ≠ [] → ident ≠ STAR →
      pyColumnInfo (.attribute (.name [letter isB]) ident) = .ok (.named ident)) ∧
    (∀ t : Str, t ≠ STAR → isFieldVar t = false → pyColumnInfo (.name t) = .ok (.named t)) ∧
    (∀ (pre : List PyNode) (ident : Str) (kw rest : List PyNode), (∀ p ∈ pre, aliasOfNode p = none) → ident ≠ [] →
      pyColumnInfo (.other (pre ++ .call (.name pyAliasFuncName) [.name ident] kw :: rest)) = .ok (.alias ident)) := by
  refine ⟨?_, fun t hs hv => py_ident t hs hv, fun pre ident kw rest hp hne => py_alias_general pre hp ident hne kw rest⟩
  intro isB ident hid hne
  exact py_dotted_named isB ident hid hne

/-- `ast.walk` from a root with children `e`, `c`, `rest…`: the first three nodes visited are the root, `e`, `c`; then the other
children; the children of `e` and of `c` only after those (fuel: `PyNode.size`, which is enough for this prefix). -/
theorem C07_py_walk_first_three (e c : PyNode) (rest : List PyNode) :
    (PyNode.other (e :: c :: rest)).walk =
      .other (e :: c :: rest) :: e :: c ::
        walkBfs (e.size + c.size + PyNode.sizeList rest - 2) (rest ++ (e.children ++ c.children)) :=
  walk_first_three e c rest

/- concrete instances: the hypotheses of the conditional kinds are satisfiable, and `e` may contain an alias call of its own -/
example : isIdent "name_1".toList = true ∧ "name_1".toList ≠ STAR ∧
    (pyColumnInfo (.attribute (.name [letter true]) "name_1".toList)).toOption = some (.named "name_1".toList) := by decide
example : isIdent "NR".toList = true ∧ "NR".toList ≠ STAR ∧ isFieldVar "NR".toList = false ∧
    (pyColumnInfo (.name "NR".toList)).toOption = some (.named "NR".toList) := by decide
example : (pyColumnInfo (.name (letter false :: natDigits (11 + 1)))).toOption = some (.field false 11) ∧
    (pyColumnInfo (.subscript (.name [letter true]) (.constant (.int ((2 : Nat) + 1))))).toOption = some (.field true 2) ∧
    (pyColumnInfo (.subscript (.name [letter true]) (.constant (.str "k v".toList)))).toOption = some (.named "k v".toList) := by decide
private def exDeep : PyNode :=
  .call (.name "f".toList) [.call (.name pyAliasFuncName) [.name "deep".toList] [], .name "a1".toList] []
example : aliasOfNode exDeep = none ∧ "total".toList ≠ [] ∧
    (pyColumnInfo (.other [exDeep, .call (.name pyAliasFuncName) [.name "total".toList] [], .other []])).toOption =
      some (.alias "total".toList) := by decide
example : (∀ p ∈ [exDeep, PyNode.other []], aliasOfNode p = none) ∧
    (pyColumnInfo (.other ([exDeep, .other []] ++ .call (.name pyAliasFuncName) [.name "t".toList] [.other []] :: []))).toOption =
      some (.alias "t".toList) := by decide

/-- **The two routes agree, kind by kind**: for each kind of item, the Python route over the tree of the item and the rbql-js route
over its text (under arbitrary space padding, with the literals table `lits`) give the same column info.  Hypotheses are those
of `C07_span_kinds`; for the quoted-name kind the text carries the placeholder of literal `i`, whose unquoted content `name` is what
the tree carries; for the alias kind the text is `expr AS ident` and the tree is that of the translated item, `e` being the parse of
`expr` (any node that is not itself a call of the pseudo function). -/
theorem C07_py_js_agree_by_kind (l r : Nat) (lits : List Str) :
    (∀ (isB : Bool) (n : Nat),
      pyColumnInfo (.name (letter isB :: natDigits (n + 1))) =
        .ok (colInfoOfSpan (spaces l ++ (letter isB :: natDigits (n + 1)) ++ spaces r) lits)) ∧
    (∀ (isB : Bool) (n : Nat),
      pyColumnInfo (.subscript (.name [letter isB]) (.constant (.int ((n : Int) + 1)))) =
        .ok (colInfoOfSpan (spaces l ++ (letter isB :: '[' :: natDigits (n + 1) ++ [']']) ++ spaces r) lits)) ∧
    (∀ (isB : Bool) (ident : Str), isIdent ident = true → ident ≠ STAR →
      pyColumnInfo (.attribute (.name [letter isB]) ident) =
        .ok (colInfoOfSpan (spaces l ++ (letter isB :: '.' :: ident) ++ spaces r) lits)) ∧
    (∀ t : Str, isIdent t = true → t ≠ STAR → LITP.isPrefixOf t = false → isFieldVar t = false →
      pyColumnInfo (.name t) = .ok (colInfoOfSpan (spaces l ++ t ++ spaces r) lits)) ∧
    (∀ x : Option Bool, pyColumnInfo (starTree x) = .ok (colInfoOfSpan (spaces l ++ markerOf x ++ spaces r) lits)) ∧
    (∀ (isB : Bool) (i : Nat) (q name : Str), lits[i]? = some q → unquoteString q = some name →
      pyColumnInfo (.subscript (.name [letter isB]) (.constant (.str name))) =
        .ok (colInfoOfSpan (spaces l ++ (letter isB :: '[' :: placeholder i ++ [']']) ++ spaces r) lits)) ∧
    (∀ (expr k ident : Str) (n1 n2 : Nat) (e : PyNode) (rest : List PyNode), isAsKw k = true → isAliasIdent ident = true →
      expr.any isJsLineTerminator = false → expr.any (fun c => !isJsWs c) = true → aliasOfNode e = none →
      pyColumnInfo (.other (e :: .call (.name pyAliasFuncName) [.name ident] [] :: rest)) =
        .ok (colInfoOfSpan (spaces l ++ (expr ++ ' ' :: k ++ spaces (n1 + 1) ++ ident ++ spaces n2) ++ spaces r) lits)) := by
  obtain ⟨j1, j2, j3, j4, j5, j6, j7⟩ := C07_span_kinds l r lits
  obtain ⟨p1, p2, p3, p4, _, p6, p7⟩ := C07_py_kinds
  refine ⟨?_, ?_, ?_, ?_, ?_, ?_, ?_⟩
  · intro isB n; rw [j1, p1]
  · intro isB n; rw [j2, p2]
  · intro isB ident hid hne; rw [j3 isB ident hid hne, p3 isB ident hid hne]
  · intro t hid hne hlit hvar; rw [j4 t hid hne hlit hvar, p4 t hid hne hvar]
  · intro x; rw [j5, py_star]
  · intro isB i q name hq hu; rw [j6 isB i q name hq hu, p6]
  · intro expr k ident n1 n2 e rest hk hid hl hv he
    rw [j7 expr k ident n1 n2 hk hid hl hv, p7 e ident rest he (isAliasIdent_ne_nil ident hid)]

/-- the trees of the star markers, spelled out -/
theorem C07_py_star_trees : starTree none = .name STAR ∧ ∀ isB, starTree (some isB) = .attribute (.name [letter isB]) STAR :=
  ⟨rfl, fun _ => rfl⟩

/- a concrete instance of every kind, both sides evaluated -/
example : (pyColumnInfo (.name "a12".toList)).toOption = some (colInfoOfSpan "  a12 ".toList []) ∧
    (pyColumnInfo (.subscript (.name ['b']) (.constant (.int 3)))).toOption = some (colInfoOfSpan "b[3]".toList []) ∧
    (pyColumnInfo (.attribute (.name ['a']) "name_1".toList)).toOption = some (colInfoOfSpan " a.name_1".toList []) ∧
    (pyColumnInfo (.name "NR".toList)).toOption = some (colInfoOfSpan "NR ".toList []) ∧
    (pyColumnInfo (starTree (some true))).toOption = some (colInfoOfSpan "b.__RBQL_INTERNAL_STAR".toList []) ∧
    (pyColumnInfo (starTree none)).toOption = some (colInfoOfSpan "__RBQL_INTERNAL_STAR".toList []) := by decide
example : ["'x'".toList, "\"my \\\"col\\\"\"".toList][1]? = some "\"my \\\"col\\\"\"".toList ∧
    unquoteString "\"my \\\"col\\\"\"".toList = some "my \"col\"".toList ∧
    (pyColumnInfo (.subscript (.name ['a']) (.constant (.str "my \"col\"".toList)))).toOption =
      some (colInfoOfSpan "a[___RBQL_STRING_LITERAL1___]".toList ["'x'".toList, "\"my \\\"col\\\"\"".toList]) := by decide
example : isAsKw "AS".toList = true ∧ isAliasIdent "total_2".toList = true ∧ "f(a2)".toList.any isJsLineTerminator = false ∧
    "f(a2)".toList.any (fun c => !isJsWs c) = true ∧
    aliasOfNode (.call (.name ['f']) [.name "a2".toList] []) = none ∧
    (pyColumnInfo (.other [.call (.name ['f']) [.name "a2".toList] [],
      .call (.name pyAliasFuncName) [.name "total_2".toList] []])).toOption =
      some (colInfoOfSpan "f(a2) AS  total_2 ".toList []) := by decide

/-! ### the edges of the kinds -/

/-- `a0` / `a[0]` name no column: Python's `.name "a0"` and `a[0]` are `.other` (negative index), and the rbql-js span parser says
`.other` for the texts `a0` and `a[0]` too — no difference at the level of column infos.  Leading zeros in `aN` are read the same
way by both (`a010` is field 10); `a[010]` does not reach `pyColumnInfo` (Python 3 rejects the literal), see
`C07_span_leading_zero_observation` for the JS side. -/
theorem C07_py_js_zero_index_agree :
    (pyColumnInfo (.name "a0".toList)).toOption = some .other ∧ colInfoOfSpan "a0".toList [] = .other ∧
    (pyColumnInfo (.subscript (.name ['a']) (.constant (.int 0)))).toOption = some .other ∧ colInfoOfSpan "a[0]".toList [] = .other ∧
    (pyColumnInfo (.subscript (.name ['a']) (.constant (.int (-3))))).toOption = some .other ∧
    colInfoOfSpan "a[-3]".toList [] = .other ∧
    (pyColumnInfo (.name "a010".toList)).toOption = some (.field false 9) ∧ colInfoOfSpan "a010".toList [] = .field false 9 := by
  decide

/-- `a[True]`: a bool constant is an `int` for `isinstance`, the code excludes it explicitly — `.other`; the text `a[True]` is
`.other` for the span parser as well (the subscript is neither digits nor a literal placeholder). -/
theorem C07_py_js_bool_subscript_agree :
    (pyColumnInfo (.subscript (.name ['a']) (.constant .bool))).toOption = some .other ∧
    (pyColumnInfo (.subscript (.name ['a']) (.constant .other))).toOption = some .other ∧
    colInfoOfSpan "a[True]".toList [] = .other := by decide

/-- A real difference between the two functions, and the reason for the hypothesis `LITP.isPrefixOf t = false` in the bare-name
conjunct of `C07_py_js_agree_by_kind`: a bare name that starts like a literal placeholder is an ordinary named column for
`pyColumnInfo` and unnamed for the span parser.  (In a real query such a name only occurs as the placeholder of a whole-item string
literal; Python's select list is parsed with the literals put back, so its tree carries a Constant there, not a Name.) -/
theorem C07_py_js_placeholder_name_differs :
    isIdent "___RBQL_STRING_LITERAL0___".toList = true ∧ "___RBQL_STRING_LITERAL0___".toList ≠ STAR ∧
    isFieldVar "___RBQL_STRING_LITERAL0___".toList = false ∧ LITP.isPrefixOf "___RBQL_STRING_LITERAL0___".toList = true ∧
    (pyColumnInfo (.name "___RBQL_STRING_LITERAL0___".toList)).toOption = some (.named "___RBQL_STRING_LITERAL0___".toList) ∧
    colInfoOfSpan "___RBQL_STRING_LITERAL0___".toList ["'x'".toList] = .other := by decide

/-- Other tables' prefixes: `c.id` is unnamed for both. -/
theorem C07_py_js_other_prefix_agree :
    (pyColumnInfo (.attribute (.name ['c']) "id".toList)).toOption = some .other ∧ colInfoOfSpan "c.id".toList [] = .other := by
  decide

/-- A deep alias call loses against a shallow one — `C07_py_alias_search_is_breadth_first` (Theorems/C07PyAst.lean) is the instance;
the general statement is the last conjunct of `C07_py_kinds`.  The converse edge: when the FIRST child is itself the call, it wins
over a later sibling. -/
theorem C07_py_alias_first_sibling_wins :
    (pyColumnInfo (.other [.call (.name pyAliasFuncName) [.name "x".toList] [],
      .call (.name pyAliasFuncName) [.name "y".toList] []])).toOption = some (.alias "x".toList) ∧
    aliasOfNode (.call (.name pyAliasFuncName) [.name "x".toList] []) ≠ none := by decide

end Rbql
