/-
  C10 — CSV written by RBQL reads back as the identical table, in every dialect.
  (line level and file level; the record machine on top of the lines is C12's theorem)
-/
import Rbql.Proofs.RoundTrip
namespace Rbql

/-- quoted policy: for every good delimiter (single- or multi-character) and every non-empty field
list whose raw fields do not overlap the delimiter, splitting the written line returns exactly the
fields, without the warning.  For a one-character delimiter `FieldOk` holds for every field
(`fieldOk_single`), so there is no condition on the fields at all. -/
theorem C10_line_roundtrip_quoted {d : Str} (g : GoodDelim d (d != [SPACE])) (fs : List Str) (hne : fs ≠ [])
    (hok : ∀ f ∈ fs, FieldOk d f) :
    splitQuotedStr d false (joinD d (fs.map (quoteField d))) = (fs, false) :=
  line_roundtrip_quoted_str g fs hne hok

theorem C10_line_roundtrip_quoted_single_char (c : Char) (hq : c ≠ QUOTE) (hs : c ≠ SPACE) (fs : List Str) (hne : fs ≠ []) :
    splitQuotedStr [c] false (joinD [c] (fs.map (quoteField [c]))) = (fs, false) := by
  have hws : ([c] != [SPACE]) = true := by simp [hs]
  have g : GoodDelim [c] ([c] != [SPACE]) := by
    rw [hws]
    exact ⟨by simp, by simpa using fun h => hq h.symm, fun _ => by simp [NoLeadSpace, hs]⟩
  exact line_roundtrip_quoted_str g fs hne (fun f _ => fieldOk_single c f)

/-- simple policy -/
theorem C10_line_roundtrip_simple (d : Str) (hd : d ≠ []) (fs : List Str) (hne : fs ≠ []) (hok : ∀ f ∈ fs, RawOk d f) :
    smartSplit d .simple false (joinD d fs) = (fs, false) := by
  simp [smartSplit, line_roundtrip_simple d hd fs hne hok]

/-- monocolumn: the one field is the line -/
theorem C10_monocolumn_roundtrip (d f : Str) : smartSplit d .monocolumn false f = ([f], false) := rfl

/-- whatever line separator is used (LF, CRLF, CR), rows without line breaks come back as the same rows -/
theorem C10_file_lines_roundtrip (sep : Str) (hsep : sep = [LF] ∨ sep = [CR, LF] ∨ sep = [CR]) (rows : List Str)
    (hrows : ∀ r ∈ rows, NoNL r) :
    linesSpec (rows.flatMap (fun r => r ++ sep)) = rows :=
  file_lines_roundtrip sep hsep rows hrows

/-- lossy output is never silent (one-character delimiter): a simple/whitespace field containing the
delimiter makes the writer's test `output_line.count(delim) + 1 != len(fields)` fire … -/
theorem C10_lossy_simple_warns (c : Char) (fs : List Str) (hne : fs ≠ []) (h : ∃ f ∈ fs, c ∈ f) :
    countD [c] (joinD [c] fs) + 1 ≠ fs.length :=
  lossy_simple_warns c fs hne h

/-- … and so the written record sets the flag -/
theorem C10_lossy_simple_sets_flag (c : Char) (st : WState) (fs : List Str) (hne : fs ≠ []) (h : ∃ f ∈ fs, c ∈ f)
    (hh : st.headerLen = none) :
    (writeRec { delim := [c], policy := .simple } st (fs.map some)).toOption.map (·.delimInSimple) = some true := by
  have hw := lossy_simple_warns c fs hne h
  have hmap : (fs.map some).map (fun c => c.getD []) = fs := by simp [Function.comp_def]
  simp [writeRec, hh, writeRec.go, normalizeCells, hmap, hw, Except.toOption]

/-- a None cell always sets the None flag -/
theorem C10_none_sets_flag (c : WCfg) (st : WState) (fields : List (Option Str)) (h : none ∈ fields) (st' : WState)
    (hw : writeRec c st fields = .ok st') : st'.noneSeen = true := by
  have hany : fields.any (fun c => c.isNone) = true := by
    simp only [List.any_eq_true]; exact ⟨none, h, rfl⟩
  unfold writeRec at hw
  have hgo : writeRec.go c st fields = .ok st' := by
    cases hl : st.headerLen with
    | none => simpa [hl] using hw
    | some hl' =>
      simp only [hl] at hw
      split at hw
      · cases hw
      · exact hw
  unfold writeRec.go at hgo
  simp only [normalizeCells, hany, Bool.or_true] at hgo
  split at hgo
  · cases hgo; rfl
  · cases hgo; rfl
  · split at hgo
    · cases hgo
    · cases hgo; rfl
  · cases hgo; rfl
  · cases hgo; rfl

/-- why multi-character delimiters need the overlap hypothesis: `xa`,`b` written with delimiter `aa`
reads back as `x`,`ab`, silently (model witness; replayed on the real code by the correspondence) -/
theorem C10_overlap_counterexample :
    splitOn ['a', 'a'] (joinD ['a', 'a'] [['x', 'a'], ['b']]) = [['x'], ['a', 'b']] := by
  simp [joinD, splitOn, findD, List.isPrefixOf]

end Rbql
