/-
  C10 — CSV written by RBQL reads back as the identical table, in every dialect.
  (line level and file level; the record machine on top of the lines is C12's theorem)
-/
import Rbql.Proofs.RoundTrip
import Rbql.Proofs.RfcAndWarnings
namespace Rbql

/-- quoted policy: for every good delimiter (single- or multi-character) and every non-empty field
list whose raw fields do not overlap the delimiter, splitting the written line returns exactly the
fields, without the warning.  For a one-character delimiter `FieldOk` holds for every field
(`fieldOk_single`), so there is no condition on the fields at all. -/
theorem C10_line_roundtrip_quoted {d : Str} (g : GoodDelim d (d != [SPACE])) (fs : List Str) (hne : fs ≠ [])
    (hok : ∀ f ∈ fs, FieldOk d f) :
    splitQuotedStr d false (joinD d (fs.map (quoteField d))) = (fs, false) :=
  line_roundtrip_quoted_str g fs hne hok

theorem C10_line_roundtrip_quoted_single_char (c : Char) (hq : c ≠ QUOTE) (hs : c ≠ SPACE) (fs : List Str) (hne : fs ≠ []) :
    splitQuotedStr [c] false (joinD [c] (fs.map (quoteField [c]))) = (fs, false) := by
  have hws : ([c] != [SPACE]) = true := by simp [hs]
  have g : GoodDelim [c] ([c] != [SPACE]) := by
    rw [hws]
    exact ⟨by simp, by simpa using fun h => hq h.symm, fun _ => by simp [NoLeadSpace, hs]⟩
  exact line_roundtrip_quoted_str g fs hne (fun f _ => fieldOk_single c f)

/-- simple policy -/
theorem C10_line_roundtrip_simple (d : Str) (hd : d ≠ []) (fs : List Str) (hne : fs ≠ []) (hok : ∀ f ∈ fs, RawOk d f) :
    smartSplit d .simple false (joinD d fs) = (fs, false) := by
  simp [smartSplit, line_roundtrip_simple d hd fs hne hok]

/-- monocolumn: the one field is the line -/
theorem C10_monocolumn_roundtrip (d f : Str) : smartSplit d .monocolumn false f = ([f], false) := rfl

/-- whatever line separator is used (LF, CRLF, CR), rows without line breaks come back as the same rows -/
theorem C10_file_lines_roundtrip (sep : Str) (hsep : sep = [LF] ∨ sep = [CR, LF] ∨ sep = [CR]) (rows : List Str)
    (hrows : ∀ r ∈ rows, NoNL r) :
    linesSpec (rows.flatMap (fun r => r ++ sep)) = rows :=
  file_lines_roundtrip sep hsep rows hrows

/-- lossy output is never silent (one-character delimiter): a simple/whitespace field containing the
delimiter makes the writer's test `output_line.count(delim) + 1 != len(fields)` fire … -/
theorem C10_lossy_simple_warns (c : Char) (fs : List Str) (hne : fs ≠ []) (h : ∃ f ∈ fs, c ∈ f) :
    countD [c] (joinD [c] fs) + 1 ≠ fs.length :=
  lossy_simple_warns c fs hne h

/-- … and so the written record sets the flag -/
theorem C10_lossy_simple_sets_flag (c : Char) (st : WState) (fs : List Str) (hne : fs ≠ []) (h : ∃ f ∈ fs, c ∈ f)
    (hh : st.headerLen = none) :
    (writeRec { delim := [c], policy := .simple } st (fs.map some)).toOption.map (·.delimInSimple) = some true := by
  have hw := lossy_simple_warns c fs hne h
  have hmap : (fs.map some).map (fun c => c.getD []) = fs := by simp [Function.comp_def]
  simp [writeRec, hh, writeRec.go, normalizeCells, hmap, hw, Except.toOption]

/-- a None cell always sets the None flag -/
theorem C10_none_sets_flag (c : WCfg) (st : WState) (fields : List (Option Str)) (h : none ∈ fields) (st' : WState)
    (hw : writeRec c st fields = .ok st') : st'.noneSeen = true := by
  have hany : fields.any (fun c => c.isNone) = true := by
    simp only [List.any_eq_true]; exact ⟨none, h, rfl⟩
  unfold writeRec at hw
  have hgo : writeRec.go c st fields = .ok st' := by
    cases hl : st.headerLen with
    | none => simpa [hl] using hw
    | some hl' =>
      simp only [hl] at hw
      split at hw
      · cases hw
      · exact hw
  unfold writeRec.go at hgo
  simp only [normalizeCells, hany, Bool.or_true] at hgo
  split at hgo
  · cases hgo; rfl
  · cases hgo; rfl
  · split at hgo
    · cases hgo
    · cases hgo; rfl
  · cases hgo; rfl
  · cases hgo; rfl

/-- whitespace policy: `split_whitespace_separated_str` is "split on single spaces and drop the empty
tokens" (runs of spaces collapse), for every line -/
theorem C10_whitespace_tokens_spec (s : Str) : wsTokens s [] = (splitOn [SPACE] s).filter (· ≠ []) :=
  wsTokens_spec s

/-- whitespace policy: non-empty fields without a space, joined by one space, read back unchanged.
(An empty field or a field with a space is the lossy case; the writer's delimiter count flags the
latter: `C10_lossy_simple_warns` with `c = SPACE`.) -/
theorem C10_line_roundtrip_whitespace (fs : List Str) (h : ∀ f ∈ fs, f ≠ [] ∧ SPACE ∉ f) :
    splitWhitespace false (joinD [SPACE] fs) = fs :=
  whitespace_roundtrip fs h

/-- quoted_rfc policy, one logical record (fields may contain LF and CR): the written record splits
back into the fields, without the warning -/
theorem C10_line_roundtrip_rfc {d : Str} (g : GoodDelim d (d != [SPACE])) (fs : List Str) (hne : fs ≠ [])
    (hok : ∀ f ∈ fs, FieldOk d f) :
    smartSplit d .quotedRfc false (joinD d (fs.map (rfcQuoteField d))) = (fs, false) :=
  line_roundtrip_rfc_smart g fs hne hok

/-- quoted_rfc: the written record always has an even number of quotes, so the reader's parity
assembly never leaves it open -/
theorem C10_rfc_written_quote_parity (d : Str) (hd : QUOTE ∉ d) (fs : List Str) :
    countQuotes (joinD d (fs.map (rfcQuoteField d))) % 2 = 0 :=
  countQuotes_written_rfc d hd fs

/-- quoted_rfc, whole file through the REAL reader machine (chunked stream, universal newlines,
quote-parity assembly of physical lines, then the splitter): every table whose fields do not overlap a
multi-character delimiter, written with `rfc_quote_field` and LF line ends and delivered in ANY chunking
`pieces`, reads back as the table with the line breaks inside fields normalised to LF — exactly what
Python's text-mode reader does (CR / CRLF inside a quoted field become LF). Without CR in the fields the
table comes back identical (`univNewlines_noCR`). -/
theorem C10_rfc_file_roundtrip {d : Str} (g : GoodDelim d (d != [SPACE])) (hlf : LF ∉ d) (hcr : CR ∉ d)
    (table : List (List Str)) (hne : ∀ fs ∈ table, fs ≠ [])
    (hok : ∀ fs ∈ table, ∀ f ∈ fs, FieldOk d (univNewlines f))
    (c : RCfg) (hchunk : 1 ≤ c.chunk) (hcom : c.comment = none) (henc : c.enc = .none)
    (pieces : List Str) (hp : ∀ p ∈ pieces, p ≠ [])
    (htext : pieces.flatten = table.flatMap (fun fs => joinD d (fs.map (rfcQuoteField d)) ++ [LF])) :
    (allRowsRfc c (totalLen pieces + 1) { stream := pieces }).map (smartSplit d .quotedRfc false) =
      table.map (fun fs => (fs.map univNewlines, false)) :=
  rfc_reader_roundtrip g hlf hcr table hne hok c hchunk hcom henc pieces hp htext

/-- … and identical when no field contains a CR -/
theorem C10_rfc_file_roundtrip_identical {d : Str} (g : GoodDelim d (d != [SPACE])) (hlf : LF ∉ d) (hcr : CR ∉ d)
    (table : List (List Str)) (hne : ∀ fs ∈ table, fs ≠ [])
    (hok : ∀ fs ∈ table, ∀ f ∈ fs, FieldOk d f ∧ CR ∉ f)
    (c : RCfg) (hchunk : 1 ≤ c.chunk) (hcom : c.comment = none) (henc : c.enc = .none)
    (pieces : List Str) (hp : ∀ p ∈ pieces, p ≠ [])
    (htext : pieces.flatten = table.flatMap (fun fs => joinD d (fs.map (rfcQuoteField d)) ++ [LF])) :
    (allRowsRfc c (totalLen pieces + 1) { stream := pieces }).map (smartSplit d .quotedRfc false) =
      table.map (fun fs => (fs, false)) := by
  have h := rfc_reader_roundtrip g hlf hcr table hne
    (fun fs hfs f hf => by rw [univNewlines_noCR f (hok fs hfs f hf).2]; exact (hok fs hfs f hf).1)
    c hchunk hcom henc pieces hp htext
  rw [h]
  apply List.map_congr_left
  intro fs hfs
  have : fs.map univNewlines = fs := by
    conv => rhs; rw [← List.map_id fs]
    apply List.map_congr_left
    intro f hf
    simpa using univNewlines_noCR f (hok fs hfs f hf).2
  rw [this]

/-- why multi-character delimiters need the overlap hypothesis: `xa`,`b` written with delimiter `aa`
reads back as `x`,`ab`, silently (model witness; replayed on the real code by the correspondence) -/
theorem C10_overlap_counterexample :
    splitOn ['a', 'a'] (joinD ['a', 'a'] [['x', 'a'], ['b']]) = [['x'], ['a', 'b']] := by
  simp [joinD, splitOn, findD, List.isPrefixOf]

/-- non-vacuity of the rfc file round trip: two records, a quoted field with a line break, two chunks -/
example : (allRowsRfc { delim := [','], policy := .quotedRfc, chunk := 4, comment := none, enc := .none } 100
    { stream := ["a,\"x\ny\"\n".toList, "b,c\n".toList] }).map (smartSplit [','] .quotedRfc false) =
    [([['a'], ['x','\n','y']], false), ([['b'],['c']], false)] := by decide +kernel

end Rbql
