/-
  C09 — Column-name variables bind to the right column; header line is never data.
-/
import Rbql.Model.PyString
import Rbql.Proofs.HeaderLine
import Rbql.Spec.EngineSpec
namespace Rbql

theorem pyEvalBody_cons_plain (q c : Char) (cs : Str) (h1 : c ≠ BSLASH) (h2 : c ≠ q) (h3 : c ≠ LF) (h4 : c ≠ CR) :
    pyEvalBody q (c :: cs) = (pyEvalBody q cs).map (c :: ·) := by
  cases cs with
  | nil => simp [pyEvalBody, h1, h2, h3, h4]
  | cons d ds => rw [pyEvalBody]; simp [h1, h2, h3, h4]

/-- For EVERY column name and both quote characters, the literal that RBQL generates for `a["name"]` /
`a['name']` evaluates back to exactly the name: backslashes, both quotes, tab and line breaks included. -/
theorem C09_escape_unescape (q : Char) (hq : q = QUOTE ∨ q = SQUOTE) (name : Str) :
    pyEvalBody q (pyEscape q name) = some name := by
  induction name with
  | nil => simp [pyEscape, pyEvalBody]
  | cons c cs ih =>
    unfold pyEscape
    by_cases h1 : c = BSLASH
    · subst h1; simp only [if_true, List.cons_append, List.nil_append]
      rw [pyEvalBody]; simp [ih]
    · by_cases h2 : c = LF
      · subst h2; simp only [h1, if_false, if_true, List.cons_append, List.nil_append]
        rw [pyEvalBody]; simp [ih, BSLASH]
      · by_cases h3 : c = CR
        · subst h3; simp only [h1, h2, if_false, if_true, List.cons_append, List.nil_append]
          rw [pyEvalBody]; simp [ih, BSLASH]
        · by_cases h4 : c = TAB
          · subst h4; simp only [h1, h2, h3, if_false, if_true, List.cons_append, List.nil_append]
            rw [pyEvalBody]; simp [ih, BSLASH]
          · by_cases h5 : c = q
            · subst h5; simp only [h1, h2, h3, h4, if_false, if_true, List.cons_append, List.nil_append]
              rw [pyEvalBody]
              rcases hq with rfl | rfl
              · have ih' : pyEvalBody '\"' (pyEscape '\"' cs) = some cs := ih
                simp [ih', BSLASH, QUOTE, SQUOTE]
              · have ih' : pyEvalBody '\'' (pyEscape '\'' cs) = some cs := ih
                simp [ih', BSLASH, QUOTE, SQUOTE]
            · simp only [h1, h2, h3, h4, h5, if_false, List.cons_append, List.nil_append]
              rw [pyEvalBody_cons_plain q c _ h1 h5 h2 h3, ih]
              rfl

/-- the generated literal never contains a bare delimiter or line break: it is ONE string literal -/
theorem C09_escaped_has_no_bare_delimiter (q : Char) (hq : q = QUOTE ∨ q = SQUOTE) (name : Str) :
    (pyEvalBody q (pyEscape q name)).isSome = true := by
  rw [C09_escape_unescape q hq name]; rfl

theorem find_zipIdx_of_nodup (names : List Str) (n : Nat) (i : Nat) (hi : i < names.length) (hd : names.Nodup) :
    ((names.zipIdx n).find? (fun p => p.1 == names[i])).map (·.2) = some (n + i) := by
  induction names generalizing n i with
  | nil => simp at hi
  | cons x xs ih =>
    cases i with
    | zero => simp [List.zipIdx_cons]
    | succ j =>
      have hj : j < xs.length := by simpa using hi
      have hne : ¬ (x == xs[j]) = true := by
        have := (List.nodup_cons.mp hd).1
        intro h
        exact this (by rw [beq_iff_eq.mp h]; exact List.getElem_mem hj)
      simp only [List.zipIdx_cons, List.getElem_cons_succ, List.find?_cons, hne]
      rw [ih (n + 1) j hj (List.nodup_cons.mp hd).2]
      congr 1; omega

/-- for every set of distinct column names, the name at header position `i` is bound to column `i` -/
theorem C09_binds_right_column (names : List Str) (hd : names.Nodup) (i : Nat) (hi : i < names.length) :
    columnIndex names names[i] = some i := by
  unfold columnIndex
  simpa using find_zipIdx_of_nodup names 0 i hi hd

/-- WITH (header) / WITH (noheader) in the query overrides the caller's flag (input and join tables are both
`CSVRecordIterator`s, so this is the statement for either) -/
theorem C09_with_overrides_flag (c : RCfg) (hasHeader : Bool) (b : Bool) (st : Stream) :
    readAll c hasHeader (some b) st = readAll c b none st :=
  readAll_modifier_overrides c hasHeader b st

/-- the header line is never processed as a record: with a header, the records delivered are exactly those
delivered without one minus the first, which is the header; nothing else changes (same warnings, same error) -/
theorem C09_header_never_data (c : RCfg) (st : Stream) (r : ReadResult) (h : readAll c true none st = .ok r) :
    ∃ r', readAll c false none st = .ok r' ∧ r'.header = none ∧ r'.warnings = r.warnings ∧
      r'.records = (match r.header with | some hd => hd :: r.records | none => r.records) :=
  readAll_header_never_data c st r h

/-- the same for the JS reader -/
theorem C09_header_never_data_js (st : JState) (r : ReadResult) (h : jsResult st true none = .ok r) :
    ∃ r', jsResult st false none = .ok r' ∧ r'.header = none ∧ r'.warnings = r.warnings ∧
      r'.records = (match r.header with | some hd => hd :: r.records | none => r.records) :=
  jsResult_header_never_data st r h

/-- NR is 1 on the first data record: the engine numbers the records it is handed from 1, and the header is not among them -/
theorem C09_first_data_record_is_nr_one (q : SemQuery) (B : Table) (r : Row) (rest : Table) :
    emissions q B (r :: rest) 0 =
      (do let envs ← expandRecord q B 1 r
          let hd ← projectEnvs q envs
          let tl ← emissions q B rest 1
          pure (hd ++ tl)) := by
  rw [emissions]

/-! non-vacuity -/
example : pyEscape QUOTE ['a', '"', '\\', '\n', '\'', 'b'] = ['a', '\\', '"', '\\', '\\', '\\', 'n', '\'', 'b'] := by decide
example : pyEvalBody QUOTE ['a', '\\', '"', '\\', '\\', '\\', 'n', '\'', 'b'] = some ['a', '"', '\\', '\n', '\'', 'b'] := by decide

end Rbql
