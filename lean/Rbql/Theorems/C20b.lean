/-
  C20 (byte level) and the bad-bytes clause of C15: the rbql-js stream reader receives BYTE chunks and decodes them
  with a streaming UTF-8 decoder (`decoder.decode(chunk, {stream: true})` per chunk, flush at the end).
  `Model/Utf8.lean` is an executable model of that decoder (WHATWG UTF-8, fatal) tied to node's TextDecoder by the
  correspondence; here: decoding does not depend on the chunking, valid UTF-8 is never rejected, truncated or invalid
  UTF-8 always is, and the decoded pieces satisfy the hypothesis `GoodPieces` of the text-level theorems — so the
  reader's result depends only on the bytes.  (Theorem names keep the `C20_`/`C15_` prefixes: they are audited.)
-/
import Rbql.Proofs.Utf8
namespace Rbql

/-- decoding a chunked byte stream gives the same text, and the same success/failure, as decoding the whole input:
chunk boundaries inside a multi-byte character are invisible -/
theorem C20_decoding_chunk_independent (ch1 ch2 : List Bytes) (h : ch1.flatten = ch2.flatten) :
    flat (decodeStream ch1) = flat (decodeStream ch2) :=
  decodeStream_chunk_independent ch1 ch2 h

theorem C20_decoding_is_whole_decoding (chunks : List Bytes) : flat (decodeStream chunks) = decodeAll chunks.flatten :=
  flat_decodeStream chunks

/-- valid UTF-8 is never rejected, whatever the chunking, and decodes to the text it encodes -/
theorem C20_valid_utf8_never_rejected (c : RCfg) (s : Str) (chunks : List Bytes)
    (hne : ∀ ch ∈ chunks, ch ≠ []) (hflat : chunks.flatten = s.flatMap String.utf8EncodeChar) :
    ∃ pieces, decodeStream chunks = .ok pieces ∧ pieces.flatten = s ∧ jsStream c pieces = jsBulk c s :=
  js_stream_bytes_of_text c s chunks hne hflat

/-- the decoder accepts exactly the canonical encodings (no overlong forms, no surrogates, nothing above U+10FFFF) -/
theorem C20_decoder_accepts_exactly_utf8 (bs : Bytes) (s : Str) :
    decodeAll bs = .ok s ↔ bs = s.flatMap String.utf8EncodeChar :=
  decodeAll_ok_iff bs s

/-- **byte-level chunk independence of the reader**: for byte chunkings without empty chunks, the stream reader
on the decoded pieces equals the bulk reader on the decoded text, and a decoding failure is a failure for both -/
theorem C20_stream_eq_bulk_bytes (c : RCfg) (chunks : List Bytes) (hne : ∀ ch ∈ chunks, ch ≠ []) :
    (match decodeStream chunks, decodeAll chunks.flatten with
     | .ok pieces, .ok text => jsStream c pieces = jsBulk c text
     | .error _, .error _ => True
     | _, _ => False) :=
  js_stream_eq_bulk_bytes c chunks hne

/-- two chunkings of the same bytes: both fail, or both succeed with the same reader result (records, header, warnings, error) -/
theorem C20_result_depends_on_bytes_only (c : RCfg) (hasHeader : Bool) (modifier : Option Bool)
    (ch1 ch2 : List Bytes) (h1 : ∀ ch ∈ ch1, ch ≠ []) (h2 : ∀ ch ∈ ch2, ch ≠ [])
    (hflat : ch1.flatten = ch2.flatten) (p1 p2 : List Str)
    (hd1 : decodeStream ch1 = .ok p1) (hd2 : decodeStream ch2 = .ok p2) :
    jsResult (jsStream c p1) hasHeader modifier = jsResult (jsStream c p2) hasHeader modifier :=
  js_result_bytes_chunk_independent c hasHeader modifier ch1 ch2 h1 h2 hflat p1 p2 hd1 hd2

/-- the decoded pieces of a stream without empty chunks satisfy `GoodPieces` (an empty piece is only followed by a
piece that is empty or starts with a non-ASCII character) … -/
theorem C20_decoded_pieces_are_good (chunks : List Bytes) (hne : ∀ ch ∈ chunks, ch ≠ [])
    (pieces : List Str) (h : decodeStream chunks = .ok pieces) : GoodPieces pieces :=
  decodeStream_goodPieces chunks hne pieces h

/-- … and an empty chunk between CR and LF is the counterexample showing why "no empty chunk" is assumed -/
theorem C20_empty_byte_chunk_counterexample :
    decodeStream [[0x0D], [], [0x0A]] = .ok [[CR], [], [LF]] ∧ ¬ GoodPieces [[CR], [], [LF]] :=
  decodeStream_empty_chunk_counterexample

/-- C15, bad bytes: a byte stream that is not the UTF-8 encoding of any text is rejected, for EVERY chunking -/
theorem C15_invalid_utf8_rejected_any_chunking (chunks : List Bytes)
    (h : ¬ ∃ s : Str, chunks.flatten = s.flatMap String.utf8EncodeChar) : decodeStream chunks = .error () :=
  decodeStream_rejects chunks h

/-- C15: input that ends inside a multi-byte character is rejected (the flush at end of stream) -/
theorem C15_truncated_utf8_rejected (s : Str) (c : Char) (t more : Bytes) (ht : t ≠ []) (hm : more ≠ [])
    (h : String.utf8EncodeChar c = t ++ more) : decodeAll (s.flatMap String.utf8EncodeChar ++ t) = .error () :=
  decodeAll_truncated_char s c t more ht hm h

/-- C15: a byte that can never start a sequence (a stray continuation byte, C0/C1, F5..FF) inserted at a character
boundary makes the input undecodable, whatever follows -/
theorem C15_bad_byte_rejected (s : Str) (b : UInt8) (after : Bytes)
    (hb : (0x80 ≤ b.toNat ∧ b.toNat ≤ 0xC1) ∨ 0xF5 ≤ b.toNat) :
    decodeAll (s.flatMap String.utf8EncodeChar ++ b :: after) = .error () :=
  decodeAll_bad_byte_inserted s b after hb

/-- non-vacuity: a four-byte character split over four chunks, then a line feed -/
example : decodeStream [[0xF0],[0x9F],[0x98],[0x80,0x0A]] = .ok [[], [], [], ['😀', LF]] := rfl

end Rbql
