/-
  C11 — Field splitting implements the documented quoting dialect exactly.
  Property theorems only; helper lemmas live in Rbql/Proofs.
-/
import Rbql.Proofs.Split
namespace Rbql

/-- The dialect for a whole line, field by field (`FieldAt` is the single-field rule):
the last field runs to the end of the line; a delimiter at the very end of the line is followed by
one more, empty, field; the warning flag is the disjunction of the fields' flags. -/
inductive Parses (d : Str) (ws : Bool) : Str → List Str → Bool → Prop
  | last (s f : Str) (w : Bool) : FieldAt d ws s f w none → Parses d ws s [f] w
  | trailing (s f : Str) (w : Bool) : FieldAt d ws s f w (some []) → Parses d ws s [f, []] w
  | more (s f : Str) (w : Bool) (r : Str) (fs : List Str) (w' : Bool) :
      FieldAt d ws s f w (some r) → r ≠ [] → Parses d ws r fs w' → Parses d ws s (f :: fs) (w || w')

theorem nextField_after_lt {d : Str} {ws : Bool} (g : GoodDelim d ws) (s f : Str) (w : Bool) (r : Str)
    (h : nextField d ws false s = (f, w, some r)) : r.length < s.length := by
  have hs := nextField_sound g s
  rw [h] at hs
  dsimp only at hs
  have hdl : 0 < d.length := List.length_pos_iff.mpr g.ne
  cases hs with
  | quotedDelim x r hq =>
    obtain ⟨sp1, sp2, _, _, _, rfl⟩ := hq
    simp; omega
  | plainDelim b r hn hfo =>
    rw [hfo.1]; simp; omega

theorem nextField_pres_tail (d : Str) (ws : Bool) (s : Str) :
    (nextField d ws true s).2 = (nextField d ws false s).2 := by
  unfold nextField
  cases matchQuoted ws s with
  | none => rfl
  | some p => obtain ⟨c, r⟩ := p; simp only; split <;> (try split) <;> rfl

/-- Soundness: what `split_quoted_str`'s loop returns is a parse of the line in the dialect. -/
theorem C11_split_sound {d : Str} {ws : Bool} (g : GoodDelim d ws) (s : Str) :
    Parses d ws s (splitFrom d ws false s).1 (splitFrom d ws false s).2 := by
  induction hn : s.length using Nat.strongRecOn generalizing s with
  | ind n ih =>
    have hs := nextField_sound g s
    rw [splitFrom]
    rcases hnf : nextField d ws false s with ⟨f, w, a⟩
    rw [hnf] at hs
    cases a with
    | none => exact Parses.last s f w hs
    | some r =>
      cases r with
      | nil => exact Parses.trailing s f w hs
      | cons c r =>
        have hlt := nextField_after_lt g s f w (c :: r) hnf
        simp only [hlt, dite_true]
        exact Parses.more s f w (c :: r) _ _ hs (by simp) (ih _ (by omega) (c :: r) rfl)

/-- Completeness: every parse of the line in the dialect is what the loop returns
(so the dialect is unambiguous and the splitter implements it exactly). -/
theorem C11_split_complete {d : Str} {ws : Bool} (g : GoodDelim d ws) (s : Str) (fs : List Str) (w : Bool)
    (h : Parses d ws s fs w) : splitFrom d ws false s = (fs, w) := by
  induction h with
  | last s f w hf =>
    rw [splitFrom, FieldAt.unique g s f w none hf]
  | trailing s f w hf =>
    rw [splitFrom, FieldAt.unique g s f w (some []) hf]
  | more s f w r fs w' hf hr _ ih =>
    have hnf := FieldAt.unique g s f w (some r) hf
    have hlt := nextField_after_lt g s f w r hnf
    rw [splitFrom, hnf]
    cases r with
    | nil => exact absurd rfl hr
    | cons c r => simp only [hlt, dite_true, ih]

theorem C11_split_sound_complete {d : Str} {ws : Bool} (g : GoodDelim d ws) (s : Str) (fs : List Str) (w : Bool) :
    splitFrom d ws false s = (fs, w) ↔ Parses d ws s fs w := by
  constructor
  · intro h
    have := C11_split_sound g s
    rw [h] at this; exact this
  · exact C11_split_complete g s fs w

/-- The dialect is deterministic: a line has exactly one parse. -/
theorem C11_parses_deterministic {d : Str} {ws : Bool} (g : GoodDelim d ws) (s : Str)
    (fs fs' : List Str) (w w' : Bool) (h : Parses d ws s fs w) (h' : Parses d ws s fs' w') :
    fs = fs' ∧ w = w' := by
  have a := C11_split_complete g s fs w h
  have b := C11_split_complete g s fs' w' h'
  rw [a] at b
  simpa using b

/-- A warning is raised iff some field taken as unquoted contains a double quote: in `FieldAt`
the flag of a quoted field is `false` and the flag of an unquoted field is `contains '"'`;
`Parses` takes the disjunction.  Stated for one field: -/
theorem C11_warning_iff_unquoted_with_quote {d : Str} {ws : Bool} (g : GoodDelim d ws) (s : Str) :
    (nextField d ws false s).2.1 = true ↔
      ((¬ ∃ x r, QuotedAt ws s x r ∧ (r = [] ∨ ∃ t, r = d ++ t)) ∧ QUOTE ∈ (nextField d ws false s).1) := by
  have hs := nextField_sound g s
  rcases hnf : nextField d ws false s with ⟨f, w, a⟩
  rw [hnf] at hs
  dsimp only at hs ⊢
  cases hs with
  | quotedEnd x hq =>
    constructor
    · intro h; cases h
    · rintro ⟨hn, _⟩; exact absurd ⟨f, [], hq, Or.inl rfl⟩ hn
  | quotedDelim x r hq =>
    constructor
    · intro h; cases h
    · rintro ⟨hn, _⟩; exact absurd ⟨f, d ++ r, hq, Or.inr ⟨r, rfl⟩⟩ hn
  | plainEnd hn hno => simp [hn]
  | plainDelim b r hn hfo => simp [hn]

/-- What the quote-preserving mode returns for one field, and what follows it, re-assemble `s`. -/
theorem nextField_pres_decomp {d : Str} {ws : Bool} (g : GoodDelim d ws) (s : Str) :
    match (nextField d ws true s).2.2 with
    | none => (nextField d ws true s).1 = s
    | some r => s = (nextField d ws true s).1 ++ d ++ r := by
  unfold nextField
  have unq : ∀ w : Bool, match (findD d s).2 with
      | none => (findD d s).1 = s
      | some r => s = (findD d s).1 ++ d ++ r := by
    intro _
    rcases hfd : findD d s with ⟨b, o⟩
    cases o with
    | none => exact ((findD_none d g.ne s b).mp hfd).1
    | some r => exact ((findD_some d g.ne s b r).mp hfd).1
  cases hm : matchQuoted ws s with
  | none => simpa using unq false
  | some p =>
    obtain ⟨content, rest⟩ := p
    obtain ⟨⟨sp1, sp2, _, _, _, hs⟩, _⟩ := matchQuoted_sound ws s content rest hm
    have hsuf : s = s.take (s.length - rest.length) ++ rest := by
      have : s = (sp1 ++ QUOTE :: (escapeQ content ++ QUOTE :: sp2)) ++ rest := by rw [hs]; simp
      generalize (sp1 ++ QUOTE :: (escapeQ content ++ QUOTE :: sp2)) = pre at this
      subst this
      simp
    simp only [if_true]
    by_cases hr : rest = []
    · subst hr; simp
    · simp only [hr, if_false]
      by_cases hp : d.isPrefixOf rest = true
      · simp only [hp, if_true]
        obtain ⟨t, ht⟩ := (isPrefixOf_iff_append d rest).mp hp
        subst ht
        simp only [List.drop_left]
        conv => lhs; rw [hsuf]
        simp
      · simp only [hp, if_false]
        simpa using unq true

/-- The quote-preserving split re-joins to the original line. -/
theorem C11_preserve_rejoins {d : Str} {ws : Bool} (g : GoodDelim d ws) (s : Str) :
    joinD d (splitFrom d ws true s).1 = s := by
  induction hn : s.length using Nat.strongRecOn generalizing s with
  | ind n ih =>
    have hdec := nextField_pres_decomp g s
    have htail := nextField_pres_tail d ws s
    rw [splitFrom]
    rcases hnf : nextField d ws true s with ⟨f, w, a⟩
    rw [hnf] at hdec htail
    simp only at hdec
    cases a with
    | none => simpa [joinD] using hdec
    | some r =>
      cases r with
      | nil => simp only [joinD]; simpa using hdec.symm
      | cons c r =>
        rcases hnf0 : nextField d ws false s with ⟨f0, w0, a0⟩
        rw [hnf0] at htail
        simp only [Prod.mk.injEq] at htail
        have hlt := nextField_after_lt g s f0 w0 (c :: r) (by rw [hnf0, ← htail.2])
        simp only [hlt, dite_true]
        have ihr := ih _ (by omega) (c :: r) rfl
        cases hsf : (splitFrom d ws true (c :: r)).1 with
        | nil =>
          rw [hsf] at ihr; simp [joinD] at ihr
        | cons f1 fs1 =>
          rw [hsf] at ihr
          simp only [joinD]
          rw [ihr]; exact hdec.symm

/-- Fast path: on a line without any double quote the quote-aware loop is plain splitting. -/
theorem C11_fast_path {d : Str} {ws : Bool} (g : GoodDelim d ws) (pres : Bool) (s : Str) (hq : QUOTE ∉ s) :
    splitFrom d ws pres s = (splitOn d s, false) := by
  induction hn : s.length using Nat.strongRecOn generalizing s with
  | ind n ih =>
    have hm : matchQuoted ws s = none := by
      cases hm : matchQuoted ws s with
      | none => rfl
      | some p =>
        obtain ⟨⟨sp1, sp2, _, _, _, hs⟩, _⟩ := matchQuoted_sound ws s p.1 p.2 hm
        exact absurd (by rw [hs]; simp) hq
    have hnf : nextField d ws pres s = ((findD d s).1, (findD d s).1.contains QUOTE, (findD d s).2) := by
      unfold nextField; simp [hm]
    rw [splitFrom, splitOn, hnf]
    rcases hfd : findD d s with ⟨b, o⟩
    cases o with
    | none =>
      have := ((findD_none d g.ne s b).mp hfd).1
      subst this
      have : b.contains QUOTE = false := by simpa using hq
      simp [hq]
    | some r =>
      have hfo := ((findD_some d g.ne s b r).mp hfd).1
      have hb : b.contains QUOTE = false := by
        have : QUOTE ∉ b := fun h => hq (by rw [hfo]; simp [h])
        simpa using this
      have hdl : 0 < d.length := List.length_pos_iff.mpr g.ne
      have hlt : r.length < s.length := by rw [hfo]; simp; omega
      have hqr : QUOTE ∉ r := fun h => hq (by rw [hfo]; simp [h])
      cases r with
      | nil =>
        simp only [hb, hlt, dite_true]
        rw [splitOn]; simp [findD]
      | cons c r =>
        simp only [hlt, dite_true, hb]
        rw [ih _ (by omega) (c :: r) hqr rfl]
        simp

/-- simple and monocolumn policies: plain split and no split at all, never a warning. -/
theorem C11_simple_monocolumn (d s : Str) (pres : Bool) :
    smartSplit d .simple pres s = (splitOn d s, false) ∧ smartSplit d .monocolumn pres s = ([s], false) :=
  ⟨rfl, rfl⟩

/-! Non-vacuity: the hypotheses are met by the delimiters in use, and the statements speak about
non-trivial lines. -/
example : GoodDelim [','] true := ⟨by simp, by decide, by intro _; simp [NoLeadSpace, SPACE]⟩
example : GoodDelim [' '] false := ⟨by simp, by decide, by intro h; cases h⟩
example : GoodDelim ['#', '#'] true := ⟨by simp, by decide, by intro _; simp [NoLeadSpace, SPACE]⟩

/-- a line with a quoted field containing the delimiter and an escaped quote, surrounding spaces,
and a defective last field: `a, "b,""c" ,"d`  ↦  [a] [b,"c] ["d] with the warning set -/
example : splitFrom [','] true false ['a', ',', ' ', '"', 'b', ',', '"', '"', 'c', '"', ' ', ',', '"', 'd'] =
    ([['a'], ['b', ',', '"', 'c'], ['"', 'd']], true) := by
  simp [splitFrom, nextField, matchQuoted, spanSpaces, scanBody, findD, SPACE, QUOTE, List.isPrefixOf]

end Rbql
