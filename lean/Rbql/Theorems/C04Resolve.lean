/-
  C04 / C01 — from the ON clause and the EXCEPT clause to the abstract query (`resolve_join_variables`,
  `translate_except_expression`; model: Model/JoinResolve.lean, tied to both ports by the `joins` leg of the C04 check).
-/
import Rbql.Model.JoinResolve
namespace Rbql

theorem combineLiterals_nil (e : Str) : combineLiterals e [] = e := rfl

/-- an `a… == b…` pair whose sides are variables of the input table and of the join table respectively resolves to their column indices -/
theorem C04_on_pair_resolves (inMap joinMap : VarMap) (l r : Str) (i j : VarInfo)
    (hl : inMap.get? l = some i) (hlj : joinMap.get? l = none) (hr : joinMap.get? r = some j) (hri : inMap.get? r = none)
    (hlnr : isLhsRecordNumber l = false) (hrnr : isRhsRecordNumber r = false) :
    resolveJoinPair inMap joinMap [] (l, r) = .ok (some i.index, some j.index) := by
  simp [resolveJoinPair, combineLiterals_nil, VarMap.has, hl, hlj, hr, hri, hlnr, hrnr]

/-- the two sides of `==` may be written either way round: `b… == a…` resolves like `a… == b…` -/
theorem C04_on_sides_symmetric (inMap joinMap : VarMap) (l r : Str) (i j : VarInfo)
    (hl : inMap.get? l = some i) (hlj : joinMap.get? l = none) (hr : joinMap.get? r = some j) (hri : inMap.get? r = none)
    (hlnr : isLhsRecordNumber l = false) (hrnr : isRhsRecordNumber r = false) :
    resolveJoinPair inMap joinMap [] (r, l) = resolveJoinPair inMap joinMap [] (l, r) := by
  rw [C04_on_pair_resolves inMap joinMap l r i j hl hlj hr hri hlnr hrnr]
  simp [resolveJoinPair, combineLiterals_nil, VarMap.has, hl, hlj, hr, hri, hlnr, hrnr]

/-- `NR` / `a.NR` / `aNR` on the left and `bNR` / `b.NR` on the right are the record numbers (when no column is called so) -/
theorem C04_record_number_keys_resolve (inMap joinMap : VarMap) (l r : Str)
    (hl : isLhsRecordNumber l = true) (hr : isRhsRecordNumber r = true)
    (h1 : inMap.get? l = none) (h2 : joinMap.get? l = none) (h3 : inMap.get? r = none) (h4 : joinMap.get? r = none) :
    resolveJoinPair inMap joinMap [] (l, r) = .ok (none, none) := by
  simp [resolveJoinPair, combineLiterals_nil, VarMap.has, hl, hr, h1, h2, h3, h4]

/-- … but the record numbers may NOT be swapped: `bNR == NR` is refused (the swap test looks the right-hand side up in the input
variable map, where `NR` is not) -/
theorem C04_record_numbers_swapped_counterexample :
    resolveJoinPair [] [] [] ("bNR".toList, "NR".toList) = .error (.noInputField "bNR".toList) := by
  rfl

/-- a name that is a variable of both tables is refused, whichever side it is on -/
theorem C04_ambiguous_key_refused (inMap joinMap : VarMap) (v w : Str) (i j : VarInfo)
    (h1 : inMap.get? v = some i) (h2 : joinMap.get? v = some j) :
    resolveJoinPair inMap joinMap [] (v, w) = .error (.ambiguous v) := by
  simp [resolveJoinPair, combineLiterals_nil, VarMap.has, h1, h2]

theorem mapM_ok_length {ε α β : Type} (f : α → Except ε β) (l : List α) (r : List β) (h : l.mapM f = .ok r) : r.length = l.length := by
  induction l generalizing r with
  | nil => simp [List.mapM_nil, pure, Except.pure] at h; simp [← h]
  | cons a as ih =>
    rw [List.mapM_cons] at h
    cases ha : f a with
    | error e => simp [ha, bind, Except.bind] at h
    | ok b =>
      cases has : as.mapM f with
      | error e => simp [ha, has, bind, Except.bind] at h
      | ok bs =>
        simp [ha, has, bind, Except.bind, pure, Except.pure] at h
        simp [← h, ih bs has]

/-- the two key lists an ON clause resolves to have one entry per pair, in the order of the pairs: in particular they are equally
long — the well-formedness hypothesis `hjoin` of the rbql.js refinement theorem (`JsHyps`) holds for every parsed query -/
theorem C04_resolved_key_lists_have_equal_length (inMap joinMap : VarMap) (lits : List Str) (pairs : List (Str × Str))
    (lhs rhs : List (Option Nat)) (h : resolveJoinVariables inMap joinMap lits pairs = .ok (lhs, rhs)) :
    lhs.length = pairs.length ∧ rhs.length = pairs.length := by
  unfold resolveJoinVariables at h
  cases hm : pairs.mapM (resolveJoinPair inMap joinMap lits) with
  | error e => simp [hm, Except.map] at h
  | ok l =>
    simp [hm, Except.map] at h
    have := mapM_ok_length _ pairs l hm
    simp [← h.1, ← h.2, this]

/-- every pair resolves independently and the first failing pair decides the error -/
theorem C04_resolve_pairs_in_order (inMap joinMap : VarMap) (lits : List Str) (p : Str × Str) (rest : List (Str × Str)) :
    resolveJoinVariables inMap joinMap lits (p :: rest) =
      (match resolveJoinPair inMap joinMap lits p with
       | .error e => .error e
       | .ok k => (resolveJoinVariables inMap joinMap lits rest).map (fun r => (k.1 :: r.1, k.2 :: r.2))) := by
  unfold resolveJoinVariables
  rw [List.mapM_cons]
  cases resolveJoinPair inMap joinMap lits p with
  | error e => simp [bind, Except.bind, Except.map]
  | ok k =>
    cases rest.mapM (resolveJoinPair inMap joinMap lits) with
    | error e => simp [bind, Except.bind, Except.map]
    | ok l => simp [bind, Except.bind, Except.map, pure, Except.pure]

/-! ### EXCEPT -/

theorem insertNat_perm (x : Nat) (l : List Nat) : (insertNat x l).Perm (x :: l) := by
  induction l with
  | nil => exact List.Perm.refl _
  | cons y ys ih =>
    unfold insertNat
    split
    · exact List.Perm.refl _
    · exact (List.Perm.cons y ih).trans (List.Perm.swap x y ys)

theorem sortNats_perm (l : List Nat) : (sortNats l).Perm l := by
  induction l with
  | nil => exact List.Perm.refl _
  | cons x xs ih => exact (insertNat_perm x (sortNats xs)).trans (List.Perm.cons x ih)

theorem mapM_ok_of_forall {ε α β : Type} (f : α → Except ε β) (g : α → β) (l : List α) (h : ∀ x ∈ l, f x = .ok (g x)) :
    l.mapM f = .ok (l.map g) := by
  induction l with
  | nil => rfl
  | cons a as ih =>
    rw [List.mapM_cons, h a (List.mem_cons_self), ih (fun x hx => h x (List.mem_cons_of_mem a hx))]
    rfl

/-- the EXCEPT clause drops exactly the columns it names: when every listed variable (after stripping) is a variable of the input
table, the index list handed to `select_except` has exactly the columns of the listed variables as members (it is their sorted list;
sorting and duplicates do not matter to `selectExcept`, which tests membership) -/
theorem C01_except_columns_are_the_named_ones (strip : Str → Str) (inMap : VarMap) (text : Str) (col : Str → Nat)
    (hall : ∀ v ∈ splitOn [','] text, ∃ i, inMap.get? (strip v) = some i ∧ i.index = col (strip v)) :
    ∃ cols, translateExcept strip inMap [] text = .ok cols ∧ ∀ c, c ∈ cols ↔ ∃ v ∈ splitOn [','] text, col (strip v) = c := by
  refine ⟨sortNats ((splitOn [','] text).map (fun v => col (strip v))), ?_, ?_⟩
  · unfold translateExcept
    rw [mapM_ok_of_forall _ (fun v => col (strip v)) (splitOn [','] text) ?_]
    · rfl
    · intro v hv
      obtain ⟨i, hi, hc⟩ := hall v hv
      simp [combineLiterals_nil, hi, hc]
  · intro c
    rw [(sortNats_perm _).mem_iff]
    simp [List.mem_map]

/-- … and membership is all `selectExcept` looks at -/
theorem C01_except_depends_on_membership (src : Row) (c1 c2 : List Nat) (h : ∀ c, c ∈ c1 ↔ c ∈ c2) :
    selectExcept src c1 = selectExcept src c2 := by
  unfold selectExcept
  congr 1
  apply List.filter_congr
  intro p _
  have : c1.contains p.2 = c2.contains p.2 := by
    rw [Bool.eq_iff_iff]; simp [h p.2]
  rw [this]

-- (a concrete EXCEPT list is evaluated by the driver on every run: `splitOn` is defined by well-founded recursion and does not reduce in the kernel)
example : resolveJoinVariables [("a1".toList, ⟨true, 0⟩), ("a.id".toList, ⟨true, 2⟩)] [("b2".toList, ⟨true, 1⟩), ("b.k".toList, ⟨true, 0⟩)] []
    [("a.id".toList, "b.k".toList), ("b2".toList, "a1".toList), ("NR".toList, "bNR".toList)] = .ok ([some 2, some 0, none], [some 0, some 1, none]) := by rfl

end Rbql
