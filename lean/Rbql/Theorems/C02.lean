/-
  C02 — ORDER BY, DISTINCT and TOP/LIMIT compose as sort, then dedup, then truncate.
-/
import Rbql.Proofs.RunSelect
import Rbql.Proofs.OrderAndStop
namespace Rbql

/-- The composition law, for every chain shape {ORDER BY asc/desc} × {none, DISTINCT, DISTINCT COUNT} ×
{none, TOP n}: the engine's output is `take n ∘ dedup ∘ stableSort` of the emissions
(`selectSpec = truncSpec ∘ dedupSpec ∘ orderSpec`), where `dedupSpec .yes` keeps the first occurrence of
each distinct record and `dedupSpec .count` emits each distinct record once, in first-occurrence order,
prefixed by its multiplicity. -/
theorem C02_sort_dedup_truncate (q : SemQuery) (A B : Table) (hsel : q.isUpdate = false) (hagg : q.isAgg = false)
    (hjb : ∀ js, q.join = some js → joinBError js.rhs B = none)
    (es : List (List Val × Row)) (hes : emissions q B A 0 = .ok es) :
    (run q A B).error = none ∧
      (run q A B).rows = truncSpec q.top (dedupSpec q.distinct (orderSpec q es)) := by
  have h := run_select_eq_spec q A B hsel hagg hjb es hes
  exact ⟨h.1, h.2.1⟩

theorem projectEnvs_top_irrelevant (q : SemQuery) (t : Option Nat) (envs : List Env) :
    projectEnvs { q with top := t } envs = projectEnvs q envs := by
  induction envs with
  | nil => rfl
  | cons e es ih =>
    unfold projectEnvs
    rw [ih]
    rfl

theorem emissions_top_irrelevant (q : SemQuery) (t : Option Nat) (B : Table) (A : Table) (nr : Nat) :
    emissions { q with top := t } B A nr = emissions q B A nr := by
  induction A generalizing nr with
  | nil => rfl
  | cons a A ih =>
    unfold emissions
    rw [ih]
    have : expandRecord { q with top := t } B (nr + 1) a = expandRecord q B (nr + 1) a := rfl
    rw [this]
    simp only [projectEnvs_top_irrelevant]

/-- TOP N / LIMIT N output exactly the first N records of what the same query yields without the bound
(after sorting and dedup) -/
theorem C02_bound_is_take (q : SemQuery) (A B : Table) (n : Nat) (hsel : q.isUpdate = false) (hagg : q.isAgg = false)
    (hjb : ∀ js, q.join = some js → joinBError js.rhs B = none)
    (es : List (List Val × Row)) (hes : emissions q B A 0 = .ok es) :
    (run { q with top := some n } A B).rows = ((run { q with top := none } A B).rows).take n := by
  have e1 : emissions { q with top := some n } B A 0 = .ok es := by rw [emissions_top_irrelevant]; exact hes
  have e2 : emissions { q with top := none } B A 0 = .ok es := by rw [emissions_top_irrelevant]; exact hes
  have h1 := run_select_eq_spec { q with top := some n } A B hsel hagg hjb es e1
  have h2 := run_select_eq_spec { q with top := none } A B hsel hagg hjb es e2
  rw [h1.2.1, h2.2.1]
  rfl

/-- DISTINCT keeps the first occurrence of each distinct record -/
theorem C02_distinct_first_occurrence (r : Row) (rs : List Row) :
    firstOccurrences (r :: rs) = r :: (firstOccurrences rs).filter (· ≠ r) := rfl

theorem C02_firstOccurrences_mem (rs : List Row) (r : Row) : r ∈ firstOccurrences rs ↔ r ∈ rs := by
  induction rs with
  | nil => simp [firstOccurrences]
  | cons x xs ih =>
    simp only [firstOccurrences, List.mem_cons, List.mem_filter, ih]
    constructor
    · rintro (h | ⟨h, _⟩)
      · exact Or.inl h
      · exact Or.inr h
    · rintro (h | h)
      · exact Or.inl h
      · by_cases hx : r = x
        · exact Or.inl hx
        · exact Or.inr ⟨h, by simpa using hx⟩

theorem C02_firstOccurrences_nodup (rs : List Row) : (firstOccurrences rs).Nodup := by
  induction rs with
  | nil => simp [firstOccurrences]
  | cons x xs ih =>
    simp only [firstOccurrences, List.nodup_cons]
    refine ⟨?_, ih.sublist List.filter_sublist⟩
    simp [List.mem_filter]

/-- DISTINCT COUNT emits each distinct record once prefixed by its multiplicity -/
theorem C02_distinct_count_multiplicity (rows : List Row) :
    dedupSpec .count rows = (firstOccurrences rows).map (fun r => Val.nat (rows.count r) :: r) := rfl

/-- the user's writer sees `finish` exactly once and never a write after a refused one -/
theorem C02_writer_protocol (q : SemQuery) (es : List (List Val × Row)) (sink : Sink)
    (h : sink.afterRefusal = 0) (hw : ∀ n, sink.refuseFrom = some n → sink.writes < n) :
    (((buildChain q sink).feedStop es).1.finish).getSink.finished = sink.finished + 1 ∧
    (((buildChain q sink).feedStop es).1.finish).getSink.afterRefusal = 0 :=
  ⟨chain_finish_once q es sink, chain_no_write_after_refusal q es sink h hw⟩

/-- ORDER BY outputs a permutation of the unsorted result … -/
theorem C02_order_is_permutation (q : SemQuery) (es : List (List Val × Row)) : (orderSpec q es).Perm (es.map (·.2)) :=
  orderSpec_perm q es

/-- … non-decreasing in the key … -/
theorem C02_order_sorted (es : List (List Val × Row)) :
    (es.mergeSort (fun x y => keyLe x.1 y.1)).Pairwise (fun x y => keyLe x.1 y.1 = true) :=
  order_sorted es

/-- … with ties in input order (stability): all entries whose key equals `k` come out in their input order -/
theorem C02_order_ties_keep_input_order (es : List (List Val × Row)) (k : List Val) :
    (es.mergeSort (fun x y => keyLe x.1 y.1)).filter (fun e => keyCmp e.1 k == .eq) = es.filter (fun e => keyCmp e.1 k == .eq) :=
  order_ties_keep_input_order es k

/-- DESC outputs exactly the reverse of that sequence -/
theorem C02_desc_is_reverse (q : SemQuery) (es : List (List Val × Row)) (ho : q.orderBy.isSome) :
    orderSpec { q with desc := true } es = (orderSpec { q with desc := false } es).reverse :=
  orderSpec_desc_is_reverse q es ho

/-- A bounded query that needs no buffering stops pulling input once the bound is reached: as soon as a
prefix of the input already yields more than `k` (distinct) records, no record after that prefix is pulled —
and only the prefix's evaluations need to succeed, so errors (or anything at all) further on are never seen. -/
theorem C02_streaming_stop (q : SemQuery) (A B : Table) (k : Nat) (hsel : q.isUpdate = false) (hagg : q.isAgg = false)
    (ho : q.orderBy = none) (hd : q.distinct ≠ .count) (ht : q.top = some k)
    (hjb : ∀ js, q.join = some js → joinBError js.rhs B = none)
    (m : Nat) (es : List (List Val × Row)) (hes : emissions q B (A.take m) 0 = .ok es)
    (hk : k < (dedupSpec q.distinct (es.map (·.2))).length) :
    (run q A B).error = none ∧ (run q A B).pulled ≤ m ∧ (run q A B).rows = selectSpec q es :=
  run_top_stops_within q A B hsel hagg ho hd k ht hjb m es hes hk

/-- finite form of "terminates on unbounded input": whatever follows the record at which the engine stopped
is irrelevant — replacing the rest of the input by anything gives the same result and the same number of pulls -/
theorem C02_tail_irrelevant (q : SemQuery) (A B : Table)
    (hstopped : (run q A B).error = none ∧ (run q A B).pulled < A.length) (ext : Table) :
    let n := (run q A B).pulled
    (run q (A.take n ++ ext) B).rows = (run q A B).rows ∧ (run q (A.take n ++ ext) B).pulled = n ∧
      (run q (A.take n ++ ext) B).error = none := by
  have h := run_tail_irrelevant' q A B hstopped ext
  exact ⟨h.1, h.2.1, h.2.2.1⟩

/-! non-vacuity: ties, duplicates and a bound -/
example : firstOccurrences [[Val.str ['x']], [Val.str ['y']], [Val.str ['x']]] = [[Val.str ['x']], [Val.str ['y']]] := by decide
example : dedupSpec .count [[Val.str ['x']], [Val.str ['y']], [Val.str ['x']]] =
    [[Val.nat 2, Val.str ['x']], [Val.nat 1, Val.str ['y']]] := by decide

end Rbql
