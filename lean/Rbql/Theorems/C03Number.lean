/-
  C03 (numeric strings): what the aggregate functions accept as a number, and which number it is, in both ports.
  Final theorems over `Model/Number.lean`; helper lemmas are in `Proofs/Number.lean`.
-/
import Rbql.Proofs.Number
namespace Rbql

/-- what a literal denotes over the rationals: an `int` is the `float` of the same value -/
def NumLit.denote : NumLit → NumLit
  | .int n => .dec (n : Rat)
  | x => x

/-! ### 1. integer literals are float literals -/

/-- every integer literal is a float literal with the same value -/
theorem C03_int_literal_is_float_literal (s : Str) (n : Int) : pyInt s = some n → pyFloat s = .dec (n : Rat) :=
  fun h => pyInt_some_pyFloat h

example : pyInt " -1_000\n".toList = some (-1000) := by decide
example : pyFloat " -1_000\n".toList = .dec ((-1000 : Int) : Rat) := by decide +kernel

/-! ### 2. the handler's integer mode and its history are irrelevant -/

/-- what one call of `NumHandler.parse` denotes, in either mode, is `float` of the string -/
theorem C03_numhandler_parse_denotes_float (b : Bool) (s : Str) : (numHandlerParseStr b s).1.denote = pyFloat s := by
  have hf : (pyFloat s).denote = pyFloat s := by
    cases h : pyFloat s with
    | int n => exact absurd h (pyFloat_ne_int s n)
    | _ => rfl
  unfold numHandlerParseStr
  cases b with
  | false => simpa using hf
  | true =>
    simp only [if_true]
    cases h : pyInt s with
    | none => simpa using hf
    | some n => simp only [NumLit.denote, pyInt_some_pyFloat h]

theorem C03_numhandler_mode_irrelevant (s : Str) :
    (numHandlerParseStr true s).1.denote = (numHandlerParseStr false s).1.denote := by
  rw [C03_numhandler_parse_denotes_float, C03_numhandler_parse_denotes_float]

/-- what one string denotes does not depend on the strings the handler saw before -/
theorem C03_numhandler_history_irrelevant (b : Bool) (l : List Str) :
    (numHandlerRun b l).map NumLit.denote = l.map pyFloat := by
  induction l generalizing b with
  | nil => rfl
  | cons s rest ih =>
    simp only [numHandlerRun, List.map_cons, C03_numhandler_parse_denotes_float, ih]

theorem C03_denote_value (x : NumLit) : x.denote.value = x.value := by
  cases x <;> rfl

theorem C03_parseNumStr_eq_float (s : Str) : parseNumStr s = (pyFloat s).value := by
  unfold parseNumStr
  rw [← C03_denote_value, C03_numhandler_parse_denotes_float]

-- the modes do differ before `denote` (an `int` against a `float`), and the run is stateful
example : (numHandlerParseStr true "7".toList).1 = .int 7 ∧ (numHandlerParseStr false "7".toList).1 = .dec 7 := by decide
example : numHandlerRun true ["1".toList, "x".toList, "2".toList] = [.int 1, .bad, .dec 2] := by decide
example : parseNumStr "1_0".toList = some 10 := by decide

/-! ### 3. plain decimals mean their mathematical value in both ports -/

/-- `digitsVal` is positional: appending digits shifts by a power of ten -/
theorem C03_digitsVal_append (ds es : Str) : digitsVal (ds ++ es) = digitsVal ds * 10 ^ es.length + digitsVal es := by
  show (ds ++ es).foldl _ 0 = _
  rw [List.foldl_append, foldl_digits_shift]
  rfl

/-- `[sign] digits`: the same integer in `int`, `float` and `Number` -/
theorem C03_plain_integer_value (sign ds : Str) (hs : IsSign sign) (hd : AllDigits ds) :
    pyInt (sign ++ ds) = some (if sign = ['-'] then -(digitsVal ds : Int) else (digitsVal ds : Int)) ∧
    pyFloat (sign ++ ds) = .dec (if sign = ['-'] then -(digitsVal ds : Rat) else (digitsVal ds : Rat)) ∧
    jsNumber (sign ++ ds) = .dec (if sign = ['-'] then -(digitsVal ds : Rat) else (digitsVal ds : Rat)) := by
  obtain ⟨c, cs, rfl, hc, hcs⟩ := hd.cons_form
  have hlp := getLast?_digits_any (p := isPyNumWs) (fun _ => numDig_not_pyNumWs) [] hd
  have hlj := getLast?_digits_any (p := isJsWs) (fun _ => numDig_not_jsWs) [] hd
  simp only [List.nil_append] at hlp hlj
  refine ⟨pyInt_signed hs hc hlp (scanDigits_all true hd), pyFloat_signed hs hc hlp (scanDecimal_of_int (scanDigits_all true hd)),
    jsNumber_signed hs hc ?_ hlj (scanDecimal_of_int (scanDigits_all false hd))⟩
  exact fun y hy => Or.inl (List.all_eq_true.mp hcs y hy)

example : IsSign ['-'] ∧ AllDigits "0042".toList := by decide
example : digitsVal "0042".toList = 42 := by decide
example : pyInt "-0042".toList = some (-42) ∧ pyFloat "-0042".toList = .dec (-42) ∧ jsNumber "-0042".toList = .dec (-42) := by
  decide +kernel

/-- `[sign] digits . digits`: the same rational in `float` and `Number` -/
theorem C03_plain_decimal_value (sign ds fs : Str) (hs : IsSign sign) (hd : AllDigits ds) (hf : AllDigits fs) :
    pyFloat (sign ++ ds ++ '.' :: fs) =
      .dec (if sign = ['-'] then -((digitsVal ds : Rat) + (digitsVal fs : Rat) / ((10 ^ fs.length : Nat) : Rat))
            else (digitsVal ds : Rat) + (digitsVal fs : Rat) / ((10 ^ fs.length : Nat) : Rat)) ∧
    jsNumber (sign ++ ds ++ '.' :: fs) =
      .dec (if sign = ['-'] then -((digitsVal ds : Rat) + (digitsVal fs : Rat) / ((10 ^ fs.length : Nat) : Rat))
            else (digitsVal ds : Rat) + (digitsVal fs : Rat) / ((10 ^ fs.length : Nat) : Rat)) := by
  have hvp := scanDecimal_of_decimal (us := true) hd hf
  have hvj := scanDecimal_of_decimal (us := false) hd hf
  have hlp := getLast?_digits_any (p := isPyNumWs) (fun _ => numDig_not_pyNumWs) (ds ++ ['.']) hf
  have hlj := getLast?_digits_any (p := isJsWs) (fun _ => numDig_not_jsWs) (ds ++ ['.']) hf
  obtain ⟨c, cs, rfl, hc, hcs⟩ := hd.cons_form
  simp only [List.append_assoc, List.cons_append, List.nil_append] at hvp hvj hlp hlj ⊢
  refine ⟨pyFloat_signed hs hc hlp hvp, jsNumber_signed hs hc ?_ hlj hvj⟩
  intro y hy
  rcases List.mem_append.mp hy with h | h
  · exact Or.inl (List.all_eq_true.mp hcs y h)
  · rcases List.mem_cons.mp h with rfl | h
    · exact Or.inr rfl
    · exact Or.inl (List.all_eq_true.mp hf.2 y h)

example : IsSign ['+'] ∧ AllDigits "012".toList ∧ AllDigits "50".toList := by decide
example : pyFloat "+012.50".toList = .dec (25 / 2) ∧ jsNumber "+012.50".toList = .dec (25 / 2) := by decide +kernel
example : pyFloat "-0.125".toList = .dec (-1 / 8) ∧ jsNumber "-0.125".toList = .dec (-1 / 8) := by decide +kernel

/-- on `[sign] digits` and `[sign] digits . digits` Python's `float` and JavaScript's `Number` read the same number -/
theorem C03_py_js_agree_on_plain_decimals (sign ds fs : Str) (hs : IsSign sign) (hd : AllDigits ds) :
    pyFloat (sign ++ ds) = jsNumber (sign ++ ds) ∧
    (AllDigits fs → pyFloat (sign ++ ds ++ '.' :: fs) = jsNumber (sign ++ ds ++ '.' :: fs)) := by
  refine ⟨?_, fun hf => ?_⟩
  · have h := C03_plain_integer_value sign ds hs hd
    rw [h.2.1, h.2.2]
  · have h := C03_plain_decimal_value sign ds fs hs hd hf
    rw [h.1, h.2]

-- the hypothesis on the sign is needed: a doubled sign is no number; so is the one on the digits (Python's underscores)
example : ¬ IsSign "--".toList ∧ pyFloat "--1".toList = .bad := by decide
example : ¬ AllDigits "1_0".toList ∧ pyFloat "1_0".toList ≠ jsNumber "1_0".toList := by decide

/-! ### 4. surrounding blanks do not matter -/

/-- space / TAB / LF / CR around ANY string change nothing (no hypothesis on `s` is needed) -/
theorem C03_blanks_ignored (pre post s : Str) (hpre : pre.all isBlank = true) (hpost : post.all isBlank = true) :
    pyFloat (pre ++ s ++ post) = pyFloat s ∧ pyInt (pre ++ s ++ post) = pyInt s ∧ jsNumber (pre ++ s ++ post) = jsNumber s :=
  ⟨pyFloat_congr (pyNumStrip_blanks pre s post hpre hpost), pyInt_congr (pyNumStrip_blanks pre s post hpre hpost),
    jsNumber_congr (jsTrim_blanks pre s post hpre hpost)⟩

/-- when `s` neither starts nor ends with a skipped character, the blanks are exactly what the parsers strip -/
theorem C03_blanks_stripped_exactly (pre post s : Str) (hpre : pre.all isBlank = true) (hpost : post.all isBlank = true) :
    ((s.head?.any isPyNumWs) = false → (s.getLast?.any isPyNumWs) = false → pyNumStrip (pre ++ s ++ post) = s) ∧
    ((s.head?.any isJsWs) = false → (s.getLast?.any isJsWs) = false → jsTrim (pre ++ s ++ post) = s) := by
  refine ⟨fun hh hl => ?_, fun hh hl => ?_⟩
  · rw [pyNumStrip_blanks pre s post hpre hpost]; exact stripBy_eq_self _ s hh hl
  · rw [jsTrim_blanks pre s post hpre hpost]; exact stripBy_eq_self _ s hh hl

example : " \t\r\n".toList.all isBlank = true ∧ ("1.5".toList.head?.any isPyNumWs) = false ∧
    ("1.5".toList.getLast?.any isJsWs) = false := by decide
example : pyFloat " \t1.5\r\n".toList = .dec (3 / 2) ∧ jsNumber " \t1.5\r\n".toList = .dec (3 / 2) := by decide +kernel
-- inner blanks do matter
example : pyFloat "1 5".toList = .bad ∧ jsNumber "1 5".toList = .bad := by decide

/-! ### 5. differences between the ports, and between `str.strip()` and the number parsers -/

theorem C03_number_empty_counterexample : jsNumber [] = .dec 0 ∧ pyFloat [] = .bad := by decide

theorem C03_number_underscore_counterexample : pyFloat "1_0".toList = .dec 10 ∧ jsNumber "1_0".toList = .bad := by decide

theorem C03_number_hex_counterexample : jsNumber "0x10".toList = .dec 16 ∧ pyFloat "0x10".toList = .bad := by decide

theorem C03_number_inf_counterexample : pyFloat "inf".toList = .nonFinite ∧ jsNumber "inf".toList = .bad := by decide

theorem C03_number_Infinity_counterexample :
    jsNumber "Infinity".toList = .nonFinite ∧ pyFloat "Infinity".toList = .nonFinite := by decide

theorem C03_number_strip_separator_counterexample :
    pyStripU [Char.ofNat 0x1c, '1'] = ['1'] ∧ pyInt [Char.ofNat 0x1c, '1'] = none := by decide

theorem C03_number_double_underscore_counterexample : pyFloat "1__0".toList = .bad := by decide

theorem C03_number_exponent_counterexample : pyFloat "1e5".toList = .dec 100000 ∧ pyInt "1e5".toList = none := by
  decide +kernel

theorem C03_number_bom_counterexample :
    jsNumber [Char.ofNat 0xfeff, '7'] = .dec 7 ∧ pyFloat [Char.ofNat 0xfeff, '7'] = .bad := by decide

end Rbql
