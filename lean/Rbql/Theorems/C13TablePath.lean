/-
  C13 / C16 — which file a JOIN table name denotes (Model/TablePath.lean).
-/
import Rbql.Model.TablePath
namespace Rbql

/-- whatever `find_table_path` returns exists -/
theorem C13_table_path_exists (env : FsEnv) (d : Option Str) (t p : Str) (h : findTablePath env d t = some p) : env.exists p = true := by
  unfold findTablePath at h
  simp only at h
  split at h
  · rename_i hc; cases h; exact hc
  · split at h
    · rename_i q hq
      cases h
      split at hq
      · rename_i dd
        split at hq
        · rename_i hcond
          cases hq
          simp only [Bool.and_eq_true] at hcond
          exact hcond.2
        · cases hq
      · cases hq
    · split at h
      · cases h
      · split at h
        · split at h
          · rename_i hx; cases h; exact hx
          · cases h
        · cases h

/-- the answer is one of three candidates, tried in this order: the name itself (from the working directory, `~` expanded), the name inside the
directory of the input table (relative names only), the path registered for the name in `~/.rbql_table_names` (first matching line) -/
theorem C13_table_path_is_a_candidate (env : FsEnv) (d : Option Str) (t p : Str) (h : findTablePath env d t = some p) :
    p = expandUser env.home t ∨ (∃ dd, d = some dd ∧ p = pathJoin dd (expandUser env.home t)) ∨
    (∃ lines k rest, env.indexLines = some lines ∧ indexRecord lines t = some (k :: p :: rest)) := by
  unfold findTablePath at h
  simp only at h
  split at h
  · cases h; exact Or.inl rfl
  · split at h
    · rename_i q hq
      cases h
      split at hq
      · rename_i dd
        split at hq
        · cases hq; exact Or.inr (Or.inl ⟨dd, rfl, rfl⟩)
        · cases hq
      · cases hq
    · split at h
      · cases h
      · rename_i lines hl
        split at h
        · rename_i k p' rest hrec
          split at h
          · cases h; exact Or.inr (Or.inr ⟨lines, k, rest, hl, hrec⟩)
          · cases h
        · cases h

/-- a file of that name reachable from the working directory wins over everything else -/
theorem C13_table_path_prefers_the_name_itself (env : FsEnv) (d : Option Str) (t : Str) (h : env.exists (expandUser env.home t) = true) :
    findTablePath env d t = some (expandUser env.home t) := by
  unfold findTablePath
  simp [h]

/-- the answer depends on the name, the directory of the input table and the file system — two queries that name the same table from
different input directories are answered independently (a cache keyed by the name alone is exactly what this rules out) -/
theorem C16_table_path_same_name_different_directories :
    let env : FsEnv := { files := ["/d1/j.csv".toList, "/d2/j.csv".toList], cwd := "/w".toList, home := "/h".toList, indexLines := none }
    findTablePath env (some "/d1".toList) "j.csv".toList = some "/d1/j.csv".toList ∧
    findTablePath env (some "/d2".toList) "j.csv".toList = some "/d2/j.csv".toList ∧
    findTablePath env (some "/d3".toList) "j.csv".toList = none := by
  decide

example : findTablePath { files := ["/h/t.csv".toList], cwd := "/w".toList, home := "/h".toList, indexLines := some ["nick\t/h/t.csv".toList, "nick\t/other".toList] } none "nick".toList
    = some "/h/t.csv".toList := by decide +kernel
example : findTablePath { files := ["/h/t.csv".toList], cwd := "/w".toList, home := "/h".toList, indexLines := none } (some "/x".toList) "~/t.csv".toList = some "/h/t.csv".toList := by decide

end Rbql
