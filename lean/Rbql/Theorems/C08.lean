/-
  C08 — Query meaning is invariant under spelling; string literals are opaque.
  Proved in tiers (each unbounded in the query text); the clause-order tier is NOT proved (see the note at the end).
-/
import Rbql.Proofs.ParseInvariance
import Rbql.Model.Engine
import Rbql.Proofs.ClauseOrder
namespace Rbql

/-! ### tier 1: string literals are cut out and put back verbatim -/

/-- the format parts and the literals found by `separate_string_literals` re-assemble to the query text: nothing is lost, nothing reordered -/
theorem C08_literals_reassemble (s : Str) :
    reassemble (separateAux (s.length + 1) s [] [] []).1 (separateAux (s.length + 1) s [] [] []).2 = s :=
  separateAux_reassemble s

/-- putting the literals back into the format expression (sequential placeholder replacement) gives back the query text,
for every query in which the marker text `RBQL_STRING_LITERAL` does not occur (D8/D17: with it, replacement can misfire) -/
theorem C08_literals_roundtrip (s : Str) (h : ¬ occursIn "RBQL_STRING_LITERAL".toList s) :
    combineLiterals (interleaveParts (separateAux (s.length + 1) s [] [] []).1 0) (separateAux (s.length + 1) s [] [] []).2 = s :=
  combine_separate_roundtrip_core s h

/-- the hypothesis is needed: a literal whose CONTENT is the placeholder of a later literal is rewritten (known limitation D8) -/
theorem C08_placeholder_counterexample :
    roundtrip "'___RBQL_STRING_LITERAL1___','b'".toList ≠ "'___RBQL_STRING_LITERAL1___','b'".toList :=
  combine_separate_counterexample

/-! ### tier 2: keyword case, layout, synonyms -/

/-- keyword location depends on the text only through its ASCII-lower-cased form: any re-casing of the query that keeps
spaces in place finds the same statements at the same positions (clause texts are then cut from the original text) -/
theorem C08_keyword_case (f : Char → Char) (hf : ∀ c, lowerChar (f c) = lowerChar c) (hsp : ∀ c, f c = ' ' ↔ c = ' ') (s : Str) :
    locateStatements (s.map f) = locateStatements s :=
  locateStatements_case_invariant f hf hsp s

theorem C08_keyword_case_upper (s : Str) : locateStatements (s.map upperChar) = locateStatements s :=
  locateStatements_case_invariant upperChar lowerChar_upperChar upperChar_space s

/-- blank lines and comment lines anywhere in the query are irrelevant -/
theorem C08_blank_and_comment_lines (l1 l2 : List Str) (c : Str) (hl : ∀ l ∈ l1 ++ l2, LF ∉ l) (hc : LF ∉ c)
    (hskip : pyStrip c = [] ∨ (pyStrip c).head? = some '#') (hne : l1 ++ l2 ≠ []) :
    cleanupQuery (joinLines (l1 ++ [c] ++ l2)) = cleanupQuery (joinLines (l1 ++ l2)) :=
  cleanup_ignores_blank_and_comment_lines l1 l2 c hl hc hskip hne

/-- indentation (spaces, tabs) of any line is irrelevant -/
theorem C08_indentation (ls : List Str) (hne : ls ≠ []) (h : ∀ l ∈ ls, LF ∉ l) (ind : List Str) (hind : ind.length = ls.length)
    (hsp : ∀ i ∈ ind, ∀ ch ∈ i, ch = ' ' ∨ ch = '\t') :
    cleanupQuery (joinLines (List.zipWith (· ++ ·) ind ls)) = cleanupQuery (joinLines ls) :=
  cleanup_ignores_indentation ls hne h ind hind hsp

/-- trailing semicolons are irrelevant (when the text before them does not end in white space: otherwise the cleaned text
keeps that white space, which later `strip()` calls remove — see `cleanup_trailing_semicolon_counterexample`) -/
theorem C08_trailing_semicolons (q : Str) (n : Nat) (hq : LF ∉ q)
    (hend : n = 0 ∨ pyStrip q = [] ∨ (pyStrip q).head? = some '#' ∨ (∀ c, q.getLast? = some c → isPyWs c = false)) :
    cleanupQuery (q ++ List.replicate n ';') = cleanupQuery q :=
  cleanup_ignores_trailing_semicolons q n hq hend

/-- interchangeable join spellings select the same joiner -/
def joinKindOf : Stmt → Option JoinKind
  | .join | .innerJoin => some .inner
  | .leftJoin | .leftOuterJoin => some .left
  | .strictLeftJoin => some .strictLeft
  | _ => none

theorem C08_join_synonyms :
    joinKindOf .join = joinKindOf .innerJoin ∧ joinKindOf .leftJoin = joinKindOf .leftOuterJoin ∧
    joinKindOf .strictLeftJoin = some .strictLeft := ⟨rfl, rfl, rfl⟩

/-! ### tier 3: clause order after SELECT/UPDATE -/

/-- **clause order is irrelevant**: for a query `HEAD headBody KW₁ body₁ KW₂ body₂ …` whose bodies are quiet (no
space-separated token starts, case-insensitively, with a reserved word) and which has at most one clause per statement
group, ANY permutation of the clauses after SELECT (or UPDATE) parses to the same dictionary of actions — the same
action per statement kind, the same WITH modifier — and to the same error if there is one. -/
theorem C08_clause_order (head : Stmt) (hh : head = .select ∨ head = .update) (headBody : Str)
    (hq : QuietBody headBody) (cl1 cl2 : List (Stmt × Str)) (hok : ClausesOk cl1) (hperm : cl1.Perm cl2) (s : Stmt) :
    parseDict (renderQuery head headBody cl2) s = parseDict (renderQuery head headBody cl1) s :=
  clause_order_irrelevant head hh headBody hq cl1 cl2 hok hperm s

/-- … and the parse is what one expects: it succeeds, there is no WITH modifier, the head action comes first and every
clause contributes an action that depends only on its own statement and body (`clauseAction`), wherever it stands -/
theorem C08_clause_actions (head : Stmt) (hh : head = .select ∨ head = .update) (headBody : Str)
    (hq : QuietBody headBody) (cls : List (Stmt × Str)) (hok : ClausesOk cls) :
    ∃ hA : Action, hA.stmt = head ∧
      separateActions (renderQuery head headBody cls) = .ok { withModifier := none, actions := hA :: cls.map clauseAction } := by
  obtain ⟨hA, h1, _, h3⟩ := Setup.separate (⟨hh, hq, hok.1, hok.2⟩ : Setup head headBody cls)
  exact ⟨hA, h1, h3⟩

end Rbql
