/-
  Property theorems added after an outside review of the first theorem files (DESIGN.md §14): run-level versions of
  statements that were only about the writer chain, declarative characterisations where a theorem only restated a
  definition, literal opacity, interchangeable spellings.  They live here (not in C01…C15.lean) because their proofs
  import those files.  Theorem names keep the property prefix: the audit and the evidence files count them per property.
-/
import Rbql.Theorems.C13
import Rbql.Proofs.RunLevel
import Rbql.Proofs.LiteralOpacity
import Rbql.Proofs.Characterisations
import Rbql.Proofs.RecordsSpec
import Rbql.Spec.Comparable
import Rbql.Theorems.C07
import Rbql.Theorems.C18
namespace Rbql
open LitOp

/-! ## C01 — the select list -/

/-- k plain expressions give exactly `[e1(r), …, ek(r)]` -/
theorem C01_select_list_exprs (fs : List (Ex Val)) (e : Env) (vs : List Val) (h : fs.mapM (· e) = .ok vs) :
    evalItems (fs.map SItem.expr) e = .ok (vs, none) :=
  evalItemsFrom_exprs false fs e vs h

/-- the FIRST failing expression of the list (left to right) determines the error -/
theorem C01_select_list_first_error (pre post : List (Ex Val)) (f : Ex Val) (e : Env)
    (vs : List Val) (hpre : pre.mapM (· e) = .ok vs) (err : ErrKind) (hf : f e = .error err) :
    evalItems ((pre ++ f :: post).map SItem.expr) e = .error err :=
  evalItemsFrom_exprs_first_error false pre post f e vs hpre err hf

/-- `*` among other items is expanded IN PLACE to the fields of `a` followed by those of `b` -/
theorem C01_star_in_place (fs gs : List (Ex Val)) (e : Env) (vs ws : List Val)
    (hf : fs.mapM (· e) = .ok vs) (hg : gs.mapM (· e) = .ok ws) :
    evalItems (fs.map SItem.expr ++ [.star] ++ gs.map SItem.expr) e = .ok (vs ++ (e.a ++ e.b.getD []) ++ ws, none) :=
  evalItems_exprs_star_exprs fs gs e vs ws hf hg

/-- the select list is compositional: a list `xs ++ ys` evaluates to the concatenation of the two parts (with the single
UNNEST position shifted) -/
theorem C01_select_list_append (seen : Bool) (xs ys : List SItem) (e : Env) :
    evalItemsFrom seen (xs ++ ys) e = (do
      let (r1, u1) ← evalItemsFrom seen xs e
      let (r2, u2) ← evalItemsFrom (seen || u1.isSome) ys e
      pure (r1 ++ r2, combineUnnest r1.length u1 u2)) :=
  evalItemsFrom_append seen xs ys e

/-- without TOP/LIMIT every input record is read: `pulled = |A|` (not only `≤`) -/
theorem C01_reads_every_record (q : SemQuery) (A B : Table) (hsel : q.isUpdate = false) (hagg : q.isAgg = false)
    (htop : q.top = none) (hjb : ∀ js, q.join = some js → joinBError js.rhs B = none)
    (es : List (List Val × Row)) (hes : emissions q B A 0 = .ok es) : (run q A B).pulled = A.length :=
  run_select_pulls_all q A B hsel hagg htop hjb es hes

/-! ## C08 — literals are opaque; interchangeable spellings -/

/-- a quoted string IS extracted: for text made of quote-free gaps and well-formed literals (bodies may contain
backslash escapes, no line feed; an empty literal must not be followed by its own quote character), the format expression
seen by the rest of the parser is the gaps with placeholders — it contains no character of any literal body — and the
literals are returned verbatim, in order -/
theorem C08_literals_extracted (segs : List Seg) (t : Str) (h : SegsOk segs t) :
    separateLiterals (render segs t) = (tabsToSpaces (fmtP (segs.map (·.pre)) t 0), segs.map Seg.lit) :=
  separateLiterals_render segs t h

/-- **opacity**: replacing the contents of the literals (even the quote kind) by any other well-formed contents does
not change the format expression: keywords, stars, `=`, `#`, commas, semicolons inside quotes never influence parsing -/
theorem C08_literal_contents_opaque (segs segs' : List Seg) (t : Str) (h : SegsOk segs t) (h' : SegsOk segs' t)
    (hpre : segs.map (·.pre) = segs'.map (·.pre)) :
    (separateLiterals (render segs t)).1 = (separateLiterals (render segs' t)).1 :=
  literal_opacity segs segs' t h h' hpre

/-- … hence the whole shallow parse (redundant table name, keyword location, actions) is the same -/
theorem C08_literal_contents_opaque_for_the_parse (segs segs' : List Seg) (t : Str) (h : SegsOk segs t) (h' : SegsOk segs' t)
    (hpre : segs.map (·.pre) = segs'.map (·.pre)) :
    separateActions (removeRedundantTableName (separateLiterals (render segs t)).1) =
    separateActions (removeRedundantTableName (separateLiterals (render segs' t)).1) := by
  rw [literal_opacity segs segs' t h h' hpre]

/-- `=` vs `==`, spacing and the case of `on` / `and` in the ON clause are irrelevant: the clause parses to its pairs -/
theorem C08_on_clause_spelling (src tid onw : Str) (j k : Nat) (p : OnPair) (rest : List (AndSep × OnPair))
    (hsrc : pyStrip src = tid ++ (sp (j+1) ++ (onw ++ (sp (k+1) ++ renderOn p rest))))
    (htid : tid ≠ [] ∧ ' ' ∉ tid) (hon : CI "on".toList onw) (hp : p.Ok) (hrest : ∀ x ∈ rest, x.1.Ok ∧ x.2.Ok) :
    parseJoinExpression src = .ok (tid, pairsOf p rest) :=
  parseJoinExpression_render src tid onw j k p rest hsrc htid hon hp hrest

/-- keyword case is irrelevant for the whole of `separate_actions` (not only for keyword location), and combines with
clause order: any re-casing of the statement keywords and any permutation of the clauses give the same dictionary -/
theorem C08_keyword_case_and_clause_order (head : Stmt) (hh : head = .select ∨ head = .update) (headBody : Str)
    (hq : QuietBody headBody) (cl1 cl2 : List (Stmt × Str)) (hok : ClausesOk cl1) (hperm : cl1.Perm cl2)
    (kw : Stmt → Str) (hk : Recasing kw) (s : Stmt) :
    parseDict (renderQueryK kw head headBody cl2) s = parseDict (renderQuery head headBody cl1) s :=
  keyword_case_and_clause_order_irrelevant head hh headBody hq cl1 cl2 hok hperm kw hk s

/-- a redundant `FROM a` (any case, any spacing) in the middle of the query is removed -/
theorem C08_redundant_from_a (sel fw aw rest : Str) (i j k : Nat) (hl : sel.getLast? ≠ some ' ') (hn : NoFromTok sel)
    (hf : CI fromW fw) (ha : CI aW aw) (hrest : rest.head? ≠ some ' ') (hnf : ¬ FromHead rest) :
    removeRedundantTableName (sel ++ (sp (i+1) ++ (fw ++ (sp (j+1) ++ (aw ++ (sp (k+1) ++ rest)))))) =
      removeRedundantTableName (sel ++ ' ' :: rest) :=
  redundant_from_a_mid sel fw aw rest i j k hl hn hf ha hrest hnf

/-- `UPDATE a SET x` is `update x` -/
theorem C08_redundant_update_a (uw aw sw x : Str) (j k : Nat) (hu : CI updateW uw) (ha : CI aW aw) (hs : CI setW sw)
    (hx : NoFromTok x) (hne : x ≠ []) (hlast : ∀ c, x.getLast? = some c → isPyWs c = false) :
    removeRedundantTableName (uw ++ (sp (j+1) ++ (aw ++ (sp (k+1) ++ (sw ++ ' ' :: x))))) = "update ".toList ++ x :=
  redundant_update_a uw aw sw x j k hu ha hs hx hne hlast

/-! ## C10 / C14 — the delimiter-inside-a-field warning is exact -/

/-- one-character delimiter: the writer's test fires IFF some field contains the delimiter -/
theorem C14_delim_warning_iff (c : Char) (fs : List Str) (hne : fs ≠ []) :
    (countD [c] (joinD [c] fs) + 1 ≠ fs.length) ↔ ∃ f ∈ fs, c ∈ f :=
  lossy_simple_iff c fs hne

/-- multi-character delimiter, no field overlapping it: same iff (the overlap cases are the counterexamples kept in
Proofs/RunLevel.lean and `C10_overlap_counterexample`) -/
theorem C14_delim_warning_iff_multi (d : Str) (hd : d ≠ []) (fs : List Str) (hne : fs ≠ [])
    (hov : ∀ f ∈ fs, containsD d f = false → RawOk d f) :
    (countD d (joinD d fs) + 1 ≠ fs.length) ↔ ∃ f ∈ fs, containsD d f = true :=
  lossy_simple_iff_multi d hd fs hne hov

/-! ## C14 — the field-count warning, declaratively; first error of aggregate queries -/

/-- no warning IFF all records have the same number of fields -/
theorem C14_field_count_warning_iff_ragged (t : Table) :
    fieldsWarning t = none ↔ ∀ r₁ ∈ t, ∀ r₂ ∈ t, r₁.length = r₂.length :=
  fieldsWarning_none_iff t

/-- the warning cites record 1 with its length and the FIRST record whose length differs, with that length — and only then -/
theorem C14_field_count_warning_cites_first_two (t : Table) (n1 k1 n2 k2 : Nat) :
    fieldsWarning t = some (n1, k1, n2, k2) ↔
      (k1 = 1 ∧ (t[0]?).map List.length = some n1 ∧ n1 ≠ n2 ∧ 1 < k2 ∧ (t[k2 - 1]?).map List.length = some n2 ∧
        ∀ j, j < k2 - 1 → (t[j]?).map List.length = some n1) :=
  fieldsWarning_eq_some_iff t n1 k1 n2 k2

/-- … lifted to `run`: a full-scan SELECT reports the input warning iff the input is ragged -/
theorem C14_run_field_count_warning_iff (q : SemQuery) (A B : Table) (hsel : q.isUpdate = false) (hagg : q.isAgg = false)
    (htop : q.top = none) (hjb : ∀ js, q.join = some js → joinBError js.rhs B = none)
    (es : List (List Val × Row)) (hes : emissions q B A 0 = .ok es) :
    (run q A B).warnA = none ↔ ∀ r₁ ∈ A, ∀ r₂ ∈ A, r₁.length = r₂.length :=
  run_select_warnA_none_iff q A B hsel hagg htop hjb es hes

/-- aggregate queries: if every record before `r` is evaluated and accumulated fine and `r` (or one of its join
partners) fails — in WHERE, the group key, an aggregate argument, or in the accumulation itself (e.g. SUM of a
non-number) — that error is reported, exactly `|A1| + 1` records have been read and nothing has been written -/
theorem C14_aggregate_first_error (q : SemQuery) (A1 : Table) (r : Row) (A2 B : Table)
    (hsel : q.isUpdate = false) (hagg : q.isAgg = true) (ho : q.orderBy = none) (hd : q.distinct = .no)
    (hx : q.exceptCols = none) (hjb : ∀ js, q.join = some js → joinBError js.rhs B = none)
    (krs1 : List (List Val × Row × Env)) (hk1 : aggEmissions q B A1 0 = .ok krs1)
    (ag1 : Option AggState) (hf1 : aggFeed q none krs1 = .ok ag1)
    (envs1 : List Env) (env : Env) (envs2 : List Env)
    (hexp : expandRecord q B (A1.length + 1) r = .ok (envs1 ++ env :: envs2))
    (krs2 : List (List Val × Row × Env)) (hk2 : projectAggEnvs q envs1 = .ok krs2)
    (ag2 : Option AggState) (hf2 : aggFeed q ag1 krs2 = .ok ag2)
    (e : EngErr) (herr : aggStep q ag2 env = .error e) :
    (run q (A1 ++ r :: A2) B).error = some e ∧ (run q (A1 ++ r :: A2) B).pulled = A1.length + 1 ∧
      (run q (A1 ++ r :: A2) B).rows = [] :=
  run_agg_first_error q A1 r A2 B hsel hagg ho hd hx hjb krs1 hk1 ag1 hf1 envs1 env envs2 hexp krs2 hk2 ag2 hf2 e herr

/-! ## C07 — UPDATE keeps the header; C14 — mistakes visible in the query text stop the query before it reads anything -/

/-- an UPDATE query's output header is the input header, and every record it emits is as wide as the record it came
from (`C05_same_length_and_order`): for input records as wide as the header, header and records match -/
theorem C07_update_header_is_input_header (ih : List Str) (r r' : Row) (hr : r.length = ih.length) (hw : r'.length = r.length) :
    updateHeader (some ih) = some ih ∧ r'.length = ih.length :=
  ⟨rfl, by omega⟩

/-- GROUP BY together with ORDER BY or UPDATE is rejected from the query text: a parsing error, no record read, the
writer untouched -/
theorem C14_static_error_before_any_read (q : SemQuery) (A B : Table) (sink : Sink)
    (h : q.groupBy.isSome = true ∧ (q.orderBy.isSome = true ∨ q.isUpdate = true)) :
    (run q A B sink).error = some (.parsing .aggWithOrderDistinct) ∧ (run q A B sink).pulled = 0 ∧ (run q A B sink).sink = sink := by
  unfold run
  have hc : (q.groupBy.isSome && (q.orderBy.isSome || q.isUpdate)) = true := by
    rcases h with ⟨h1, h2 | h2⟩ <;> simp [h1, h2]
  simp [hc]

/-! ## C15 — the broken pipe, at the level of `run` -/

/-- a consumer that goes away at its k-th write: `run` returns WITHOUT error, the consumer holds exactly the first k−1
records of the unbroken output, no write follows the refused one, `finish` is called once -/
theorem C15_run_on_broken_pipe (q : SemQuery) (A B : Table) (hsel : q.isUpdate = false) (hagg : q.isAgg = false)
    (hjb : ∀ js, q.join = some js → joinBError js.rhs B = none)
    (es : List (List Val × Row)) (hes : emissions q B A 0 = .ok es) (k : Nat) (hk : 1 ≤ k) :
    let r := run q A B { refuseFrom := some k }
    r.error = none ∧ r.rows = (selectSpec q es).take (k - 1) ∧ r.sink.afterRefusal = 0 ∧
    r.sink.writes = min k (selectSpec q es).length ∧ r.sink.finished = 1 ∧ r.pulled ≤ A.length :=
  run_on_broken_pipe q A B hsel hagg hjb es hes k hk

/-- … and it stops PROMPTLY (streaming shapes): if the first `m` input records already produce the refused write, at
most `m` records are read — records after them need not even be evaluable -/
theorem C15_run_stops_promptly (q : SemQuery) (A B : Table) (hsel : q.isUpdate = false)
    (hagg : q.isAgg = false) (ho : q.orderBy = none) (hd : q.distinct ≠ .count)
    (hjb : ∀ js, q.join = some js → joinBError js.rhs B = none) (k : Nat) (hk : 1 ≤ k)
    (m : Nat) (es : List (List Val × Row)) (hes : emissions q B (A.take m) 0 = .ok es)
    (hlen : k ≤ (selectSpec q es).length) :
    let r := run q A B { refuseFrom := some k }
    r.error = none ∧ r.pulled ≤ m ∧ r.rows = (selectSpec q es).take (k - 1) ∧ r.sink.writes = k ∧
      r.sink.afterRefusal = 0 ∧ r.sink.finished = 1 :=
  run_broken_pipe_stops_within q A B hsel hagg ho hd hjb k hk m es hes hlen

/-- UPDATE under a broken pipe: exactly min(k, |A|) records are read and offered -/
theorem C15_run_update_on_broken_pipe (q : SemQuery) (A B : Table) (hupd : q.isUpdate = true)
    (hg : q.groupBy = none) (hjb : ∀ js, q.join = some js → joinBError js.rhs B = none)
    (rows : List Row) (hu : updateSpec q B A 0 0 = .ok rows) (k : Nat) (hk : 1 ≤ k) :
    let r := run q A B { refuseFrom := some k }
    r.error = none ∧ r.rows = rows.take (k - 1) ∧ r.sink.afterRefusal = 0 ∧
    r.sink.writes = min k A.length ∧ r.sink.finished = 1 ∧ r.pulled = min k A.length :=
  run_update_on_broken_pipe q A B hupd hg hjb rows hu k hk


/-! ## C03 — aggregates characterised without reference to the accumulators -/

/-- MEDIAN is the middle element of ANY sorted permutation of the values (odd count), or the mean of the two middle
elements (even count) -/
theorem C03_median_is_middle_of_sorted (xs : List Rat) (h : xs ≠ []) (ys : List Rat) (hp : ys.Perm xs)
    (hs : ys.Pairwise (· ≤ ·)) : ∃ h0 : 0 < ys.length, medianOf xs = middleOf ys h0 :=
  median_is_middle_of_sorted xs h ys hp hs

/-- the (population) variance is a mean of squares: never negative in exact arithmetic -/
theorem C03_variance_nonneg (xs : List Rat) : 0 ≤ ratVariance xs := ratVariance_nonneg xs

/-- the key column of the output is STRICTLY ascending and is a permutation of the distinct keys: such a list is unique -/
theorem C03_strictly_ascending_keys_unique (k1 k2 : List (List Val)) (h1 : k1.Pairwise (fun a b => keyCmp a b = .lt))
    (h2 : k2.Pairwise (fun a b => keyCmp a b = .lt)) (hm : ∀ k, k ∈ k1 ↔ k ∈ k2) : k1 = k2 :=
  strict_keys_unique k1 k2 h1 h2 hm

/-- the result of an aggregate query, characterised without `aggRowsSpec`: no error, and the rows are, in STRICTLY
ascending order of a duplicate-free key list whose members are exactly the group keys that occur, the per-key finals of
column accumulators each of which is the fold of its column over the emissions (TOP applied) -/
theorem C03_result_characterised (q : SemQuery) (A B : Table)
    (hsel : q.isUpdate = false) (hagg : q.isAgg = true) (ho : q.orderBy = none) (hd : q.distinct = .no)
    (hx : q.exceptCols = none)
    (hjb : ∀ js, q.join = some js → joinBError js.rhs B = none)
    (kr0 : List Val × Row × Env) (rest : List (List Val × Row × Env))
    (hk : aggEmissions q B A 0 = .ok (kr0 :: rest))
    (hw : ∀ kr ∈ kr0 :: rest, kr.2.1.length = (aggColKinds q.items kr0.2.2).length)
    (rows : List Row) (hr : aggRowsSpec q (kr0 :: rest) = .ok rows) :
    (run q A B).error = none ∧
    ∃ (cols : List AggCol) (keys : List (List Val)),
      cols.length = (aggColKinds q.items kr0.2.2).length ∧
      (∀ i (hi : i < (aggColKinds q.items kr0.2.2).length) (hc : i < cols.length),
        foldIncr { kind := (aggColKinds q.items kr0.2.2)[i] }
          ((kr0 :: rest).map (fun kr => (kr.1, kr.2.1.getD i Val.none))) = .ok cols[i]) ∧
      keys.Pairwise (fun a b => keyCmp a b = .lt) ∧
      keys.Nodup ∧ (∀ k, k ∈ keys ↔ ∃ kr ∈ kr0 :: rest, kr.1 = k) ∧
      (run q A B).rows = truncSpec q.top (keys.map (rowOfKey cols)) :=
  run_agg_characterised q A B hsel hagg ho hd hx hjb kr0 rest hk hw rows hr

/-! ## C12 — WHAT the reader returns (not only that it does not depend on the chunking) -/

/-- policies other than quoted_rfc, EVERY chunking: the records are the physical lines of the text (BOM removed from
the first one, comment lines dropped), each split by the policy's splitter; the header is the first of them when one is
in force; the warnings are exactly: BOM seen, the first line whose split raised the quoting warning, the field-count
warning of the records -/
theorem C12_records_are_the_split_lines (c : RCfg) (hpol : c.policy ≠ .quotedRfc) (hc : 1 ≤ c.chunk) (hasHeader : Bool)
    (modifier : Option Bool) (pieces : List Str) (hp : ∀ p ∈ pieces, p ≠ []) :
    readAll c hasHeader modifier pieces = .ok
      { header := if effHeader hasHeader modifier then ((recordsSpec c pieces.flatten).map (·.1)).head? else none,
        records := if effHeader hasHeader modifier then ((recordsSpec c pieces.flatten).map (·.1)).tail
          else (recordsSpec c pieces.flatten).map (·.1),
        warnings := warningsSpec (bomSeen c pieces.flatten) (firstDefectiveSpec c pieces.flatten)
          ((recordsSpec c pieces.flatten).map (·.1)) } :=
  readAll_eq_recordsSpec c hpol hc hasHeader modifier pieces hp

/-- quoted_rfc (no comment prefix): the records are the quote-parity groups of physical lines (`assemble`), split -/
theorem C12_rfc_records_are_the_assembled_lines (c : RCfg) (hpol : c.policy = .quotedRfc) (hcom : c.comment = none)
    (hc : 1 ≤ c.chunk) (hasHeader : Bool) (modifier : Option Bool) (pieces : List Str) (hp : ∀ p ∈ pieces, p ≠ [])
    (hgood : ∀ e ∈ rfcRecordsSpec c pieces.flatten, e.2 = false) :
    readAll c hasHeader modifier pieces = .ok
      { header := if effHeader hasHeader modifier then ((rfcRecordsSpec c pieces.flatten).map (·.1)).head? else none,
        records := if effHeader hasHeader modifier then ((rfcRecordsSpec c pieces.flatten).map (·.1)).tail
          else (rfcRecordsSpec c pieces.flatten).map (·.1),
        warnings := warningsSpec (bomSeen c pieces.flatten) none ((rfcRecordsSpec c pieces.flatten).map (·.1)) } :=
  readAll_eq_rfcRecordsSpec c hpol hcom hc hasHeader modifier pieces hp hgood

/-- the BOM warning appears iff an encoding with a BOM is configured and the first physical line starts with it -/
theorem C12_bom_seen_iff (c : RCfg) (text : Str) :
    bomSeen c text = true ↔ c.enc ≠ .none ∧ ∃ rest ls, linesSpec text = (bomOf c.enc ++ rest) :: ls :=
  bomSeen_iff c text

/-- the rbql-js reader returns the same thing (compared as the correspondence compares results: warnings as a set), for every
chunking of the decoded text that satisfies `GoodPieces`: what the JS port reads is ALSO the split physical lines -/
theorem C20_js_records_are_the_split_lines (c : RCfg) (hpol : c.policy ≠ .quotedRfc) (hc : 1 ≤ c.chunk) (hok : CommentOK c)
    (hasHeader : Bool) (modifier : Option Bool) (jsPieces : List Str) (hj : GoodPieces jsPieces) :
    canonResult (jsResult (jsStream c jsPieces) hasHeader modifier) =
      canonResult (.ok
        { header := if effHeader hasHeader modifier then ((recordsSpec c jsPieces.flatten).map (·.1)).head? else none,
          records := if effHeader hasHeader modifier then ((recordsSpec c jsPieces.flatten).map (·.1)).tail
            else (recordsSpec c jsPieces.flatten).map (·.1),
          warnings := warningsSpec (bomSeen c jsPieces.flatten) (firstDefectiveSpec c jsPieces.flatten)
            ((recordsSpec c jsPieces.flatten).map (·.1)) }) := by
  let py : List Str := if jsPieces.flatten = [] then [] else [jsPieces.flatten]
  have hp : ∀ p ∈ py, p ≠ [] := by
    intro p hp'
    simp only [py] at hp'
    split at hp'
    · cases hp'
    · simp at hp'; subst hp'; assumption
  have hflat : py.flatten = jsPieces.flatten := by
    simp only [py]
    by_cases h : jsPieces.flatten = []
    · rw [if_pos h, h]; rfl
    · rw [if_neg h]; simp
  rw [← C18_readers_agree_any_chunking c hc hok hasHeader modifier py jsPieces hp hj hflat,
    readAll_eq_recordsSpec c hpol hc hasHeader modifier py hp, hflat]

/-! ## C13 — the CSV front-end is a faithful adapter, through the real reader machine -/

/-- a table written with the quoted policy (any good delimiter, LF / CRLF / CR line ends) and read back by the reader
machine in ANY chunking is the table itself — header first when one is in force — with no warning other than the
field-count warning a ragged table deserves: `query_csv` sees exactly the records `query_table` would be given -/
theorem C13_csv_frontend_faithful_quoted {d : Str} (g : GoodDelim d (d != [SPACE])) (hlf : LF ∉ d) (hcr : CR ∉ d)
    (table : List (List Str)) (hne : ∀ fs ∈ table, fs ≠ [])
    (hok : ∀ fs ∈ table, ∀ f ∈ fs, FieldOk d f ∧ NoNL f)
    (sep : Str) (hsep : sep = [LF] ∨ sep = [CR, LF] ∨ sep = [CR])
    (c : RCfg) (hc : 1 ≤ c.chunk) (hdel : c.delim = d) (hpol : c.policy = .quoted)
    (hcom : c.comment = none) (henc : c.enc = .none)
    (hasHeader : Bool) (modifier : Option Bool) (pieces : List Str) (hp : ∀ p ∈ pieces, p ≠ [])
    (htext : pieces.flatten = table.flatMap (fun fs => joinD d (fs.map (quoteField d)) ++ sep)) :
    readAll c hasHeader modifier pieces = .ok
      { header := if effHeader hasHeader modifier then table.head? else none,
        records := if effHeader hasHeader modifier then table.tail else table,
        warnings := fieldsWarnSpec table } :=
  csv_quoted_reader_roundtrip g hlf hcr table hne hok sep hsep c hc hdel hpol hcom henc hasHeader modifier pieces hp htext

theorem C13_csv_frontend_faithful_simple {d : Str} (hd : d ≠ []) (hlf : LF ∉ d) (hcr : CR ∉ d)
    (table : List (List Str)) (hne : ∀ fs ∈ table, fs ≠ [])
    (hok : ∀ fs ∈ table, ∀ f ∈ fs, RawOk d f ∧ NoNL f)
    (sep : Str) (hsep : sep = [LF] ∨ sep = [CR, LF] ∨ sep = [CR])
    (c : RCfg) (hc : 1 ≤ c.chunk) (hdel : c.delim = d) (hpol : c.policy = .simple)
    (hcom : c.comment = none) (henc : c.enc = .none)
    (hasHeader : Bool) (modifier : Option Bool) (pieces : List Str) (hp : ∀ p ∈ pieces, p ≠ [])
    (htext : pieces.flatten = table.flatMap (fun fs => joinD d fs ++ sep)) :
    readAll c hasHeader modifier pieces = .ok
      { header := if effHeader hasHeader modifier then table.head? else none,
        records := if effHeader hasHeader modifier then table.tail else table,
        warnings := fieldsWarnSpec table } :=
  csv_simple_reader_roundtrip hd hlf hcr table hne hok sep hsep c hc hdel hpol hcom henc hasHeader modifier pieces hp htext

/-! ## C02 / C03 — where the host language can order the keys at all -/

/-- the engine as the host runs it (`runChecked`: a host TypeError when two keys to be sorted cannot be ordered) IS
`run` whenever the keys that get sorted — all ORDER BY keys, or the distinct GROUP BY keys — are mutually comparable;
the sortedness theorems about `run` (C02_sort_dedup_truncate, C02_order_sorted, C03_one_row_per_key_sorted) speak
about the real engine exactly under this hypothesis -/
theorem C02_host_can_order_keys (q : SemQuery) (A B : Table) (sink : Sink)
    (h : ∀ scalar keys, sortedKeys q A B = some (scalar, keys) → KeysComparable scalar keys) :
    runChecked q A B sink = .result (run q A B sink) :=
  runChecked_of_comparable q A B sink h

theorem C03_host_can_order_keys (q : SemQuery) (A B : Table) (sink : Sink)
    (h : ∀ scalar keys, sortedKeys q A B = some (scalar, keys) → KeysComparable scalar keys) :
    runChecked q A B sink = .result (run q A B sink) :=
  runChecked_of_comparable q A B sink h

end Rbql

namespace Rbql

/-! ## C13 — the command line composes dialect selection with the faithful CSV adapter -/

def CliPolicy.toPolicy : CliPolicy → Policy
  | .simple => .simple | .quoted => .quoted | .quotedRfc => .quotedRfc | .whitespace => .whitespace | .monocolumn => .monocolumn

theorem goodDelim_comma : GoodDelim [','] ([','] != [SPACE]) :=
  ⟨by decide, by decide, by intro _; simp [NoLeadSpace]; decide⟩

/-- `--out-format csv` (whatever `--delim` / `--policy` the input has): the output is comma-separated, quoted; and a result table written
that way reads back — with the flags `--delim , --policy quoted`, in any chunking, LF / CRLF / CR line ends — as the table itself.
So what `python -m rbql … --out-format csv` prints IS the result table `query_table` would return (C13_engine_depends_on_records_only
gives the rest: the engine sees records only). -/
theorem C13_cli_csv_output_is_the_result_table (delimArg : List Char) (p : Option CliPolicy)
    (table : List (List Str)) (hne : ∀ fs ∈ table, fs ≠ [])
    (hok : ∀ fs ∈ table, ∀ f ∈ fs, FieldOk [','] f ∧ NoNL f)
    (sep : Str) (hsep : sep = [LF] ∨ sep = [CR, LF] ∨ sep = [CR])
    (c : RCfg) (hc : 1 ≤ c.chunk)
    (hdel : c.delim = (cliDialects delimArg p .csv).outDelim) (hpol : c.policy = (cliDialects delimArg p .csv).outPolicy.toPolicy)
    (hcom : c.comment = none) (henc : c.enc = .none)
    (pieces : List Str) (hp : ∀ q ∈ pieces, q ≠ [])
    (htext : pieces.flatten = table.flatMap (fun fs => joinD [','] (fs.map (quoteField [','])) ++ sep)) :
    readAll c false none pieces = .ok { header := none, records := table, warnings := fieldsWarnSpec table } := by
  have hd : (cliDialects delimArg p .csv).outDelim = [','] := (C13_cli_out_format_named delimArg p).1.1
  have hq : (cliDialects delimArg p .csv).outPolicy = .quoted := (C13_cli_out_format_named delimArg p).1.2
  rw [hd] at hdel
  rw [hq] at hpol
  have := C13_csv_frontend_faithful_quoted goodDelim_comma (by decide) (by decide) table hne hok sep hsep c hc hdel hpol hcom henc false none pieces hp htext
  simpa [effHeader] using this

/-- From the INVOCATION to the table: whenever the front door lets `python -m rbql … --out-format csv` run a query (`cliDoor a = .run d p`), the delimiter it was given and
its optional policy select dialects under which the printed result reads back — `--delim , --policy quoted`, any chunking, LF / CRLF / CR — as the result table itself. -/
theorem C13_cli_invocation_prints_the_result_table (a : CliArgs) (d : List Char) (p : CliPolicy) (hrun : cliDoor a = .run d p) (hm : a.policy ≠ some .monocolumn)
    (table : List (List Str)) (hne : ∀ fs ∈ table, fs ≠ [])
    (hok : ∀ fs ∈ table, ∀ f ∈ fs, FieldOk [','] f ∧ NoNL f)
    (sep : Str) (hsep : sep = [LF] ∨ sep = [CR, LF] ∨ sep = [CR])
    (c : RCfg) (hc : 1 ≤ c.chunk) (hcom : c.comment = none) (henc : c.enc = .none)
    (pieces : List Str) (hp : ∀ q ∈ pieces, q ≠ []) :
    ∃ darg, a.delim = some darg ∧ (cliDialects darg a.policy .csv).inDelim = d ∧ (cliDialects darg a.policy .csv).inPolicy = p ∧
      (c.delim = (cliDialects darg a.policy .csv).outDelim → c.policy = (cliDialects darg a.policy .csv).outPolicy.toPolicy →
       pieces.flatten = table.flatMap (fun fs => joinD [','] (fs.map (quoteField [','])) ++ sep) →
       readAll c false none pieces = .ok { header := none, records := table, warnings := fieldsWarnSpec table }) := by
  obtain ⟨darg, hd, h1, h2⟩ := C13_cli_run_dialect a d p hrun .csv hm
  exact ⟨darg, hd, h1, h2, fun hdel hpol htext =>
    C13_cli_csv_output_is_the_result_table darg a.policy table hne hok sep hsep c hc hdel hpol hcom henc pieces hp htext⟩

end Rbql
