/-
  C14 — Errors name the first offending record; warnings appear iff the anomaly occurred.
-/
import Rbql.Proofs.RunSelect
import Rbql.Proofs.UpdateSpec
import Rbql.Proofs.ReaderPyLines
import Rbql.Model.Writer
namespace Rbql

/-- If every record before `r` evaluates fine and `r` (the record number `|A1| + 1`) fails with `e`
— in its JOIN key, WHERE, select list or ORDER BY key — then the specification reports `e`, whatever
follows: the FIRST offending record. (`liftErr` puts the record number into every such error.) -/
theorem C14_emissions_first_failure (q : SemQuery) (B : Table) (A1 : Table) (r : Row) (A2 : Table)
    (es1 : List (List Val × Row)) (nr : Nat) (h1 : emissions q B A1 nr = .ok es1) (e : EngErr)
    (hr : (expandRecord q B (nr + A1.length + 1) r).bind (projectEnvs q) = .error e) :
    emissions q B (A1 ++ r :: A2) nr = .error e := by
  induction A1 generalizing nr es1 with
  | nil =>
    simp only [List.nil_append, List.length_nil, Nat.add_zero] at hr ⊢
    unfold emissions
    cases hx : expandRecord q B (nr + 1) r with
    | error e' => simp [hx, Except.bind] at hr; simp [hx, hr, bind, Except.bind]
    | ok envs =>
      simp only [hx, Except.bind] at hr
      simp [hx, hr, bind, Except.bind]
  | cons a A1 ih =>
    unfold emissions at h1
    simp only [List.cons_append]
    unfold emissions
    cases hx : expandRecord q B (nr + 1) a with
    | error e' => simp [hx, bind, Except.bind] at h1
    | ok envs =>
      simp only [hx, bind, Except.bind] at h1 ⊢
      cases hp : projectEnvs q envs with
      | error e' => simp [hp] at h1
      | ok hd =>
        simp only [hp] at h1 ⊢
        cases ht : emissions q B A1 (nr + 1) with
        | error e' => simp [ht] at h1
        | ok tl =>
          have hr' : (expandRecord q B (nr + 1 + A1.length + 1) r).bind (projectEnvs q) = .error e := by
            have : nr + 1 + A1.length + 1 = nr + (a :: A1).length + 1 := by simp; omega
            rw [this]; exact hr
          have := ih tl (nr + 1) ht hr'
          simp [this]

/-- the engine reports exactly that error (every record is evaluated: no TOP/LIMIT bound) -/
theorem C14_first_offending_record (q : SemQuery) (A B : Table) (hsel : q.isUpdate = false) (hagg : q.isAgg = false)
    (htop : q.top = none) (hjb : ∀ js, q.join = some js → joinBError js.rhs B = none)
    (e : EngErr) (hes : emissions q B A 0 = .error e) : (run q A B).error = some e :=
  run_select_first_error q A B hsel hagg htop hjb e hes

/-- every evaluation error carries the 1-based number of its record, and a bad field access names the field -/
theorem C14_error_names_record (nr : Nat) {α : Type} :
    liftErr nr (.error .exc : Except ErrKind α) = .error (.runtime nr none) ∧
    (∀ i, liftErr nr (.error (.badField i) : Except ErrKind α) = .error (.runtime nr (some (i + 1)))) :=
  ⟨rfl, fun _ => rfl⟩

/-- UPDATE: the error is reported at the first failing record, the writer holding exactly the records before it -/
theorem C14_update_first_error (q : SemQuery) (A B : Table) (jm : JoinMap) (hupd : q.isUpdate = true)
    (hjm : ∀ js, q.join = some js → (jm.maxLen = maxWidth B ∧
        ∀ key, jm.get key = (partnersSpec js.rhs B key).map (fun p => (p.1, p.2.length, p.2))))
    (e : EngErr) (he : updateSpec q B A 0 0 = .error e) :
    ∃ st k pre, mainLoop q jm A 0 { chain := buildChain q {} } = .error (e, st, k + 1) ∧
      k < A.length ∧ updateSpec q B (A.take k) 0 0 = .ok pre ∧ st.chain.getSink.rows = pre.reverse := by
  have h := mainLoop_update q A B jm hupd hjm {} rfl
  rw [he] at h
  obtain ⟨st, k, pre, h1, h2, h3, h4⟩ := h
  exact ⟨st, k, pre, h1, h2, h3, by simpa using h4⟩

/-- a B record lacking a join key field: the error names that record and field, before any record is written -/
theorem C14_join_build_error (q : SemQuery) (A B : Table) (js : JoinSpec) (hj : q.join = some js)
    (hg : q.groupBy = none) (e : EngErr) (he : joinBError js.rhs B = some e) :
    (run q A B).error = some e ∧ (run q A B).rows = [] := by
  refine ⟨run_join_build_error q A B js hj hg e he, ?_⟩
  unfold run RunResult.rows
  simp only [hg, Option.isSome_none, Bool.false_and, Bool.false_eq_true, if_false, hj]
  rw [joinMap_build_err js.rhs B e he]
  rfl

/-- field-count warning iff two records read have different lengths; it cites the first record of each of the first two lengths -/
theorem C14_field_count_warning_none_iff (t : Table) :
    fieldsWarning t = none ↔ (fieldsInfoOf t 0 []).length ≤ 1 := by
  unfold fieldsWarning
  cases h : fieldsInfoOf t 0 [] with
  | nil => simp
  | cons a rest =>
    cases rest with
    | nil => simp
    | cons b rest' => obtain ⟨a1, a2⟩ := a; obtain ⟨b1, b2⟩ := b; simp

/-- None written to CSV: the flag is set iff some cell of some written record is None (one record) -/
theorem C14_none_warning_iff (c : WCfg) (st : WState) (fields : List (Option Str)) (st' : WState)
    (hw : writeRec c st fields = .ok st') : st'.noneSeen = (st.noneSeen || fields.any (fun x => x.isNone)) := by
  unfold writeRec at hw
  have hgo : writeRec.go c st fields = .ok st' := by
    cases hl : st.headerLen with
    | none => simpa [hl] using hw
    | some hl' =>
      simp only [hl] at hw
      split at hw
      · cases hw
      · exact hw
  unfold writeRec.go at hgo
  simp only [normalizeCells] at hgo
  cases hp : c.policy <;> simp only [hp] at hgo
  · cases hgo; rfl
  · cases hgo; rfl
  · cases hgo; rfl
  · cases hgo; rfl
  · simp only [List.length_map, gt_iff_lt] at hgo
    by_cases hlen : 1 < fields.length
    · rw [if_pos hlen] at hgo; cases hgo
    · rw [if_neg hlen] at hgo; cases hgo; rfl

end Rbql
