/-
  C14 — Errors name the first offending record; warnings appear iff the anomaly occurred.
-/
import Rbql.Proofs.RunSelect
import Rbql.Proofs.UpdateSpec
import Rbql.Proofs.ReaderPyLines
import Rbql.Model.Writer
import Rbql.Proofs.RfcAndWarnings
namespace Rbql

/-- If every record before `r` evaluates fine and `r` (the record number `|A1| + 1`) fails with `e`
— in its JOIN key, WHERE, select list or ORDER BY key — then the specification reports `e`, whatever
follows: the FIRST offending record. (`liftErr` puts the record number into every such error.) -/
theorem C14_emissions_first_failure (q : SemQuery) (B : Table) (A1 : Table) (r : Row) (A2 : Table)
    (es1 : List (List Val × Row)) (nr : Nat) (h1 : emissions q B A1 nr = .ok es1) (e : EngErr)
    (hr : (expandRecord q B (nr + A1.length + 1) r).bind (projectEnvs q) = .error e) :
    emissions q B (A1 ++ r :: A2) nr = .error e := by
  induction A1 generalizing nr es1 with
  | nil =>
    simp only [List.nil_append, List.length_nil, Nat.add_zero] at hr ⊢
    unfold emissions
    cases hx : expandRecord q B (nr + 1) r with
    | error e' => simp [hx, Except.bind] at hr; simp [hx, hr, bind, Except.bind]
    | ok envs =>
      simp only [hx, Except.bind] at hr
      simp [hx, hr, bind, Except.bind]
  | cons a A1 ih =>
    unfold emissions at h1
    simp only [List.cons_append]
    unfold emissions
    cases hx : expandRecord q B (nr + 1) a with
    | error e' => simp [hx, bind, Except.bind] at h1
    | ok envs =>
      simp only [hx, bind, Except.bind] at h1 ⊢
      cases hp : projectEnvs q envs with
      | error e' => simp [hp] at h1
      | ok hd =>
        simp only [hp] at h1 ⊢
        cases ht : emissions q B A1 (nr + 1) with
        | error e' => simp [ht] at h1
        | ok tl =>
          have hr' : (expandRecord q B (nr + 1 + A1.length + 1) r).bind (projectEnvs q) = .error e := by
            have : nr + 1 + A1.length + 1 = nr + (a :: A1).length + 1 := by simp; omega
            rw [this]; exact hr
          have := ih tl (nr + 1) ht hr'
          simp [this]

/-- the engine reports exactly that error (every record is evaluated: no TOP/LIMIT bound) -/
theorem C14_first_offending_record (q : SemQuery) (A B : Table) (hsel : q.isUpdate = false) (hagg : q.isAgg = false)
    (htop : q.top = none) (hjb : ∀ js, q.join = some js → joinBError js.rhs B = none)
    (e : EngErr) (hes : emissions q B A 0 = .error e) : (run q A B).error = some e :=
  run_select_first_error q A B hsel hagg htop hjb e hes

/-- every evaluation error carries the 1-based number of its record, and a bad field access names the field -/
theorem C14_error_names_record (nr : Nat) {α : Type} :
    liftErr nr (.error .exc : Except ErrKind α) = .error (.runtime nr none) ∧
    (∀ i, liftErr nr (.error (.badField i) : Except ErrKind α) = .error (.runtime nr (some (i + 1)))) :=
  ⟨rfl, fun _ => rfl⟩

/-- UPDATE: the error is reported at the first failing record, the writer holding exactly the records before it -/
theorem C14_update_first_error (q : SemQuery) (A B : Table) (jm : JoinMap) (hupd : q.isUpdate = true)
    (hjm : ∀ js, q.join = some js → (jm.maxLen = nullWidth js B ∧
        ∀ key, jm.get key = (partnersSpec js.rhs B key).map (fun p => (p.1, p.2.length, p.2))))
    (e : EngErr) (he : updateSpec q B A 0 0 = .error e) :
    ∃ st k pre, mainLoop q jm A 0 { chain := buildChain q {} } = .error (e, st, k + 1) ∧
      k < A.length ∧ updateSpec q B (A.take k) 0 0 = .ok pre ∧ st.chain.getSink.rows = pre.reverse := by
  have h := mainLoop_update q A B jm hupd hjm {} rfl
  rw [he] at h
  obtain ⟨st, k, pre, h1, h2, h3, h4⟩ := h
  exact ⟨st, k, pre, h1, h2, h3, by simpa using h4⟩

/-- a B record lacking a join key field: the error names that record and field, before any record is written -/
theorem C14_join_build_error (q : SemQuery) (A B : Table) (js : JoinSpec) (hj : q.join = some js)
    (hg : q.groupBy = none) (e : EngErr) (he : joinBError js.rhs B = some e) :
    (run q A B).error = some e ∧ (run q A B).rows = [] := by
  refine ⟨run_join_build_error q A B js hj hg e he, ?_⟩
  unfold run RunResult.rows
  simp only [hg, Option.isSome_none, Bool.false_and, Bool.false_eq_true, if_false, hj]
  rw [joinMap_build_err js.rhs B e he]
  rfl

/-- field-count warning iff two records read have different lengths; it cites the first record of each of the first two lengths -/
theorem C14_field_count_warning_none_iff (t : Table) :
    fieldsWarning t = none ↔ (fieldsInfoOf t 0 []).length ≤ 1 := by
  unfold fieldsWarning
  cases h : fieldsInfoOf t 0 [] with
  | nil => simp
  | cons a rest =>
    cases rest with
    | nil => simp
    | cons b rest' => obtain ⟨a1, a2⟩ := a; obtain ⟨b1, b2⟩ := b; simp

/-- None written to CSV: the flag is set iff some cell of some written record is None (one record) -/
theorem C14_none_warning_iff (c : WCfg) (st : WState) (fields : List (Option Str)) (st' : WState)
    (hw : writeRec c st fields = .ok st') : st'.noneSeen = (st.noneSeen || fields.any (fun x => x.isNone)) := by
  unfold writeRec at hw
  have hgo : writeRec.go c st fields = .ok st' := by
    cases hl : st.headerLen with
    | none => simpa [hl] using hw
    | some hl' =>
      simp only [hl] at hw
      split at hw
      · cases hw
      · exact hw
  unfold writeRec.go at hgo
  simp only [normalizeCells] at hgo
  cases hp : c.policy <;> simp only [hp] at hgo
  · cases hgo; rfl
  · cases hgo; rfl
  · cases hgo; rfl
  · cases hgo; rfl
  · simp only [List.length_map, gt_iff_lt] at hgo
    by_cases hlen : 1 < fields.length
    · rw [if_pos hlen] at hgo; cases hgo
    · rw [if_neg hlen] at hgo; cases hgo; rfl

/-- list-valued cells (`normalize_fields` recursion): the flag is set iff some cell is None OR some list
cell contains a None — a None inside a list is written as an empty item and must be reported too -/
theorem C14_none_warning_iff_cells (c : WCfg) (st : WState) (cells : List Cell) (st' : WState)
    (hw : writeRecCells c st cells = .ok st') : st'.noneSeen = (st.noneSeen || cells.any Cell.hasNone) := by
  unfold writeRecCells at hw
  have h := C14_none_warning_iff c _ _ st' hw
  rw [h]
  have hcell : ∀ x : Cell, x.hasNone = (x.nestedNone || (x.flat c.delim).isNone) := by
    intro x; cases x <;> simp [Cell.hasNone, Cell.nestedNone, Cell.flat]
  have hany : ∀ l : List Cell, l.any Cell.hasNone =
      (l.any Cell.nestedNone || (l.map (Cell.flat c.delim)).any (fun x => x.isNone)) := by
    intro l
    induction l with
    | nil => rfl
    | cons x xs ih =>
      simp only [List.any_cons, List.map_cons, ih, hcell x]
      cases x.nestedNone <;> cases (x.flat c.delim).isNone <;> simp
  simp only [hany cells, Bool.or_assoc]

/-- non-vacuity: `['a', ['x', None]]` sets the flag, `['a', ['x', 'y']]` does not -/
example : (writeRecCells { delim := [','], policy := .quoted } {} [.str ['a'], .list [some ['x'], none]]).toOption.map (·.noneSeen) = some true ∧
    (writeRecCells { delim := [','], policy := .quoted } {} [.str ['a'], .list [some ['x'], some ['y']]]).toOption.map (·.noneSeen) = some false := by
  decide

/-! ### reader warnings: each appears iff its anomaly occurred (Python reader machine) -/

/-- the BOM warning is reported iff the reader's BOM flag is set … -/
theorem C14_bom_warning_iff_flag (s : RState) : ReadWarn.bom ∈ readerWarnings s ↔ s.bom = true :=
  bom_warning_iff s

/-- … and one step of the line machine sets the flag iff this is the first physical line, an encoding
with a BOM is configured and the line really starts with that BOM (which is then stripped) -/
theorem C14_bom_flag_iff_first_line_has_bom (c : RCfg) (s : RState) (h : RInv c s) (row : Str) (s' : RState)
    (hstep : getRowSimple c s = (some row, s')) :
    ∃ line rest, nextLine (pending s) = some (line, rest) ∧
      (s'.bom = true ↔
        (s.bom = true ∨ (s.nl = 0 ∧ c.enc ≠ .none ∧ ∃ t, line = bomOf c.enc ++ t))) :=
  bom_flag_iff_starts_with_bom c s h row s' hstep

/-- the defective-line warning names line `l` iff `l` is the recorded first defective line … -/
theorem C14_defective_warning_iff_flag (s : RState) (l : Nat) :
    ReadWarn.defective l ∈ readerWarnings s ↔ s.firstDefective = some l :=
  defective_warning_iff s l

/-- … and (policies other than quoted_rfc) reading one record records a first defective line iff none
was recorded before and the splitter raised its warning on exactly this record's line; otherwise the
recorded line is unchanged: the warning names the FIRST defective line and only a defective one -/
theorem C14_defective_line_iff (c : RCfg) (s : RState) (hinv : RInv c s) (hp : c.policy ≠ .quotedRfc)
    (record : List Str) (s' : RState) (h : readRecord c s = .ok (some record, s')) :
    ∃ line s1, nextDataLine c (remaining s + 1) s = (some line, s1) ∧
      record = (smartSplit c.delim c.policy false line).1 ∧ s'.nl = s1.nl ∧ s'.nr = s.nr + 1 ∧
      ((s.firstDefective = none ∧ s'.firstDefective = some s'.nl) ↔
        (s.firstDefective = none ∧ (smartSplit c.delim c.policy false line).2 = true)) ∧
      (¬ (s.firstDefective = none ∧ (smartSplit c.delim c.policy false line).2 = true) →
        s'.firstDefective = s.firstDefective) :=
  defective_line_iff c s hinv hp record s' h

/-- quoted_rfc: a malformed record is an I/O error naming its record number and line, raised iff the
splitter's warning fired on that record (never a silent acceptance, never a spurious error) -/
theorem C14_rfc_malformed_is_io_error (c : RCfg) (s : RState) (hinv : RInv c s) (hp : c.policy = .quotedRfc)
    (nr nl : Nat) :
    readRecord c s = .error (.rfcQuote nr nl) ↔
      ∃ line s1, nextDataLine c (remaining s + 1) s = (some line, s1) ∧ s.firstDefective = none ∧
        (smartSplit c.delim .quotedRfc false line).2 = true ∧ nr = s.nr + 1 ∧ nl = s1.nl :=
  rfc_malformed_is_io_error c s hinv hp nr nl

/-- policies other than quoted_rfc never fail in the reader -/
theorem C14_non_rfc_reader_never_errors (c : RCfg) (s : RState) (hp : c.policy ≠ .quotedRfc) :
    ∃ r, readRecord c s = .ok r :=
  readRecord_ok_of_not_rfc c s hp

end Rbql
