/-
  C07 — Output header always matches output records and follows the naming rules.
-/
import Rbql.Model.Header
namespace Rbql

theorem headerLoop_length (ih jh : List Str) (infos : List ColInfo) (acc : List Str) :
    (headerLoop ih jh infos acc).length = acc.length + (infos.map (ColInfo.width ih.length jh.length)).sum := by
  induction infos generalizing acc with
  | nil => simp [headerLoop]
  | cons ci rest ih' =>
    unfold headerLoop
    rw [ih']
    cases ci with
    | star t => cases t with
      | none => simp [ColInfo.width]; omega
      | some b => cases b <;> simp [ColInfo.width] <;> omega
    | field b i => cases b <;> simp [ColInfo.width] <;> omega
    | named n => simp [ColInfo.width]; omega
    | alias n => simp [ColInfo.width]; omega
    | other => simp [ColInfo.width]; omega

/-- Whenever a header is produced it has exactly as many names as every output record has fields, for
every select list with a fixed column count: star forms contribute |input header| (+ |join header|) names
and |a| (+ |b|) fields — equal when the records are as wide as their headers (`RectangularSources`) — and
every other item one name and one field. -/
theorem C07_header_width (inputHeader joinHeader : List Str) (infos : List ColInfo) (na nb : Nat)
    (hna : na = inputHeader.length) (hnb : nb = joinHeader.length) (h : List Str)
    (hh : selectOutputHeader (some inputHeader) (some joinHeader) infos = .ok (some h)) :
    h.length = (infos.map (ColInfo.width na nb)).sum := by
  simp only [selectOutputHeader, Option.getD_some, Except.ok.injEq, Option.some.injEq] at hh
  subst hh hna hnb
  simpa using headerLoop_length inputHeader joinHeader infos []

/-- the same with the DISTINCT COUNT count column in front: one more name, one more field -/
theorem C07_header_width_distinct_count (inputHeader joinHeader : List Str) (infos : List ColInfo) (h : List Str)
    (hh : queryHeader true (some inputHeader) (some joinHeader) infos none = .ok (some h)) :
    h.length = 1 + (infos.map (ColInfo.width inputHeader.length joinHeader.length)).sum := by
  simp only [queryHeader, if_true] at hh
  have := C07_header_width inputHeader joinHeader (.other :: infos) _ _ rfl rfl h hh
  simpa [ColInfo.width] using this

/-- EXCEPT: the header drops exactly the excepted columns, as the records do -/
theorem C07_header_width_except (inputHeader : List Str) (cols : List Nat) (rec_ : Row) (hw : rec_.length = inputHeader.length)
    (h : List Str) (hh : queryHeader false (some inputHeader) none [] (some cols) = .ok (some h)) :
    h.length = (selectExcept rec_ cols).length := by
  simp only [queryHeader, Option.map_some, Bool.false_eq_true, if_false, List.nil_append, Except.ok.injEq, Option.some.injEq] at hh
  subst hh
  simp only [selectExcept, List.length_map]
  -- both sides count the indices < width that are not excepted
  have key : ∀ (l1 : List Str) (l2 : Row) (n : Nat), l1.length = l2.length →
      ((l1.zipIdx n).filter (fun p => !cols.contains p.2)).length = ((l2.zipIdx n).filter (fun p => !cols.contains p.2)).length := by
    intro l1
    induction l1 with
    | nil => intro l2 n hl; cases l2 with | nil => rfl | cons _ _ => simp at hl
    | cons x xs ih =>
      intro l2 n hl
      cases l2 with
      | nil => simp at hl
      | cons y ys =>
        simp only [List.length_cons, Nat.add_right_cancel_iff] at hl
        simp only [List.zipIdx_cons, List.filter_cons]
        have := ih ys (n + 1) hl
        split <;> simp_all
  exact key inputHeader rec_ 0 hw.symm

/-- naming rules, per kind (acc = names already produced, so `acc.length + 1` is the output position) -/
theorem C07_names (ih jh : List Str) (acc : List Str) :
    headerLoop ih jh [.alias n] acc = acc ++ [n] ∧
    headerLoop ih jh [.named n] acc = acc ++ [n] ∧
    headerLoop ih jh [.other] acc = acc ++ [colName (acc.length + 1)] ∧
    headerLoop ih jh [.star none] acc = acc ++ ih ++ jh ∧
    headerLoop ih jh [.star (some false)] acc = acc ++ ih ∧
    headerLoop ih jh [.star (some true)] acc = acc ++ jh ∧
    (∀ i, i < ih.length → headerLoop ih jh [.field false i] acc = acc ++ [ih.getD i []]) ∧
    (∀ i, i < jh.length → headerLoop ih jh [.field true i] acc = acc ++ [jh.getD i []]) ∧
    (∀ i, ih.length ≤ i → headerLoop ih jh [.field false i] acc = acc ++ [colName (acc.length + 1)]) := by
  refine ⟨rfl, rfl, rfl, rfl, rfl, rfl, ?_, ?_, ?_⟩
  · intro i hi; simp [headerLoop, hi]
  · intro i hi; simp [headerLoop, hi]
  · intro i hi; simp [headerLoop, Nat.not_lt.mpr hi]

/-- a table without a header yields an output header only when aliases are used -/
theorem C07_no_header_without_alias (infos : List ColInfo)
    (hna : infos.any ColInfo.isAlias = false) :
    selectOutputHeader none none infos = .ok none := by
  simp [selectOutputHeader, hna]

theorem C07_alias_gives_header_without_input_header (infos : List ColInfo)
    (ha : infos.any ColInfo.isAlias = true)
    (hs : infos.any ColInfo.isStar = false) :
    selectOutputHeader none none infos = .ok (some (headerLoop [] [] infos [])) := by
  simp [selectOutputHeader, ha, hs]

theorem C07_star_and_alias_without_header_rejected (infos : List ColInfo)
    (ha : infos.any ColInfo.isAlias = true)
    (hs : infos.any ColInfo.isStar = true) :
    selectOutputHeader none none infos = .error .starAndAliasWithoutHeader := by
  simp [selectOutputHeader, ha, hs]

/-! non-vacuity -/
example : (selectOutputHeader (some ["n1".toList, "n2".toList]) (some ["m1".toList])
    [.field false 1, .other, .star none, .alias "z".toList, .named "NR".toList, .field true 5]).toOption =
    some (some ["n2".toList, "col2".toList, "n1".toList, "n2".toList, "m1".toList, "z".toList, "NR".toList, "col8".toList]) := by
  decide

end Rbql
