/-
  C07 — Output header always matches output records and follows the naming rules.
-/
import Rbql.Model.Header
import Rbql.Theorems.C04
namespace Rbql

theorem headerLoop_length (ih jh : List Str) (infos : List ColInfo) (acc : List Str) :
    (headerLoop ih jh infos acc).length = acc.length + (infos.map (ColInfo.width ih.length jh.length)).sum := by
  induction infos generalizing acc with
  | nil => simp [headerLoop]
  | cons ci rest ih' =>
    unfold headerLoop
    rw [ih']
    cases ci with
    | star t => cases t with
      | none => simp [ColInfo.width]; omega
      | some b => cases b <;> simp [ColInfo.width] <;> omega
    | field b i => cases b <;> simp [ColInfo.width] <;> omega
    | named n => simp [ColInfo.width]; omega
    | alias n => simp [ColInfo.width]; omega
    | other => simp [ColInfo.width]; omega

/-- Whenever a header is produced it has exactly as many names as every output record has fields, for
every select list with a fixed column count: star forms contribute |input header| (+ |join header|) names
and |a| (+ |b|) fields — equal when the records are as wide as their headers (`RectangularSources`) — and
every other item one name and one field. -/
theorem C07_header_width (inputHeader joinHeader : List Str) (infos : List ColInfo) (na nb : Nat)
    (hna : na = inputHeader.length) (hnb : nb = joinHeader.length) (h : List Str)
    (hh : selectOutputHeader (some inputHeader) (some joinHeader) infos = .ok (some h)) :
    h.length = (infos.map (ColInfo.width na nb)).sum := by
  simp only [selectOutputHeader, Option.getD_some, Except.ok.injEq, Option.some.injEq] at hh
  subst hh hna hnb
  simpa using headerLoop_length inputHeader joinHeader infos []

/-- the same with the DISTINCT COUNT count column in front: one more name, one more field -/
theorem C07_header_width_distinct_count (inputHeader joinHeader : List Str) (infos : List ColInfo) (h : List Str)
    (hh : queryHeader true (some inputHeader) (some joinHeader) infos none = .ok (some h)) :
    h.length = 1 + (infos.map (ColInfo.width inputHeader.length joinHeader.length)).sum := by
  simp only [queryHeader, if_true] at hh
  have := C07_header_width inputHeader joinHeader (.other :: infos) _ _ rfl rfl h hh
  simpa [ColInfo.width] using this

/-- EXCEPT: the header drops exactly the excepted columns, as the records do -/
theorem C07_header_width_except (inputHeader : List Str) (cols : List Nat) (rec_ : Row) (hw : rec_.length = inputHeader.length)
    (h : List Str) (hh : queryHeader false (some inputHeader) none [] (some cols) = .ok (some h)) :
    h.length = (selectExcept rec_ cols).length := by
  simp only [queryHeader, Option.map_some, Bool.false_eq_true, if_false, List.nil_append, Except.ok.injEq, Option.some.injEq] at hh
  subst hh
  simp only [selectExcept, List.length_map]
  -- both sides count the indices < width that are not excepted
  have key : ∀ (l1 : List Str) (l2 : Row) (n : Nat), l1.length = l2.length →
      ((l1.zipIdx n).filter (fun p => !cols.contains p.2)).length = ((l2.zipIdx n).filter (fun p => !cols.contains p.2)).length := by
    intro l1
    induction l1 with
    | nil => intro l2 n hl; cases l2 with | nil => rfl | cons _ _ => simp at hl
    | cons x xs ih =>
      intro l2 n hl
      cases l2 with
      | nil => simp at hl
      | cons y ys =>
        simp only [List.length_cons, Nat.add_right_cancel_iff] at hl
        simp only [List.zipIdx_cons, List.filter_cons]
        have := ih ys (n + 1) hl
        split <;> simp_all
  exact key inputHeader rec_ 0 hw.symm

/-- a select item and the column info derived from its text belong together: star forms with star infos, anything else with a one-column info -/
def aligned : List SItem → List ColInfo → Prop
  | [], [] => True
  | it :: its, ci :: cis =>
    (match it, ci with
     | .star, .star none => True
     | .starA, .star (some false) => True
     | .starB, .star (some true) => True
     | .expr _, ci => ci.isStar = false
     | .unnest _, ci => ci.isStar = false
     | .agg _ _, ci => ci.isStar = false
     | _, _ => False) ∧ aligned its cis
  | _, _ => False

theorem width_of_not_star (ci : ColInfo) (na nb : Nat) (h : ci.isStar = false) : ci.width na nb = 1 := by
  cases ci with
  | star t => simp [ColInfo.isStar] at h
  | _ => rfl

/-- number of fields one select item contributes for the record in `e` -/
def itemWidth (e : Env) : SItem → Nat
  | .star => e.a.length + (e.b.getD []).length
  | .starA => e.a.length
  | .starB => (e.b.getD []).length
  | _ => 1

/-- the head step of `evalItemsFrom`, named -/
def evalHead (seen : Bool) (it : SItem) (e : Env) : Except ErrKind (Row × Option (List Atom)) :=
  match it with
  | .expr f => do let v ← f e; pure ([v], none)
  | .star => pure (e.a ++ e.b.getD [], none)
  | .starA => pure (e.a, none)
  | .starB => pure (e.b.getD [], none)
  | .unnest f => do
    let l ← f e
    if seen then .error .unnestTwice else pure ([Val.none], some l)
  | .agg _ f => do let v ← f e; pure ([v], none)

theorem evalItemsFrom_cons (seen : Bool) (it : SItem) (rest : List SItem) (e : Env) :
    evalItemsFrom seen (it :: rest) e =
      (evalHead seen it e).bind (fun p =>
        (evalItemsFrom (seen || p.2.isSome) rest e).bind (fun q =>
          match p.2, q.2 with
          | some l, _ => .ok (p.1 ++ q.1, some (0, l))
          | none, some (k, l) => .ok (p.1 ++ q.1, some (p.1.length + k, l))
          | none, none => .ok (p.1 ++ q.1, none))) := by
  cases it <;> rfl

theorem evalHead_length (seen : Bool) (it : SItem) (e : Env) (hd : Row) (un : Option (List Atom))
    (h : evalHead seen it e = .ok (hd, un)) : hd.length = itemWidth e it := by
  cases it with
  | expr f => cases hf : f e <;> simp [evalHead, hf, bind, Except.bind, pure, Except.pure] at h; simp [← h.1, itemWidth]
  | agg k f => cases hf : f e <;> simp [evalHead, hf, bind, Except.bind, pure, Except.pure] at h; simp [← h.1, itemWidth]
  | unnest f =>
    cases hf : f e with
    | error err => simp [evalHead, hf, bind, Except.bind] at h
    | ok l => cases seen <;> simp [evalHead, hf, bind, Except.bind, pure, Except.pure] at h; simp [← h.1, itemWidth]
  | star => simp [evalHead, pure, Except.pure] at h; simp [← h.1, itemWidth]
  | starA => simp [evalHead, pure, Except.pure] at h; simp [← h.1, itemWidth]
  | starB => simp [evalHead, pure, Except.pure] at h; simp [← h.1, itemWidth]

theorem evalItemsFrom_length (items : List SItem) (seen : Bool) (e : Env) (row : Row) (un : Option (Nat × List Atom))
    (h : evalItemsFrom seen items e = .ok (row, un)) : row.length = (items.map (itemWidth e)).sum := by
  induction items generalizing seen row un with
  | nil => simp [evalItemsFrom] at h; simp [h.1]
  | cons it rest ih =>
    rw [evalItemsFrom_cons] at h
    cases hh : evalHead seen it e with
    | error err => simp [hh, Except.bind] at h
    | ok p =>
      obtain ⟨hd, u1⟩ := p
      simp only [hh, Except.bind] at h
      cases hr : evalItemsFrom (seen || u1.isSome) rest e with
      | error err => simp [hr] at h
      | ok q =>
        obtain ⟨tl, u2⟩ := q
        have hl := evalHead_length seen it e hd u1 hh
        have ht := ih _ tl u2 hr
        simp only [hr] at h
        have : row = hd ++ tl := by
          cases u1 with
          | some l => simp at h; exact h.1.symm
          | none =>
            cases u2 with
            | some kl => obtain ⟨k, l⟩ := kl; simp at h; exact h.1.symm
            | none => simp at h; exact h.1.symm
        subst this
        simp [hl, ht]

theorem itemWidth_eq_infoWidth (items : List SItem) (infos : List ColInfo) (hal : aligned items infos) (e : Env) :
    (items.map (itemWidth e)).sum = (infos.map (ColInfo.width e.a.length (e.b.getD []).length)).sum := by
  induction items generalizing infos with
  | nil => cases infos with | nil => rfl | cons _ _ => simp [aligned] at hal
  | cons it its ih =>
    cases infos with
    | nil => simp [aligned] at hal
    | cons ci cis =>
      obtain ⟨h1, h2⟩ := hal
      have hrest := ih cis h2
      have hhead : itemWidth e it = ci.width e.a.length (e.b.getD []).length := by
        cases it with
        | star => cases ci with
          | star t => cases t with
            | none => rfl
            | some b => cases b <;> simp at h1
          | _ => simp at h1
        | starA => cases ci with
          | star t => cases t with
            | none => simp at h1
            | some b => cases b with | false => rfl | true => simp at h1
          | _ => simp at h1
        | starB => cases ci with
          | star t => cases t with
            | none => simp at h1
            | some b => cases b with | true => rfl | false => simp at h1
          | _ => simp at h1
        | expr f => rw [width_of_not_star ci _ _ h1]; rfl
        | unnest f => rw [width_of_not_star ci _ _ h1]; rfl
        | agg k f => rw [width_of_not_star ci _ _ h1]; rfl
      simp [hhead, hrest]

/-- the record the engine builds for a select list has one field per one-column item and |a| (+ |b|) fields per star form -/
theorem evalItems_width (items : List SItem) (infos : List ColInfo) (hal : aligned items infos) (seen : Bool) (e : Env)
    (row : Row) (un : Option (Nat × List Atom)) (h : evalItemsFrom seen items e = .ok (row, un)) :
    row.length = (infos.map (ColInfo.width e.a.length (e.b.getD []).length)).sum := by
  rw [evalItemsFrom_length items seen e row un h, itemWidth_eq_infoWidth items infos hal e]

/-- Header and records agree, end to end: for a select list whose items and column infos are aligned, over records as wide as
their headers, every record the engine builds has exactly as many fields as the header has names. -/
theorem C07_header_matches_records (items : List SItem) (infos : List ColInfo) (hal : aligned items infos)
    (inputHeader joinHeader : List Str) (e : Env) (hna : e.a.length = inputHeader.length) (hnb : (e.b.getD []).length = joinHeader.length)
    (h : List Str) (hh : selectOutputHeader (some inputHeader) (some joinHeader) infos = .ok (some h))
    (row : Row) (un : Option (Nat × List Atom)) (hr : evalItems items e = .ok (row, un)) :
    h.length = row.length := by
  rw [C07_header_width inputHeader joinHeader infos e.a.length (e.b.getD []).length hna hnb h hh]
  exact (evalItems_width items infos hal false e row un hr).symm

/-- naming rules, per kind (acc = names already produced, so `acc.length + 1` is the output position) -/
theorem C07_names (ih jh : List Str) (acc : List Str) :
    headerLoop ih jh [.alias n] acc = acc ++ [n] ∧
    headerLoop ih jh [.named n] acc = acc ++ [n] ∧
    headerLoop ih jh [.other] acc = acc ++ [colName (acc.length + 1)] ∧
    headerLoop ih jh [.star none] acc = acc ++ ih ++ jh ∧
    headerLoop ih jh [.star (some false)] acc = acc ++ ih ∧
    headerLoop ih jh [.star (some true)] acc = acc ++ jh ∧
    (∀ i, i < ih.length → headerLoop ih jh [.field false i] acc = acc ++ [ih.getD i []]) ∧
    (∀ i, i < jh.length → headerLoop ih jh [.field true i] acc = acc ++ [jh.getD i []]) ∧
    (∀ i, ih.length ≤ i → headerLoop ih jh [.field false i] acc = acc ++ [colName (acc.length + 1)]) := by
  refine ⟨rfl, rfl, rfl, rfl, rfl, rfl, ?_, ?_, ?_⟩
  · intro i hi; simp [headerLoop, hi]
  · intro i hi; simp [headerLoop, hi]
  · intro i hi; simp [headerLoop, Nat.not_lt.mpr hi]

/-- a table without a header yields an output header only when aliases are used -/
theorem C07_no_header_without_alias (infos : List ColInfo)
    (hna : infos.any ColInfo.isAlias = false) :
    selectOutputHeader none none infos = .ok none := by
  simp [selectOutputHeader, hna]

theorem C07_alias_gives_header_without_input_header (infos : List ColInfo)
    (ha : infos.any ColInfo.isAlias = true)
    (hs : infos.any ColInfo.isStar = false) :
    selectOutputHeader none none infos = .ok (some (headerLoop [] [] infos [])) := by
  simp [selectOutputHeader, ha, hs]

theorem C07_star_and_alias_without_header_rejected (infos : List ColInfo)
    (ha : infos.any ColInfo.isAlias = true)
    (hs : infos.any ColInfo.isStar = true) :
    selectOutputHeader none none infos = .error .starAndAliasWithoutHeader := by
  simp [selectOutputHeader, ha, hs]

/-! non-vacuity -/
example : (selectOutputHeader (some ["n1".toList, "n2".toList]) (some ["m1".toList])
    [.field false 1, .other, .star none, .alias "z".toList, .named "NR".toList, .field true 5]).toOption =
    some (some ["n2".toList, "col2".toList, "n1".toList, "n2".toList, "m1".toList, "z".toList, "NR".toList, "col8".toList]) := by
  decide

/-- the hypothesis `hnb` of `C07_header_matches_records` holds for the LEFT JOIN null record: with a
rectangular join table (possibly EMPTY) whose records are as wide as its header, a partner-less record
is expanded with exactly one None per header name (this was false before the repair d04064f: the null
record of an empty join table had no field at all) -/
theorem C07_left_null_record_matches_join_header (q : SemQuery) (B : Table) (js : JoinSpec) (hj : q.join = some js)
    (hk : js.kind = .left) (nr : Nat) (recA : Row) (key : List Val) (hkey : lhsKey js.lhs nr recA = .ok key)
    (hnone : partnersSpec js.rhs B key = []) (hrect : ∀ r ∈ B, r.length = js.nullWidth) :
    ∃ e, expandRecord q B nr recA = .ok [e] ∧ (e.b.getD []).length = js.nullWidth := by
  refine ⟨_, C04_expand_left_unmatched q B js hj hk nr recA key hkey hnone, ?_⟩
  simp [(C04_null_width js B).2.2 hrect]

end Rbql
