/-
  C01 — SELECT/WHERE yields exactly the projected matching records, in input order.
-/
import Rbql.Proofs.RunSelect
namespace Rbql

/-- For every input table, join table and query SELECT items [JOIN …] [WHERE p] (items: arbitrary
expressions, `*`, `a.*`, `b.*`, `* EXCEPT`, one UNNEST; every expression an arbitrary function of the
record), if no evaluation fails, the output is exactly the concatenation, in input order (A-major, then B
order), of what each joined record contributes (`projectEnv`): nothing if WHERE is falsy, one record per
UNNEST element, otherwise the one projected record. -/
theorem C01_select_where_exact (q : SemQuery) (A B : Table) (hsel : q.isUpdate = false) (hagg : q.isAgg = false)
    (ho : q.orderBy = none) (hd : q.distinct = .no) (ht : q.top = none)
    (hjb : ∀ js, q.join = some js → joinBError js.rhs B = none)
    (es : List (List Val × Row)) (hes : emissions q B A 0 = .ok es) :
    (run q A B).error = none ∧ (run q A B).rows = es.map (·.2) ∧ (run q A B).pulled ≤ A.length := by
  have h := run_select_eq_spec q A B hsel hagg hjb es hes
  simpa [selectSpec, truncSpec, dedupSpec, orderSpec, ho, hd, ht] using h

/-- a record for which WHERE is falsy contributes nothing -/
theorem C01_where_false_contributes_nothing (q : SemQuery) (e : Env) (w : Ex Bool) (hw : q.where_ = some w)
    (hf : w e = .ok false) : projectEnv q e = .ok [] := by
  simp [projectEnv, hw, hf, liftErr, bind, Except.bind, pure, Except.pure]

/-- a passing record without UNNEST contributes exactly its projection -/
theorem C01_passing_record_contributes_one (q : SemQuery) (e : Env) (hw : q.where_ = none) (hx : q.exceptCols = none)
    (ho : q.orderBy = none) (row : Row) (hi : evalItems q.items e = .ok (row, none)) :
    projectEnv q e = .ok [([], row)] := by
  simp [projectEnv, hw, hx, ho, hi, liftErr, bind, Except.bind, pure, Except.pure]

/-- a single UNNEST item emits one record per list element, the element substituted in place (none for an empty list) -/
theorem C01_unnest_one_row_per_element (q : SemQuery) (e : Env) (hw : q.where_ = none) (hx : q.exceptCols = none)
    (ho : q.orderBy = none) (row : Row) (pos : Nat) (l : List Atom) (hi : evalItems q.items e = .ok (row, some (pos, l))) :
    projectEnv q e = .ok (l.map (fun v => ([], row.set pos (.at v)))) := by
  simp [projectEnv, hw, hx, ho, hi, liftErr, bind, Except.bind, pure, Except.pure]

/-- `*`, `a.*`, `b.*` expand in place to the fields of the (joined) record -/
theorem C01_star_expansion (e : Env) :
    evalItems [.star] e = .ok (e.a ++ e.b.getD [], none) ∧
    evalItems [.starA] e = .ok (e.a, none) ∧
    evalItems [.starB] e = .ok (e.b.getD [], none) := by
  refine ⟨?_, ?_, ?_⟩ <;> simp [evalItems, evalItemsFrom, bind, Except.bind, pure, Except.pure]

/-- aN / a[N] is the N-th field, None when the record is shorter -/
theorem C01_field_or_none (r : Row) (i : Nat) :
    safeGet r i = (if h : i < r.length then r[i] else Val.none) := by
  unfold safeGet
  split
  · rename_i h; simp [List.getD_eq_getElem?_getD, h]
  · rename_i h; simp [List.getD_eq_getElem?_getD, Nat.not_lt.mp h]

/-- `* EXCEPT cols` keeps exactly the fields whose index is not listed, in order -/
theorem C01_except_drops_exactly (src : Row) (cols : List Nat) :
    selectExcept src cols = (src.zipIdx.filter (fun p => !cols.contains p.2)).map (·.1) := rfl

/-- only one UNNEST per query: the second one is refused as soon as it is reached -/
theorem C01_second_unnest_refused (f g : Ex (List Atom)) (e : Env) (l1 l2 : List Atom) (h1 : f e = .ok l1) (h2 : g e = .ok l2) :
    evalItems [.unnest f, .unnest g] e = .error .unnestTwice := by
  simp [evalItems, evalItemsFrom, h1, h2, bind, Except.bind, pure, Except.pure]

/-! non-vacuity: a ragged table, a WHERE, a star and an UNNEST -/
example :
    let q : SemQuery := { items := [.expr (Expr.a 1).eval, .unnest (fun _ => .ok [.str ['x'], .str ['y']]), .starA],
                          where_ := some (Expr.ne (.a 0) (.lit (.str ['n']))).evalBool }
    (run q [[.str ['k'], .str ['v']], [.str ['n'], .str ['z']], [.str ['m']]] []).rows =
      [[.str ['v'], .str ['x'], .str ['k'], .str ['v']], [.str ['v'], .str ['y'], .str ['k'], .str ['v']],
       [Val.none, .str ['x'], .str ['m']], [Val.none, .str ['y'], .str ['m']]] := by
  decide

end Rbql
