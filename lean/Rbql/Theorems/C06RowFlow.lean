/-
  C06 (row flow) — soundness of the may-alias check of `Model/RowFlow.lean`: if `RowFlow.check` passes, NO program made of
  the flow's statements (any order, any repetition) modifies an input object or hands one to a writer.
-/
import Rbql.Proofs.RowFlowSound
namespace Rbql

/-- MAIN: a flow that passes the check never modifies an input object and never hands one to a writer -/
theorem C06_row_flow_sound (f : RowFlow) (hcheck : f.check = true)
    (st0 : MState) (inputRefs : List Ref) (hinit : InitOk f st0 inputRefs)
    (prog : List FlowStmt) (hprog : ∀ s ∈ prog, f.allows s) :
    let st := execAll st0 prog
    (∀ r ∈ inputRefs, st.heap r = st0.heap r) ∧          -- no input object is ever modified
    (∀ r ∈ st.written, r ∉ inputRefs) := by              -- no input object is ever handed to a writer
  obtain ⟨hS, hm, hw⟩ := (RowFlow.check_iff f).mp hcheck
  exact rowflow_sound_of_closed f f.mayInput hS hm hw st0 inputRefs hinit prog hprog

/-- the engine-shaped flow passes the check, and the main theorem applies to a concrete 6-statement program on a concrete
state (alias `*`, fresh output row mutated and written, UPDATE on a copy) -/
theorem C06_row_flow_check_complete_example :
    c06Flow.check = true ∧ c06Flow.mayInput = ["record_a", "record_b", "star_fields"] ∧
    InitOk c06Flow c06State0 [0, 1] ∧ (∀ s ∈ c06Prog, c06Flow.allows s) ∧ c06Prog.length = 6 ∧
    ((∀ r ∈ [0, 1], (execAll c06State0 c06Prog).heap r = c06State0.heap r) ∧
      (∀ r ∈ (execAll c06State0 c06Prog).written, r ∉ [0, 1])) ∧
    -- and the program did do something: a row was written, the copy was updated, `star_fields` IS the input object
    (execAll c06State0 c06Prog).written = [2] ∧ (execAll c06State0 c06Prog).heap 2 = [7] ∧
    (execAll c06State0 c06Prog).heap 3 = [1, 9, 3] ∧ (execAll c06State0 c06Prog).env "star_fields" = some 0 := by
  have hc : c06Flow.check = true := by decide
  have hi := c06State0_initOk c06Flow rfl
  have hp : ∀ s ∈ c06Prog, c06Flow.allows s := by decide
  exact ⟨hc, by decide, hi, hp, rfl, C06_row_flow_sound c06Flow hc c06State0 [0, 1] hi c06Prog hp,
    by decide, by decide, by decide, by decide⟩

/-- seeded change "UPDATE writes into the caller's row" (`up_fields = record_a`): the check fails, and an allowed program
on an admissible state DOES modify the input object 0 -/
theorem C06_row_flow_alias_update_counterexample :
    c06AliasUpdateFlow.check = false ∧
    InitOk c06AliasUpdateFlow c06State0 [0, 1] ∧ (∀ s ∈ c06AliasUpdateProg, c06AliasUpdateFlow.allows s) ∧
    c06State0.heap 0 = [1, 2, 3] ∧ (execAll c06State0 c06AliasUpdateProg).heap 0 = [99, 2, 3] ∧
    ¬ (∀ r ∈ [0, 1], (execAll c06State0 c06AliasUpdateProg).heap r = c06State0.heap r) := by
  refine ⟨by decide, c06State0_initOk _ rfl, by decide, by decide, by decide, ?_⟩
  intro h
  exact absurd (h 0 (by decide)) (by decide)

/-- `out_fields` aliases `star_fields` aliases `record_a` and is written: the check fails, and an allowed program hands the
input object 0 to the writer -/
theorem C06_row_flow_written_alias_counterexample :
    c06WrittenAliasFlow.check = false ∧
    InitOk c06WrittenAliasFlow c06State0 [0, 1] ∧ (∀ s ∈ c06WrittenAliasProg, c06WrittenAliasFlow.allows s) ∧
    (execAll c06State0 c06WrittenAliasProg).written = [0] ∧
    ¬ (∀ r ∈ (execAll c06State0 c06WrittenAliasProg).written, r ∉ [0, 1]) := by
  refine ⟨by decide, c06State0_initOk _ rfl, by decide, by decide, ?_⟩
  intro h
  exact h 0 (by decide) (by decide)

/-- the closedness conjunct of the check is never the one that fails: `binds.length` rounds always reach the fixpoint, so
`check` is exactly "no mutated and no written name may denote an input object" -/
theorem C06_row_flow_mayInput_closed (f : RowFlow) : f.closed f.mayInput = true :=
  (f.closed_iff _).mpr f.mayInput_closed

/-- `mayInput` is the LEAST set containing the inputs and closed under the alias bindings -/
theorem C06_row_flow_mayInput_least (f : RowFlow) (S : List String) (hS : f.closed S = true) : ∀ x ∈ f.mayInput, x ∈ S := by
  have h := (f.closed_iff S).mp hS
  exact f.closure_least S h.alias _ _ h.inputs

/-- the check is monotone: a flow with fewer inputs / bindings / mutated names / written names than one that passes, passes -/
theorem C06_row_flow_check_monotone (f g : RowFlow)
    (hin : ∀ x ∈ g.inputs, x ∈ f.inputs) (hb : ∀ b ∈ g.binds, b ∈ f.binds)
    (hm : ∀ x ∈ g.mutated, x ∈ f.mutated) (hw : ∀ x ∈ g.written, x ∈ f.written)
    (hf : f.check = true) : g.check = true :=
  RowFlow.check_mono f g hin hb hm hw hf

/-- removing one binding keeps the check -/
theorem C06_row_flow_check_erase_bind (f : RowFlow) (b : String × BindKind × String) (hf : f.check = true) :
    { f with binds := f.binds.erase b }.check = true :=
  C06_row_flow_check_monotone f _ (fun _ h => h) (fun _ h => List.mem_of_mem_erase h) (fun _ h => h) (fun _ h => h) hf

/-- removing one mutated name keeps the check -/
theorem C06_row_flow_check_erase_mutated (f : RowFlow) (x : String) (hf : f.check = true) :
    { f with mutated := f.mutated.erase x }.check = true :=
  C06_row_flow_check_monotone f _ (fun _ h => h) (fun _ h => h) (fun _ h => List.mem_of_mem_erase h) (fun _ h => h) hf

/-- removing one written name keeps the check -/
theorem C06_row_flow_check_erase_written (f : RowFlow) (x : String) (hf : f.check = true) :
    { f with written := f.written.erase x }.check = true :=
  C06_row_flow_check_monotone f _ (fun _ h => h) (fun _ h => h) (fun _ h => h) (fun _ h => List.mem_of_mem_erase h) hf

/-- non-vacuity of monotonicity: dropping the UPDATE copy from the engine-shaped flow -/
example : { c06Flow with binds := c06Flow.binds.erase ("up_fields", .copy, "record_a") }.check = true :=
  C06_row_flow_check_erase_bind c06Flow _ (by decide)

/-- ADDING is not harmless: the alias-update flow only adds one alias binding to a passing flow's bindings -/
example : (∀ b ∈ c06Flow.binds.erase ("up_fields", .copy, "record_a"), b ∈ c06AliasUpdateFlow.binds) ∧
    c06AliasUpdateFlow.check = false := by decide

end Rbql
