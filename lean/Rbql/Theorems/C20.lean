/-
  C20 — The JavaScript stream reader is independent of chunk boundaries.
-/
import Rbql.Proofs.ReaderJsLines
namespace Rbql

/-- Whatever the partition of the decoded text into chunks, the stream reader passes exactly the
physical lines of the whole text to `process_line` (a CRLF split across two chunks is one break, a
final unterminated line is a line). `GoodPieces`: an empty decoded chunk (a chunk that ended inside
a multi-byte character) is not directly followed by a chunk starting with LF. -/
theorem C20_lines_chunk_independent (pieces : List Str) (h : GoodPieces pieces) :
    jsStreamLines pieces = linesSpec pieces.flatten :=
  jsStreamLines_eq_linesSpec pieces h

/-- the bulk path sees the same lines -/
theorem C20_bulk_lines (text : Str) : jsBulkLines text = linesSpec text :=
  jsBulkLines_eq_linesSpec text

/-- stream reading = bulk reading, as whole reader states (records produced, counters, BOM flag,
defective line, field-count statistics, stored error), for every partition -/
theorem C20_stream_eq_bulk (c : RCfg) (pieces : List Str) (h : GoodPieces pieces) :
    jsStream c pieces = jsBulk c pieces.flatten :=
  stream_eq_bulk c pieces h

/-- hence records, header, warnings and error delivered to the engine do not depend on the chunking:
two partitions of the same text give the same result -/
theorem C20_records_chunk_independent (c : RCfg) (hasHeader : Bool) (modifier : Option Bool)
    (p1 p2 : List Str) (h1 : GoodPieces p1) (h2 : GoodPieces p2) (hflat : p1.flatten = p2.flatten) :
    jsResult (jsStream c p1) hasHeader modifier = jsResult (jsStream c p2) hasHeader modifier := by
  rw [stream_eq_bulk c p1 h1, stream_eq_bulk c p2 h2, hflat]

/-- why the hypothesis is needed: an empty chunk between CR and LF would split the CRLF -/
theorem C20_empty_chunk_counterexample :
    jsStreamLines [[CR], [], [LF]] ≠ linesSpec [CR, LF] := by decide

/-! non-vacuity: a CRLF split across two chunks, a chunk boundary inside a line -/
example : GoodPieces [['a', CR], [LF, 'b'], ['c']] := by simp [GoodPieces]
example : jsStreamLines [['a', CR], [LF, 'b'], ['c']] = [['a'], ['b', 'c']] := by decide

end Rbql
