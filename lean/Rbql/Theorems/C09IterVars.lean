/-
  C09 (adapters leg) — `get_variables_map` of the four input adapters (`iteratorVariablesMap`, Model/Variables.lean).
  * the CSV adapters run the attribute pass BEFORE the dictionary pass, the list / pandas / sqlite adapters after it: the order does not
    matter for what a variable is bound to (only for the order of the generated init statements), and not for the error;
  * list (no width check), pandas and sqlite adapters with normalised names are the same function;
  * the named passes never touch a positional variable `a<n>` / `a[<n>]` (direct mode excepted: `C09_direct_name_wins_over_positional`).
-/
import Rbql.Proofs.IterVars
import Rbql.Theorems.UpdateVars
namespace Rbql
open UpdVars

/-! ## 1. the order of the attribute and dictionary passes is irrelevant -/

/-- CSV order (attribute pass first; `normalize` / `firstWidth` are ignored by that adapter) against the table order with normalised names
and no width check: when both succeed every variable has the same binding, and one fails iff the other fails, with the same error.
`names = none` (no header) is included. No hypothesis is needed: pass order can NOT matter, because the keys of the two passes
differ in their second character (`[` / `.`). -/
theorem C09_csv_pass_order_irrelevant (js : Bool) (query : Str) (pfx : Char) (names : Option (List Str)) (nrm : Bool) (fw : Option Nat) :
    (∀ mc mt, iteratorVariablesMap .csv js query pfx names nrm fw = .ok mc →
        tableVariablesMap js query pfx names true none = .ok mt → ∀ k, mc.get? k = mt.get? k) ∧
    (∀ e, iteratorVariablesMap .csv js query pfx names nrm fw = .error e ↔
        tableVariablesMap js query pfx names true none = .error e) :=
  csv_agrees_table js query pfx names nrm fw

/-- only the attribute pass can fail: the named passes fail exactly when an `a.name` of the query is not a column name, and the error
names the first such name in order of occurrence — in the CSV order and (by the previous theorem) in the table order -/
theorem C09_named_passes_fail_iff_unknown_attribute (js : Bool) (query : Str) (pfx : Char) (ns : List Str) (nrm : Bool) (fw : Option Nat)
    (e : TableVarErr) :
    (iteratorVariablesMap .csv js query pfx (some ns) nrm fw = .error e ↔
      ∃ n, (attrNames pfx 0 true query).find? (fun n => !ns.contains n) = some n ∧ e = .var (.columnNotFound n)) ∧
    (tableVariablesMap js query pfx (some ns) true none = .error e ↔
      ∃ n, (attrNames pfx 0 true query).find? (fun n => !ns.contains n) = some n ∧ e = .var (.columnNotFound n)) := by
  have h1 : iteratorVariablesMap .csv js query pfx (some ns) nrm fw = .error e ↔
      ∃ n, (attrNames pfx 0 true query).find? (fun n => !ns.contains n) = some n ∧ e = .var (.columnNotFound n) := by
    rw [csvVariablesMap_eq]
    exact csvNamed_error_iff js query pfx ns _ e
  exact ⟨h1, ((C09_csv_pass_order_irrelevant js query pfx (some ns) nrm fw).2 e).symm.trans h1⟩

/-- and they succeed exactly when every `a.name` of the query is a column name -/
theorem C09_named_passes_succeed_iff (js : Bool) (query : Str) (pfx : Char) (ns : List Str) (nrm : Bool) (fw : Option Nat) :
    ((∃ m, iteratorVariablesMap .csv js query pfx (some ns) nrm fw = .ok m) ↔ ∀ n ∈ attrNames pfx 0 true query, n ∈ ns) ∧
    ((∃ m, tableVariablesMap js query pfx (some ns) true none = .ok m) ↔ ∀ n ∈ attrNames pfx 0 true query, n ∈ ns) := by
  rw [← firstUnknownAttr_none_iff, csvVariablesMap_eq, tableVariablesMap_norm_eq, if_neg (by simp [widthBad])]
  unfold csvNamed tableNamed
  cases firstUnknownAttr query pfx ns <;> simp

/-! ## 2. the adapters agree -/

/-- list (no first record), pandas and sqlite adapters with normalised names are EQUAL (pandas ignores the width, sqlite also the
`normalize` flag), and the CSV adapter agrees with every adapter in the sense of `C09_csv_pass_order_irrelevant` -/
theorem C09_adapters_agree_on_bindings (js : Bool) (query : Str) (pfx : Char) (names : Option (List Str)) (nrm : Bool) (fw : Option Nat) :
    iteratorVariablesMap .pandas js query pfx names true fw = iteratorVariablesMap .table js query pfx names true none ∧
    iteratorVariablesMap .sqlite js query pfx names nrm fw = iteratorVariablesMap .table js query pfx names true none ∧
    (∀ kind mc mk, iteratorVariablesMap .csv js query pfx names nrm fw = .ok mc →
        iteratorVariablesMap kind js query pfx names true none = .ok mk → ∀ k, mc.get? k = mk.get? k) ∧
    (∀ kind e, iteratorVariablesMap .csv js query pfx names nrm fw = .error e ↔
        iteratorVariablesMap kind js query pfx names true none = .error e) := by
  have hcsv : iteratorVariablesMap .csv js query pfx names nrm fw = iteratorVariablesMap .csv js query pfx names true none := by
    cases names <;> rfl
  have h := C09_csv_pass_order_irrelevant js query pfx names nrm fw
  refine ⟨rfl, rfl, ?_, ?_⟩
  · intro kind mc mk hc hk
    cases kind with
    | csv => rw [hcsv, hk] at hc; cases hc; intro k; rfl
    | table => exact h.1 mc mk hc hk
    | pandas => exact h.1 mc mk hc hk
    | sqlite => exact h.1 mc mk hc hk
  · intro kind e
    cases kind with
    | csv => rw [hcsv]
    | table => exact h.2 e
    | pandas => exact h.2 e
    | sqlite => exact h.2 e

/-! ## 3. positional variables survive the named passes -/

/-- every adapter: a positional variable `a<n>` found by `parse_basic_variables` is still bound to column `n - 1`, to be initialised,
after the named passes — provided these are the normalised-name passes (`normalize = true`, or an adapter without direct mode, or no
header at all). In direct mode a column NAMED like a positional variable wins: that is `C09_direct_name_wins_over_positional`
(Theorems/C09Vars.lean), instantiated below as `C09_positional_direct_mode_counterexample`.
(`n ≥ 1` is implied: the scanner only yields `[1-9][0-9]*`.) -/
theorem C09_positional_variables_survive_named_passes (kind : IterKind) (js : Bool) (query : Str) (pfx : Char)
    (names : Option (List Str)) (normalize : Bool) (fw : Option Nat) (n : Nat) (m : VarMap)
    (hn : n ∈ basicVarNums (!js) pfx 0 0 query)
    (hnorm : normalize = true ∨ names = none ∨ kind = .csv ∨ kind = .sqlite)
    (hm : iteratorVariablesMap kind js query pfx names normalize fw = .ok m) :
    m.get? (pfx :: natStr n) = some { init := true, index := n - 1 } := by
  rw [iteratorVariablesMap_untouched kind js query pfx names normalize fw m _ (Or.inl (keyClass_basic pfx n)) hnorm hm]
  exact positionalVars_get_basic (!js) pfx query [] n hn

/-- the same for `a[<n>]` found by `parse_array_variables`: a dictionary key has a quote where the array key has a digit -/
theorem C09_array_variables_survive_named_passes (kind : IterKind) (js : Bool) (query : Str) (pfx : Char)
    (names : Option (List Str)) (normalize : Bool) (fw : Option Nat) (n : Nat) (m : VarMap)
    (hn : n ∈ arrayVarNums pfx 0 0 query)
    (hnorm : normalize = true ∨ names = none ∨ kind = .csv ∨ kind = .sqlite)
    (hm : iteratorVariablesMap kind js query pfx names normalize fw = .ok m) :
    m.get? ([pfx, '['] ++ natStr n ++ [']']) = some { init := true, index := n - 1 } := by
  rw [iteratorVariablesMap_untouched kind js query pfx names normalize fw m _ (Or.inr (keyClass_array pfx n)) hnorm hm]
  exact positionalVars_get_array (!js) pfx query [] n hn

/-- in terms of the text: `a<n>` occurs in the query as a basic variable (`OccursBasic`, Theorems/UpdateVars.lean) -/
theorem C09_positional_variable_occurring_survives (kind : IterKind) (js : Bool) (query : Str) (pfx : Char)
    (names : Option (List Str)) (normalize : Bool) (fw : Option Nat) (n : Nat) (m : VarMap)
    (hn : OccursBasic (!js) pfx n query)
    (hnorm : normalize = true ∨ names = none ∨ kind = .csv ∨ kind = .sqlite)
    (hm : iteratorVariablesMap kind js query pfx names normalize fw = .ok m) :
    m.get? (pfx :: natStr n) = some { init := true, index := n - 1 } :=
  C09_positional_variables_survive_named_passes kind js query pfx names normalize fw n m
    (C09_basic_vars_complete (!js) pfx query n hn) hnorm hm

/-- the hypothesis `hnorm` cannot be dropped: list adapter, direct mode, header `a2, a3, a1` — `a2` is column 0, not column 1 -/
theorem C09_positional_direct_mode_counterexample :
    2 ∈ basicVarNums true 'a' 0 0 "select a2, a1".toList ∧
    (iteratorVariablesMap .table false "select a2, a1".toList 'a' (some ["a2".toList, "a3".toList, "a1".toList]) false (some 3)).toOption.map
      (fun m => m.get? ('a' :: natStr 2)) = some (some { init := true, index := 0 }) := by decide

/-! ## 4. non-vacuity -/

-- `select a1, a["x y"], a.id` over the header `id`, `x y`: CSV order (Python port) …
example : iteratorVariablesMap .csv false iterQuery 'a' (some iterNames) true none =
    .ok [("a1".toList, ⟨true, 0⟩), ("a.id".toList, ⟨true, 0⟩),
         ("a[\"id\"]".toList, ⟨true, 0⟩), ("a['id']".toList, ⟨false, 0⟩),
         ("a[\"x y\"]".toList, ⟨true, 1⟩), ("a['x y']".toList, ⟨false, 1⟩)] := by decide
-- … and table order (with the width of the first record): the same bindings, `a.id` last
example : iteratorVariablesMap .table false iterQuery 'a' (some iterNames) true (some 2) =
    .ok [("a1".toList, ⟨true, 0⟩),
         ("a[\"id\"]".toList, ⟨true, 0⟩), ("a['id']".toList, ⟨false, 0⟩),
         ("a[\"x y\"]".toList, ⟨true, 1⟩), ("a['x y']".toList, ⟨false, 1⟩), ("a.id".toList, ⟨true, 0⟩)] := by decide
-- so the maps differ although (theorem 1) every look-up agrees
example : iteratorVariablesMap .csv false iterQuery 'a' (some iterNames) true none ≠
    iteratorVariablesMap .table false iterQuery 'a' (some iterNames) true none := by decide
-- the expected bindings, in both adapters and both ports
example : ∀ kind ∈ [IterKind.csv, .table, .pandas, .sqlite], ∀ js ∈ [false, true],
    (iteratorVariablesMap kind js iterQuery 'a' (some iterNames) true none).toOption.map
      (fun m => (m.get? "a1".toList, m.get? "a[\"x y\"]".toList, m.get? "a['x y']".toList, m.get? "a.id".toList, m.get? "a2".toList)) =
    some (some ⟨true, 0⟩, some ⟨true, 1⟩, some ⟨false, 1⟩, some ⟨true, 0⟩, none) := by decide
-- rbql.js also binds the back-tick spelling
example : (iteratorVariablesMap .csv true iterQuery 'a' (some iterNames) true none).toOption.map
    (fun m => m.get? "a[`x y`]".toList) = some (some ⟨false, 1⟩) := by decide
-- the attribute pass fails (`a.zz`) in both orders, with the same error
example : iteratorVariablesMap .csv false iterBadQuery 'a' (some iterNames) true none = .error (.var (.columnNotFound "zz".toList)) ∧
    iteratorVariablesMap .table false iterBadQuery 'a' (some iterNames) true none = .error (.var (.columnNotFound "zz".toList)) := by
  decide
-- the hypotheses of theorem 3 hold for `a1` (and `natStr 1` is the text `1`); those of the array version for `a[2]`
example : 1 ∈ basicVarNums true 'a' 0 0 iterQuery ∧ 'a' :: natStr 1 = "a1".toList := by decide
example : (iteratorVariablesMap .csv false iterQuery 'a' (some iterNames) false none).isOk = true := by decide
example (m : VarMap) (hm : iteratorVariablesMap .csv false iterQuery 'a' (some iterNames) false none = .ok m) :
    m.get? "a1".toList = some ⟨true, 0⟩ := by
  have h := C09_positional_variables_survive_named_passes .csv false iterQuery 'a' (some iterNames) false none 1 m
    (by decide) (Or.inr (Or.inr (Or.inl rfl))) hm
  rwa [show 'a' :: natStr 1 = "a1".toList by decide] at h
example : 2 ∈ arrayVarNums 'a' 0 0 "select a[2], a[\"x y\"], a.id".toList ∧
    (iteratorVariablesMap .sqlite true "select a[2], a[\"x y\"], a.id".toList 'a' (some iterNames) false none).toOption.map
      (fun m => m.get? (['a', '['] ++ natStr 2 ++ [']'])) = some (some ⟨true, 1⟩) := by decide
-- a header whose names look like dictionary / attribute / positional variables does not disturb `a1` either
example : (iteratorVariablesMap .csv false "select a1, a[\"a1\"], a.a1".toList 'a' (some ["x".toList, "a1".toList]) true none).toOption.map
    (fun m => (m.get? "a1".toList, m.get? "a[\"a1\"]".toList, m.get? "a.a1".toList)) =
    some (some ⟨true, 0⟩, some ⟨true, 1⟩, some ⟨true, 1⟩) := by decide

end Rbql
