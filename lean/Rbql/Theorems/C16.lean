/-
  C16 — Queries are isolated: consecutive and thread-interleaved runs do not interfere.
-/
import Rbql.Model.Isolation
namespace Rbql

theorem iter_succ' {σ : Type} (f : σ → σ) (n : Nat) (s : σ) : iter f (n + 1) s = f (iter f n s) := by
  induction n generalizing s with
  | zero => rfl
  | succ k ih => simp only [iter] at ih ⊢; exact ih (f s)

/-- Interleaving independence: for EVERY schedule, two machines with disjoint state end exactly where each
would end alone after as many steps as the schedule gave it (steps on disjoint components commute). -/
theorem C16_interleaving_independent {σ₁ σ₂ : Type} (f₁ : σ₁ → σ₁) (f₂ : σ₂ → σ₂) (sched : List Bool) (s₁ : σ₁) (s₂ : σ₂) :
    interleave f₁ f₂ sched (s₁, s₂) = (iter f₁ (sched.count true) s₁, iter f₂ (sched.count false) s₂) := by
  induction sched generalizing s₁ s₂ with
  | nil => rfl
  | cons b rest ih =>
    cases b with
    | true => simp only [interleave, ih, List.count_cons_self, List.count_cons_of_ne (by decide : true ≠ false)]; rfl
    | false => simp only [interleave, ih, List.count_cons_self, List.count_cons_of_ne (by decide : false ≠ true)]; rfl

/-- a finished query stays finished with the same outcome: extra scheduling steps change nothing -/
theorem qStep_done (q : SemQuery) (jm : JoinMap) (s : QState) (o : Except EngErr Sink) (h : s.out = some o) :
    qStep q jm s = s := by
  simp [qStep, h]

theorem iter_qStep_done (q : SemQuery) (jm : JoinMap) (n : Nat) (s : QState) (o : Except EngErr Sink) (h : s.out = some o) :
    iter (qStep q jm) n s = s := by
  induction n with
  | zero => rfl
  | succ k ih => simp only [iter, qStep_done q jm s o h, ih]

/-- the small-step machine computes what the main loop computes: after |input| + 1 steps the outcome is the
result of `mainLoop` followed by finishing the writers, or its error -/
theorem qSteps_eq_mainLoop (q : SemQuery) (jm : JoinMap) (A : Table) (nr : Nat) (st : LoopState) :
    (iter (qStep q jm) (A.length + 1) { rest := A, nr := nr, st := st }).out =
      some (match mainLoop q jm A nr st with
            | .ok (st', _) => .ok (finishAll st').getSink
            | .error (e, _, _) => .error e) := by
  induction A generalizing nr st with
  | nil =>
    by_cases hs : st.stop = true <;> simp [iter, qStep, mainLoop, hs]
  | cons r rest ih =>
    have e : iter (qStep q jm) ((r :: rest).length + 1) { rest := r :: rest, nr := nr, st := st } =
        iter (qStep q jm) (rest.length + 1) (qStep q jm { rest := r :: rest, nr := nr, st := st }) := rfl
    rw [e]
    unfold mainLoop
    by_cases hs : st.stop = true
    · have h1 : qStep q jm { rest := r :: rest, nr := nr, st := st } =
          { rest := r :: rest, nr := nr, st := st, out := some (.ok (finishAll st).getSink) } := by simp [qStep, hs]
      rw [h1, iter_qStep_done q jm _ _ _ rfl]
      simp [hs]
    · simp only [hs, Bool.false_eq_true, if_false]
      cases hstep : stepRecord q jm st (nr + 1) r with
      | error e =>
        have h1 : qStep q jm { rest := r :: rest, nr := nr, st := st } =
            { rest := r :: rest, nr := nr, st := st, out := some (.error e) } := by simp [qStep, hs, hstep]
        rw [h1, iter_qStep_done q jm _ _ _ rfl]
      | ok st' =>
        have h1 : qStep q jm { rest := r :: rest, nr := nr, st := st } = { rest := rest, nr := nr + 1, st := st' } := by
          simp [qStep, hs, hstep]
        rw [h1, ih (nr + 1) st']

/-- two queries interleaved at every record pull, under ANY schedule that gives each at least |input| + 1 steps,
both end with the outcome of their solo run -/
theorem C16_interleaved_queries_equal_solo (q₁ q₂ : SemQuery) (jm₁ jm₂ : JoinMap) (A₁ A₂ : Table) (sched : List Bool)
    (h₁ : A₁.length + 1 ≤ sched.count true) (h₂ : A₂.length + 1 ≤ sched.count false) :
    let r := interleave (qStep q₁ jm₁) (qStep q₂ jm₂) sched (qInit q₁ A₁, qInit q₂ A₂)
    r.1.out = (iter (qStep q₁ jm₁) (A₁.length + 1) (qInit q₁ A₁)).out ∧
    r.2.out = (iter (qStep q₂ jm₂) (A₂.length + 1) (qInit q₂ A₂)).out := by
  intro r
  have hr : r = (iter (qStep q₁ jm₁) (sched.count true) (qInit q₁ A₁), iter (qStep q₂ jm₂) (sched.count false) (qInit q₂ A₂)) :=
    C16_interleaving_independent _ _ sched _ _
  have key : ∀ (q : SemQuery) (jm : JoinMap) (A : Table) (n : Nat), A.length + 1 ≤ n →
      (iter (qStep q jm) n (qInit q A)).out = (iter (qStep q jm) (A.length + 1) (qInit q A)).out := by
    intro q jm A n hn
    obtain ⟨k, rfl⟩ : ∃ k, n = (A.length + 1) + k := ⟨n - (A.length + 1), by omega⟩
    have hsplit : ∀ (m k : Nat) (s : QState), iter (qStep q jm) (m + k) s = iter (qStep q jm) k (iter (qStep q jm) m s) := by
      intro m
      induction m with
      | zero => intro k s; simp [iter]
      | succ m ihm => intro k s; rw [Nat.succ_add]; simp only [iter]; exact ihm k _
    rw [hsplit]
    have hdone := qSteps_eq_mainLoop q jm A 0 { chain := buildChain q {} }
    have : (iter (qStep q jm) (A.length + 1) (qInit q A)).out = some _ := hdone
    rw [iter_qStep_done q jm k _ _ this]
  rw [hr]
  exact ⟨key q₁ jm₁ A₁ _ h₁, key q₂ jm₂ A₂ _ h₂⟩

/-- history independence: a query's outcome is a function of its own inputs only, so running it after any
sequence of other queries (each starting from its own fresh state) gives the outcome of the fresh run -/
theorem C16_history_independent (history : List (SemQuery × Table × Table)) (q : SemQuery) (A B : Table) :
    ((history ++ [(q, A, B)]).map (fun p => (run p.1 p.2.1 p.2.2).rows)).getLast? = some (run q A B).rows := by
  simp

end Rbql

namespace Rbql

/-- iterating a framed step never changes the shared state, and acts on the own state as the step with that shared state fixed -/
theorem iter_framed {γ σ : Type} (f : γ × σ → γ × σ) (hf : Frames f) (n : Nat) (g : γ) (s : σ) :
    iter f n (g, s) = (g, iter (fun x => (f (g, x)).2) n s) := by
  induction n generalizing s with
  | zero => rfl
  | succ k ih =>
    simp only [iter]
    have h1 : f (g, s) = (g, (f (g, s)).2) := by
      have := hf g s
      exact Prod.ext this rfl
    rw [h1, ih]

/-- **Isolation from the frame condition.** Two machines share module-level state `g`. If neither step ever changes it (the frame
condition — for the real engine: what the regenerated footprint obligation `C16_no_shared_writes` says about the source), then under
EVERY schedule each machine ends exactly where it ends running alone from the same `g`, and `g` is unchanged.  Unlike
`C16_interleaving_independent` the steps here may READ the shared state; only writing is excluded. -/
theorem C16_frame_implies_independence {γ σ₁ σ₂ : Type} (f₁ : γ × σ₁ → γ × σ₁) (f₂ : γ × σ₂ → γ × σ₂)
    (h₁ : Frames f₁) (h₂ : Frames f₂) (sched : List Bool) (g : γ) (s₁ : σ₁) (s₂ : σ₂) :
    interleaveShared f₁ f₂ sched (g, s₁, s₂) =
      (g, (iter f₁ (sched.count true) (g, s₁)).2, (iter f₂ (sched.count false) (g, s₂)).2) := by
  induction sched generalizing s₁ s₂ with
  | nil => rfl
  | cons b rest ih =>
    cases b with
    | true =>
      simp only [interleaveShared, List.count_cons_self, List.count_cons_of_ne (by decide : true ≠ false)]
      rw [h₁ g s₁, ih]
      have e : f₁ (g, s₁) = (g, (f₁ (g, s₁)).2) := Prod.ext (h₁ g s₁) rfl
      simp only [iter]
      rw [← e]
    | false =>
      simp only [interleaveShared, List.count_cons_self, List.count_cons_of_ne (by decide : false ≠ true)]
      rw [h₂ g s₂, ih]
      have e : f₂ (g, s₂) = (g, (f₂ (g, s₂)).2) := Prod.ext (h₂ g s₂) rfl
      simp only [iter]
      rw [← e]

/-- the engine's own steps are framed: `qStep` does not mention shared state at all -/
theorem C16_engine_steps_are_framed {γ : Type} (q : SemQuery) (jm : JoinMap) : Frames (liftShared (γ := γ) (qStep q jm)) := by
  intro g s; rfl

/-- two real queries over ANY shared state, under ANY schedule that lets both finish: each outcome is the solo outcome -/
theorem C16_interleaved_queries_with_shared_state {γ : Type} (g : γ) (q₁ q₂ : SemQuery) (jm₁ jm₂ : JoinMap) (A₁ A₂ : Table) (sched : List Bool)
    (h₁ : A₁.length + 1 ≤ sched.count true) (h₂ : A₂.length + 1 ≤ sched.count false) :
    let r := interleaveShared (liftShared (qStep q₁ jm₁)) (liftShared (qStep q₂ jm₂)) sched (g, qInit q₁ A₁, qInit q₂ A₂)
    r.1 = g ∧
    r.2.1.out = (iter (qStep q₁ jm₁) (A₁.length + 1) (qInit q₁ A₁)).out ∧
    r.2.2.out = (iter (qStep q₂ jm₂) (A₂.length + 1) (qInit q₂ A₂)).out := by
  intro r
  have hr := C16_frame_implies_independence (liftShared (qStep q₁ jm₁)) (liftShared (qStep q₂ jm₂))
    (C16_engine_steps_are_framed q₁ jm₁) (C16_engine_steps_are_framed q₂ jm₂) sched g (qInit q₁ A₁) (qInit q₂ A₂)
  have hl : ∀ (q : SemQuery) (jm : JoinMap) (n : Nat) (s : QState), (iter (liftShared (γ := γ) (qStep q jm)) n (g, s)).2 = iter (qStep q jm) n s := by
    intro q jm n
    induction n with
    | zero => intro s; rfl
    | succ k ih => intro s; simp only [iter, liftShared]; exact ih _
  have base := C16_interleaved_queries_equal_solo q₁ q₂ jm₁ jm₂ A₁ A₂ sched h₁ h₂
  have hi := C16_interleaving_independent (qStep q₁ jm₁) (qStep q₂ jm₂) sched (qInit q₁ A₁) (qInit q₂ A₂)
  simp only [hi] at base
  refine ⟨by rw [show r = _ from hr], ?_, ?_⟩
  · rw [show r = _ from hr]; simp only [hl]; exact base.1
  · rw [show r = _ from hr]; simp only [hl]; exact base.2

/-- **The frame condition is necessary.** A step that records a decision in shared state (the shape of the seeded change "one
module-level NumHandler for AVG / VARIANCE") makes the second query's result depend on the schedule: alone it outputs its own
values `[false, false]`; scheduled after one step of the first query (whose first value is `true`) it outputs `[true, true]`. -/
theorem C16_shared_write_counterexample :
    (iter sharedHandlerStep 2 (none, ([false, false], []))).2.2 = [false, false] ∧
    (interleaveShared sharedHandlerStep sharedHandlerStep [true, false, false] (none, ([true], []), ([false, false], []))).2.2.2 = [true, true] ∧
    ¬ Frames sharedHandlerStep := by
  refine ⟨by decide, by decide, ?_⟩
  intro h
  have := h none ([true], [])
  simp [sharedHandlerStep] at this

/-- … and history dependence for the same step: run after a query that saw `true`, the query differs from its fresh run -/
theorem C16_shared_write_history_counterexample :
    (iter sharedHandlerStep 2 ((iter sharedHandlerStep 1 (none, ([true], []))).1, ([false, false], []))).2.2 = [true, true] ∧
    (iter sharedHandlerStep 2 (none, ([false, false], []))).2.2 = [false, false] := by
  decide

end Rbql
