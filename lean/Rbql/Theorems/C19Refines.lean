/-
  C19 — the rbql-js engine model (`runJs`) refines the reference engine model (`run`): same output records, same error,
  same number of records pulled, same warnings, for a writer that never refuses.
  Helper lemmas: Proofs/EngineJsRefines.lean (simulation), Proofs/EngineJsSort.lean (JSON texts, stable_compare, compare_key_arrays).
-/
import Rbql.Proofs.EngineJsRefines
import Rbql.Proofs.EngineJsSort
namespace Rbql

/-! ### INSTANTIATION POINT: the three facts about JSON texts and the JS comparison functions
(`jsonRow_injective_of`, `jsSortEntries_eq_sortEntries`, `jsGroupOrder_eq` of Proofs/EngineJsSort.lean) are plugged into
`runJs_eq_run_of` here and nowhere else. -/

/-- the engines agree as whole results (sink with all its counters included), for any writer that never refuses -/
theorem C19_js_engine_equals_reference (q : SemQuery) (A B : Table) (sink : Sink) (hsink : sink.refuseFrom = none)
    (H : JsHyps q A B sink) : runJs q A B sink = run q A B sink :=
  runJs_eq_run_of
    (fun r1 r2 h => jsonRow_injective_of r1 r2 H.hnum h)
    jsSortEntries_eq_sortEntries
    jsGroupOrder_eq
    q A B sink hsink
    (fun js h => by rw [H.hjoin js h])
    ⟨H.hsortLen, H.hsort⟩ H.hgroup

/-! ### end of the instantiation point -/

theorem C19_js_engine_refines_reference (q : SemQuery) (A B : Table) (H : JsHyps q A B) :
    (runJs q A B {}).rows = (run q A B {}).rows ∧ (runJs q A B {}).error = (run q A B {}).error ∧
    (runJs q A B {}).pulled = (run q A B {}).pulled ∧ (runJs q A B {}).warnA = (run q A B {}).warnA ∧
    (runJs q A B {}).warnB = (run q A B {}).warnB := by
  rw [C19_js_engine_equals_reference q A B {} rfl H]
  exact ⟨rfl, rfl, rfl, rfl, rfl⟩

/-- the same for any writer that never refuses -/
theorem C19_js_engine_refines_reference_sink (q : SemQuery) (A B : Table) (sink : Sink) (hsink : sink.refuseFrom = none)
    (H : JsHyps q A B sink) :
    (runJs q A B sink).rows = (run q A B sink).rows ∧ (runJs q A B sink).error = (run q A B sink).error ∧
    (runJs q A B sink).pulled = (run q A B sink).pulled ∧ (runJs q A B sink).warnA = (run q A B sink).warnA ∧
    (runJs q A B sink).warnB = (run q A B sink).warnB := by
  rw [C19_js_engine_equals_reference q A B sink hsink H]
  exact ⟨rfl, rfl, rfl, rfl, rfl⟩

/-! ### sufficient conditions for the hypotheses
(these also use `jsNumRepr_injective` and `jsUniformKeys_agree` of Proofs/EngineJsSort.lean) -/

/-- a query without ORDER BY and GROUP BY (any WHERE, JOIN, DISTINCT, DISTINCT COUNT, TOP, UNNEST, aggregates without GROUP BY,
UPDATE): the engines agree unconditionally -/
theorem C19_js_engine_equals_reference_plain (q : SemQuery) (A B : Table) (sink : Sink) (hsink : sink.refuseFrom = none)
    (ho : q.orderBy = none) (hg : q.groupBy = none)
    (hjoin : ∀ js, q.join = some js → js.lhs.length = js.rhs.length) : runJs q A B sink = run q A B sink :=
  C19_js_engine_equals_reference q A B sink hsink (JsHyps.of_plain q A B sink jsNumRepr_injective ho hg hjoin)

/-- a decidable condition on the keys of the run: position by position the ORDER BY keys (GROUP BY keys) are all numbers or all
strings of the Basic Multilingual Plane -/
theorem C19_js_engine_equals_reference_uniform (q : SemQuery) (A B : Table) (sink : Sink) (hsink : sink.refuseFrom = none)
    (n g : Nat) (hs : jsUniformKeys n (refSortKeys q A B sink) = true) (hg : jsUniformKeys g (refGroupKeys q A B sink) = true)
    (hjoin : ∀ js, q.join = some js → js.lhs.length = js.rhs.length) : runJs q A B sink = run q A B sink := by
  refine C19_js_engine_equals_reference q A B sink hsink ⟨jsNumRepr_injective, ?_, ?_, ?_, hjoin⟩
  · intro k1 h1 k2 h2
    simp only [jsUniformKeys, Bool.and_eq_true, List.all_eq_true, beq_iff_eq] at hs
    rw [(hs.1 k1 h1).1, (hs.1 k2 h2).1]
  · exact fun k1 h1 k2 h2 => (jsUniformKeys_agree n _ hs k1 h1 k2 h2).1
  · exact fun k1 h1 k2 h2 => (jsUniformKeys_agree g _ hg k1 h1 k2 h2).2

/-- the query-level form: the comparison functions agree on the values the ORDER BY / GROUP BY expressions can take on the
records of `A` (joined with a record of `B` or the null record) -/
theorem C19_js_engine_equals_reference_of_query (q : SemQuery) (A B : Table) (sink : Sink) (hsink : sink.refuseFrom = none)
    (hsortLen : ∀ k1 k2, SortKeyOf q A B k1 → SortKeyOf q A B k2 → k1.length = k2.length)
    (hsort : ∀ k1 k2, SortKeyOf q A B k1 → SortKeyOf q A B k2 → (jsStableCompare k1 k2 != .gt) = keyLe k1 k2)
    (hgroup : ∀ k1 k2, GroupKeyOf q A B k1 → GroupKeyOf q A B k2 → (jsCompareKeyArrays k1 k2 != .gt) = keyLe k1 k2)
    (hjoin : ∀ js, q.join = some js → js.lhs.length = js.rhs.length) : runJs q A B sink = run q A B sink :=
  C19_js_engine_equals_reference q A B sink hsink
    (JsHyps.of_query q A B sink jsNumRepr_injective hsortLen hsort hgroup hjoin)

/-! ### the well-formedness clause `hjoin` is needed -/

def c19CxQuery : SemQuery :=
  { items := [.star], join := some { kind := .inner, lhs := [some 0], rhs := [some 0, some 1] } }
def c19CxA : Table := [[Val.str "[\"x\",\"y\"]".toList]]
def c19CxB : Table := [[Val.str "x".toList, Val.str "y".toList]]

/-- one key column on the left, two on the right (no parser produces this): rbql.js looks the raw value `["x","y"]` (a string)
up in a map keyed by JSON texts and finds the record `x,y`; the reference finds nothing -/
theorem C19_js_join_arity_counterexample :
    (runJs c19CxQuery c19CxA c19CxB {}).rows ≠ (run c19CxQuery c19CxA c19CxB {}).rows ∧
    refSortKeys c19CxQuery c19CxA c19CxB = [] ∧ refGroupKeys c19CxQuery c19CxA c19CxB = [] := by decide

/-! ### the restriction to a writer that never refuses is needed -/

/-- `select top 2 *` into a writer that refuses every record: the reference stops after the first record; rbql.js's TopWriter
does not look at the answer and pulls records until TOP is reached -/
theorem C19_js_refusing_writer_counterexample :
    (runJs { items := [.star], top := some 2 } [[Val.num 1], [Val.num 2], [Val.num 3]] [] { refuseFrom := some 1 }).pulled = 3 ∧
    (run { items := [.star], top := some 2 } [[Val.num 1], [Val.num 2], [Val.num 3]] [] { refuseFrom := some 1 }).pulled = 1 := by
  decide

/-! ### non-vacuity -/

/-- `select distinct a1, b2 from A join B on a1 == b1 and a2 == b3 order by a2 desc` -/
def c19Query : SemQuery :=
  { items := [.expr (fun e => .ok (safeGet e.a 0)), .expr (fun e => .ok (safeGet (e.b.getD []) 1))],
    join := some { kind := .inner, lhs := [some 0, some 1], rhs := [some 0, some 2] },
    orderBy := some (fun e => .ok [safeGet e.a 1]), desc := true, distinct := .yes }
def c19A : Table := [[Val.str "k".toList, Val.num 3], [Val.str "k".toList, Val.num 1], [Val.str "z".toList, Val.num 1], [Val.str "k".toList, Val.num 3]]
def c19B : Table := [[Val.str "k".toList, Val.str "p".toList, Val.num 3], [Val.str "k".toList, Val.str "q".toList, Val.num 1],
  [Val.str "k".toList, Val.str "r".toList, Val.num 3]]

example : JsHyps c19Query c19A c19B :=
  ⟨jsNumRepr_injective, by decide, by decide, by decide, by decide⟩

/-- the hypotheses speak about five sort keys here (two partners for the first and the last record, one for the second) -/
example : refSortKeys c19Query c19A c19B = [[Val.num 3], [Val.num 3], [Val.num 1], [Val.num 3], [Val.num 3]] := by decide

example : jsUniformKeys 1 (refSortKeys c19Query c19A c19B) = true := by decide

/-- `select a1, COUNT(*) from A group by a1` -/
def c19AggQuery : SemQuery :=
  { items := [.expr (fun e => .ok (safeGet e.a 0)), .agg .count (fun _ => .ok (Val.num 1))],
    groupBy := some (fun e => .ok [safeGet e.a 0]) }

example : JsHyps c19AggQuery c19A [] :=
  ⟨jsNumRepr_injective, by decide, by decide, by decide, by decide⟩

example : refGroupKeys c19AggQuery c19A [] = [[Val.str "k".toList], [Val.str "z".toList]] := by decide

example : jsUniformKeys 1 (refGroupKeys c19AggQuery c19A []) = true := by decide

/-- `update set a2 = NR` over `left join B on a1 == b1`, no ORDER BY / GROUP BY: nothing to assume -/
def c19UpdQuery : SemQuery :=
  { isUpdate := true, assigns := [(1, fun e => .ok (Val.nat e.nr))],
    join := some { kind := .left, lhs := [some 0], rhs := [some 0] } }

example : runJs c19UpdQuery c19A c19B = run c19UpdQuery c19A c19B :=
  C19_js_engine_equals_reference_plain c19UpdQuery c19A c19B {} rfl rfl rfl (by decide)


/-- `select * order by NR desc`: the hypotheses hold whatever the tables are -/
def c19NrQuery : SemQuery := { items := [.star], orderBy := some (fun e => .ok [Val.nat e.nr]), desc := true }

theorem c19NrQuery_keys (A B : Table) (k : List Val) (h : SortKeyOf c19NrQuery A B k) : ∃ n : Nat, k = [Val.nat n] := by
  obtain ⟨o, e, ho, _, hk⟩ := h
  simp only [c19NrQuery, Option.some.injEq] at ho
  subst ho
  simp only [Except.ok.injEq] at hk
  exact ⟨e.nr, hk.symm⟩

example (A B : Table) : runJs c19NrQuery A B = run c19NrQuery A B := by
  refine C19_js_engine_equals_reference_of_query c19NrQuery A B {} rfl ?_ ?_ ?_ (fun js h => by cases h)
  · intro k1 k2 h1 h2
    obtain ⟨n1, rfl⟩ := c19NrQuery_keys A B k1 h1
    obtain ⟨n2, rfl⟩ := c19NrQuery_keys A B k2 h2
    rfl
  · intro k1 k2 h1 h2
    obtain ⟨n1, rfl⟩ := c19NrQuery_keys A B k1 h1
    obtain ⟨n2, rfl⟩ := c19NrQuery_keys A B k2 h2
    exact (jsUniformKeys_agree 1 [[Val.nat n1], [Val.nat n2]] (by simp [jsUniformKeys, jsKeyKind, Val.nat])
      _ List.mem_cons_self _ (List.mem_cons_of_mem _ List.mem_cons_self)).1
  · rintro k1 k2 (⟨g, e, h, _⟩ | ⟨_, rfl⟩) (⟨g', e', h', _⟩ | ⟨_, rfl⟩)
    · cases h
    · cases h
    · cases h'
    · decide

end Rbql
