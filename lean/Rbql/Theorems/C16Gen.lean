/-
  C16 — the SOURCE-DERIVED obligations: `Generated/SharedState.lean` is regenerated from /repo's rbql-py on every run by
  tools/shared_state_scan.py; these theorems must still check against it (built and audited as a file of their own).
-/
import Rbql.Generated.SharedState
namespace Rbql

/-- GENERATED OBLIGATION (regenerated from rbql_engine.py on every run): no function reachable from
query() / query_table() stores to or mutates a module-level mutable or `global` name, no class-level mutable
attribute, no mutable default argument — the source-level support for "each query owns its state" -/
theorem C16_no_shared_writes :
    Generated.writtenOnQueryPath = [] ∧ Generated.classLevelMutable = [] ∧ Generated.mutableDefaults = [] ∧
    Generated.sharedInstancesUsed = [] := by
  decide

/-- GENERATED OBLIGATION for the FRONT-ENDS (rbql_csv / rbql_pandas / rbql_sqlite / rbql_main, regenerated on every run): nothing reachable
from query_csv, query_dataframe, query_sqlite_to_csv or the command line's run_with_* / interactive loop writes module-level state — no
cache of resolved table paths, no memoising decorator, no function attribute used as storage, no class-level or default-argument container -/
theorem C16_frontends_no_shared_writes :
    Generated.frontendWrittenOnQueryPath = [] ∧ Generated.frontendClassLevelMutable = [] ∧ Generated.frontendMutableDefaults = [] ∧
    Generated.frontendSharedInstancesUsed = [] ∧ Generated.frontendCallerObjectsWritten = [] := by
  decide

end Rbql
