/-
  C04 — JOIN pairs each A record with exactly its key-equal B records.
-/
import Rbql.Proofs.RunSelect
import Rbql.Proofs.UpdateSpec
namespace Rbql

/-- The hash-join map is a refinement of filtering B by key: after a successful build, looking a key up
returns exactly the B records whose key fields all equal it, with their 1-based numbers, in B order
(`partnersSpec` is literally `B.zipIdx.filter (key-equal)`); the null-record width is the longest B record. -/
theorem C04_lookup_eq_filter (rhs : List (Option Nat)) (B : Table) (h : joinBError rhs B = none) :
    ∃ jm, JoinMap.build rhs B 0 {} = .ok jm ∧ jm.maxLen = maxWidth B ∧
      ∀ key, jm.get key = (partnersSpec rhs B key).map (fun p => (p.1, p.2.length, p.2)) :=
  joinMap_build_ok rhs B h

/-- INNER / JOIN: each A record is paired with every partner, in B order; no partner, no output -/
theorem C04_expand_inner (q : SemQuery) (B : Table) (js : JoinSpec) (hj : q.join = some js) (hk : js.kind = .inner)
    (nr : Nat) (recA : Row) (key : List Val) (hkey : lhsKey js.lhs nr recA = .ok key) :
    expandRecord q B nr recA =
      .ok ((partnersSpec js.rhs B key).map (fun p => { nr := nr, a := recA, bnr := some p.1, b := some p.2 })) := by
  simp [expandRecord, hj, hk, hkey, liftErr, bind, Except.bind]

/-- LEFT [OUTER]: an A record without partner is kept once, every b-field None -/
theorem C04_expand_left_unmatched (q : SemQuery) (B : Table) (js : JoinSpec) (hj : q.join = some js) (hk : js.kind = .left)
    (nr : Nat) (recA : Row) (key : List Val) (hkey : lhsKey js.lhs nr recA = .ok key)
    (hnone : partnersSpec js.rhs B key = []) :
    expandRecord q B nr recA =
      .ok [{ nr := nr, a := recA, bnr := none, b := some (List.replicate (nullWidth js B) Val.none) }] := by
  simp [expandRecord, hj, hk, hkey, hnone, liftErr, bind, Except.bind]

/-- the null record is as wide as the longest B record and at least as wide as the join header: with a
rectangular join table (every record as wide as the header, or no record at all) it is exactly as wide as
the header, so `b.*` always contributes one field per header name (C07) -/
theorem C04_null_width (js : JoinSpec) (B : Table) :
    maxWidth B ≤ nullWidth js B ∧ js.nullWidth ≤ nullWidth js B ∧
    ((∀ r ∈ B, r.length = js.nullWidth) → nullWidth js B = js.nullWidth) := by
  refine ⟨Nat.le_max_left _ _, Nat.le_max_right _ _, ?_⟩
  intro h
  have : ∀ (B : Table) (m : Nat), (∀ r ∈ B, r.length = js.nullWidth) → m ≤ js.nullWidth →
      B.foldl (fun m r => max m r.length) m ≤ js.nullWidth := by
    intro B
    induction B with
    | nil => intro m _ hm; simpa using hm
    | cons r rs ih =>
      intro m hB hm
      simp only [List.foldl_cons]
      apply ih _ (fun r' hr' => hB r' (by simp [hr']))
      have := hB r (by simp)
      omega
  have h0 := this B 0 h (Nat.zero_le _)
  unfold nullWidth maxWidth
  omega

theorem C04_left_null_fields_are_none (w i : Nat) : safeGet (List.replicate w Val.none) i = Val.none := by
  unfold safeGet
  by_cases h : i < w
  · simp [List.getD_eq_getElem?_getD, h]
  · simp [List.getD_eq_getElem?_getD, Nat.not_lt.mp h]

theorem C04_expand_left_matched (q : SemQuery) (B : Table) (js : JoinSpec) (hj : q.join = some js) (hk : js.kind = .left)
    (nr : Nat) (recA : Row) (key : List Val) (hkey : lhsKey js.lhs nr recA = .ok key)
    (hsome : partnersSpec js.rhs B key ≠ []) :
    expandRecord q B nr recA =
      .ok ((partnersSpec js.rhs B key).map (fun p => { nr := nr, a := recA, bnr := some p.1, b := some p.2 })) := by
  simp [expandRecord, hj, hk, hkey, hsome, liftErr, bind, Except.bind]

/-- STRICT LEFT fails (naming the record) unless there is exactly one partner -/
theorem C04_expand_strict (q : SemQuery) (B : Table) (js : JoinSpec) (hj : q.join = some js) (hk : js.kind = .strictLeft)
    (nr : Nat) (recA : Row) (key : List Val) (hkey : lhsKey js.lhs nr recA = .ok key)
    (hn : (partnersSpec js.rhs B key).length ≠ 1) :
    expandRecord q B nr recA = .error (.runtime nr none) := by
  simp [expandRecord, hj, hk, hkey, hn, liftErr, bind, Except.bind]

/-- WHERE, SELECT, ORDER BY, DISTINCT, TOP then see the paired records exactly as if A had been
expanded this way: the engine's result is the specification applied to `emissions`, which is defined
over `expandRecord` (A-major, B order) -/
theorem C04_downstream_sees_expansion (q : SemQuery) (A B : Table) (hsel : q.isUpdate = false) (hagg : q.isAgg = false)
    (hjb : ∀ js, q.join = some js → joinBError js.rhs B = none)
    (es : List (List Val × Row)) (hes : emissions q B A 0 = .ok es) :
    (run q A B).error = none ∧ (run q A B).rows = selectSpec q es :=
  let h := run_select_eq_spec q A B hsel hagg hjb es hes
  ⟨h.1, h.2.1⟩

/-- … and so does UPDATE -/
theorem C04_update_sees_expansion (q : SemQuery) (A B : Table) (hupd : q.isUpdate = true) (hg : q.groupBy = none)
    (hjb : ∀ js, q.join = some js → joinBError js.rhs B = none) :
    match updateSpec q B A 0 0 with
    | .ok rows => (run q A B).error = none ∧ (run q A B).rows = rows ∧ (run q A B).pulled = A.length
    | .error e => (run q A B).error = some e :=
  run_update_eq_spec q A B hupd hg hjb

/-- NR / bNR as key components: `none` in the key lists stands for the record number -/
theorem C04_record_number_keys (nr : Nat) (recA : Row) : lhsKey [none] nr recA = .ok [Val.nat nr] := by
  simp [lhsKey, List.mapM_cons, List.mapM_nil, bind, Except.bind, pure, Except.pure]

/-- a B record lacking a key field makes the build fail, naming that record and field -/
theorem C04_ragged_B_error (rhs : List (Option Nat)) (B : Table) (e : EngErr) (h : joinBError rhs B = some e) :
    JoinMap.build rhs B 0 {} = .error e :=
  joinMap_build_err rhs B e h

/-! non-vacuity: duplicate keys, B order, an unmatched record under LEFT JOIN -/
example : partnersSpec [some 0] [[.str ['k'], .str ['1']], [.str ['j']], [.str ['k'], .str ['2']]] [.str ['k']] =
    [(1, [.str ['k'], .str ['1']]), (3, [.str ['k'], .str ['2']])] := by decide

end Rbql
