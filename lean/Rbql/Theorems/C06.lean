/-
  C06 — No query ever modifies its sources (RBQL is non-destructive).
-/
import Rbql.Model.Sources
import Rbql.Model.Engine
import Rbql.Proofs.RoundTrip
namespace Rbql

/-- the reference semantics cannot modify its sources: `run` is a function of the tables as values, and what it
returns does not contain them — the tables after the call are the tables before it (a statement about the
model's typing; object identity and in-place mutation of Python/JS values are tied by snapshots) -/
theorem C06_run_is_pure (q : SemQuery) (A B : Table) : ((fun (t : Table × Table) => (t, run q t.1 t.2)) (A, B)).1 = (A, B) := rfl

/-- every record handed to the user's writer is a freshly allocated list, on every record-producing path -/
theorem C06_outputs_fresh (p : OutPath) : p.origin = .fresh := by cases p <;> rfl

/-- no in-place mutation of the code targets an input or join row -/
theorem C06_no_source_mutation (m : MutationPoint) : m.target = .fresh := by cases m <;> rfl

theorem all_isIdentChar_noLF (t : Str) (h : t.all isIdentChar = true) : LF ∉ t := by
  intro hm
  have := List.all_eq_true.mp h LF hm
  simp [isIdentChar, LF] at this

/-- Only identifiers made of letters, digits and underscore are ever sent to sqlite: for every table name,
either nothing is executed (IO-handling error) or the statement is exactly `SELECT * FROM <t>;` with `t` in
[A-Za-z0-9_]*, possibly followed by one line feed (Python's `$`) — no quote, space, semicolon, dash or
parenthesis can reach the database. -/
theorem C06_sqlite_statement_shape (t : Str) (stmt : Str) (h : sqliteStatement t = some stmt) :
    stmt = "SELECT * FROM ".toList ++ t ++ [';'] ∧
      (t.all isIdentChar = true ∨ (t.getLast? = some LF ∧ t.dropLast.all isIdentChar = true)) := by
  unfold sqliteStatement at h
  split at h
  · rename_i hacc
    refine ⟨by simpa using h.symm, ?_⟩
    unfold sqliteNameAccepted at hacc
    simp only [Bool.or_eq_true, Bool.and_eq_true, beq_iff_eq] at hacc
    exact hacc
  · cases h

theorem mem_reverse_dropWhile_reverse {α : Type} (p : α → Bool) (l : List α) (x : α)
    (h : x ∈ ((l.reverse.dropWhile p).reverse)) : x ∈ l := by
  have : x ∈ l.reverse.dropWhile p := by simpa using h
  have := (List.dropWhile_sublist p).subset this
  simpa using this

theorem pyStrip_subset (s : Str) (x : Char) (h : x ∈ pyStrip s) : x ∈ s := by
  unfold pyStrip at h
  have h1 := mem_reverse_dropWhile_reverse _ _ x h
  exact (List.dropWhile_sublist _).subset h1

theorem findD_LF_before_noLF (s : Str) : LF ∉ (findD [LF] s).1 := by
  induction s with
  | nil => simp [findD]
  | cons c cs ih =>
    unfold findD
    split
    · simp
    · rename_i hp
      have hc : c ≠ LF := by
        intro e; apply hp; subst e; simp [List.isPrefixOf]
      simp [hc.symm, ih]

theorem splitOn_LF_noLF (s : Str) : ∀ l ∈ splitOn [LF] s, LF ∉ l := by
  induction hn : s.length using Nat.strongRecOn generalizing s with
  | ind n ih =>
    intro l hl
    have hb := findD_LF_before_noLF s
    rcases hfd : findD [LF] s with ⟨b, o⟩
    rw [hfd] at hb
    simp only at hb
    cases o with
    | none =>
      rw [splitOn_none [LF] s b hfd] at hl
      simp only [List.mem_singleton] at hl
      subst hl; exact hb
    | some r =>
      rw [splitOn_some [LF] s b r (by simp) hfd] at hl
      have hlen := findD_rest_length [LF] s b r hfd
      simp only [List.length_singleton] at hlen
      simp only [List.mem_cons] at hl
      rcases hl with rfl | hl
      · exact hb
      · exact ih r.length (by omega) r rfl l hl

theorem joinSpace_noLF (ls : List Str) (h : ∀ l ∈ ls, LF ∉ l) : LF ∉ joinSpace ls := by
  induction ls with
  | nil => simp [joinSpace]
  | cons x xs ih =>
    cases xs with
    | nil => simpa [joinSpace] using h x (by simp)
    | cons y ys =>
      simp only [joinSpace, List.mem_append, List.mem_cons, not_or]
      refine ⟨h x (by simp), by decide, ?_⟩
      exact ih (fun l hl => h l (by simp [hl]))

/-- the cleaned-up query text contains no line feed at all, whatever the query … -/
theorem C06_cleanup_has_no_linefeed (q : Str) : LF ∉ cleanupQuery q := by
  unfold cleanupQuery
  intro hm
  have h1 := mem_reverse_dropWhile_reverse _ _ LF hm
  revert h1
  apply joinSpace_noLF
  intro l hl
  simp only [List.mem_filter, List.mem_map] at hl
  obtain ⟨⟨l1, ⟨l0, hl0, rfl⟩, rfl⟩, _⟩ := hl
  split
  · simp
  · intro hx
    exact splitOn_LF_noLF q l0 hl0 (pyStrip_subset l0 LF hx)

/-- … so a table identifier cut out of the query text (a substring of the cleaned-up text) that passes the
whitelist is purely [A-Za-z0-9_]*: the `$`-before-newline loophole is closed for identifiers taken from query text -/
theorem C06_query_text_ident_clean (q pre t post : Str) (hsub : cleanupQuery q = pre ++ t ++ post)
    (stmt : Str) (h : sqliteStatement t = some stmt) : t.all isIdentChar = true := by
  have hno : LF ∉ t := by
    intro hm
    apply C06_cleanup_has_no_linefeed q
    rw [hsub]; simp [hm]
  rcases (C06_sqlite_statement_shape t stmt h).2 with h1 | ⟨h2, _⟩
  · exact h1
  · exact absurd (List.mem_of_getLast? h2) hno

/-! non-vacuity: hostile identifiers are refused; the newline loophole exists only for names not taken from query text -/
example : sqliteStatement "t;drop table x".toList = none := by decide
example : sqliteStatement "t--".toList = none := by decide
example : sqliteStatement "t\"".toList = none := by decide
example : (sqliteStatement "tbl_1".toList).isSome = true := by decide
example : (sqliteStatement "t\n".toList).isSome = true := by decide

end Rbql
