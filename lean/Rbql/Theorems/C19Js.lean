/-
  C19 (JavaScript leg) — the rbql-js ordering and identity mechanisms agree with the reference:
  * `JSON.stringify` (Set / Map keys of DISTINCT, GROUP BY, multi-column JOIN) identifies records exactly;
  * ORDER BY with `stable_compare` over `keys ++ [NR]` is the reference stable sort by `keyLe`;
  * GROUP BY with `compare_key_arrays` is the reference key order;
  * both hold whenever the keys are uniform (numbers / BMP strings, column by column); astral characters break it.
-/
import Rbql.Proofs.EngineJsSort
namespace Rbql

/-! ### identity: JSON texts -/

/-- JSON.stringify identifies records exactly (for numbers: given that `String(x)` is injective — see `C19_js_num_repr_injective`) -/
theorem C19_json_identifies_records (r1 r2 : List Val)
    (hnum : ∀ q1 q2 : Rat, jsNumRepr q1 = jsNumRepr q2 → q1 = q2) (h : jsonRow r1 = jsonRow r2) : r1 = r2 :=
  jsonRow_injective_of r1 r2 hnum h

/-- the same without any hypothesis -/
theorem C19_json_identifies_all_records (r1 r2 : List Val) (h : jsonRow r1 = jsonRow r2) : r1 = r2 :=
  jsonRow_injective r1 r2 h

/-- a JSON string literal determines the string (escapes are unambiguous) -/
theorem C19_json_string_escapes_injective (s1 s2 : Str) (h : jsonString s1 = jsonString s2) : s1 = s2 :=
  jsonString_injective s1 s2 h

/-- the number text has a left inverse -/
theorem C19_js_num_parse_left_inverse (q : Rat) : jsNumParse (jsNumRepr q) = q := jsNumParse_repr q

/-- the number text determines the number (all of ℚ: integer part, fractional digits, or the `n/d` fallback) -/
theorem C19_js_num_repr_injective (q1 q2 : Rat) (h : jsNumRepr q1 = jsNumRepr q2) : q1 = q2 :=
  jsNumRepr_injective q1 q2 h

/-- … in particular on the integers -/
theorem C19_js_num_repr_injective_int (q1 q2 : Rat) (_h1 : q1.den = 1) (_h2 : q2.den = 1)
    (h : jsNumRepr q1 = jsNumRepr q2) : q1 = q2 :=
  jsNumRepr_injective q1 q2 h

/-! ### ORDER BY / GROUP BY -/

/-- ORDER BY: sorting `(keys ++ [NR], record)` with stable_compare and sorting `(keys, record)` with the reference `keyLe`
give the same record sequence -/
theorem C19_js_order_by_is_reference_order (rev : Bool) (es : List (List Val × Nat × Row)) (n : Nat)
    (hlen : ∀ e ∈ es, e.1.length = n)
    (hnr : es.Pairwise (fun a b => a.2.1 ≤ b.2.1))
    (hagree : ∀ a ∈ es, ∀ b ∈ es, (jsStableCompare a.1 b.1 != .gt) = keyLe a.1 b.1) :
    jsSortEntries rev (es.map (fun e => (e.1 ++ [Val.nat e.2.1], e.2.2))) = sortEntries rev (es.map (fun e => (e.1, e.2.2))) :=
  jsSortEntries_eq_sortEntries rev es n hlen hnr hagree

/-- GROUP BY: ordering the (text, decoded key) pairs with compare_key_arrays equals ordering the keys with `keyLe` -/
theorem C19_js_group_order_is_reference_order (ks : List (Str × List Val))
    (hagree : ∀ a ∈ ks, ∀ b ∈ ks, (jsCompareKeyArrays a.2 b.2 != .gt) = keyLe a.2 b.2) :
    (ks.mergeSort (fun x y => jsCompareKeyArrays x.2 y.2 != .gt)).map (·.2) = (ks.map (·.2)).mergeSort keyLe :=
  jsGroupOrder_eq ks hagree

/-- a sufficient, decidable condition for the agreement hypotheses: every key has `n` components and, column by column,
all keys hold numbers or all hold strings without characters ≥ U+10000 -/
theorem C19_js_compare_agrees_on_uniform_keys (n : Nat) (ks : List (List Val)) (hu : jsUniformKeys n ks = true) :
    ∀ k1 ∈ ks, ∀ k2 ∈ ks,
      (jsStableCompare k1 k2 != .gt) = keyLe k1 k2 ∧ (jsCompareKeyArrays k1 k2 != .gt) = keyLe k1 k2 :=
  jsUniformKeys_agree n ks hu

/-- ORDER BY on uniform keys -/
theorem C19_js_order_by_on_uniform_keys (rev : Bool) (es : List (List Val × Nat × Row)) (n : Nat)
    (hu : jsUniformKeys n (es.map (·.1)) = true)
    (hnr : es.Pairwise (fun a b => a.2.1 ≤ b.2.1)) :
    jsSortEntries rev (es.map (fun e => (e.1 ++ [Val.nat e.2.1], e.2.2))) = sortEntries rev (es.map (fun e => (e.1, e.2.2))) := by
  refine jsSortEntries_eq_sortEntries rev es n ?_ hnr ?_
  · intro e he
    simp only [jsUniformKeys, Bool.and_eq_true, List.all_eq_true, beq_iff_eq] at hu
    exact (hu.1 e.1 (List.mem_map_of_mem he)).1
  · intro a ha b hb
    exact (jsUniformKeys_agree n _ hu a.1 (List.mem_map_of_mem ha) b.1 (List.mem_map_of_mem hb)).1

/-- GROUP BY on uniform keys -/
theorem C19_js_group_order_on_uniform_keys (ks : List (Str × List Val)) (n : Nat)
    (hu : jsUniformKeys n (ks.map (·.2)) = true) :
    (ks.mergeSort (fun x y => jsCompareKeyArrays x.2 y.2 != .gt)).map (·.2) = (ks.map (·.2)).mergeSort keyLe :=
  jsGroupOrder_eq ks (fun a ha b hb =>
    (jsUniformKeys_agree n _ hu a.2 (List.mem_map_of_mem ha) b.2 (List.mem_map_of_mem hb)).2)

/-- a BMP character ≥ U+E000 against a character ≥ U+10000: code-point order (Python, `keyLe`) puts U+E000 first,
UTF-16 code-unit order (JavaScript: the surrogate 0xD800 < 0xE000) puts U+10000 first -/
theorem C19_js_astral_order_counterexample :
    let k1 := [Val.str [Char.ofNat 0xE000]]
    let k2 := [Val.str [Char.ofNat 0x10000]]
    keyLe k1 k2 = true ∧ (jsStableCompare k1 k2 != .gt) = false ∧ (jsCompareKeyArrays k1 k2 != .gt) = false ∧
      jsUniformKeys 1 [k1, k2] = false := by
  decide

/-- … and the ORDER BY results then differ: the agreement hypothesis of `C19_js_order_by_is_reference_order` cannot be dropped -/
theorem C19_js_astral_order_by_counterexample :
    let es : List (List Val × Nat × Row) :=
      [([Val.str [Char.ofNat 0xE000]], 1, [Val.nat 1]), ([Val.str [Char.ofNat 0x10000]], 2, [Val.nat 2])]
    jsSortEntries false (es.map (fun e => (e.1 ++ [Val.nat e.2.1], e.2.2))) = [[Val.nat 2], [Val.nat 1]] ∧
    sortEntries false (es.map (fun e => (e.1, e.2.2))) = [[Val.nat 1], [Val.nat 2]] := by
  simp only [jsSortEntries, sortEntries, List.map_cons, List.map_nil, jsMergeSort_pair]
  decide

/-! ### non-vacuity -/

-- identity: escapes, nesting, numbers
example : jsonRow [Val.str "a\"b".toList, Val.list [.num 1, .none], Val.num (-4)] = "[\"a\\\"b\",[1,null],-4]".toList := by decide
example : jsonRow [Val.str "1".toList] ≠ jsonRow [Val.num 1] := by decide
example : jsonString "a\\".toList ≠ jsonString "a".toList := by decide
example : jsonString [Char.ofNat 1] = "\"\\u0001\"".toList := by decide

-- numbers: the decimals the harness generates print as JavaScript prints them, read back, and are pairwise distinct
def c19Decimals : List Rat :=
  [mkRat 1 2, mkRat 5 2, mkRat 1 4, mkRat 51 4, -4, 0, 10, mkRat 3 10, mkRat (-7) 8, mkRat 1 3, mkRat (-22) 7]

example : c19Decimals.map jsNumRepr
    = ["0.5".toList, "2.5".toList, "0.25".toList, "12.75".toList, "-4".toList, "0".toList, "10".toList,
       "0.3".toList, "-0.875".toList, "1/3".toList, "-22/7".toList] := by decide
example : c19Decimals.map (fun q => jsNumParse (jsNumRepr q)) = c19Decimals := by decide
example : (c19Decimals.map jsNumRepr).Nodup := by decide

-- ORDER BY: the hypotheses of `C19_js_order_by_is_reference_order` hold on a concrete arrival sequence with ties
def c19Entries : List (List Val × Nat × Row) :=
  [([Val.num 2, Val.str "b".toList], 1, [Val.str "r1".toList]),
   ([Val.num 1, Val.str "z".toList], 2, [Val.str "r2".toList]),
   ([Val.num 2, Val.str "b".toList], 2, [Val.str "r3".toList]),     -- same NR twice (a join emits several rows per record)
   ([Val.num 1, Val.str "a".toList], 5, [Val.str "r4".toList])]

example : (∀ e ∈ c19Entries, e.1.length = 2) ∧ c19Entries.Pairwise (fun a b => a.2.1 ≤ b.2.1) ∧
    (∀ a ∈ c19Entries, ∀ b ∈ c19Entries, (jsStableCompare a.1 b.1 != .gt) = keyLe a.1 b.1) ∧
    jsUniformKeys 2 (c19Entries.map (·.1)) = true := by decide

example : jsSortEntries true (c19Entries.map (fun e => (e.1 ++ [Val.nat e.2.1], e.2.2)))
    = sortEntries true (c19Entries.map (fun e => (e.1, e.2.2))) :=
  C19_js_order_by_on_uniform_keys true c19Entries 2 (by decide) (by decide)

-- GROUP BY
def c19Groups : List (Str × List Val) :=
  [([Val.str "b".toList, Val.num 3], [Val.str "b".toList, Val.num 3]),
   ([Val.str "a".toList, Val.num 7], [Val.str "a".toList, Val.num 7]),
   ([Val.str "a".toList, Val.num (mkRat 1 2)], [Val.str "a".toList, Val.num (mkRat 1 2)])].map (fun p => (jsonRow p.1, p.2))

example : (∀ a ∈ c19Groups, ∀ b ∈ c19Groups, (jsCompareKeyArrays a.2 b.2 != .gt) = keyLe a.2 b.2) ∧
    jsUniformKeys 2 (c19Groups.map (·.2)) = true := by decide

-- the uniformity condition rejects mixed columns and astral strings, accepts numbers and BMP strings (U+FFFF included)
example : jsUniformKeys 1 [[Val.num 1], [Val.str "1".toList]] = false := by decide
example : jsUniformKeys 1 [[Val.str [Char.ofNat 0xFFFF]], [Val.str [Char.ofNat 0xE000]], [Val.str []]] = true := by decide

end Rbql
