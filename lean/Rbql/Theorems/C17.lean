/-
  C17 — like(text, pattern) implements SQL LIKE exactly.
-/
import Rbql.Model.Like
namespace Rbql

/-- single-line text: no character that `.` refuses (Python: LF; JS additionally CR, U+2028, U+2029) -/
def SingleLine (js : Bool) (t : Str) : Prop := ∀ c ∈ t, dotMatches js c = true

theorem starLoop_eq_likeSpec (js : Bool) (p t : Str) (k : Str → Bool) (hk : ∀ u, SingleLine js u → k u = likeSpec p u)
    (ht : SingleLine js t) : starLoop js k t = likeSpec ('%' :: p) t := by
  induction t with
  | nil => rw [likeSpec]; simp [starLoop, hk [] ht]
  | cons c t ih =>
    have ht' : SingleLine js t := fun x hx => ht x (by simp [hx])
    have hc : dotMatches js c = true := ht c (by simp)
    rw [likeSpec]
    simp [starLoop, hk (c :: t) ht, hc, ih ht']

theorem isPrefixOf_snoc (a : Str) (c : Char) (t : Str) :
    (a ++ [c]).isPrefixOf t = (a.isPrefixOf t && ((t.drop a.length).head? == some c)) := by
  induction a generalizing t with
  | nil =>
    cases t with
    | nil => simp [List.isPrefixOf]
    | cons y t => simp [List.isPrefixOf, Bool.beq_comm]
  | cons x a ih => cases t with
    | nil => simp [List.isPrefixOf]
    | cons y t => simp [List.isPrefixOf, ih, Bool.and_assoc]

theorem rmatch_likeToks (js : Bool) (p cur t : Str) (ht : SingleLine js t) :
    rmatch js (likeToks p cur) t = (cur.reverse.isPrefixOf t && likeSpec p (t.drop cur.length)) := by
  induction p generalizing cur t with
  | nil =>
    have hd : SingleLine js (t.drop cur.reverse.length) := fun x hx => ht x (List.mem_of_mem_drop hx)
    simp only [likeToks, rmatch, List.length_reverse]
    rw [likeSpec]
    cases hdt : List.drop cur.length t with
    | nil => simp
    | cons y ys =>
      simp only [List.isEmpty_cons, Bool.false_or]
      cases js with
      | true => simp
      | false =>
        have : y ≠ LF := by
          have := hd y (by simp [hdt])
          simpa [dotMatches] using this
        simp [this]
  | cons c p ih =>
    have hdrop : ∀ n, SingleLine js (t.drop n) := fun n x hx => ht x (List.mem_of_mem_drop hx)
    unfold likeToks
    by_cases h1 : c = '_'
    · subst h1
      simp only [if_true, rmatch, List.length_reverse]
      rw [likeSpec.eq_def]
      simp only [Char.reduceEq, if_false, if_true]
      cases hdt : List.drop cur.length t with
      | nil => simp
      | cons y ys =>
        have hy : dotMatches js y = true := hdrop cur.length y (by simp [hdt])
        have hys : SingleLine js ys := fun x hx => hdrop cur.length x (by simp [hdt, hx])
        simp [hy, ih [] ys hys]
    · by_cases h2 : c = '%'
      · subst h2
        simp only [Char.reduceEq, if_false, if_true, rmatch, List.length_reverse]
        rw [starLoop_eq_likeSpec js p _ (rmatch js (likeToks p [])) (fun u hu => by simpa using ih [] u hu) (hdrop _)]
      · simp only [h1, h2, if_false]
        rw [ih (c :: cur) t ht]
        simp only [List.reverse_cons, List.length_cons]
        rw [isPrefixOf_snoc]
        rw [likeSpec.eq_def (c :: p)]
        simp only [h1, h2, if_false, List.length_reverse]
        cases hdt : List.drop cur.length t with
        | nil =>
          have : List.drop (cur.length + 1) t = [] := by
            rw [← List.drop_drop, hdt]; rfl
          simp [this]
        | cons y ys =>
          have : List.drop (cur.length + 1) t = ys := by
            rw [← List.drop_drop, hdt]; rfl
          simp only [this, List.head?_cons, Bool.and_assoc]
          by_cases hcy : c = y
          · subst hcy; simp
          · have : (y == c) = false := by simpa using fun h => hcy h.symm
            simp [hcy, this]

/-- like(text, pattern) is SQL LIKE for every pattern and every single-line text
(both engines: `js = false` Python `re`, `js = true` JS `RegExp`). -/
theorem C17_like_correct (js : Bool) (text pattern : Str) (h : SingleLine js text) :
    likeImpl js text pattern = likeSpec pattern text := by
  unfold likeImpl
  rw [rmatch_likeToks js pattern [] text h]
  simp

/-- every character other than `%` and `_` (hence every regex metacharacter) stands only for
itself: a pattern without wildcards matches exactly the identical text. -/
theorem C17_metachars_literal (p t : Str) (hp : ∀ c ∈ p, c ≠ '%' ∧ c ≠ '_') :
    likeSpec p t = (p == t) := by
  induction p generalizing t with
  | nil => rw [likeSpec]; cases t <;> simp
  | cons c p ih =>
    have hc := hp c (by simp)
    have ih' := fun t => ih t (fun x hx => hp x (by simp [hx]))
    rw [likeSpec.eq_def]
    simp only [hc.1, hc.2, if_false]
    cases t with
    | nil => simp
    | cons y t => simp [ih' t]

/-- why the single-line hypothesis is needed: Python's `$` also matches before one final LF -/
theorem C17_newline_counterexample :
    likeImpl false ['a', 'b', LF] ['a', 'b'] = true ∧ likeSpec ['a', 'b'] ['a', 'b', LF] = false := by
  constructor
  · simp [likeImpl, likeToks, rmatch, List.isPrefixOf, LF]
  · simp [likeSpec, LF]

/-! non-vacuity -/
example : SingleLine false "a.*b[".toList := by intro c hc; simp at hc; rcases hc with rfl | rfl | rfl | rfl | rfl <;> decide
example : likeSpec ['a', '%', '.', '_'] ['a', 'x', 'y', '.', 'z'] = true := by simp [likeSpec]
example : likeSpec ['a', '.', 'b'] ['a', 'x', 'b'] = false := by simp [likeSpec]

end Rbql
