/-
  C12 — CSV reading depends only on content, never on how the stream is chunked (Python reader).
-/
import Rbql.Proofs.ReaderPyLines
import Rbql.Proofs.ReaderPyRecords
namespace Rbql

/-- For every partition of the text into non-empty pieces and every chunk size ≥ 1, the physical
rows returned by repeated `get_row_simple` are the lines of the whole text (first line without its
BOM). Lines end at LF, CR or CRLF; a CRLF split across two reads is one break (this is where the
code looks one character ahead); a final line without terminator is still a row. -/
theorem C12_rows_chunk_independent (c : RCfg) (hc : 1 ≤ c.chunk) (pieces : List Str)
    (hp : ∀ p ∈ pieces, p ≠ []) :
    allRowsSimple c (totalLen pieces + 1) { stream := pieces } = bomFix c.enc 0 (linesSpec pieces.flatten) :=
  rows_of_pieces c hc pieces hp

/-- the same from any reachable reader state (buffer partly filled, look-ahead done, …) -/
theorem C12_rows_from_any_state (c : RCfg) (s : RState) (h : RInv c s) (fuel : Nat) (hf : remaining s < fuel) :
    allRowsSimple c fuel s = bomFix c.enc s.nl (linesSpec (s.buffer ++ s.stream.flatten)) :=
  rows_chunk_independent c s h fuel hf

/-- two partitions of the same text, two chunk sizes: same rows -/
theorem C12_rows_two_partitions (c : RCfg) (chunk' : Nat) (hc : 1 ≤ c.chunk) (hc' : 1 ≤ chunk')
    (p1 p2 : List Str) (h1 : ∀ p ∈ p1, p ≠ []) (h2 : ∀ p ∈ p2, p ≠ []) (hflat : p1.flatten = p2.flatten) :
    allRowsSimple c (totalLen p1 + 1) { stream := p1 } =
      allRowsSimple { c with chunk := chunk' } (totalLen p2 + 1) { stream := p2 } := by
  rw [rows_of_pieces c hc p1 h1, rows_of_pieces { c with chunk := chunk' } hc' p2 h2, hflat]

/-- The full statement: header, records, warnings (BOM, defective quoting, field counts with their
record numbers) or the IO error delivered by the reader — through comment skipping, multi-line
quoted_rfc assembly, the header / WITH (header) logic — depend only on the content of the stream:
any two partitions into non-empty pieces of the same text, read with any two chunk sizes, give the
same result. -/
theorem C12_records_chunk_independent (c : RCfg) (chunk' : Nat) (hc : 1 ≤ c.chunk) (hc' : 1 ≤ chunk')
    (hasHeader : Bool) (modifier : Option Bool) (p1 p2 : List Str)
    (h1 : ∀ p ∈ p1, p ≠ []) (h2 : ∀ p ∈ p2, p ≠ []) (hflat : p1.flatten = p2.flatten) :
    readAll c hasHeader modifier p1 = readAll { c with chunk := chunk' } hasHeader modifier p2 :=
  readAll_content_only c chunk' hc hc' hasHeader modifier p1 p2 h1 h2 hflat

/-- the line specification on the delicate inputs -/
theorem C12_crlf_is_one_break : linesSpec ['a', CR, LF, 'b'] = [['a'], ['b']] := by decide
theorem C12_last_line_without_terminator : linesSpec ['a', LF, 'b'] = [['a'], ['b']] ∧ linesSpec ['a', LF] = [['a']] := by
  constructor <;> decide

end Rbql
