/-
  C08 (rbql-js) — string literals are opaque to the rbql.js query parser: `separate_string_literals` of rbql.js
  (model: `separateLiteralsJs`, `Model/ParseJs.lean`), after the repair of the look-behind in its pattern
  `/('((?<!\\)\\(\\\\)*'|[^'])*')|("…")|(`…`)/g`.  Proofs: `Proofs/LiteralsJs.lean`.
-/
import Rbql.Proofs.LiteralsJs
namespace Rbql
open LitOp LitJs

/-! ### 1. nothing is lost, nothing is reordered -/

/-- the format parts and the literals found by the rbql.js scanner re-assemble to the query text, for EVERY text -/
theorem C08_js_literals_reassemble (s : Str) :
    reassemble (separateAuxJs (s.length + 1) s [] [] []).1 (separateAuxJs (s.length + 1) s [] [] []).2 = s :=
  separateAuxJs_reassemble s

/-- … and there is exactly one more format part than literals -/
theorem C08_js_literals_shape (s : Str) :
    (separateAuxJs (s.length + 1) s [] [] []).1.length = (separateAuxJs (s.length + 1) s [] [] []).2.length + 1 :=
  separateAuxJs_shape s

example : reassemble (separateAuxJs 14 "x 'a\\\\' y `b` ".toList [] [] []).1 (separateAuxJs 14 "x 'a\\\\' y `b` ".toList [] [] []).2
    = "x 'a\\\\' y `b` ".toList ∧ (separateAuxJs 14 "x 'a\\\\' y `b` ".toList [] [] []).2 = ["'a\\\\'".toList, "`b`".toList] := by
  decide +kernel

/-! ### 2. the repaired defect: a literal that ends in an escaped backslash -/

/-- **regression theorem**: after a stretch `b` without the quote character and without backslash, an EVEN run of backslashes
before a quote never escapes it: the literal closes at that quote, wherever the scan comes from (`p`: any look-behind state),
whatever follows (`rest`), for every fuel that covers the text up to the quote.  (Before the repair the scan of `'a\\' where …`
took the second backslash and the quote for an escaped quote.) -/
theorem C08_js_literal_closes_after_escaped_backslash (d : Char) (hd : d ≠ '\\') (b : Str) (hdb : d ∉ b) (hbb : '\\' ∉ b)
    (n : Nat) (rest : Str) (fuel : Nat) (p : Bool) (hf : b.length + 2 * n < fuel) :
    jsLiteralBody d fuel p (b ++ List.replicate (2 * n) '\\' ++ d :: rest) = some rest :=
  js_closes_after_even_run d hd b hdb hbb n rest fuel p hf

example : jsLiteralBody '\'' 20 false ("a".toList ++ List.replicate (2 * 1) '\\' ++ '\'' :: " where a1 == 'b'".toList)
    = some " where a1 == 'b'".toList := by decide +kernel

/-- the same for the whole pattern: `q b \\…\\ q` (an even number of backslashes) IS the literal, whatever follows -/
theorem C08_js_literal_ending_in_escaped_backslash (q : Char) (hq : IsQuoteJs q) (b : Str) (hqb : q ∉ b) (hbb : '\\' ∉ b)
    (n : Nat) (rest : Str) :
    matchLiteralJs (q :: (b ++ List.replicate (2 * n) '\\') ++ q :: rest) =
      some (q :: (b ++ List.replicate (2 * n) '\\') ++ [q], rest) :=
  matchLiteralJs_lit q hq _ rest (jsBody_plain_tail q b hqb hbb n)

/-- the query of the defect report: both literals are found, the first one ends after its two backslashes -/
theorem C08_js_escaped_backslash_regression :
    separateLiteralsJs "select a1 where a2 == 'a\\\\' and a3 == 'b'".toList =
      ("select a1 where a2 == ".toList ++ placeholder 0 ++ " and a3 == ".toList ++ placeholder 1,
        ["'a\\\\'".toList, "'b'".toList]) := by decide +kernel

/-- the twin for ODD runs: the quote is escaped.  The scan continues past it when the quote character occurs later in the text
(then a closing quote is found: the result is `some _`) … -/
theorem C08_js_literal_continues_after_escaped_quote (d : Char) (hd : d ≠ '\\') (b : Str) (hdb : d ∉ b) (hbb : '\\' ∉ b)
    (n : Nat) (more : Str) (fuel : Nat) (hf : (b ++ List.replicate (2 * n + 1) '\\' ++ d :: more).length < fuel)
    (hm : d ∈ more) :
    jsLiteralBody d fuel false (b ++ List.replicate (2 * n + 1) '\\' ++ d :: more) = jsLiteralBody d fuel false more ∧
    (jsLiteralBody d fuel false more).isSome = true :=
  ⟨js_continues_after_odd_run d hd b hdb hbb n more fuel hf hm,
   jsLiteralBody_isSome d fuel false more (by simp only [List.length_append, List.length_cons] at hf; omega) hm⟩

/-- … and when it does not, the pattern backtracks: the backslashes are ordinary characters and the literal closes at that
quote (`'a\'` alone is the literal `'a\'`) -/
theorem C08_js_literal_closes_at_last_quote (d : Char) (hd : d ≠ '\\') (b : Str) (hdb : d ∉ b) (hbb : '\\' ∉ b)
    (n : Nat) (more : Str) (fuel : Nat) (hf : b.length + (2 * n + 1) < fuel) (hm : d ∉ more) :
    jsLiteralBody d fuel false (b ++ List.replicate (2 * n + 1) '\\' ++ d :: more) = some more :=
  js_closes_after_odd_run_at_end d hd b hdb hbb n more fuel hf hm

example : jsLiteralBody '\'' 20 false ("it".toList ++ List.replicate (2 * 0 + 1) '\\' ++ '\'' :: "s' x".toList) = some " x".toList ∧
    jsLiteralBody '\'' 20 false ("a".toList ++ List.replicate (2 * 0 + 1) '\\' ++ '\'' :: " x".toList) = some " x".toList := by
  decide +kernel

/-- a closing quote is found exactly when the quote character occurs in the text after the opening quote (line breaks do not
stop the scan, unlike the Python pattern) -/
theorem C08_js_literal_closes_iff_quote_occurs (d : Char) (fuel : Nat) (p : Bool) (s : Str) (hf : s.length < fuel) :
    (jsLiteralBody d fuel p s).isSome = true ↔ d ∈ s := by
  constructor
  · intro h
    apply Classical.byContradiction
    intro hn
    rw [jsLiteralBody_none d fuel p s hn] at h
    cases h
  · exact jsLiteralBody_isSome d fuel p s hf

/-! ### 3. well-formed literals are extracted -/

/-- `JsBody q body` (the body of a well-formed JS literal, read as a sequence of units: ordinary characters, backslash runs
before an ordinary character, ODD backslash runs before the quote, an EVEN backslash run at the end) says exactly: every
occurrence of `q` in the body is preceded by an odd (maximal) run of backslashes, and the body does not end in an odd run of
backslashes.  Line breaks are ordinary characters.  It is decided by the one-pass check `jsBodyOk`. -/
theorem C08_js_wellformed_literal_body (q : Char) (hq : q ≠ '\\') (body : Str) :
    (JsBody q body ↔
      (∀ pre post, body = pre ++ q :: post → bsRun pre.reverse % 2 = 1) ∧ bsRun body.reverse % 2 = 0) ∧
    (JsBody q body ↔ jsBodyOk q false body = true) :=
  ⟨jsBody_iff_wellFormed q hq body, jsBody_iff_ok q hq body⟩

/-- a quoted string IS extracted: for text made of quote-free gaps (no `'`, `"`, `` ` ``) and well-formed literals
(`SegsOkJs`: each delimiter is one of the three quote characters and each body satisfies `JsBody`), the format expression is the
gaps with placeholders — it contains no character of any literal body — and the literals are returned verbatim, in order.
NO further side condition is needed: unlike the Python pattern there is no triple-quote alternative and no look-ahead that
stops at a line feed, so nothing relates a literal to the text after it (`C08_js_no_triple_quote_literal`). -/
theorem C08_js_literals_extracted (segs : List Seg) (t : Str) (h : SegsOkJs segs t) :
    separateLiteralsJs (render segs t) = (tabsToSpaces (fmtP (segs.map (·.pre)) t 0), segs.map Seg.lit) :=
  separateLiteralsJs_render segs t h

/-- one literal, whatever follows it -/
theorem C08_js_literal_matched (q : Char) (hq : IsQuoteJs q) (body post : Str) (hb : JsBody q body) :
    matchLiteralJs (q :: body ++ q :: post) = some (q :: body ++ [q], post) :=
  matchLiteralJs_lit q hq body post hb

/-- ``select a1, 'fr\'om' where a2 == "x; #'\n" and a3 == `a\\` limit 3``: an escaped quote, a line feed and the other kinds
of quote inside literals, a literal ending in an escaped backslash -/
example :
    render [⟨"select a1, ".toList, '\'', "fr\\'om".toList⟩, ⟨" where a2 == ".toList, '"', "x; #'\n".toList⟩,
        ⟨" and a3 == ".toList, '`', "a\\\\".toList⟩] " limit 3".toList
      = "select a1, 'fr\\'om' where a2 == \"x; #'\n\" and a3 == `a\\\\` limit 3".toList ∧
    SegsOkJs [⟨"select a1, ".toList, '\'', "fr\\'om".toList⟩, ⟨" where a2 == ".toList, '"', "x; #'\n".toList⟩,
        ⟨" and a3 == ".toList, '`', "a\\\\".toList⟩] " limit 3".toList := by
  decide +kernel

/-- the rbql.js pattern has no triple-quote alternative: `''' x '''` is three literals (`''`, `' x '`, `''`); the Python
scanner reads ONE literal there (`separateLiterals_triple_counterexample`) -/
theorem C08_js_no_triple_quote_literal :
    separateLiteralsJs "''' x '''".toList = (placeholder 0 ++ placeholder 1 ++ placeholder 2, ["''".toList, "' x '".toList, "''".toList]) ∧
    separateLiterals "''' x '''".toList = (placeholder 0, ["''' x '''".toList]) := by decide +kernel

/-- the conditions of `SegsOkJs` are needed.  A gap must not contain a quote (the apostrophe opens a literal); an unescaped
quote inside a body ends the literal there; a body that ENDS in an odd run of backslashes is read differently depending on
the text after the literal (the pattern skips the escaped quote when a later quote exists). -/
theorem C08_js_side_conditions_counterexamples :
    separateLiteralsJs "it's 'x'".toList = ("it".toList ++ placeholder 0 ++ "x'".toList, ["'s '".toList]) ∧
    matchLiteralJs "'a'b' c".toList = some ("'a'".toList, "b' c".toList) ∧
    matchLiteralJs "'a\\' c".toList = some ("'a\\'".toList, " c".toList) ∧
    matchLiteralJs "'a\\' c 'd'".toList = some ("'a\\' c '".toList, "d'".toList) := by decide +kernel

/-! ### 4. opacity -/

/-- replacing the contents of the literals (even the kind of quote) by any other well-formed contents does not change the
format expression: keywords, stars, commas, `where`, `#`, line breaks inside quotes never influence the parse -/
theorem C08_js_literal_contents_opaque (segs segs' : List Seg) (t : Str) (h : SegsOkJs segs t) (h' : SegsOkJs segs' t)
    (hpre : segs.map (·.pre) = segs'.map (·.pre)) :
    (separateLiteralsJs (render segs t)).1 = (separateLiteralsJs (render segs' t)).1 :=
  literal_opacity_js segs segs' t h h' hpre

/-- … hence the statements and clause texts found by rbql.js `separate_actions` are the same (directly, and after
`remove_redundant_table_name`) -/
theorem C08_js_literal_contents_opaque_for_the_parse (segs segs' : List Seg) (t : Str) (h : SegsOkJs segs t)
    (h' : SegsOkJs segs' t) (hpre : segs.map (·.pre) = segs'.map (·.pre)) :
    separateActionsJs (separateLiteralsJs (render segs t)).1 = separateActionsJs (separateLiteralsJs (render segs' t)).1 ∧
    separateActionsJs (removeRedundantTableName (separateLiteralsJs (render segs t)).1) =
      separateActionsJs (removeRedundantTableName (separateLiteralsJs (render segs' t)).1) := by
  rw [literal_opacity_js segs segs' t h h' hpre]
  exact ⟨rfl, rfl⟩

/-- `select a1, 'x' where a2 == "y"` and ``select a1, `from * where #` where a2 == 'limit, 5\n'`` have the same format expression -/
example :
    SegsOkJs [⟨"select a1, ".toList, '\'', "x".toList⟩, ⟨" where a2 == ".toList, '"', "y".toList⟩] [] ∧
    SegsOkJs [⟨"select a1, ".toList, '`', "from * where #".toList⟩, ⟨" where a2 == ".toList, '\'', "limit, 5\n".toList⟩] [] ∧
    ([⟨"select a1, ".toList, '\'', "x".toList⟩, ⟨" where a2 == ".toList, '"', "y".toList⟩] : List Seg).map (·.pre) =
      ([⟨"select a1, ".toList, '`', "from * where #".toList⟩, ⟨" where a2 == ".toList, '\'', "limit, 5\n".toList⟩] : List Seg).map (·.pre) := by
  decide +kernel

/-! ### 5. both ports cut the same literals -/

/-- for text made of gaps free of quotes and backticks and of single- or double-quoted literals that are well formed for the
Python scanner (`SegsOk`: bodies with escapes but without line feed and not ending in an odd backslash run; an empty literal
is not followed by its own quote character — no triple-quote shape), the rbql.js scanner and the Python scanner return the
same format expression and the same literals.  `SegsOkBoth` adds the one JS-specific condition: no backtick in the gaps. -/
theorem C08_js_agrees_with_python_on_common_literals (segs : List Seg) (t : Str) (h : SegsOk segs t)
    (hb : SegsOkBoth segs t) :
    separateLiteralsJs (render segs t) = separateLiterals (render segs t) :=
  separateLiterals_agree segs t h hb

example :
    SegsOk [⟨"select a1, ".toList, '\'', "fr\\'om".toList⟩, ⟨" where a2 == ".toList, '"', "x; #'".toList⟩] " limit 3".toList ∧
    SegsOkBoth [⟨"select a1, ".toList, '\'', "fr\\'om".toList⟩, ⟨" where a2 == ".toList, '"', "x; #'".toList⟩] " limit 3".toList := by
  refine ⟨segsOk_of_bodies _ _ ?_ (by decide), by decide⟩
  intro s hs
  simp only [List.mem_cons, List.not_mem_nil, or_false] at hs
  rcases hs with rfl | rfl
  · exact ⟨⟨by decide, by decide, .plain 'f' _ (by decide) (by decide) (by decide) (.plain 'r' _ (by decide) (by decide) (by decide)
      (.esc 0 _ (PlainBody.esc (by decide))))⟩, by decide⟩
  · exact ⟨⟨by decide, by decide, PlainBody.esc (by decide)⟩, by decide⟩

/-- outside these conditions the ports differ: a backtick literal is a literal for rbql.js only; a line feed inside quotes ends
the Python scan (no literal) but not the rbql.js scan; triple quotes (`C08_js_no_triple_quote_literal`) -/
theorem C08_js_python_differences_counterexamples :
    separateLiteralsJs "a `x` b".toList = ("a ".toList ++ placeholder 0 ++ " b".toList, ["`x`".toList]) ∧
    separateLiterals "a `x` b".toList = ("a `x` b".toList, []) ∧
    separateLiteralsJs "a 'x\ny' b".toList = ("a ".toList ++ placeholder 0 ++ " b".toList, ["'x\ny'".toList]) ∧
    separateLiterals "a 'x\ny' b".toList = ("a 'x\ny' b".toList, []) := by decide +kernel

end Rbql
