/-
  C09 (names leg) — column-name variables bind to the right column.
  `a["name"]` / `a['name']` (dictionary variables), `a.name` (attribute variables), `name` (direct variables):
  no false negative of the "probably has the variable" heuristic, and the index bound is the column's position.
-/
import Rbql.Proofs.VariablesBind
namespace Rbql

/-! ## 1. dictionary variables: the heuristic has no false negative -/

/-- every segment of the name (a run of `[-a-zA-Z0-9_:;+=!.,()%^#@&* ]`) survives escaping, for all three quote characters -/
theorem C09_dict_segments_survive_escape (q : Char) (hq : q = '"' ∨ q = '\'' ∨ q = '`') (name seg : Str)
    (h : seg ∈ nameSegments name []) : occursIn seg (pyEscape q name) = true :=
  (occursIn_iff _ _).mpr (segment_occ_escape q hq name seg h)

/-- hence: if the query contains the variable `a["name"]` (any of the three spellings) anywhere,
`query_probably_has_dictionary_variable` says yes -/
theorem C09_dict_no_false_negative (pfx q : Char) (hq : q = '"' ∨ q = '\'' ∨ q = '`') (name query : Str)
    (h : occursIn (dictKey pfx q name) query = true) : queryProbablyHasDictVar query name = true := by
  simp only [queryProbablyHasDictVar, List.all_eq_true]
  intro seg hseg
  exact (occursIn_iff _ _).mpr
    (((segment_occ_escape q hq name seg hseg).trans (escape_occ_dictKey pfx q name)).trans ((occursIn_iff _ _).mp h))

/-! ## 2. dictionary variables are bound to the right column -/

/-- `a[` after the start of the text or a non-word character is detected -/
theorem C09_subscript_detected (pfx q : Char) (name pre post query : Str)
    (hquery : query = pre ++ dictKey pfx q name ++ post)
    (hpre : pre = [] ∨ ∃ p l, pre = p ++ [l] ∧ isWordChar l = false) :
    hasSubscriptOf pfx true query = true := by
  have := hasSubscriptOf_detect pfx ([q] ++ pyEscape q name ++ [q] ++ [']'] ++ post) pre true (fun _ => rfl)
    (BoundaryBefore.of_or pre hpre)
  rw [hquery]
  simpa [dictKey] using this

/-- `names = A ++ name :: B` with `name ∉ B`: position `A.length` is the LAST column called `name`.
Both spellings are bound to it; only the double-quote spelling is initialised (the single-quote one is rewritten to it). -/
theorem C09_dict_variable_present (js : Bool) (query : Str) (pfx q : Char) (hq : q = '"' ∨ q = '\'') (name : Str)
    (A B : List Str) (m : VarMap)
    (hsub : hasSubscriptOf pfx true query = true) (hocc : occursIn (dictKey pfx q name) query = true) (hB : name ∉ B) :
    (parseDictionaryVariables js query pfx (A ++ name :: B) m).get? (dictKey pfx '"' name)
        = some { init := true, index := A.length } ∧
    (parseDictionaryVariables js query pfx (A ++ name :: B) m).get? (dictKey pfx '\'' name)
        = some { init := false, index := A.length } := by
  rw [parseDictionaryVariables_eq js query pfx _ m hsub]
  refine dictFold_binds js query pfx name A B m ?_ hB
  exact C09_dict_no_false_negative pfx q (by rcases hq with h | h <;> simp [h]) name query hocc

/-- the same with the occurrence given explicitly -/
theorem C09_dict_variable_present_at_boundary (js : Bool) (pfx q : Char) (hq : q = '"' ∨ q = '\'') (name pre post : Str)
    (A B : List Str) (m : VarMap) (hpre : pre = [] ∨ ∃ p l, pre = p ++ [l] ∧ isWordChar l = false) (hB : name ∉ B) :
    (parseDictionaryVariables js (pre ++ dictKey pfx q name ++ post) pfx (A ++ name :: B) m).get? (dictKey pfx '"' name)
        = some { init := true, index := A.length } ∧
    (parseDictionaryVariables js (pre ++ dictKey pfx q name ++ post) pfx (A ++ name :: B) m).get? (dictKey pfx '\'' name)
        = some { init := false, index := A.length } :=
  C09_dict_variable_present js _ pfx q hq name A B m
    (C09_subscript_detected pfx q name pre post _ rfl hpre)
    ((occursIn_iff _ _).mpr ⟨pre, post, rfl⟩) hB

/-- distinct column names: the variable for the name at header position `i` is bound to column `i` -/
theorem C09_dict_variable_binds_position (js : Bool) (query : Str) (pfx q : Char) (hq : q = '"' ∨ q = '\'')
    (names : List Str) (m : VarMap) (hd : names.Nodup) (i : Nat) (hi : i < names.length)
    (hsub : hasSubscriptOf pfx true query = true) (hocc : occursIn (dictKey pfx q names[i]) query = true) :
    (parseDictionaryVariables js query pfx names m).get? (dictKey pfx '"' names[i]) = some { init := true, index := i } ∧
    (parseDictionaryVariables js query pfx names m).get? (dictKey pfx '\'' names[i]) = some { init := false, index := i } := by
  obtain ⟨hsplit, hlen⟩ := split_at_index names i hi
  have hnd := hd
  rw [hsplit] at hnd
  have h := C09_dict_variable_present js query pfx q hq names[i] (names.take i) (names.drop (i + 1)) m hsub hocc
    (nodup_split _ _ _ hnd).2
  rw [← hsplit, hlen] at h
  exact h

/-- distinct names have distinct variables (`dictKey` is injective in the name, by `C09_escape_unescape`) -/
theorem C09_dict_key_injective (pfx q : Char) (hq : q = '"' ∨ q = '\'') (n n' : Str)
    (h : dictKey pfx q n = dictKey pfx q n') : n = n' :=
  dictKey_name_inj pfx q hq n n' h

/-! ## 3. attribute variables -/

/-- The occurrence statement as first given is FALSE: in `a.a.x` the text `a.x` is preceded by the non-word character `.`,
but that `.` belongs to the match `a.a`, and the scan resumes after it (as `re.finditer` does). -/
theorem C09_attribute_name_found_counterexample :
    "a.a.x".toList = "a.".toList ++ ['a', '.'] ++ "x".toList ++ [] ∧ isWordChar '.' = false ∧
    isIdentifierName "x".toList = true ∧ "x".toList ∉ attrNames 'a' 0 true "a.a.x".toList := by decide

/-- With the explicit hypothesis that the text before the occurrence does not end with `a.`: the name is found. -/
theorem C09_attribute_name_found (pfx : Char) (query pre name post : Str)
    (hquery : query = pre ++ [pfx, '.'] ++ name ++ post)
    (hpre : pre = [] ∨ ∃ p l, pre = p ++ [l] ∧ isWordChar l = false)
    (hclear : ¬ [pfx, '.'] <:+ pre)
    (hid : isIdentifierName name = true)
    (hpost : post = [] ∨ ∃ d r, post = d :: r ∧ isWordChar d = false) :
    name ∈ attrNames pfx 0 true query := by
  have := attrNames_complete_aux pfx name post hid hpost pre 0 true (Nat.zero_le _) (fun _ => rfl)
    (BoundaryBefore.of_or pre hpre) hclear
  rw [hquery]
  simpa using this

/-- a decidable sufficient form of the extra hypothesis: the character before the occurrence is not `.` -/
theorem C09_attribute_name_found_of_not_dot (pfx : Char) (query pre name post : Str)
    (hquery : query = pre ++ [pfx, '.'] ++ name ++ post)
    (hpre : pre = [] ∨ ∃ p l, pre = p ++ [l] ∧ isWordChar l = false ∧ l ≠ '.')
    (hid : isIdentifierName name = true)
    (hpost : post = [] ∨ ∃ d r, post = d :: r ∧ isWordChar d = false) :
    name ∈ attrNames pfx 0 true query := by
  refine C09_attribute_name_found pfx query pre name post hquery ?_ ?_ hid hpost
  · rcases hpre with h | ⟨p, l, h1, h2, _⟩
    · exact Or.inl h
    · exact Or.inr ⟨p, l, h1, h2⟩
  · rintro ⟨t, ht⟩
    rcases hpre with rfl | ⟨p, l, rfl, _, h3⟩
    · simp at ht
    · have : t ++ [pfx, '.'] = (t ++ [pfx]) ++ ['.'] := by simp
      rw [this] at ht
      obtain ⟨_, h2⟩ := List.append_inj' ht rfl
      simp only [List.cons.injEq, and_true] at h2
      exact h3 h2.symm

/-- every attribute name found is a column name ⇒ the variable `a.name` is bound, initialised, to the column of that name:
the FIRST one for rbql.js, the LAST one for Python (`names = A ++ name :: B`, column `A.length`) -/
theorem C09_attribute_variable_bound (js : Bool) (pfx : Char) (query name : Str) (A B : List Str) (m : VarMap)
    (hfound : name ∈ attrNames pfx 0 true query)
    (hall : ∀ n ∈ attrNames pfx 0 true query, n ∈ A ++ name :: B)
    (hpos : if js then name ∉ A else name ∉ B) :
    ∃ m', parseAttributeVariables js query pfx (A ++ name :: B) m = .ok m' ∧
      m'.get? ([pfx, '.'] ++ name) = some { init := true, index := A.length } := by
  refine ⟨_, by rw [parseAttributeVariables_eq]; exact attrFold_ok js pfx _ _ m hall, ?_⟩
  apply attrWrites_get js pfx _ _ m name A.length hfound
  cases js
  · exact attrColumn_py_last A B name (by simpa using hpos)
  · exact attrColumn_js_first A B name (by simpa using hpos)

/-- distinct column names, both ports: `a.name` for the name at header position `i` is bound to column `i` -/
theorem C09_attribute_variable_binds_position (js : Bool) (pfx : Char) (query pre post : Str) (names : List Str) (m : VarMap)
    (hd : names.Nodup) (i : Nat) (hi : i < names.length)
    (hquery : query = pre ++ [pfx, '.'] ++ names[i] ++ post)
    (hpre : pre = [] ∨ ∃ p l, pre = p ++ [l] ∧ isWordChar l = false)
    (hclear : ¬ [pfx, '.'] <:+ pre)
    (hid : isIdentifierName names[i] = true)
    (hpost : post = [] ∨ ∃ d r, post = d :: r ∧ isWordChar d = false)
    (hall : ∀ n ∈ attrNames pfx 0 true query, n ∈ names) :
    ∃ m', parseAttributeVariables js query pfx names m = .ok m' ∧
      m'.get? ([pfx, '.'] ++ names[i]) = some { init := true, index := i } := by
  refine ⟨_, by rw [parseAttributeVariables_eq]; exact attrFold_ok js pfx _ _ m hall, ?_⟩
  exact attrWrites_get js pfx _ _ m names[i] i
    (C09_attribute_name_found pfx query pre names[i] post hquery hpre hclear hid hpost)
    (attrColumn_nodup js names hd i hi)

/-- an attribute name that is not a column name: the error names the FIRST such name in order of occurrence -/
theorem C09_attribute_unknown_column_fails (js : Bool) (pfx : Char) (query : Str) (names : List Str) (m : VarMap)
    (F G : List Str) (n : Str) (hnames : attrNames pfx 0 true query = F ++ n :: G)
    (hF : ∀ a ∈ F, a ∈ names) (hn : n ∉ names) :
    parseAttributeVariables js query pfx names m = .error (.columnNotFound n) := by
  rw [parseAttributeVariables_eq, hnames]
  exact attrFold_error js pfx names F G n m hF hn

/-! ## 4. duplicated names: the ports disagree (hence the `Nodup` hypotheses) -/

theorem C09_attr_duplicate_names_diverge :
    (parseAttributeVariables false "a.x".toList 'a' ["x".toList, "y".toList, "x".toList] []).toOption
        = some [("a.x".toList, { init := true, index := 2 })] ∧
    (parseAttributeVariables true "a.x".toList 'a' ["x".toList, "y".toList, "x".toList] []).toOption
        = some [("a.x".toList, { init := true, index := 0 })] := by decide

/-! ## 5. the init code -/

/-- every variable to initialise is assigned its column -/
theorem C09_init_assignments_cover (query : Str) (pfx : Char) (m : VarMap) (k : Str) (i : Nat)
    (h : (k, { init := true, index := i }) ∈ m) : (k, some i) ∈ initAssignments query pfx m := by
  simp only [initAssignments, List.mem_append, List.mem_map, List.mem_filter]
  exact Or.inr ⟨(k, ⟨true, i⟩), ⟨h, rfl⟩, rfl⟩

/-- nothing else is assigned a column: in particular no variable with `init = false` -/
theorem C09_init_assignments_only (query : Str) (pfx : Char) (m : VarMap) (k : Str) (i : Nat)
    (h : (k, some i) ∈ initAssignments query pfx m) : (k, { init := true, index := i }) ∈ m := by
  simp only [initAssignments, List.mem_append, List.mem_map, List.mem_filter] at h
  rcases h with (h | h) | ⟨e, ⟨he, hinit⟩, heq⟩
  · split at h <;> simp at h
  · split at h <;> simp at h
  · obtain ⟨k', ⟨b, j⟩⟩ := e
    simp only [Prod.mk.injEq, Option.some.injEq] at heq
    simp only at hinit
    obtain ⟨rfl, rfl⟩ := heq
    subst hinit
    exact he

/-- in map order: the column assignments are exactly the `init = true` entries, in the order of the map -/
theorem C09_init_assignments_order (query : Str) (pfx : Char) (m : VarMap) :
    (initAssignments query pfx m).filterMap (fun e => e.2.map (fun i => (e.1, i)))
      = (m.filter (·.2.init)).map (fun e => (e.1, e.2.index)) := by
  simp only [initAssignments, List.filterMap_append]
  have h1 : ∀ (c : Bool) (k : Str), (if c then [(k, (none : Option Nat))] else []).filterMap
      (fun e => e.2.map (fun i => (e.1, i))) = [] := by
    intro c k; cases c <;> simp
  rw [h1]
  have h2 : (if (pfx == 'a' && occursIn "aNR".toList query) = true then [("aNR".toList, (none : Option Nat))] else []).filterMap
      (fun e => e.2.map (fun i => (e.1, i))) = [] := by
    split <;> simp
  rw [h2]
  simp [List.filterMap_map, Function.comp_def]

/-! ## 6. direct variables -/

theorem C09_direct_variable_bound (query : Str) (names : List Str) (m : VarMap)
    (hd : names.Nodup) (hid : ∀ n ∈ names, isIdentifierName n = true) (i : Nat) (hi : i < names.length)
    (hocc : occursIn names[i] query = true) :
    ∃ m', mapVariablesDirectly query names m = .ok m' ∧ m'.get? names[i] = some { init := true, index := i } := by
  refine ⟨_, ?_, directWrites_get query names hd m i hi hocc⟩
  rw [mapVariablesDirectly_eq]
  exact directFold_ok query _ m (fun p hp => hid p.1 (List.fst_mem_of_mem_zipIdx hp))

/-- the error names the FIRST column name that is not an identifier -/
theorem C09_direct_bad_name_fails (query : Str) (A B : List Str) (n : Str) (m : VarMap)
    (hA : ∀ a ∈ A, isIdentifierName a = true) (hn : isIdentifierName n = false) :
    mapVariablesDirectly query (A ++ n :: B) m = .error (.badDirectName n) := by
  rw [mapVariablesDirectly_eq, List.zipIdx_append, List.zipIdx_cons]
  exact directFold_error query _ _ (n, _) m (fun p hp => hA p.1 (List.fst_mem_of_mem_zipIdx hp)) hn

/-! ## 7. ambiguous names -/

theorem C09_ambiguous_detected (query : Str) (inputNames joinNames : List Str) :
    (ensureNoAmbiguous query inputNames joinNames).isOk = false ↔
      ∃ n ∈ inputNames, n ∈ joinNames ∧ occursIn n query = true :=
  ensureNoAmbiguous_error_iff query inputNames joinNames

/-- and the error names the first such input name -/
theorem C09_ambiguous_first (query : Str) (A B joinNames : List Str) (n : Str)
    (hA : ∀ a ∈ A, ¬ (a ∈ joinNames ∧ occursIn a query = true)) (hj : n ∈ joinNames) (ho : occursIn n query = true) :
    ensureNoAmbiguous query (A ++ n :: B) joinNames = .error (.ambiguous n) :=
  ensureNoAmbiguous_first query A B joinNames n hA hj ho

/-! ## non-vacuity: hostile names (a space, a TAB, both quotes, a backslash) -/

-- 1/2: the hypotheses of `C09_dict_variable_binds_position` hold for every hostile name …
example : hostileNames.Nodup ∧ hasSubscriptOf 'a' true hostileQuery = true ∧
    occursIn (dictKey 'a' '"' hostileNames[0]) hostileQuery = true ∧
    occursIn (dictKey 'a' '\'' hostileNames[1]) hostileQuery = true ∧
    occursIn (dictKey 'a' '"' hostileNames[2]) hostileQuery = true ∧
    occursIn (dictKey 'a' '\'' hostileNames[3]) hostileQuery = true := by decide
-- … so the theorem applies (here: the name with a TAB, written with single quotes, column 1) …
example : (parseDictionaryVariables true hostileQuery 'a' hostileNames []).get? (dictKey 'a' '"' "a\tb".toList)
    = some { init := true, index := 1 } :=
  (C09_dict_variable_binds_position true hostileQuery 'a' '\'' (Or.inr rfl) hostileNames [] (by decide) 1 (by decide)
    (by decide) (by decide)).1
-- … and agrees with direct evaluation of the model (both quotes: column 2; backslash: column 3)
example : (parseDictionaryVariables false hostileQuery 'a' hostileNames []).get? (dictKey 'a' '"' "q\"'x".toList)
    = some { init := true, index := 2 } := by decide
example : (parseDictionaryVariables false hostileQuery 'a' hostileNames []).get? (dictKey 'a' '\'' "back\\slash".toList)
    = some { init := false, index := 3 } := by decide
example : nameSegments "q\"'x".toList [] = ["q".toList, "x".toList] := by decide
example : "name two".toList ∈ nameSegments "name two".toList [] := by decide
-- duplicated name: the LAST position
example : (parseDictionaryVariables false "a['x']".toList 'a' ["x".toList, "y".toList, "x".toList] []).get?
    (dictKey 'a' '"' "x".toList) = some { init := true, index := 2 } :=
  (C09_dict_variable_present false _ 'a' '\'' (Or.inr rfl) "x".toList ["x".toList, "y".toList] [] []
    (by decide) (by decide) (by decide)).1

-- 3: the hypotheses of `C09_attribute_variable_binds_position` hold for `a.id` in the hostile header
example : hostileQuery = "select a[\"name two\"], a['a\\tb'], a[\"q\\\"'x\"], a['back\\\\slash'], ".toList
      ++ ['a', '.'] ++ hostileNames[4] ++ [] ∧
    isWordChar ' ' = false ∧ isIdentifierName hostileNames[4] = true ∧
    (∀ n ∈ attrNames 'a' 0 true hostileQuery, n ∈ hostileNames) := by decide
example : (parseAttributeVariables true hostileQuery 'a' hostileNames []).toOption
    = some [("a.id".toList, { init := true, index := 4 })] := by decide
example : attrNames 'a' 0 true "a.x1+a.y_2 , ba.z, a.a.w".toList = ["x1".toList, "y_2".toList, "a".toList] := by decide
-- the unknown column: the first in order of occurrence
example : parseAttributeVariables false "a.id, a.nope, a.neither".toList 'a' hostileNames []
    = .error (.columnNotFound "nope".toList) :=
  C09_attribute_unknown_column_fails false 'a' _ hostileNames [] ["id".toList] ["neither".toList] "nope".toList
    (by decide) (by decide) (by decide)

-- 5
example : initAssignments "select a.NR, a.id".toList 'a'
      [("a[\"x\"]".toList, ⟨true, 0⟩), ("a['x']".toList, ⟨false, 0⟩), ("a.id".toList, ⟨true, 4⟩)]
    = [("a.NR".toList, none), ("a[\"x\"]".toList, some 0), ("a.id".toList, some 4)] := by decide

-- 6: identifiers are bound to their position; a hostile name makes direct mode fail, naming it
example : (mapVariablesDirectly "select id, _y".toList ["id".toList, "x_1".toList, "_y".toList] []).toOption
    = some [("id".toList, { init := true, index := 0 }), ("_y".toList, { init := true, index := 2 })] := by decide
example : ["id".toList, "x_1".toList, "_y".toList].Nodup ∧
    (∀ n ∈ ["id".toList, "x_1".toList, "_y".toList], isIdentifierName n = true) ∧
    occursIn "_y".toList "select id, _y".toList = true := by decide
example : mapVariablesDirectly "select id".toList ("id".toList :: hostileNames) [] = .error (.badDirectName "name two".toList) :=
  C09_direct_bad_name_fails _ ["id".toList] _ "name two".toList [] (by decide) (by decide)

-- 7
example : ensureNoAmbiguous "select id, other".toList ["x".toList, "id".toList] ["id".toList, "x".toList]
    = .error (.ambiguous "id".toList) :=
  C09_ambiguous_first _ ["x".toList] [] _ _ (by decide) (by decide) (by decide)
example : (ensureNoAmbiguous "select a.id".toList ["id".toList] ["k".toList]).isOk = true := by decide

end Rbql

namespace Rbql

/-- **direct mode: the header wins.** With `normalize_column_names = False` the bare name of column `i` is bound to column `i` whatever
the positional passes put into the map before — also when the name LOOKS like a positional variable (`a2` as the name of the first
column): `get_variables_map` runs the header pass last. (The seeded change that ran the header pass first broke exactly this.) -/
theorem C09_direct_name_wins_over_positional (js : Bool) (query : Str) (pfx : Char) (names : List Str) (w : Option Nat)
    (hw : ∀ k, w = some k → k = names.length)
    (hd : names.Nodup) (hid : ∀ n ∈ names, isIdentifierName n = true) (i : Nat) (hi : i < names.length)
    (hocc : occursIn names[i] query = true) :
    ∃ m', tableVariablesMap js query pfx (some names) false w = .ok m' ∧ m'.get? names[i] = some { init := true, index := i } := by
  obtain ⟨m', hm, hg⟩ := C09_direct_variable_bound query names (positionalVars (!js) pfx query []) hd hid i hi hocc
  refine ⟨m', ?_, hg⟩
  unfold tableVariablesMap
  cases w with
  | none => simp [hm]
  | some k =>
    have hk := hw k rfl
    subst hk
    simp [hm]

/-- non-vacuity: a header made of positional-looking names, addressed in direct mode -/
example : (tableVariablesMap false "select a2, a1".toList 'a' (some ["a2".toList, "a3".toList, "a1".toList]) false (some 3)).toOption.map
      (fun m => (m.get? "a2".toList, m.get? "a1".toList, m.get? "a3".toList)) =
    some (some ⟨true, 0⟩, some ⟨true, 2⟩, none) := by decide

end Rbql
