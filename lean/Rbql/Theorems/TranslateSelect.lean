/-
  Property C01 (select list: `*`, `a.*`, `b.*` at any position expand in place; `COUNT(*)` is `COUNT(1)`; ` AS name`),
  and the item count of the look-behind variant used for header parsing (C07), on the model of the query-translation
  layer (`Model/Translate.lean`).  Helper lemmas: `Proofs/TranslateItems.lean`, `Proofs/TranslateStars.lean`,
  `Proofs/TranslateCount.lean`, `Proofs/TranslateAlias.lean`, `Proofs/TranslateSelectLemmas.lean`.

  A select list is `renderSel items`: (left pad, item, right pad) triples joined by commas, an item being a star form
  or a plain text.  Plain texts must be `PlainOk`: no comma-separated piece of the text is a star form, no line feed,
  not blank.
-/
import Rbql.Proofs.TranslateSelectLemmas
namespace Rbql

/-! ## 1. `replace_star_vars` -/

/-- **`replaceStarVars_canonical`** (Python `js = false`, JavaScript `js = true`): whatever the position, the padding and
the number of star items, `replace_star_vars` turns the rendered list into the canonical text: each star item
contributes exactly its replacement (its padding and the commas on both sides disappear), each plain item its padded
text, adjacent plain items are separated by one comma. -/
theorem replaceStarVars_canonical (js : Bool) (items : List PItem) (hok : PlainItemsOk items) :
    replaceStarVars js (renderSel items) = canonStars (if js then starReplJs else starReplPy) items :=
  replaceStarVars_canonical_aux js items hok

/-- non-vacuity: `a1, *  , a2 * 2,a.*,   b.*` -/
example : PlainItemsOk [(0, .plain "a1".toList, 0), (1, .star .all, 2), (1, .plain "a2 * 2".toList, 0), (0, .star .a, 0),
    (3, .star .b, 0)] := by decide
example : replaceStarVars false "a1, *  , a2 * 2,a.*,   b.*".toList
    = "a1] + star_fields + [ a2 * 2] + record_a + [] + record_b + [".toList :=
  replaceStarVars_canonical false [(0, .plain "a1".toList, 0), (1, .star .all, 2), (1, .plain "a2 * 2".toList, 0),
    (0, .star .a, 0), (3, .star .b, 0)] (by decide)
/-- only a star; `*, *`; a star first; a star last -/
example : canonStars starReplPy [(1, .star .all, 1)] = "] + star_fields + [".toList := by decide
example : canonStars starReplPy [(0, .star .all, 0), (1, .star .all, 0)]
    = "] + star_fields + [] + star_fields + [".toList := by decide
example : canonStars starReplJs [(0, .star .a, 0), (1, .plain "a1".toList, 0)]
    = "]).concat(record_a).concat([ a1".toList := by decide

/-- every non-blank text without `*` and without line feed is an admissible plain item (and so are texts such as
`a1 * 2`, where the `*` is not a whole comma-separated piece) -/
theorem PlainOk_of_star_free (t : Str) (h1 : '*' ∉ t) (h2 : LF ∉ t) (h3 : ∃ c ∈ t, c ≠ ' ') : PlainOk t = true :=
  plainOk_of_no_star t h1 h2 h3

example : PlainOk "a1 * 2".toList = true := by decide
example : PlainOk "f(a1, a2 * 3) + b.x".toList = true := by decide
example : PlainOk " a.* ".toList = false ∧ PlainOk "*".toList = false ∧ PlainOk "   ".toList = false := by decide

/-- the known limitation of RBQL: a star that is a whole comma-separated piece INSIDE a call is expanded too, so such a
text is not `PlainOk` and the canonical form does not hold for it -/
theorem replaceStarVars_inner_star_counterexample :
    PlainOk "f(a1, *, a2)".toList = false ∧
    replaceStarVars false "f(a1, *, a2)".toList = "f(a1] + star_fields + [ a2)".toList ∧
    replaceStarVars false (renderSel [(0, .plain "f(a1, *, a2)".toList, 0)])
      ≠ canonStars starReplPy [(0, .plain "f(a1, *, a2)".toList, 0)] := by
  decide

/-! ## 2. the look-behind variant (`replace_star_vars_for_ast` / `replace_star_vars_for_header_parsing`) -/

/-- **`replaceStarVarsMarker_canonical`**: every star item is replaced by its marker, its padding removed; nothing else
changes (the commas stay), so the header parser sees exactly one item per select item. -/
theorem replaceStarVarsMarker_canonical (js : Bool) (items : List PItem) (hok : PlainItemsOk items) :
    replaceStarVarsMarker js (renderSel items) = commaJoin (items.map markItem) :=
  replaceStarVarsMarker_canonical_aux js items hok

example : replaceStarVarsMarker true "a1, *  , a2 * 2,a.*,   b.*".toList
    = "a1,__RBQL_INTERNAL_STAR, a2 * 2,a.__RBQL_INTERNAL_STAR,b.__RBQL_INTERNAL_STAR".toList :=
  replaceStarVarsMarker_canonical true [(0, .plain "a1".toList, 0), (1, .star .all, 2), (1, .plain "a2 * 2".toList, 0),
    (0, .star .a, 0), (3, .star .b, 0)] (by decide)

/-! ## 3. `replace_star_count` -/

/-- **`replaceStarCount_items`**: on a comma-joined list whose items are either `COUNT(*)` (any letter case, optional
inner spaces, anything `countFreeTail` after the parenthesis) or texts in which the scanner finds nothing, every
`COUNT(*)` with its left padding becomes ` COUNT(1)` and nothing else changes; the Python version then strips leading
spaces, the JavaScript version strips spaces at both ends. -/
theorem replaceStarCount_items (items : List CItem) (h : ∀ x ∈ items, x.Ok = true) :
    replaceStarCountRaw 0 true (commaJoin (items.map CItem.render)) = commaJoin (items.map CItem.out) ∧
    replaceStarCountPy (commaJoin (items.map CItem.render)) = (commaJoin (items.map CItem.out)).dropWhile (· == ' ') ∧
    replaceStarCountJs (commaJoin (items.map CItem.render)) = jsStrStrip (commaJoin (items.map CItem.out)) :=
  ⟨replaceStarCountRaw_items items h, replaceStarCountPy_items items h, replaceStarCountJs_items items h⟩

example : replaceStarCountPy " a1, Count( *) , a2".toList = "a1, COUNT(1) , a2".toList := by
  have := (replaceStarCount_items
    [.other " a1".toList, .count 1 "Count(".toList 1 0 " ".toList, .other " a2".toList] (by decide)).2.1
  have e1 : commaJoin ([CItem.other " a1".toList, .count 1 "Count(".toList 1 0 " ".toList, .other " a2".toList].map
      CItem.render) = " a1, Count( *) , a2".toList := by decide
  have e2 : (commaJoin ([CItem.other " a1".toList, .count 1 "Count(".toList 1 0 " ".toList, .other " a2".toList].map
      CItem.out)).dropWhile (· == ' ') = "a1, COUNT(1) , a2".toList := by decide
  rw [e1, e2] at this
  exact this

/-- a `COUNT(*)` that is not at the start of an item is left alone (and such a text is `CountFree`) -/
example : CountFree "x + COUNT(*)".toList = true ∧ CountFree "a, COUNT(*)".toList = false := by decide

/-! ## 4. ` AS name` -/

/-- **`subAsAlias_items`**: in a comma-joined list, an item `expr ++ spaces(≥1) ++ (as|AS) ++ spaces(≥1) ++ ident ++ spaces`
loses exactly its alias tail, which is replaced by `repl ident`; the other items are unchanged.  Side conditions
(`AItem.Ok`): `expr` (and every other item) is `AliasFree` — no suffix of it is itself an alias tail, and it contains
no line feed —, `expr` does not end with a space, `ident` is a letter followed by letters, digits, underscores. -/
theorem subAsAlias_items (py : Bool) (repl : Str → Str) (items : List AItem) (h : ∀ x ∈ items, x.Ok = true) :
    subAsAlias py repl 0 (commaJoin (items.map AItem.render)) = commaJoin (items.map (AItem.out repl)) :=
  subAsAlias_items_aux py repl items h

example : subAsAlias true aliasPseudoCall 0 "a1 as  x1 , a2 ,  f(a3, 2)   AS Total".toList =
    "a1 == alias_column_as_pseudo_func(x1), a2 ,  f(a3, 2) == alias_column_as_pseudo_func(Total)".toList :=
  subAsAlias_items true aliasPseudoCall
    [.aliased "a1".toList 0 false 1 "x1".toList 1, .other " a2 ".toList,
     .aliased "  f(a3, 2)".toList 2 true 0 "Total".toList 0]
    (by decide)

/-- (i) an alias-like ` as k` inside a call that is followed by a comma IS rewritten: `f(a1 as k, a2) as r` is not
handled as `expr ++ repl r`, so `AliasFree expr` cannot be dropped -/
theorem subAsAlias_inner_alias_counterexample :
    subAsAlias false (fun _ => []) 0 "f(a1 as k, a2)".toList = "f(a1, a2)".toList := by decide

example : AliasFree "f(a1 as k, a2)".toList = false := by decide

/-- (ii) in `x as y as z` only the last ` as z` matches (after `y` the pattern wants the end or a comma) -/
theorem subAsAlias_double_alias (py : Bool) :
    subAsAlias py (fun i => '<' :: i ++ ['>']) 0 "x as y as z".toList = "x as y<z>".toList := by
  cases py <;> decide

/-- ... although `x as y` is not `AliasFree`: the intrinsic condition is sufficient, not necessary -/
example : AliasFree "x as y".toList = false := by decide

/-- (iii) an `expr` ending in a blank: the match starts at the first blank, so the blank is swallowed and the result
is NOT `expr ++ repl ident` (`expr.getLast? != some ' '` cannot be dropped) -/
theorem subAsAlias_trailing_space_counterexample :
    subAsAlias false (fun i => '<' :: i ++ ['>']) 0 (AItem.render (.aliased "x ".toList 0 false 0 "y".toList 0))
      = "x<y>".toList ∧
    AItem.out (fun i => '<' :: i ++ ['>']) (.aliased "x ".toList 0 false 0 "y".toList 0) = "x <y>".toList ∧
    AliasFree "x ".toList = true := by
  decide

/-- a final line feed: Python's `$` matches before it, JS's does not (why `AliasFree` forbids line feeds) -/
theorem subAsAlias_lf_counterexample :
    subAsAlias true (fun _ => []) 0 "x as y\n".toList = "x\n".toList ∧
    subAsAlias false (fun _ => []) 0 "x as y\n".toList = "x as y\n".toList ∧
    aliasFreeSuffixes "x as y\n".toList = true := by decide

/-! ## 5. property C01 -/

/-- **C01, Python**: a select list with star items at any positions (no `COUNT(*)`, no aliases, `SelOk`; the first
plain text does not start and the last does not end with white space, which belongs to the padding) is translated to
the list expression `[` canonical text `]`, and the text handed to `ast.parse` has one marker per star item. -/
theorem C01_star_items_translate_in_place (items : List PItem) (hne : items ≠ []) (hok : SelOk items)
    (hh : headOk isPyWsU items = true) (hl : lastOk isPyWsU items = true) :
    translateSelectPy (renderSel items)
      = .ok ('[' :: pyStripU (canonStars starReplPy items) ++ [']'], pyStripU (commaJoin (items.map markItem))) :=
  translateSelectPy_renderSel items hne hok hh hl

/-- **C01, JavaScript** -/
theorem C01_star_items_translate_in_place_js (items : List PItem) (hne : items ≠ []) (hok : SelOk items)
    (hh : headOk (· == ' ') items = true) (hl : lastOk (· == ' ') items = true) :
    translateSelectJs (renderSel items)
      = .ok ("[].concat([".toList ++ jsStrStrip (canonStars starReplJs items) ++ "])".toList,
             jsStrStrip (commaJoin (items.map markItem))) :=
  translateSelectJs_renderSel items hne hok hh hl

/-- the stripped canonical text is the canonical text of the list without its outer padding -/
theorem C01_canonical_text_stripped (items : List PItem) (hne : items ≠ []) :
    (headOk isPyWsU items = true → lastOk isPyWsU items = true →
      pyStripU (canonStars starReplPy items) = canonStars starReplPy (trimEnds items)) ∧
    (headOk (· == ' ') items = true → lastOk (· == ' ') items = true →
      jsStrStrip (canonStars starReplJs items) = canonStars starReplJs (trimEnds items)) :=
  ⟨fun h1 h2 => stripBy_canonStars blankSet_py starReplPy (starReplPy_headNot blankSet_py) (starReplPy_lastNot blankSet_py)
      items hne h1 h2,
   fun h1 h2 => stripBy_canonStars blankSet_js starReplJs (starReplJs_headNot blankSet_js) (starReplJs_lastNot blankSet_js)
      items hne h1 h2⟩

/-- non-vacuity: ` a1, *  , a2 * 2,a.*,   b.* ` -/
example : translateSelectPy " a1, *  , a2 * 2,a.*,   b.* ".toList
    = .ok ("[a1] + star_fields + [ a2 * 2] + record_a + [] + record_b + []".toList,
           "a1,__RBQL_INTERNAL_STAR, a2 * 2,a.__RBQL_INTERNAL_STAR,b.__RBQL_INTERNAL_STAR".toList) := by
  have := C01_star_items_translate_in_place
    [(1, .plain "a1".toList, 0), (1, .star .all, 2), (1, .plain "a2 * 2".toList, 0), (0, .star .a, 0), (3, .star .b, 1)]
    (by decide) (by decide) (by decide) (by decide)
  have e1 : renderSel [(1, .plain "a1".toList, 0), (1, .star .all, 2), (1, .plain "a2 * 2".toList, 0), (0, .star .a, 0),
      (3, .star .b, 1)] = " a1, *  , a2 * 2,a.*,   b.* ".toList := by decide
  rw [e1] at this
  rw [this]
  simp only [Except.ok.injEq, Prod.mk.injEq]
  decide

/-- **C01, segments**: the translated list expression is the concatenation, in item order, of the list displays of the
maximal runs of plain items and of the star variables: `[run₁] + V₁ + [run₂] + …` (an empty run is `[]`).  This is the
textual form of "the output record is the concatenation of what each item contributes, in order". -/
theorem C01_select_list_segments (items : List PItem) :
    '[' :: canonStars starReplPy items ++ [']'] = joinD " + ".toList ((segments items).map Seg.text) ∧
    "[].concat([".toList ++ canonStars starReplJs items ++ "])".toList
      = "[].concat(".toList ++ joinD ").concat(".toList ((segments items).map Seg.text) ++ [')'] :=
  ⟨canonStars_segments_py items, canonStars_segments_js items⟩

/-- … and for the translation itself (the outer padding of the list is stripped first) -/
theorem C01_select_list_segments_translated (items : List PItem) (hne : items ≠ []) (hok : SelOk items)
    (hh : headOk isPyWsU items = true) (hl : lastOk isPyWsU items = true) :
    translateSelectPy (renderSel items)
      = .ok (joinD " + ".toList ((segments (trimEnds items)).map Seg.text), pyStripU (commaJoin (items.map markItem))) := by
  rw [C01_star_items_translate_in_place items hne hok hh hl, (C01_canonical_text_stripped items hne).1 hh hl,
    (C01_select_list_segments (trimEnds items)).1]

example : segments [(0, .plain "a1".toList, 0), (1, .star .all, 0), (1, .plain "a2".toList, 0), (1, .plain "a3".toList, 0),
      (0, .star .b, 1)]
    = [.run [(0, "a1".toList, 0)], .var .all, .run [(1, "a2".toList, 0), (1, "a3".toList, 0)], .var .b, .run []] := by
  decide
example : joinD " + ".toList ((segments [(0, .plain "a1".toList, 0), (1, .star .all, 0), (1, .plain "a2".toList, 0),
      (1, .plain "a3".toList, 0), (0, .star .b, 1)]).map Seg.text)
    = "[a1] + star_fields + [ a2, a3] + record_b + []".toList := by decide

/-- **C01, `COUNT(*)`**: a select list in which some items are `COUNT(*)` (any letter case, inner spaces, any padding) is
translated exactly like the list in which each of them, with its left padding, is replaced by ` COUNT(1)`; the first
rewrite produces that list. -/
theorem C01_count_star_is_count_one (items : List CPItem) (h : ∀ x ∈ items, cselItemOk x = true) :
    replaceStarCountRaw 0 true (commaJoin (items.map renderC)) = renderSel (items.map countToOne) ∧
    translateSelectPy (commaJoin (items.map renderC)) = translateSelectPy (renderSel (items.map countToOne)) ∧
    translateSelectJs (commaJoin (items.map renderC)) = translateSelectJs (renderSel (items.map countToOne)) := by
  have e : replaceStarCountRaw 0 true (commaJoin (items.map renderC))
      = replaceStarCountRaw 0 true (renderSel (items.map countToOne)) := by
    rw [replaceStarCountRaw_select items h, replaceStarCountRaw_countToOne items h]
  exact ⟨replaceStarCountRaw_select items h, translateSelectPy_congr _ _ e, translateSelectJs_congr _ _ e⟩

/-- non-vacuity: `a1, count( * ) ,*` -/
example : translateSelectPy "a1, count( * ) ,*".toList
    = .ok ("[a1, COUNT(1) ] + star_fields + []".toList, "a1, COUNT(1) ,__RBQL_INTERNAL_STAR".toList) := by
  have h1 := (C01_count_star_is_count_one
    [(0, .item (.plain "a1".toList), 0), (1, .count "count(".toList 1 1, 1), (0, .item (.star .all), 0)] (by decide)).2.1
  have e1 : commaJoin ([(0, .item (.plain "a1".toList), 0), (1, .count "count(".toList 1 1, 1),
      (0, .item (.star .all), 0)].map renderC) = "a1, count( * ) ,*".toList := by decide
  rw [e1] at h1
  rw [h1]
  have h2 := C01_star_items_translate_in_place
    ([(0, .item (.plain "a1".toList), 0), (1, .count "count(".toList 1 1, 1), (0, .item (.star .all), 0)].map countToOne)
    (by decide) (by decide) (by decide) (by decide)
  rw [h2]
  simp only [Except.ok.injEq, Prod.mk.injEq]
  decide

/-- **C01, empty select**: the translation is rejected exactly when the translated text is blank; in particular for a
select list made of spaces only; and never for a non-empty admissible list. -/
theorem C01_empty_select_rejected (s : Str) :
    (translateSelectPy s = .error .emptySelect ↔
      pyStripU (replaceStarVars false (pyStripU (subAsAlias true (fun _ => []) 0 (replaceStarCountPy s)))) = []) ∧
    (translateSelectJs s = .error .emptySelect ↔
      jsStrStrip (replaceStarVars true (subAsAlias false (fun _ => []) 0 (replaceStarCountJs s))) = []) := by
  constructor
  · unfold translateSelectPy
    simp only
    split <;> simp_all
  · unfold translateSelectJs
    simp only
    split <;> simp_all

theorem C01_blank_select_rejected (n : Nat) :
    translateSelectPy (spaces n) = .error .emptySelect ∧ translateSelectJs (spaces n) = .error .emptySelect :=
  ⟨translateSelectPy_spaces n, translateSelectJs_spaces n⟩

theorem C01_nonempty_select_accepted (items : List PItem) (hne : items ≠ []) (hok : SelOk items)
    (hh : headOk isPyWsU items = true) (hl : lastOk isPyWsU items = true) :
    translateSelectPy (renderSel items) ≠ .error .emptySelect := by
  rw [C01_star_items_translate_in_place items hne hok hh hl]
  simp

/-! ## C07: the header parser sees one item per select item -/

/-- **C07**: when no plain text contains a comma, splitting the look-behind variant's output at the commas gives exactly
one piece per select item — the marker for a star item, the padded text for a plain item. -/
theorem C07_star_markers_keep_item_count (js : Bool) (items : List PItem) (hne : items ≠ []) (hok : PlainItemsOk items)
    (hc : ∀ x ∈ items, noCommaItem x = true) :
    splitOn [','] (replaceStarVarsMarker js (renderSel items)) = items.map markItem ∧
    (splitOn [','] (replaceStarVarsMarker js (renderSel items))).length = items.length := by
  have e : splitOn [','] (replaceStarVarsMarker js (renderSel items)) = items.map markItem := by
    rw [replaceStarVarsMarker_canonical js items hok]
    apply splitOn_commaJoin
    · simpa using hne
    · intro x hx
      obtain ⟨y, hy, rfl⟩ := List.mem_map.mp hx
      exact markItem_noComma y (hc y hy)
  exact ⟨e, by rw [e, List.length_map]⟩

example : ∀ x ∈ [((0, .plain "a1".toList, 0) : PItem), (1, .star .all, 2), (1, .plain "a2 * 2".toList, 0), (0, .star .a, 0)],
    noCommaItem x = true := by decide

/-! ## why the side conditions are there, and more instances -/


/-- why `PlainOk` excludes line feeds: in Python `$` also matches just before a final line feed, so `*\n` at the end of
the text IS a star item there (and the line feed is lost), while the JavaScript scanner leaves it alone -/
theorem replaceStarVars_final_lf_counterexample :
    PlainOk "*\n".toList = false ∧ quietB true "*\n".toList = true ∧
    replaceStarVars false "a1, *\n".toList = "a1] + star_fields + [".toList ∧
    replaceStarVars true "a1, *\n".toList = "a1, *\n".toList := by
  decide

/-- why the first plain text must not start (the last not end) with white space: Python strips the text with
`str.strip()` before the star rewrite, so the tab of the item `\t*` disappears and the item becomes a star -/
theorem C01_outer_whitespace_counterexample :
    SelOk [(0, .plain "\t*".toList, 0)] ∧ headOk isPyWsU [(0, .plain "\t*".toList, 0)] = false ∧
    translateSelectPy (renderSel [(0, .plain "\t*".toList, 0)])
      = .ok ("[] + star_fields + []".toList, "__RBQL_INTERNAL_STAR".toList) ∧
    '[' :: pyStripU (canonStars starReplPy [(0, .plain "\t*".toList, 0)]) ++ [']'] = "[*]".toList := by
  refine ⟨by decide, by decide, ?_, by decide⟩
  have : translateSelectPy (renderSel [(0, .plain "\t*".toList, 0)])
      = translateSelectPy (renderSel [(0, .star .all, 0)]) := by
    have e : replaceStarCountPy (renderSel [(0, .plain "\t*".toList, 0)]) = "\t*".toList := by decide
    have e' : replaceStarCountPy (renderSel [(0, .star .all, 0)]) = "*".toList := by decide
    have a1 : ∀ f, subAsAlias true f 0 "\t*".toList = "\t*".toList := fun f => by
      simp [subAsAlias, asAliasAt]
    have a2 : ∀ f, subAsAlias true f 0 "*".toList = "*".toList := fun f => by
      simp [subAsAlias, asAliasAt]
    have s : pyStripU "\t*".toList = pyStripU "*".toList := by decide
    unfold translateSelectPy
    simp only [e, e', a1, a2, s]
  rw [this, C01_star_items_translate_in_place [(0, .star .all, 0)] (by decide) (by decide) (by decide) (by decide)]
  simp only [Except.ok.injEq, Prod.mk.injEq]
  decide

example : translateSelectJs "  a.* , a1 + 1,*".toList
    = .ok ("[].concat([]).concat(record_a).concat([ a1 + 1]).concat(star_fields).concat([])".toList,
           "a.__RBQL_INTERNAL_STAR, a1 + 1,__RBQL_INTERNAL_STAR".toList) := by
  have := C01_star_items_translate_in_place_js
    [(2, .star .a, 1), (1, .plain "a1 + 1".toList, 0), (0, .star .all, 0)] (by decide) (by decide) (by decide) (by decide)
  have e1 : renderSel [(2, .star .a, 1), (1, .plain "a1 + 1".toList, 0), (0, .star .all, 0)]
      = "  a.* , a1 + 1,*".toList := by decide
  rw [e1] at this
  rw [this]
  simp only [Except.ok.injEq, Prod.mk.injEq]
  decide

example : (splitOn [','] (replaceStarVarsMarker true "a1, *  , a2 * 2,a.*".toList)).length = 4 := by
  have := (C07_star_markers_keep_item_count true
    [(0, .plain "a1".toList, 0), (1, .star .all, 2), (1, .plain "a2 * 2".toList, 0), (0, .star .a, 0)]
    (by decide) (by decide) (by decide)).2
  have e1 : renderSel [(0, .plain "a1".toList, 0), (1, .star .all, 2), (1, .plain "a2 * 2".toList, 0), (0, .star .a, 0)]
      = "a1, *  , a2 * 2,a.*".toList := by decide
  rw [e1] at this
  exact this

end Rbql
