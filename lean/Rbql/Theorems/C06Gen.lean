/-
  C06 — source-derived obligation: the row flow of both engines, REGENERATED from /repo on every run
  (`tools/row_flow_scan.py` -> `Rbql/Generated/RowFlow.lean`), passes the may-alias check whose soundness is
  `C06_row_flow_sound` (Proofs/RowFlowSound.lean): no statement sequence the engines' templates and writers can
  execute modifies an object of the caller's tables or hands one to a writer.
-/
import Rbql.Model.RowFlow
import Rbql.Generated.RowFlow
import Rbql.Theorems.C06RowFlow
namespace Rbql

/-- GENERATED OBLIGATION: both regenerated flows pass the check -/
theorem C06_generated_row_flows_pass_check :
    Generated.pyRowFlow.check = true ∧ Generated.jsRowFlow.check = true := by
  decide +kernel

/-- … hence (soundness of the check) no program made of the statements found in `rbql_engine.py` changes an input object
or hands one to a writer, whatever the order and number of executions -/
theorem C06_generated_py_row_flow_safe (st0 : MState) (inputRefs : List Ref) (hinit : InitOk Generated.pyRowFlow st0 inputRefs)
    (prog : List FlowStmt) (hprog : ∀ s ∈ prog, Generated.pyRowFlow.allows s) :
    (∀ r ∈ inputRefs, (execAll st0 prog).heap r = st0.heap r) ∧ (∀ r ∈ (execAll st0 prog).written, r ∉ inputRefs) :=
  C06_row_flow_sound Generated.pyRowFlow C06_generated_row_flows_pass_check.1 st0 inputRefs hinit prog hprog

/-- … and the same for `rbql.js` -/
theorem C06_generated_js_row_flow_safe (st0 : MState) (inputRefs : List Ref) (hinit : InitOk Generated.jsRowFlow st0 inputRefs)
    (prog : List FlowStmt) (hprog : ∀ s ∈ prog, Generated.jsRowFlow.allows s) :
    (∀ r ∈ inputRefs, (execAll st0 prog).heap r = st0.heap r) ∧ (∀ r ∈ (execAll st0 prog).written, r ∉ inputRefs) :=
  C06_row_flow_sound Generated.jsRowFlow C06_generated_row_flows_pass_check.2 st0 inputRefs hinit prog hprog

end Rbql
