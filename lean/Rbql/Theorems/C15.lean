/-
  C15 — Broken pipes, bad bytes and errors are handled cleanly at every point.
-/
import Rbql.Model.Resources
import Rbql.Proofs.ChainAlgebra
import Rbql.Proofs.RefusalPrefix
namespace Rbql

/-- On every path — success, or an exception at ANY step of `query_csv` (opening either file, the
argument checks, constructing iterators and writer, opening the join file, parsing, the main loop, the
final flush) — every file the CSV front-end opened is closed when it returns, and stdin/stdout are never
closed.  The fault plan ranges over all step indices (`none` = no fault); beyond the last step a plan is
the same as no fault. -/
theorem C15_fds_closed (outFile inFile hasJoin : Bool) (failAt : Option Nat) :
    (queryCsvFds outFile inFile hasJoin failAt).allClosed = true := by
  have key : ∀ (o i j : Bool) (k : Nat), k ≤ 9 → (queryCsvFds o i j (some k)).allClosed = true := by
    intro o i j k hk
    have : k = 0 ∨ k = 1 ∨ k = 2 ∨ k = 3 ∨ k = 4 ∨ k = 5 ∨ k = 6 ∨ k = 7 ∨ k = 8 ∨ k = 9 := by omega
    rcases this with h | h | h | h | h | h | h | h | h | h <;> subst h <;> cases o <;> cases i <;> cases j <;> rfl
  cases failAt with
  | none => cases outFile <;> cases inFile <;> cases hasJoin <;> rfl
  | some k =>
    by_cases hk : k ≤ 9
    · exact key outFile inFile hasJoin k hk
    · -- a fault index beyond the last step never fires: same as no fault
      have hgen : ∀ (steps : List CsvStep) (i : Nat) (f : Fds), i + steps.length ≤ k →
          runSteps outFile inFile steps i (some k) f = runSteps outFile inFile steps i none f := by
        intro steps
        induction steps with
        | nil => intros; rfl
        | cons s rest ih =>
          intro i f h
          simp only [List.length_cons] at h
          have hne : (some k : Option Nat) ≠ some i := by
            intro he; cases he; omega
          simp only [runSteps, hne, if_false]
          have : (none : Option Nat) ≠ some i := by simp
          simp only [this, if_false]
          exact ih (i + 1) _ (by omega)
      have hlen : 0 + (allSteps hasJoin).length ≤ k := by
        cases hasJoin <;> simp [allSteps] <;> omega
      unfold queryCsvFds
      rw [hgen (allSteps hasJoin) 0 {} hlen]
      cases outFile <;> cases inFile <;> cases hasJoin <;> rfl

/-- the user's writer sees `finish` exactly once after a run that returns normally, and no write after
one returned False — for every query shape, every list of emissions and every refusal point -/
theorem C15_writer_protocol (q : SemQuery) (es : List (List Val × Row)) (k : Nat) (hk : 1 ≤ k) :
    (((buildChain q { refuseFrom := some k }).feedStop es).1.finish).getSink.finished = 1 ∧
    (((buildChain q { refuseFrom := some k }).feedStop es).1.finish).getSink.afterRefusal = 0 := by
  refine ⟨by simpa using chain_finish_once q es { refuseFrom := some k }, ?_⟩
  apply chain_no_write_after_refusal q es { refuseFrom := some k } rfl
  intro n hn
  simp at hn
  subst hn
  show 0 < k
  omega

/-- If the output consumer goes away at the k-th write, the records it accepted are exactly the first
k−1 records of the full (unbroken) output — for every chain shape (sorted, distinct, distinct-count,
top) and every list of emissions; the writer receives min(k, |full|) write calls. -/
theorem C15_prefix_on_broken_pipe (q : SemQuery) (hsel : q.isUpdate = false) (es : List (List Val × Row))
    (k : Nat) (hk : 1 ≤ k) :
    (((buildChain q { refuseFrom := some k }).feedStop es).1.finish).getSink.rows.reverse = (selectSpec q es).take (k - 1) ∧
    (((buildChain q { refuseFrom := some k }).feedStop es).1.finish).getSink.writes = min k (selectSpec q es).length :=
  ⟨chain_refusal_prefix q hsel es k hk, chain_refusal_writes q hsel es k hk⟩

theorem C15_prefix_on_broken_pipe_update (q : SemQuery) (hupd : q.isUpdate = true) (es : List (List Val × Row))
    (k : Nat) (hk : 1 ≤ k) :
    (((buildChain q { refuseFrom := some k }).feedStop es).1.finish).getSink.rows.reverse = (es.map (·.2)).take (k - 1) :=
  chain_refusal_prefix_update q hupd es k hk

/-- whatever the user's writer does (any refusal point, any counters), the whole chain hands it one list
— the specification's result — through one stop-at-first-refusal loop, then `finish` once -/
theorem C15_chain_is_one_feed (q : SemQuery) (hsel : q.isUpdate = false) (es : List (List Val × Row)) (sink : Sink) :
    (((buildChain q sink).feedStop es).1.finish).getSink = (sink.feed (selectSpec q es)).done :=
  chain_sink q hsel es sink

/-! non-vacuity: the join file is opened and the query then fails -/
example : (runSteps true true (allSteps true) 0 (some 8) {}).joinOpen = true := by decide
example : (queryCsvFds true true true (some 8)).allClosed = true := by decide

end Rbql
