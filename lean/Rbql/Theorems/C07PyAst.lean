/-
  C07 — the Python `ast` route from a select-list item to its column info (Model/PyAst.lean).
-/
import Rbql.Model.PyAst
namespace Rbql

/-- `mapM` in `Except` keeps the length -/
theorem mapM_except_length {α β ε : Type} (f : α → Except ε β) : ∀ (l : List α) (r : List β), l.mapM f = .ok r → r.length = l.length := by
  intro l
  induction l with
  | nil => intro r h; simp [List.mapM_nil, pure, Except.pure] at h; subst h; rfl
  | cons a as ih =>
    intro r h
    rw [List.mapM_cons] at h
    cases hfa : f a with
    | error e => simp [hfa, bind, Except.bind] at h
    | ok b =>
      cases hrest : as.mapM f with
      | error e => simp [hfa, hrest, bind, Except.bind] at h
      | ok bs =>
        simp [hfa, hrest, bind, Except.bind, pure, Except.pure] at h
        subst h
        simp [ih bs hrest]

/-- **one info per item**: a Tuple root (`a1, a2, …`) gives one info per element of the list display, anything else exactly one —
the count the header is built from is the count of values the main loop produces -/
theorem C07_py_one_info_per_item (t : PyTop) (infos : List ColInfo) (h : pyColumnInfos t = .ok infos) :
    infos.length = if t.isTuple then t.bracketElts.length else 1 := by
  unfold pyColumnInfos at h
  split at h
  · rename_i children
    split at h
    · rename_i root
      by_cases ht : t.isTuple = true
      · simp only [ht, if_true] at h ⊢
        exact mapM_except_length _ _ _ h
      · simp only [ht] at h ⊢
        have := mapM_except_length _ _ _ h
        simpa using this
    · cases h
  · cases h

/-- a Name, Attribute or Subscript root is decided on the spot: it is never an alias and never an error, whatever it contains -/
theorem C07_py_simple_roots_are_not_aliases (root : PyNode)
    (hr : (∃ id, root = .name id) ∨ (∃ v a, root = .attribute v a) ∨ (∃ v s, root = .subscript v s)) :
    ∃ ci, pyColumnInfo root = .ok ci ∧ ∀ n, ci ≠ .alias n := by
  have hf : ∀ (b : Bool) (k : Int) (n : Str), fieldInfo b k ≠ .alias n := by
    intro b k n h; unfold fieldInfo at h; split at h <;> cases h
  rcases hr with ⟨id, rfl⟩ | ⟨v, a, rfl⟩ | ⟨v, s, rfl⟩
  all_goals
    simp only [pyColumnInfo]
    repeat' split
    all_goals first
      | exact ⟨_, rfl, fun n h => by cases h⟩
      | exact ⟨_, rfl, fun n h => hf _ _ n h⟩

/-- for every other root the FIRST call of the alias pseudo function in `ast.walk` order decides: a well-formed one is the alias,
a malformed one is the parsing error, none at all is an unnamed column -/
theorem C07_py_alias_decided_by_first_call (f : PyNode) (args rest : List PyNode) :
    pyColumnInfo (.call f args rest) =
      (match searchAlias (.call f args rest) with
       | .found name => .ok (.alias name)
       | .malformed => .error .badAlias
       | .absent => .ok .other) := by
  unfold pyColumnInfo
  rfl

theorem C07_py_alias_decided_by_first_call_other (cs : List PyNode) :
    pyColumnInfo (.other cs) =
      (match searchAlias (.other cs) with
       | .found name => .ok (.alias name)
       | .malformed => .error .badAlias
       | .absent => .ok .other) := by
  unfold pyColumnInfo
  rfl

/-- `expr AS name` at the top of an item: the translated item `alias_column_as_pseudo_func(name)`-wrapped… is found at once -/
theorem C07_py_top_level_alias (name : Str) (hn : name ≠ []) (rest : List PyNode) :
    pyColumnInfo (.call (.name pyAliasFuncName) [.name name] rest) = .ok (.alias name) := by
  have h : searchAlias (.call (.name pyAliasFuncName) [.name name] rest) = .found name := by
    unfold searchAlias PyNode.walk
    have hs : (PyNode.call (.name pyAliasFuncName) [.name name] rest).size = (1 + 1 + (1 + 0) + PyNode.sizeList rest - 1) + 1 := by
      simp [PyNode.size, PyNode.sizeList]; omega
    rw [hs, walkBfs]
    simp [List.findSome?, aliasOfNode, hn]
  rw [C07_py_alias_decided_by_first_call, h]

/-- breadth first, not depth first: a shallow alias call wins over a deeper one that comes earlier in the text -/
theorem C07_py_alias_search_is_breadth_first :
    (pyColumnInfo (.call (.name "g".toList)
      [.call (.name "h".toList) [.call (.name pyAliasFuncName) [.name "deep".toList] []] [],
       .call (.name pyAliasFuncName) [.name "shallow".toList] []] [])).toOption = some (.alias "shallow".toList) := by
  decide

/-- the column variables: `aN` / `bN` name column N-1 of their table, `a0` no column at all -/
theorem C07_py_positional_names :
    (pyColumnInfo (.name "a12".toList)).toOption = some (.field false 11) ∧ (pyColumnInfo (.name "b1".toList)).toOption = some (.field true 0) ∧
    (pyColumnInfo (.name "a0".toList)).toOption = some .other ∧ (pyColumnInfo (.name "NR".toList)).toOption = some (.named "NR".toList) ∧
    (pyColumnInfo (.subscript (.name ['a']) (.constant (.int 3)))).toOption = some (.field false 2) ∧
    (pyColumnInfo (.subscript (.name ['a']) (.constant .bool))).toOption = some .other ∧
    (pyColumnInfo (.subscript (.name ['b']) (.constant (.str "k v".toList)))).toOption = some (.named "k v".toList) ∧
    (pyColumnInfo (.attribute (.name ['b']) "id".toList)).toOption = some (.named "id".toList) ∧
    (pyColumnInfo (.attribute (.name ['c']) "id".toList)).toOption = some .other := by
  decide

end Rbql
