/-
  C13 — Same query, same data ⇒ same result through every front-end and backend.
-/
import Rbql.Model.Cli
import Rbql.Theorems.C10
import Rbql.Theorems.C12
import Rbql.Model.Engine
namespace Rbql

/-- The engine is a function of (query, header, record sequence) only: two sources that deliver the same
records (and join records) give the same result, whatever they are (lists, CSV text, data frames, cursors). -/
theorem C13_engine_depends_on_records_only (q : SemQuery) (A A' B B' : Table) (hA : A = A') (hB : B = B') :
    (run q A B).rows = (run q A' B').rows ∧ (run q A B).error = (run q A' B').error := by
  subst hA hB; exact ⟨rfl, rfl⟩

/-- the CSV front-end is a faithful adapter for string tables the dialect can represent: a record written
under the quoted policy with a one-character delimiter is read back as the same fields (one line) … -/
theorem C13_csv_adapter_faithful_line (c : Char) (hq : c ≠ QUOTE) (hs : c ≠ SPACE) (fs : List Str) (hne : fs ≠ []) :
    splitQuotedStr [c] false (joinD [c] (fs.map (quoteField [c]))) = (fs, false) :=
  C10_line_roundtrip_quoted_single_char c hq hs fs hne

/-- … and the lines of the written file are the written lines, however the stream is chunked when read -/
theorem C13_csv_adapter_faithful_file (sep : Str) (hsep : sep = [LF] ∨ sep = [CR, LF] ∨ sep = [CR]) (rows : List Str)
    (hrows : ∀ r ∈ rows, NoNL r) : linesSpec (rows.flatMap (fun r => r ++ sep)) = rows :=
  C10_file_lines_roundtrip sep hsep rows hrows

/-- any two faithful adapters give equal results: if both decode their source to the same table, the results agree -/
theorem C13_frontends_agree {S1 S2 : Type} (dec1 : S1 → Table) (dec2 : S2 → Table) (s1 : S1) (s2 : S2) (T : Table)
    (h1 : dec1 s1 = T) (h2 : dec2 s2 = T) (q : SemQuery) (B : Table) :
    (run q (dec1 s1) B).rows = (run q (dec2 s2) B).rows := by
  rw [h1, h2]

/-- the command line: exit 0 and no `Error` line on success (warnings on stderr); on failure a non-zero exit
status and an `Error [type]` line first on stderr; in both cases nothing but table data on stdout -/
theorem C13_cli_outcome (outcome : Except ErrClass Nat) :
    (cliRun outcome).stdoutIsTableData = true ∧
    (match outcome with
     | .ok n => (cliRun outcome).exit = 0 ∧ (cliRun outcome).stderr = List.replicate n .warning
     | .error t => (cliRun outcome).exit ≠ 0 ∧ (cliRun outcome).stderr.head? = some (.error t)) := by
  cases outcome with
  | ok n => exact ⟨rfl, rfl, rfl⟩
  | error t => exact ⟨rfl, by simp [cliRun], rfl⟩

/-! ### command-line dialect selection (decision logic stated outright) -/

/-- `--out-format input`: the output is written in exactly the dialect the input is read in -/
theorem C13_cli_out_format_input (d : List Char) (p : Option CliPolicy) :
    (cliDialects d p .input).outDelim = (cliDialects d p .input).inDelim ∧
    (cliDialects d p .input).outPolicy = (cliDialects d p .input).inPolicy := by
  simp [cliDialects, cliNamedFormat]

/-- `--out-format csv` / `tsv`: comma + quoted / TAB + simple, whatever the input dialect -/
theorem C13_cli_out_format_named (d : List Char) (p : Option CliPolicy) :
    ((cliDialects d p .csv).outDelim = [','] ∧ (cliDialects d p .csv).outPolicy = .quoted) ∧
    ((cliDialects d p .tsv).outDelim = ['\t'] ∧ (cliDialects d p .tsv).outPolicy = .simple) ∧
    (cliDialects d p .csv).inDelim = (cliDialects d p .input).inDelim ∧ (cliDialects d p .csv).inPolicy = (cliDialects d p .input).inPolicy := by
  simp [cliDialects, cliNamedFormat]

/-- an explicit `--policy` wins; otherwise `,` and `;` are read quoted, a single space as whitespace-separated, anything else simple -/
theorem C13_cli_default_policy (d : List Char) (fmt : OutFormat) :
    (∀ p, (cliDialects d (some p) fmt).inPolicy = p) ∧
    (cliNormalizeDelim d = [','] ∨ cliNormalizeDelim d = [';'] → (cliDialects d none fmt).inPolicy = .quoted) ∧
    (cliNormalizeDelim d = [' '] → (cliDialects d none fmt).inPolicy = .whitespace) ∧
    (cliNormalizeDelim d ≠ [','] → cliNormalizeDelim d ≠ [';'] → cliNormalizeDelim d ≠ [' '] → (cliDialects d none fmt).inPolicy = .simple) := by
  refine ⟨?_, ?_, ?_, ?_⟩
  · intro p; cases fmt <;> simp [cliDialects, cliNamedFormat]
  · intro h; cases fmt <;> rcases h with h | h <;> simp [cliDialects, cliNamedFormat, cliDefaultPolicy, h]
  · intro h; cases fmt <;> simp [cliDialects, cliNamedFormat, cliDefaultPolicy, h]
  · intro h1 h2 h3; cases fmt <;> simp [cliDialects, cliNamedFormat, cliDefaultPolicy, h1, h2, h3]

/-- `TAB` and `\t` on the command line both mean the tab character; every other delimiter text is taken literally -/
theorem C13_cli_delim_spelling (d : List Char) :
    cliNormalizeDelim "TAB".toList = ['\t'] ∧ cliNormalizeDelim ['\\', 't'] = ['\t'] ∧
    (d ≠ "TAB".toList → d ≠ ['\\', 't'] → cliNormalizeDelim d = d) := by
  refine ⟨by decide, by decide, ?_⟩
  intro h1 h2
  unfold cliNormalizeDelim
  rw [if_neg h1, if_neg h2]

end Rbql

namespace Rbql

/-! ### the front door of the command line -/

/-- a query is run exactly when `--query` is given together with a delimiter (or the monocolumn policy, which needs none), unless
`--version` or the `--color` / `--output` clash intervene -/
theorem C13_cli_runs_iff (a : CliArgs) :
    (∃ d p, cliDoor a = .run d p) ↔
      (a.version = false ∧ (a.hasOutput && a.color) = false ∧ a.hasQuery = true ∧ (a.delim.isSome ∨ a.policy = some .monocolumn)) := by
  rcases a with ⟨v, c, o, p, d, q⟩
  cases v <;> cases c <;> cases o <;> cases q <;> cases d <;> cases p <;> simp [cliDoor] <;> (try rename_i x; cases x <;> simp)

/-- every non-interactive invocation (`--query` given, no `--version`) either runs a query or is refused with an error: it never falls
through silently -/
theorem C13_cli_noninteractive_runs_or_refuses (a : CliArgs) (hq : a.hasQuery = true) (hv : a.version = false) :
    (∃ d p, cliDoor a = .run d p) ∨ (∃ w, cliDoor a = .refuse w) := by
  rcases a with ⟨v, c, o, p, d, q⟩
  simp only at hq hv
  subst hq hv
  cases c <;> cases o <;> cases d <;> cases p <;> simp [cliDoor] <;> (try rename_i x; cases x <;> simp)

/-- the dialect a run uses is the one `cliDialects` describes: the front door adds nothing to it but the monocolumn rule -/
theorem C13_cli_run_dialect (a : CliArgs) (d : List Char) (p : CliPolicy) (h : cliDoor a = .run d p) (fmt : OutFormat)
    (hm : a.policy ≠ some .monocolumn) :
    ∃ darg, a.delim = some darg ∧ (cliDialects darg a.policy fmt).inDelim = d ∧ (cliDialects darg a.policy fmt).inPolicy = p := by
  rcases a with ⟨v, c, o, pol, dl, q⟩
  simp only at hm
  have hd : ∀ x : Option (List Char), (if pol = some CliPolicy.monocolumn then some [] else x) = x := by intro x; simp [hm]
  cases dl with
  | none =>
    cases v <;> cases c <;> cases o <;> cases q <;> cases pol <;> simp [cliDoor, hd] at h <;> simp_all [cliDoor]
  | some darg =>
    refine ⟨darg, rfl, ?_⟩
    cases v <;> cases c <;> cases o <;> cases q <;> simp [cliDoor, hd] at h
    all_goals (obtain ⟨h1, h2⟩ := h; subst h1 h2; cases fmt <;> simp [cliDialects, cliNamedFormat])

/-- `--policy monocolumn` needs no delimiter and reads whole lines -/
theorem C13_cli_monocolumn_needs_no_delim (a : CliArgs) (hp : a.policy = some .monocolumn) (hq : a.hasQuery = true) (hv : a.version = false)
    (hc : (a.hasOutput && a.color) = false) : cliDoor a = .run [] .monocolumn := by
  rcases a with ⟨v, c, o, p, d, q⟩
  simp only at hp hq hv hc
  subst hp hq hv
  simp [cliDoor, hc, cliNormalizeDelim, cliDefaultPolicy]

example : cliDoor { hasQuery := true, delim := some "TAB".toList } = .run ['\t'] .simple := by decide
example : cliDoor { hasQuery := true, policy := some .quoted } = .refuse .policyWithoutDelim := by decide
example : cliDoor { hasQuery := true } = .refuse .delimRequired := by decide
example : cliDoor { hasQuery := true, delim := some [','], color := true, hasOutput := true } = .refuse .colorWithOutput := by decide
example : cliDoor { color := true } = .refuse .colorInteractive := by decide

end Rbql
