/-
  C07 (text side, rbql-js) — the output-header parser: one name per select item, names follow the naming rules.

  `Theorems/C07.lean` proves the header theorems over column infos, assuming `aligned items infos`.  Here the infos are
  computed from the select-item TEXTS by the model of `adhoc_parse_select_expression_to_column_infos`
  (`parse_root_bracket_level_text_spans`, `column_info_from_text_span`, `unquote_string`), and the alignment hypothesis is
  discharged from the texts alone (`C07_text_to_header_width`, `C07_text_header_matches_records`).

  Definitions used in the statements (all in `Proofs/SpanParser.lean`, namespace `Rbql.SpanParser`):
  `bracketRun` (the bracket stack machine alone), `Balanced`, `NoRootComma`, `spaces n` (n ASCII spaces), `letter isB` (`a`/`b`),
  `natDigits n` (`(toString n).toList`), `STAR`/`LITP` (the star marker / the string-literal placeholder prefix), `markerOf`,
  `LastVisible`, `isIdent`, `isAliasIdent`, `isAsKw`, `isDigits`, `isFieldVar`, `escName` / `jsEscapeColumnName` / `isQuoted`, `textKind`, `itemsMatchTexts`.
  Items classified `.other` get the positional name `colK`: that is `C07_names` (third conjunct) of `Theorems/C07.lean`.
-/
import Rbql.Proofs.SpanParser
namespace Rbql
open SpanParser

/-- decidable equality of results, for the `decide` examples of this file only -/
@[instance_reducible] private def exceptDecEq {ε α : Type} [DecidableEq ε] [DecidableEq α] : DecidableEq (Except ε α)
  | .ok a, .ok b => if h : a = b then isTrue (h ▸ rfl) else isFalse (fun h' => h (Except.ok.inj h'))
  | .error a, .error b => if h : a = b then isTrue (h ▸ rfl) else isFalse (fun h' => h (Except.error.inj h'))
  | .ok _, .error _ => isFalse (fun h => nomatch h)
  | .error _, .ok _ => isFalse (fun h => nomatch h)
attribute [local instance] exceptDecEq

/-! ### 1. span splitting is exact -/

/-- Guarantee 1 of `adhoc_parse_select_expression_to_column_infos`: joining balanced texts without root-level commas by commas
and splitting again gives back exactly the (trimmed) texts, minus an empty LAST span when there is more than one span (the
empty span after a trailing comma is not an element of the array literal `[…]` the select list becomes; repair 9447a17). -/
theorem C07_root_spans_exact (items : List Str) (hne : items ≠ [])
    (hbal : ∀ t ∈ items, Balanced t = true) (hnc : ∀ t ∈ items, NoRootComma t = true) :
    rootSpans (joinD [','] items) = .ok (dropTrailingEmptySpan (items.map jsTrim)) :=
  rootSpans_join items hne hbal hnc

/-- …and when the last item is not blank (or there is a single item; `LastVisible`), nothing is dropped: the spans are the
trimmed items, and there are as many spans as items. -/
theorem C07_root_spans_exact_visible (items : List Str) (hne : items ≠ [])
    (hbal : ∀ t ∈ items, Balanced t = true) (hnc : ∀ t ∈ items, NoRootComma t = true) (hlast : LastVisible items = true) :
    rootSpans (joinD [','] items) = .ok (items.map jsTrim) ∧
    (∀ spans, rootSpans (joinD [','] items) = .ok spans → spans.length = items.length) := by
  have h := rootSpans_join_visible items hne hbal hnc hlast
  refine ⟨h, ?_⟩
  intro spans hs
  rw [h] at hs
  cases hs
  simp

/-- A trailing comma, optionally followed by spaces, is not an item: it changes nothing.  (Before the repair `select a1, a2,`
gave a three-name header for two-field records.) -/
theorem C07_trailing_comma_not_an_item (items : List Str) (hne : items ≠ [])
    (hbal : ∀ t ∈ items, Balanced t = true) (hnc : ∀ t ∈ items, NoRootComma t = true) (hlast : LastVisible items = true)
    (k : Nat) : rootSpans (joinD [','] items ++ [','] ++ spaces k) = rootSpans (joinD [','] items) :=
  rootSpans_trailing_comma items hne hbal hnc hlast k

/-- the regression instance: `select a1, a2,` -/
theorem C07_trailing_comma_regression :
    rootSpans "a1, a2,".toList = .ok ["a1".toList, "a2".toList] ∧
    rootSpans "a1, a2, ".toList = .ok ["a1".toList, "a2".toList] ∧
    adhocColumnInfos "a1, a2,".toList [] = .ok [.field false 0, .field false 1] ∧
    (translateSelectJs "a1, a2,".toList).toOption.map (·.2) = some "a1, a2,".toList := by decide

/-- only ONE trailing empty span is dropped: `a1,,` gives the two spans `a1` and the empty one, as JavaScript's `[a1,,]` has
length 2 (one hole).  This is also why `C07_trailing_comma_not_an_item` needs a visible last item. -/
theorem C07_double_trailing_comma_keeps_one_hole :
    rootSpans "a1,,".toList = .ok ["a1".toList, []] ∧ rootSpans "a1,".toList = .ok ["a1".toList] ∧
    rootSpans ",".toList = .ok [[]] ∧ rootSpans [] = .ok [[]] := by decide

private def exItems : List Str := ["f(a1, [1,2])".toList, " {x: (1, 2)} ".toList, "a2".toList]
example : exItems ≠ [] ∧ (∀ t ∈ exItems, Balanced t = true) ∧ (∀ t ∈ exItems, NoRootComma t = true) ∧
    LastVisible exItems = true ∧ rootSpans (joinD [','] exItems) = .ok ["f(a1, [1,2])".toList, "{x: (1, 2)}".toList, "a2".toList] := by decide

/-- The error side: an unmatched closing bracket (the prefix before it is fine and leaves a stack whose top does not match, or
an empty stack) is reported with that bracket; an unclosed opening bracket is reported with the OUTERMOST unclosed bracket
(`bracket_stack[0]`); and the parser succeeds exactly on balanced texts. -/
theorem C07_root_spans_unbalanced :
    (∀ (pre post : Str) (c : Char) (st : List Char), bracketRun pre [] = some st → isCloseB c = true →
      (∀ o st', st = o :: st' → bracketsMatch o c = false) → rootSpans (pre ++ c :: post) = .error (.noOpening c)) ∧
    (∀ (s : Str) (o : Char) (st : List Char), bracketRun s [] = some (o :: st) →
      rootSpans s = .error (.noClosing ((o :: st).getLast?.getD o))) ∧
    (∀ s : Str, (rootSpans s).isOk = Balanced s) :=
  ⟨rootSpans_noOpening, rootSpans_noClosing, rootSpans_isOk⟩

example : bracketRun "a1, f(a2".toList [] = some ['('] ∧ isCloseB ']' = true ∧ bracketsMatch '(' ']' = false ∧
    rootSpans "a1, f(a2], a3".toList = .error (.noOpening ']') := by decide
example : bracketRun "(a1, [a2".toList [] = some ['[', '('] ∧ rootSpans "(a1, [a2".toList = .error (.noClosing '(') := by decide
example : rootSpans "a1)".toList = .error (.noOpening ')') := by decide

/-! ### 2. naming by kind -/

/-- The classification of a span, by kind, under arbitrary space padding:
`aN`/`bN` and `a[N]`/`b[N]` are field `N-1` of the table; `a.name`/`b.name` and bare identifiers are named columns;
the star markers are star infos; `a["name"]` (literal replaced by its placeholder) is the unquoted literal;
`expr AS name` is the alias, for EVERY single-line `expr` with a visible character. -/
theorem C07_span_kinds (l r : Nat) (lits : List Str) :
    (∀ (isB : Bool) (n : Nat), colInfoOfSpan (spaces l ++ (letter isB :: natDigits (n + 1)) ++ spaces r) lits = .field isB n) ∧
    (∀ (isB : Bool) (n : Nat),
      colInfoOfSpan (spaces l ++ (letter isB :: '[' :: natDigits (n + 1) ++ [']']) ++ spaces r) lits = .field isB n) ∧
    (∀ (isB : Bool) (ident : Str), isIdent ident = true → ident ≠ STAR →
      colInfoOfSpan (spaces l ++ (letter isB :: '.' :: ident) ++ spaces r) lits = .named ident) ∧
    (∀ t : Str, isIdent t = true → t ≠ STAR → LITP.isPrefixOf t = false → isFieldVar t = false →
      colInfoOfSpan (spaces l ++ t ++ spaces r) lits = .named t) ∧
    (∀ x : Option Bool, colInfoOfSpan (spaces l ++ markerOf x ++ spaces r) lits = .star x) ∧
    (∀ (isB : Bool) (i : Nat) (q name : Str), lits[i]? = some q → unquoteString q = some name →
      colInfoOfSpan (spaces l ++ (letter isB :: '[' :: placeholder i ++ [']']) ++ spaces r) lits = .named name) ∧
    (∀ (expr k ident : Str) (n1 n2 : Nat), isAsKw k = true → isAliasIdent ident = true →
      expr.any isJsLineTerminator = false → expr.any (fun c => !isJsWs c) = true →
      colInfoOfSpan (spaces l ++ (expr ++ ' ' :: k ++ spaces (n1 + 1) ++ ident ++ spaces n2) ++ spaces r) lits = .alias ident) := by
  refine ⟨fun isB n => span_simple_field l r isB n lits, fun isB n => span_bracket_field l r isB n lits, ?_, ?_,
    fun x => span_star l r x lits, fun isB i q name hq hu => span_quoted l r isB i lits q name hq hu,
    fun expr k ident n1 n2 hk hid hl hv => colInfoOfSpan_alias l r expr k ident n1 n2 lits hk hid hl hv⟩
  · intro isB ident hid hne
    rw [span_dotted l r isB ident hid lits]
    have : (ident == STAR) = false := by simpa using hne
    simp [this]
  · intro t hid hne hlit hvar
    exact span_ident l r t hid (by simpa using hne) hlit hvar lits

/-- The alias rule as first written ("for every `expr`") is FALSE for an empty or all-white-space `expr`: `trim()` removes the
space in front of `as`, the pattern `^(.*) (as|AS) +…` no longer matches, and the span gets no name (`col1`).  Spans: `" as x"`
and `"\t as x"`, no literals.  Hence the hypothesis `expr.any (!isJsWs ·)` in `C07_span_kinds`. -/
theorem C07_span_alias_blank_expr_counterexample :
    colInfoOfSpan (spaces 0 ++ ([] ++ ' ' :: ['a', 's'] ++ spaces 1 ++ ['x'] ++ spaces 0) ++ spaces 0) [] = .other ∧
    colInfoOfSpan (spaces 0 ++ (['\t'] ++ ' ' :: ['a', 's'] ++ spaces 1 ++ ['x'] ++ spaces 0) ++ spaces 0) [] = .other ∧
    isAsKw ['a', 's'] = true ∧ isAliasIdent ['x'] = true ∧ ([] : Str).any isJsLineTerminator = false ∧
    ['\t'].any isJsLineTerminator = false := by decide

/- concrete instances (the hypotheses of the conditional kinds are satisfiable) -/
example : colInfoOfSpan "  a12 ".toList [] = .field false 11 ∧ colInfoOfSpan "b[3]".toList [] = .field true 2 ∧
    colInfoOfSpan " a.name_1".toList [] = .named "name_1".toList ∧ colInfoOfSpan "NR ".toList [] = .named "NR".toList ∧
    colInfoOfSpan "b.__RBQL_INTERNAL_STAR".toList [] = .star (some true) := by decide
example : isIdent "name_1".toList = true ∧ "name_1".toList ≠ STAR := by decide
example : isIdent "NR".toList = true ∧ "NR".toList ≠ STAR ∧ LITP.isPrefixOf "NR".toList = false ∧ isFieldVar "NR".toList = false := by
  decide
example : ["'x'".toList, "\"my \\\"col\\\"\"".toList][1]? = some "\"my \\\"col\\\"\"".toList ∧
    unquoteString "\"my \\\"col\\\"\"".toList = some "my \"col\"".toList ∧
    colInfoOfSpan "a[___RBQL_STRING_LITERAL1___]".toList ["'x'".toList, "\"my \\\"col\\\"\"".toList] = .named "my \"col\"".toList := by
  decide
example : isAsKw "AS".toList = true ∧ isAliasIdent "total_2".toList = true ∧
    "a1, f(a2) ".toList.any isJsLineTerminator = false ∧ "a1, f(a2) ".toList.any (fun c => !isJsWs c) = true ∧
    colInfoOfSpan "a1 AS  total_2 ".toList [] = .alias "total_2".toList ∧
    colInfoOfSpan " f(a2, [1) as a1".toList [] = .alias "a1".toList := by decide

/-! ### 3. precision -/

/-- Guarantee 2 of `adhoc_parse_select_expression_to_column_infos` ("if column_info at pos j is not null, it is guaranteed to
correctly represent that column name"): every non-`other` answer determines the shape of the (trimmed) text. -/
theorem C07_span_info_sound (t : Str) (lits : List Str) :
    (∀ isB i, colInfoOfSpan t lits = .field isB i →
      ∃ ds, isDigits ds = true ∧ digitsToNat ds = i + 1 ∧
        (jsTrim t = letter isB :: ds ∨ jsTrim t = letter isB :: '[' :: ds ++ [']'])) ∧
    (∀ n, colInfoOfSpan t lits = .alias n →
      ∃ pre k n1 n2, jsTrim t = pre ++ ' ' :: k ++ spaces (n1 + 1) ++ n ++ spaces n2 ∧ isAsKw k = true ∧
        isAliasIdent n = true ∧ pre.any isJsLineTerminator = false) ∧
    (∀ x, colInfoOfSpan t lits = .star x ↔ jsTrim t = markerOf x) ∧
    (∀ n, colInfoOfSpan t lits = .named n →
      (jsTrim t = n ∧ isIdent n = true) ∨
      (∃ isB, jsTrim t = letter isB :: '.' :: n ∧ isIdent n = true) ∨
      (∃ isB ds q, isDigits ds = true ∧ jsTrim t = letter isB :: '[' :: (LITP ++ ds ++ ['_', '_', '_']) ++ [']'] ∧
        lits[digitsToNat ds]? = some q ∧ unquoteString q = some n)) :=
  ⟨span_field_inv t lits, span_alias_inv t lits, colInfoOfSpan_star_iff t lits, span_named_inv t lits⟩

example : colInfoOfSpan " b[07] ".toList [] = .field true 6 ∧ isDigits "07".toList = true ∧ digitsToNat "07".toList = 6 + 1 ∧
    jsTrim " b[07] ".toList = letter true :: '[' :: "07".toList ++ [']'] := by decide

/-- Observation on precision (replayed on rbql-js 0.27.0): the digits may carry leading zeros — `subscript_int_match` is
`[0-9]+` and the number is read by `parseInt` (decimal), so `a[010]` is reported as field 10 (`.field false 9`), while the
generated (non-strict) JavaScript evaluates `a[010]` as the legacy octal literal 8: `select a[010], a[8]` over a table with the
header c1..c11 answers header `["c10","c8"]` and record `[8,8]`.  The model follows the text reading (as the JS parser does);
the mismatch is between `parseInt` and the JS evaluator, outside this model. -/
theorem C07_span_leading_zero_observation :
    colInfoOfSpan "a[010]".toList [] = .field false 9 ∧ colInfoOfSpan "a010".toList [] = .field false 9 := by decide

/-! ### 4. `unquote_string` undoes the column-name escaping (after the repair: one left-to-right pass) -/

/-- For EVERY column name (any characters: TAB, LF, CR, backslashes, both quote characters, …) and both quote characters:
escaping exactly as `js_string_escape_column_name` of rbql.js does (backslash doubled first, then LF → `\n`, CR → `\r`,
TAB → `\t`, then the quote character → `\q`, pass by pass in the order of the source), putting the quotes around and
unquoting gives the name back.  (Before the repair this failed for names with TAB / LF / CR.) -/
theorem C07_unquote_escaped_full (q : Char) (hq : q = '\'' ∨ q = '"') (name : Str) :
    unquoteString (q :: jsEscapeColumnName q name ++ [q]) = some name :=
  unquoteString_jsEscape q hq name

/-- the special case without the control-character escapes (backslashes doubled, quotes escaped, TAB / LF / CR left raw) -/
theorem C07_unquote_escaped (q : Char) (hq : q = '\'' ∨ q = '"') (name : Str) :
    unquoteString (q :: escName q name ++ [q]) = some name :=
  unquoteString_escName q hq name

/-- the TAB / LF / CR instances, explicitly: the column `x<TAB>y` is written `"x\ty"` and read back as `x<TAB>y`; a name mixing
control characters, a backslash followed by `n`, and both quotes round-trips with either quote character -/
theorem C07_unquote_control_chars :
    jsEscapeColumnName '"' ['x', '\t', 'y'] = ['x', '\\', 't', 'y'] ∧
    unquoteString ('"' :: jsEscapeColumnName '"' ['x', '\t', 'y'] ++ ['"']) = some ['x', '\t', 'y'] ∧
    colInfoOfSpan "a[___RBQL_STRING_LITERAL0___]".toList ['"' :: jsEscapeColumnName '"' ['x', '\t', 'y'] ++ ['"']] =
      .named ['x', '\t', 'y'] ∧
    jsEscapeColumnName '\'' ['\n', '\\', 'n', '\r', '\'', '"'] =
      ['\\', 'n', '\\', '\\', 'n', '\\', 'r', '\\', '\'', '"'] ∧
    unquoteString ('\'' :: jsEscapeColumnName '\'' ['\n', '\\', 'n', '\r', '\'', '"'] ++ ['\'']) =
      some ['\n', '\\', 'n', '\r', '\'', '"'] ∧
    unquoteString ('"' :: jsEscapeColumnName '"' ['\n', '\\', 'n', '\r', '\'', '"'] ++ ['"']) =
      some ['\n', '\\', 'n', '\r', '\'', '"'] := by decide

/-- A backslash followed by a character outside `\\ ' " n r t` is kept verbatim, as is a text without backslashes (the
replacement only touches the six escapes the writer produces): `"\x41"` stays the four characters `\x41`, and a final lone
backslash stays. -/
theorem C07_unquote_other_backslash_kept :
    (∀ (c : Char) (rest : Str), c ≠ '\\' ∧ c ≠ '\'' ∧ c ≠ '"' ∧ c ≠ 'n' ∧ c ≠ 'r' ∧ c ≠ 't' →
      unescapeJs ('\\' :: c :: rest) = '\\' :: c :: unescapeJs rest) ∧
    (∀ s : Str, '\\' ∉ s → unescapeJs s = s) ∧
    unescapeJs ['\\'] = ['\\'] ∧
    unquoteString "\"\\x41\"".toList = some "\\x41".toList ∧
    unquoteString "'a\\'".toList = some "a\\".toList :=
  ⟨unescapeJs_bs_kept, unescapeJs_no_bs, unescapeJs_lone, by decide, by decide⟩

/-- `unquote_string` answers `null` exactly for texts shorter than 2 and for texts whose first and last characters are not the
same quote character (`'` or `"`); a properly quoted text is always accepted and its body is unescaped. -/
theorem C07_unquote_rejects_unquoted :
    (∀ s : Str, s.length < 2 → unquoteString s = none) ∧
    (∀ s : Str, isQuoted s = false → unquoteString s = none) ∧
    (∀ s : Str, unquoteString s = none ↔ (s.length < 2 ∨ isQuoted s = false)) ∧
    (∀ (q : Char) (body : Str), q = '\'' ∨ q = '"' → unquoteString (q :: body ++ [q]) = some (unescapeJs body)) :=
  ⟨fun s h => (unquoteString_none_iff s).mpr (.inl h), fun s h => (unquoteString_none_iff s).mpr (.inr h),
   unquoteString_none_iff, fun q body hq => unquoteString_quoted q hq body⟩

example : unquoteString "'".toList = none ∧ unquoteString "'ab\"".toList = none ∧ unquoteString "`ab`".toList = none ∧
    unquoteString "ab".toList = none ∧ unquoteString "''".toList = some [] ∧ isQuoted "'ab\"".toList = false := by decide
example : escName '\'' "\\'".toList = "\\\\\\'".toList ∧
    unquoteString ('\'' :: escName '\'' "\\'".toList ++ ['\'']) = some "\\'".toList ∧
    unquoteString ('"' :: escName '"' "\\\\'\"\\".toList ++ ['"']) = some "\\\\'\"\\".toList := by decide

/-! ### 5. composition with the header theorems -/

/-- From the item texts alone: when every text is a star marker or balanced without a root-level comma, the span parser
answers with one info per text, a star info exactly for the star markers (so the infos are `aligned` with every engine select
list built according to the kinds of the texts), and the header has `Σ width` names. -/
theorem C07_text_to_header_width (texts : List Str) (hne : texts ≠ []) (lits : List Str)
    (htexts : ∀ t ∈ texts, (∃ x, t = markerOf x) ∨ (Balanced t = true ∧ NoRootComma t = true))
    (hlast : LastVisible texts = true) :
    ∃ infos, adhocColumnInfos (joinD [','] texts) lits = .ok infos ∧
      infos = texts.map (fun t => colInfoOfSpan t lits) ∧
      infos.length = texts.length ∧
      (∀ items, itemsMatchTexts items texts → aligned items infos) ∧
      (∀ (inputHeader joinHeader h : List Str), selectOutputHeader (some inputHeader) (some joinHeader) infos = .ok (some h) →
        h.length = (texts.map (fun t => (textKind t).width inputHeader.length joinHeader.length)).sum) := by
  have hb : ∀ t ∈ texts, Balanced t = true ∧ NoRootComma t = true := by
    intro t ht
    rcases htexts t ht with ⟨x, rfl⟩ | h
    · exact marker_balanced x
    · exact h
  refine ⟨_, adhocColumnInfos_join texts hne lits (fun t ht => (hb t ht).1) (fun t ht => (hb t ht).2) hlast, rfl, by simp,
    fun items hi => aligned_of_itemsMatchTexts items texts lits hi, ?_⟩
  intro ih jh h hh
  rw [C07_header_width ih jh _ ih.length jh.length rfl rfl h hh, List.map_map]
  congr 1
  apply List.map_congr_left
  intro t _
  exact colInfoOfSpan_width t lits _ _

/-- Why `LastVisible` is needed: a blank LAST text is not an item (it is the nothing after a trailing comma), so the texts
`["a1", ""]` (`select a1,`) get ONE info — a two-item select list built from these two texts could not be aligned. -/
theorem C07_text_blank_last_counterexample :
    adhocColumnInfos (joinD [','] ["a1".toList, []]) [] = .ok [.field false 0] ∧ LastVisible ["a1".toList, []] = false ∧
    (∀ t ∈ ["a1".toList, []], Balanced t = true ∧ NoRootComma t = true) := by decide

/-- End to end for the JS port: header (computed from the TEXT of the select list) and records (computed by the engine from the
select ITEMS) have the same width, whenever the items were built according to the kinds of the texts. -/
theorem C07_text_header_matches_records (texts : List Str) (hne : texts ≠ []) (lits : List Str)
    (htexts : ∀ t ∈ texts, (∃ x, t = markerOf x) ∨ (Balanced t = true ∧ NoRootComma t = true))
    (hlast : LastVisible texts = true) (items : List SItem) (hitems : itemsMatchTexts items texts)
    (infos : List ColInfo) (hinfos : adhocColumnInfos (joinD [','] texts) lits = .ok infos)
    (inputHeader joinHeader : List Str) (e : Env) (hna : e.a.length = inputHeader.length)
    (hnb : (e.b.getD []).length = joinHeader.length)
    (h : List Str) (hh : selectOutputHeader (some inputHeader) (some joinHeader) infos = .ok (some h))
    (row : Row) (un : Option (Nat × List Atom)) (hr : evalItems items e = .ok (row, un)) :
    h.length = row.length := by
  obtain ⟨infos', h1, _, _, hal, _⟩ := C07_text_to_header_width texts hne lits htexts hlast
  rw [h1] at hinfos
  have hi : infos' = infos := by injection hinfos
  subst hi
  exact C07_header_matches_records items infos' (hal items hitems) inputHeader joinHeader e hna hnb h hh row un hr

private def exTexts : List Str :=
  ["__RBQL_INTERNAL_STAR".toList, " f(a1, a2) as s".toList, "b.__RBQL_INTERNAL_STAR".toList, "a[___RBQL_STRING_LITERAL0___]".toList]
example : exTexts ≠ [] ∧ LastVisible exTexts = true ∧
    (∀ t ∈ exTexts, (t = markerOf none ∨ t = markerOf (some true)) ∨ (Balanced t = true ∧ NoRootComma t = true)) ∧
    exTexts.map textKind = [.starAll, .nonStar, .starB, .nonStar] ∧
    adhocColumnInfos (joinD [','] exTexts) ["'n'".toList] = .ok [.star none, .alias "s".toList, .star (some true), .named "n".toList] := by
  decide

end Rbql
