/-
  C18 — Python and JavaScript implementations agree on the CSV dialect.
  One Lean dialect (`smartSplit`, `escapeQ`) serves both languages; where the two ports are written
  differently (quoting conditions, pull reader vs push reader) the two models are proved equal.
-/
import Rbql.Model.Writer
import Rbql.Proofs.ReaderPyLines
import Rbql.Proofs.ReaderJsLines
namespace Rbql

theorem escapeQ_of_no_quote (f : Str) (h : QUOTE ∉ f) : escapeQ f = f := by
  induction f with
  | nil => rfl
  | cons c cs ih =>
    have hc : c ≠ QUOTE := fun e => h (by simp [e])
    have := ih (fun e => h (by simp [e]))
    simp [escapeQ, hc, this]

/-- Python's two-step condition and the JS single condition quote every field identically. -/
theorem C18_quote_agree (d f : Str) : quoteFieldJs d f = quoteField d f := by
  unfold quoteFieldJs quoteField
  by_cases hq : QUOTE ∈ f
  · simp [hq]
  · by_cases hd : containsD d f = true
    · simp [hq, hd, escapeQ_of_no_quote f hq]
    · simp [hq, hd]

theorem C18_rfc_quote_agree (d f : Str) : rfcQuoteFieldJs d f = rfcQuoteField d f := by
  unfold rfcQuoteFieldJs rfcQuoteField
  by_cases hq : QUOTE ∈ f
  · simp [hq]
  · by_cases hd : containsD d f = true
    · simp [hq, hd, escapeQ_of_no_quote f hq]
    · by_cases hl : LF ∈ f
      · simp [hq, hd, hl, escapeQ_of_no_quote f hq]
      · by_cases hc : CR ∈ f
        · simp [hq, hd, hl, hc, escapeQ_of_no_quote f hq]
        · simp [hq, hd, hl, hc]

/-- The two readers — the Python pull machine with its look-ahead and the JS push machine with
`partially_decoded_line` / `ends_with_cr` — see the same physical lines of any file, however either
of them receives it (text without BOM handling: `enc = none`). -/
theorem C18_readers_same_lines (c : RCfg) (henc : c.enc = .none) (hc : 1 ≤ c.chunk)
    (pyPieces jsPieces : List Str) (hp : ∀ p ∈ pyPieces, p ≠ []) (hj : GoodPieces jsPieces)
    (hflat : pyPieces.flatten = jsPieces.flatten) :
    allRowsSimple c (totalLen pyPieces + 1) { stream := pyPieces } = jsStreamLines jsPieces := by
  rw [rows_of_pieces c hc pyPieces hp, jsStreamLines_eq_linesSpec jsPieces hj, hflat, henc]
  unfold bomFix
  cases linesSpec jsPieces.flatten with
  | nil => rfl
  | cons r rs => simp [removeBom]

/-! non-vacuity -/
example : quoteField [','] ['a', ',', 'b'] = ['"', 'a', ',', 'b', '"'] := by decide
example : quoteFieldJs [','] ['a', '"'] = ['"', 'a', '"', '"', '"'] := by decide

end Rbql
