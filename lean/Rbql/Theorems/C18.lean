/-
  C18 — Python and JavaScript implementations agree on the CSV dialect.
  One Lean dialect (`smartSplit`, `escapeQ`) serves both languages; where the two ports are written
  differently (quoting conditions, pull reader vs push reader) the two models are proved equal.
-/
import Rbql.Model.Writer
import Rbql.Proofs.ReaderPyLines
import Rbql.Proofs.ReaderJsLines
import Rbql.Proofs.ReadersAgree
namespace Rbql

theorem escapeQ_of_no_quote (f : Str) (h : QUOTE ∉ f) : escapeQ f = f := by
  induction f with
  | nil => rfl
  | cons c cs ih =>
    have hc : c ≠ QUOTE := fun e => h (by simp [e])
    have := ih (fun e => h (by simp [e]))
    simp [escapeQ, hc, this]

/-- Python's two-step condition and the JS single condition quote every field identically. -/
theorem C18_quote_agree (d f : Str) : quoteFieldJs d f = quoteField d f := by
  unfold quoteFieldJs quoteField
  by_cases hq : QUOTE ∈ f
  · simp [hq]
  · by_cases hd : containsD d f = true
    · simp [hq, hd, escapeQ_of_no_quote f hq]
    · simp [hq, hd]

theorem C18_rfc_quote_agree (d f : Str) : rfcQuoteFieldJs d f = rfcQuoteField d f := by
  unfold rfcQuoteFieldJs rfcQuoteField
  by_cases hq : QUOTE ∈ f
  · simp [hq]
  · by_cases hd : containsD d f = true
    · simp [hq, hd, escapeQ_of_no_quote f hq]
    · by_cases hl : LF ∈ f
      · simp [hq, hd, hl, escapeQ_of_no_quote f hq]
      · by_cases hc : CR ∈ f
        · simp [hq, hd, hl, hc, escapeQ_of_no_quote f hq]
        · simp [hq, hd, hl, hc]

/-- The two readers — the Python pull machine with its look-ahead and the JS push machine with
`partially_decoded_line` / `ends_with_cr` — see the same physical lines of any file, however either
of them receives it (text without BOM handling: `enc = none`). -/
theorem C18_readers_same_lines (c : RCfg) (henc : c.enc = .none) (hc : 1 ≤ c.chunk)
    (pyPieces jsPieces : List Str) (hp : ∀ p ∈ pyPieces, p ≠ []) (hj : GoodPieces jsPieces)
    (hflat : pyPieces.flatten = jsPieces.flatten) :
    allRowsSimple c (totalLen pyPieces + 1) { stream := pyPieces } = jsStreamLines jsPieces := by
  rw [rows_of_pieces c hc pyPieces hp, jsStreamLines_eq_linesSpec jsPieces hj, hflat, henc]
  unfold bomFix
  cases linesSpec jsPieces.flatten with
  | nil => rfl
  | cons r rs => simp [removeBom]

/-- Record level: from the same text the Python reader and the JS reader deliver the same header, the
same records, the same warnings (as a set: the two ports list them in different orders) or the same
error — through comment skipping, quoted_rfc multi-line assembly, BOM handling, the header logic and the
field-count statistics.  `CommentOK` only excludes, under quoted_rfc, comment prefixes that contain a
line feed after an odd number of quotes (there the two ports really differ: DESIGN.md section 5, D15); every prefix
without LF satisfies it (`CommentOK_of_noLF`). -/
theorem C18_readers_agree (c : RCfg) (hc : 1 ≤ c.chunk) (hok : CommentOK c) (hasHeader : Bool)
    (modifier : Option Bool) (text : Str) :
    canonResult (readAll c hasHeader modifier (if text = [] then [] else [text])) =
      canonResult (jsResult (jsBulk c text) hasHeader modifier) :=
  readers_agree c hc hok hasHeader modifier text

/-- combined with chunk independence of both readers (C12, C20): any chunking on either side -/
theorem C18_readers_agree_any_chunking (c : RCfg) (hc : 1 ≤ c.chunk) (hok : CommentOK c) (hasHeader : Bool)
    (modifier : Option Bool) (pyPieces jsPieces : List Str) (hp : ∀ p ∈ pyPieces, p ≠ []) (hj : GoodPieces jsPieces)
    (hflat : pyPieces.flatten = jsPieces.flatten) :
    canonResult (readAll c hasHeader modifier pyPieces) =
      canonResult (jsResult (jsStream c jsPieces) hasHeader modifier) := by
  have h1 : ∀ p ∈ (if pyPieces.flatten = [] then [] else [pyPieces.flatten]), p ≠ [] := by
    intro p hp'
    split at hp'
    · cases hp'
    · simp at hp'; subst hp'; assumption
  have hf : pyPieces.flatten = (if pyPieces.flatten = [] then ([] : List Str) else [pyPieces.flatten]).flatten := by
    split <;> simp_all
  have := readAll_content_only c c.chunk hc hc hasHeader modifier pyPieces _ hp h1 hf
  rw [this, stream_eq_bulk c jsPieces hj, ← hflat]
  exact readers_agree c hc hok hasHeader modifier pyPieces.flatten

/-! non-vacuity -/
example : quoteField [','] ['a', ',', 'b'] = ['"', 'a', ',', 'b', '"'] := by decide
example : quoteFieldJs [','] ['a', '"'] = ['"', 'a', '"', '"', '"'] := by decide

end Rbql
