/-
  C19 — The JavaScript engine has the same relational semantics as the reference.
  There is no separate model of rbql-js: the reference semantics is the Lean `run`, and what the
  check establishes is that the real rbql-js engine corresponds to it (harness/corr_C19.py).
  This file states the reference semantics the JS engine is tied to, in one place.
-/
import Rbql.Proofs.RunSelect
import Rbql.Proofs.UpdateSpec
import Rbql.Proofs.AggBridge
namespace Rbql

/-- the reference semantics of a query: the specification layer (SELECT: filter/project/UNNEST over the
joined expansion, then sort, dedup, truncate; aggregate: one row per key in key order; UPDATE: one record per
input record) — this is what `run` computes, hence what rbql-js is compared with -/
theorem C19_reference_select (q : SemQuery) (A B : Table) (hsel : q.isUpdate = false) (hagg : q.isAgg = false)
    (hjb : ∀ js, q.join = some js → joinBError js.rhs B = none)
    (es : List (List Val × Row)) (hes : emissions q B A 0 = .ok es) :
    (run q A B).error = none ∧ (run q A B).rows = selectSpec q es :=
  let h := run_select_eq_spec q A B hsel hagg hjb es hes
  ⟨h.1, h.2.1⟩

theorem C19_reference_update (q : SemQuery) (A B : Table) (hupd : q.isUpdate = true) (hg : q.groupBy = none)
    (hjb : ∀ js, q.join = some js → joinBError js.rhs B = none) :
    match updateSpec q B A 0 0 with
    | .ok rows => (run q A B).error = none ∧ (run q A B).rows = rows ∧ (run q A B).pulled = A.length
    | .error e => (run q A B).error = some e :=
  run_update_eq_spec q A B hupd hg hjb

theorem C19_reference_aggregate (q : SemQuery) (A B : Table)
    (hsel : q.isUpdate = false) (hagg : q.isAgg = true) (ho : q.orderBy = none) (hd : q.distinct = .no)
    (hx : q.exceptCols = none) (hjb : ∀ js, q.join = some js → joinBError js.rhs B = none)
    (krs : List (List Val × Row × Env)) (hk : aggEmissions q B A 0 = .ok krs)
    (hw : ∀ kr ∈ krs, ∀ kr0 ∈ krs.head?, kr.2.1.length = (aggColKinds q.items kr0.2.2).length)
    (rows : List Row) (hr : aggRowsSpec q krs = .ok rows) :
    (run q A B).error = none ∧ (run q A B).rows = rows :=
  run_agg_eq_spec q A B hsel hagg ho hd hx hjb krs hk hw rows hr

/-- the reference never modifies its sources: `run` is a pure function of the tables (they are values) and
an UPDATE works on a copy — the output of a record that is not updated is the input record itself as a value,
and the JS engine is checked (snapshots before/after, identity of rows) to allocate fresh arrays -/
theorem C19_reference_update_copy (as : List (Nat × Ex Val)) (e : Env) (r r' : Row) (h : applyAssigns as e r = .ok r') :
    r'.length = r.length :=
  applyAssigns_length as e r r' h

end Rbql
