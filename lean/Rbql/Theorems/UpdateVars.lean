/-
  C05 / C09 at the query-translation layer (`Model/Translate.lean`).

  C05 (A): `translate_update_expression` splits a rendered assignment list `v₁ = r₁, v₂ = r₂, …` exactly into its
  assignments — one pair per assignment, in order, right-hand sides verbatim (modulo `strip`) — provided every
  variable is of the shape `a[.#a-zA-Z0-9\[\]_]*` (`VarOk`) and no right-hand side contains a `, a… =` that the
  regex would take for the next assignment (`RhsOk`); the keyword-argument text `f(a2, a3 = 1)` is a counterexample
  without that proviso.
  The list `[(i₁, r₁), …, (iₙ, rₙ)]` returned by `translateUpdate` is, position by position, the `assigns` list of
  `SemQuery` consumed by `applyAssigns` in `Model/Engine.lean` (`List (Nat × Ex Val)`): same order, the same field
  indices `iₖ`, and `rₖ` is the source text of the k-th `Ex Val`.  (The texts are not evaluated here.)

  C09 (B): `parse_basic_variables` / `parse_array_variables` find exactly the numbers that occur as a variable
  `pfx n` / `pfx[n]` in the text (declarative specifications `OccursBasic`, `OccursArray`); for array variables
  completeness needs the variable not to be glued to a preceding `pfx[m]` (`a[1]a[2]` loses `2`: the `]` is consumed
  by the first match and cannot serve as the leading non-word character of the second).
-/
import Rbql.Proofs.UpdateVars
namespace Rbql
open UpdVars

/-! ## A. UPDATE assignment lists -/

/-- `renderAssigns` is the comma-join of the rendered assignments `pad v pad "=" r` -/
theorem C05_render_is_comma_join (l : List AssignSpec) :
    renderAssigns l = [','].intercalate (l.map (fun it => spaces it.1 ++ (it.var ++ (spaces it.2.2.1 ++ '=' :: it.rhs)))) :=
  renderAssigns_eq_intercalate l

/-- Exact split: order preserved, one pair per assignment, right-hand sides verbatim modulo `strip`
(`strip` arbitrary: `pyStripU` for rbql_engine.py, `jsStrStrip` for rbql.js). -/
theorem C05_update_pairs_exact (strip : Str → Str) (l : List AssignSpec) (hne : l ≠ [])
    (hok : ∀ it ∈ l, VarOk it.var = true ∧ RhsOk it.rhs = true) :
    updatePairs strip (renderAssigns l) = .ok (l.map (fun it => (it.var, strip it.rhs))) :=
  updatePairs_render strip l hne (fun it h => by simp [AssignOk, hok it h])

/-- the hypotheses are satisfiable: `a1 = a2 == 1,  a[3]=f(a2, 5) ,a.x =b1 + 'q'` -/
example :
    let l : List AssignSpec := [(0, "a1".toList, 1, " a2 == 1".toList), (2, "a[3]".toList, 0, "f(a2, 5) ".toList),
      (0, "a.x".toList, 1, "b1 + 'q'".toList)]
    l ≠ [] ∧ (∀ it ∈ l, VarOk it.var = true ∧ RhsOk it.rhs = true) ∧
    renderAssigns l = "a1 = a2 == 1,  a[3]=f(a2, 5) ,a.x =b1 + 'q'".toList ∧
    updatePairs pyStripU (renderAssigns l) =
      .ok [("a1".toList, "a2 == 1".toList), ("a[3]".toList, "f(a2, 5)".toList), ("a.x".toList, "b1 + 'q'".toList)] := by
  decide

/-- every non-empty text without a comma that does not start with `=` is an admissible right-hand side (`a2 == 1`) -/
theorem C05_rhs_ok_of_no_comma (r : Str) (hne : r ≠ []) (hh : r.head? ≠ some '=') (hc : ',' ∉ r) : RhsOk r = true :=
  rhsOk_of_no_comma r hne hh hc

/-- every non-empty text without `=` is an admissible right-hand side (`f(a2, 5)`) -/
theorem C05_rhs_ok_of_no_eq (r : Str) (hne : r ≠ []) (he : '=' ∉ r) : RhsOk r = true :=
  rhsOk_of_no_eq r hne he

example : RhsOk "a2 == 1".toList = true := by decide
example : RhsOk "f(a2, 5)".toList = true := by decide
example : RhsOk " b1 + ', x = '".toList = true := by decide
example : RhsOk "f(a2, b3 = 1)".toList = true := by decide
example : RhsOk "f(a2, a3 == 1)".toList = true := by decide
example : RhsOk "f(a2, a3 = 1)".toList = false := by decide

/-- Known limitation: a keyword argument `a3 = 1` after a comma inside a right-hand side is taken for the next
assignment — the single assignment `a1 = f(a2, a3 = 1)` is split in two. -/
theorem C05_kwarg_counterexample :
    let l : List AssignSpec := [(0, "a1".toList, 1, " f(a2, a3 = 1)".toList)]
    renderAssigns l = "a1 = f(a2, a3 = 1)".toList ∧ (∀ it ∈ l, VarOk it.var = true) ∧
    updatePairs pyStripU (renderAssigns l) = .ok [("a1".toList, "f(a2".toList), ("a3".toList, "1)".toList)] ∧
    updatePairs pyStripU (renderAssigns l) ≠ .ok (l.map (fun it => (it.var, pyStripU it.rhs))) := by
  decide

/-- If the pattern does not match at offset 0 the expression is refused. -/
theorem C05_update_must_start_with_assignment (strip : Str → Str) (s : Str) (h : assignMatchAt true s = none) :
    updatePairs strip s = .error .updNotAssignment :=
  updatePairs_no_start strip s h

/-- the same with the hypothesis spelled out: the text is not ` *a… *=(?=[^=])…` and does not start with a comma -/
theorem C05_update_must_start_with_assignment' (strip : Str → Str) (s : Str) (h : assignItem s = none)
    (hc : s.head? ≠ some ',') : updatePairs strip s = .error .updNotAssignment := by
  apply updatePairs_no_start
  cases s with
  | nil => simp [assignMatchAt, h]
  | cons c cs =>
    have : c ≠ ',' := by simpa using hc
    simp only [assignMatchAt, if_true, h]
    split
    · rename_i t he; simp only [List.cons.injEq] at he; exact absurd he.1 this
    · rfl

example : updatePairs pyStripU "b1 = 2, a1 = 3".toList = .error .updNotAssignment := by decide
example : assignMatchAt true "x, a1 = 3".toList = none := by decide
/-- quirk of `(?:^|,)`: a leading comma is accepted as the start of the first assignment -/
example : updatePairs pyStripU ",a1 = 3".toList = .ok [("a1".toList, "3".toList)] := by decide

/-- With every variable known, `translateUpdate` returns the field indices paired with the right-hand sides, in order.
This list is, position by position, the `assigns : List (Nat × Ex Val)` of `SemQuery` that `applyAssigns`
(`Model/Engine.lean`) executes: same order, same indices, `strip rₖ` being the source text of the k-th expression. -/
theorem C05_translate_update_indices (strip : Str → Str) (lookup : Str → Option Nat) (idx : Str → Nat)
    (l : List AssignSpec) (hne : l ≠ []) (hok : ∀ it ∈ l, VarOk it.var = true ∧ RhsOk it.rhs = true)
    (hl : ∀ it ∈ l, lookup (strip it.var) = some (idx it.var)) :
    translateUpdate strip lookup [] (renderAssigns l) = .ok (l.map (fun it => (idx it.var, strip it.rhs))) := by
  rw [translateUpdate_render strip lookup l hne (fun it h => by simp [AssignOk, hok it h])]
  exact mapM_lookup_all strip lookup idx l hl

/-- The first unknown variable is the one reported. -/
theorem C05_translate_update_first_unknown (strip : Str → Str) (lookup : Str → Option Nat) (idx : Str → Nat)
    (l1 l2 : List AssignSpec) (it : AssignSpec)
    (hok : ∀ it' ∈ l1 ++ it :: l2, VarOk it'.var = true ∧ RhsOk it'.rhs = true)
    (hl : ∀ it' ∈ l1, lookup (strip it'.var) = some (idx it'.var)) (hu : lookup (strip it.var) = none) :
    translateUpdate strip lookup [] (renderAssigns (l1 ++ it :: l2)) = .error (.updUnknownField (strip it.var)) := by
  rw [translateUpdate_render strip lookup _ (by simp) (fun it h => by simp [AssignOk, hok it h])]
  exact mapM_lookup_first_unknown strip lookup idx l1 l2 it hl hu

/-- for both real `strip` functions the variable text is looked up unchanged -/
theorem C05_strip_var (v : Str) (hv : VarOk v = true) : pyStripU v = v ∧ jsStrStrip v = v :=
  ⟨pyStripU_var hv, jsStrStrip_var hv⟩

/-- the Python and JavaScript instances, with the look-up applied to the variable text itself -/
theorem C05_translate_update_indices_py_js (lookup : Str → Option Nat) (idx : Str → Nat)
    (l : List AssignSpec) (hne : l ≠ []) (hok : ∀ it ∈ l, VarOk it.var = true ∧ RhsOk it.rhs = true)
    (hl : ∀ it ∈ l, lookup it.var = some (idx it.var)) :
    translateUpdate pyStripU lookup [] (renderAssigns l) = .ok (l.map (fun it => (idx it.var, pyStripU it.rhs))) ∧
    translateUpdate jsStrStrip lookup [] (renderAssigns l) = .ok (l.map (fun it => (idx it.var, jsStrStrip it.rhs))) :=
  ⟨C05_translate_update_indices pyStripU lookup idx l hne hok
      (fun it h => by rw [pyStripU_var (hok it h).1]; exact hl it h),
   C05_translate_update_indices jsStrStrip lookup idx l hne hok
      (fun it h => by rw [jsStrStrip_var (hok it h).1]; exact hl it h)⟩

example :
    let lookup : Str → Option Nat := fun v => if v = "a1".toList then some 0 else if v = "a3".toList then some 2 else none
    translateUpdate pyStripU lookup [] "a3 = a1 + 1, a1 = f(a2, 5)".toList
        = .ok [(2, "a1 + 1".toList), (0, "f(a2, 5)".toList)] ∧
    translateUpdate pyStripU lookup [] "a3 = 1, a7 = 2, a9 = 3".toList = .error (.updUnknownField "a7".toList) := by
  decide

/-! ## B. variable discovery -/

theorem C09_basic_vars_sound (py : Bool) (pfx : Char) (s : Str) (n : Nat) (h : n ∈ basicVarNums py pfx 0 0 s) :
    OccursBasic py pfx n s := by
  obtain ⟨pre, ds, post, hs, hds, hn, hb, ha⟩ := basicVarNums_sound_aux py pfx s 0 0 n h
  refine ⟨pre, ds, post, by simp [hs], hds, hn, ?_, ha⟩
  rcases hb with ⟨h, _⟩ | h
  · exact Or.inl h
  · exact Or.inr h

theorem C09_basic_vars_complete (py : Bool) (pfx : Char) (s : Str) (n : Nat) (h : OccursBasic py pfx n s) :
    n ∈ basicVarNums py pfx 0 0 s := by
  obtain ⟨pre, ds, post, hs, hds, hn, hb, ha⟩ := h
  rw [← hn]
  refine basicVarNums_complete_aux py pfx ds post hds ha s.length s 0 pre (Nat.le_refl _) (by simp [hs]) ?_
  rcases hb with h | h
  · exact Or.inl ⟨h, rfl⟩
  · exact Or.inr h

/-- the scanner finds exactly the numbers that occur as a basic variable -/
theorem C09_basic_vars_iff (py : Bool) (pfx : Char) (s : Str) (n : Nat) :
    n ∈ basicVarNums py pfx 0 0 s ↔ OccursBasic py pfx n s :=
  ⟨C09_basic_vars_sound py pfx s n, C09_basic_vars_complete py pfx s n⟩

/-- non-vacuity: `a2` occurs in `,a1,a2,` although its leading comma is the look-ahead character of the match `,a1` -/
example : OccursBasic false 'a' 2 ",a1,a2,".toList :=
  ⟨",a1,".toList, "2".toList, ",".toList, by decide, by decide, by decide,
    Or.inr ⟨",a1".toList, ',', by decide, by decide⟩, Or.inr (Or.inr ⟨',', [], rfl, by decide⟩)⟩
example : basicVarNums false 'a' 0 0 ",a1,a2,".toList = [1, 2] := by decide
example : basicVarNums true 'a' 0 0 "a1 a22\n".toList = [1, 22] := by decide

theorem C09_array_vars_sound (pfx : Char) (s : Str) (n : Nat) (h : n ∈ arrayVarNums pfx 0 0 s) :
    OccursArray pfx n s := by
  obtain ⟨pre, ds, post, hs, hds, hn, hb⟩ := arrayVarNums_sound_aux pfx s 0 0 n h
  refine ⟨pre, ds, post, by simp [hs], hds, hn, ?_⟩
  rcases hb with ⟨h, _⟩ | h
  · exact Or.inl h
  · exact Or.inr h

/-- Completeness as first stated is FALSE for array variables: in `a[1]a[2]` the number 2 occurs (the `]` before
`a[2]` is a non-word character) but the `]` is consumed by the match `a[1]`, and the scan resumes on `a`. -/
theorem C09_array_vars_complete_counterexample :
    OccursArray 'a' 2 "a[1]a[2]".toList ∧ 2 ∉ arrayVarNums 'a' 0 0 "a[1]a[2]".toList :=
  ⟨⟨"a[1]".toList, "2".toList, [], by decide, by decide, by decide, Or.inr ⟨"a[1".toList, ']', by decide, by decide⟩⟩,
   by decide⟩

/-- Completeness with the explicit hypothesis: the text before the variable does not end with `pfx[digits]`. -/
theorem C09_array_vars_complete (pfx : Char) (s : Str) (n : Nat) (pre ds post : Str)
    (hs : s = pre ++ [pfx, '['] ++ ds ++ [']'] ++ post) (hds : isFieldNum ds = true) (hn : digitsToNat ds = n)
    (hb : BoundBefore pre) (hclear : ¬ EndsWithArrayVar pfx pre) :
    n ∈ arrayVarNums pfx 0 0 s := by
  rw [← hn]
  refine arrayVarNums_complete_aux pfx ds post hds s.length s 0 pre (Nat.le_refl _) (by simp [hs]) ?_ hclear
  rcases hb with h | h
  · exact Or.inl ⟨h, rfl⟩
  · exact Or.inr h

/-- a decidable sufficient form: the character before the variable (if any) is a non-word character other than `]` -/
theorem C09_array_vars_complete_of_not_bracket (pfx : Char) (s : Str) (n : Nat) (pre ds post : Str)
    (hs : s = pre ++ [pfx, '['] ++ ds ++ [']'] ++ post) (hds : isFieldNum ds = true) (hn : digitsToNat ds = n)
    (hb : pre = [] ∨ ∃ p l, pre = p ++ [l] ∧ isWordChar l = false ∧ l ≠ ']') :
    n ∈ arrayVarNums pfx 0 0 s := by
  refine C09_array_vars_complete pfx s n pre ds post hs hds hn ?_ ?_
  · rcases hb with h | ⟨p, l, h1, h2, _⟩
    · exact Or.inl h
    · exact Or.inr ⟨p, l, h1, h2⟩
  · rintro ⟨p0, dm, h, _⟩
    rcases hb with h' | ⟨p, l, h1, _, h3⟩
    · rw [h'] at h; simp at h
    · rw [h1] at h
      have h' : p ++ [l] = (p0 ++ pfx :: '[' :: dm) ++ [']'] := by simpa using h
      have := List.append_inj_right' h' rfl
      simp only [List.cons.injEq, and_true] at this
      exact h3 this

/-- non-vacuity: `a[2]` in `a[1],a[2]`, and in `b[a[2]]` -/
example : 2 ∈ arrayVarNums 'a' 0 0 "a[1],a[2]".toList :=
  C09_array_vars_complete_of_not_bracket 'a' _ 2 "a[1],".toList "2".toList [] (by decide) (by decide) (by decide)
    (Or.inr ⟨"a[1]".toList, ',', by decide, by decide, by decide⟩)
example : arrayVarNums 'a' 0 0 "b[a[2]] + a[10]".toList = [2, 10] := by decide

/-- Inside an identifier-like token (word characters only) the only variable is the whole token. -/
theorem C09_var_in_word_token (py : Bool) (pfx : Char) (s : Str) (n : Nat) (hw : ∀ c ∈ s, isWordChar c = true)
    (h : n ∈ basicVarNums py pfx 0 0 s) : ∃ ds, s = pfx :: ds ∧ isFieldNum ds = true ∧ digitsToNat ds = n :=
  basicVarNums_word_token py pfx s n hw h

/-- `xa1`, `a1x`, `a1_`, `_a1`, `a01`, `a0` contain no variable: for every word character `x`, every digit string `ds`
and every field number `num` (`[1-9][0-9]*`): `x a num`, `a num x` (x not a digit), `a 0 ds` yield nothing. -/
theorem C09_var_not_inside_identifier (py : Bool) (x : Char) (hx : isWordChar x = true) (num ds : Str)
    (hnum : isFieldNum num = true) (hds : ∀ c ∈ ds, isDigit c = true) :
    basicVarNums py 'a' 0 0 (x :: 'a' :: num) = [] ∧
    (isDigit x = false → basicVarNums py 'a' 0 0 ('a' :: num ++ [x]) = []) ∧
    basicVarNums py 'a' 0 0 ('a' :: '0' :: ds) = [] := by
  have hnumw : ∀ c ∈ num, isWordChar c = true := fun c hc => isWordChar_of_isDigit (isFieldNum_digits hnum c hc)
  refine ⟨?_, ?_, ?_⟩
  · apply List.eq_nil_iff_forall_not_mem.mpr
    intro n hn
    obtain ⟨ds', h1, h2, _⟩ := basicVarNums_word_token py 'a' _ n (by
      intro c hc
      rcases List.mem_cons.mp hc with rfl | hc
      · exact hx
      · rcases List.mem_cons.mp hc with rfl | hc
        · decide
        · exact hnumw c hc) hn
    simp only [List.cons.injEq] at h1
    rw [← h1.2] at h2
    simp [isFieldNum, isDigit] at h2
  · intro hxd
    apply List.eq_nil_iff_forall_not_mem.mpr
    intro n hn
    obtain ⟨ds', h1, h2, _⟩ := basicVarNums_word_token py 'a' _ n (by
      intro c hc
      rcases List.mem_cons.mp hc with rfl | hc
      · decide
      · rcases List.mem_append.mp hc with hc | hc
        · exact hnumw c hc
        · simp only [List.mem_singleton] at hc; rw [hc]; exact hx) hn
    simp only [List.cons_append, List.cons.injEq, true_and] at h1
    have := isFieldNum_digits h2 x (by rw [← h1]; simp)
    rw [hxd] at this; cases this
  · apply List.eq_nil_iff_forall_not_mem.mpr
    intro n hn
    obtain ⟨ds', h1, h2, _⟩ := basicVarNums_word_token py 'a' _ n (by
      intro c hc
      rcases List.mem_cons.mp hc with rfl | hc
      · decide
      · rcases List.mem_cons.mp hc with rfl | hc
        · decide
        · exact isWordChar_of_isDigit (hds c hc)) hn
    simp only [List.cons.injEq, true_and] at h1
    rw [← h1] at h2
    simp [isFieldNum] at h2

example : basicVarNums true 'a' 0 0 "xa1".toList = [] ∧ basicVarNums true 'a' 0 0 "a1x".toList = [] ∧
    basicVarNums true 'a' 0 0 "a1_".toList = [] ∧ basicVarNums true 'a' 0 0 "_a1".toList = [] ∧
    basicVarNums true 'a' 0 0 "a01".toList = [] ∧ basicVarNums true 'a' 0 0 "a0".toList = [] ∧
    arrayVarNums 'a' 0 0 "xa[1]".toList = [] ∧ arrayVarNums 'a' 0 0 "a[01]".toList = [] ∧
    arrayVarNums 'a' 0 0 "a[0]".toList = [] := by decide

end Rbql
