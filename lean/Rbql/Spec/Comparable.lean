/-
  Where the host language refuses to order values.  The engine model orders keys with a TOTAL order (`keyCmp`, made
  total by a rank) so that sorting is a function; Python's `sorted` raises `TypeError` as soon as it compares two
  keys that `<` cannot order (None with anything, a number with a string).  `runChecked` is the model of what the real
  engine does: the result of `run` when all keys that get sorted are mutually comparable, a host TypeError (nothing
  written: the sort happens in `finish`, before the first write) otherwise.  The sortedness theorems (C02, C03) carry
  `KeysComparable` as an explicit hypothesis; `runChecked_of_comparable` connects the two.  IMPORT-FREE of Mathlib, executable.
-/
import Rbql.Spec.EngineSpec
namespace Rbql

/-- the classes inside which Python's `<` is defined: numbers (bool, int, float), strings; None is in none -/
def Atom.cmpClass : Atom → Option Nat
  | .none => Option.none
  | .bool _ | .num _ => some 1
  | .str _ => some 2

def atomComparable (a b : Atom) : Bool :=
  match a.cmpClass, b.cmpClass with
  | some x, some y => x == y
  | _, _ => false

/-- Python list comparison: skip the equal prefix (`==`), `<` is applied to the first differing pair only -/
def atomsComparable : List Atom → List Atom → Bool
  | a :: as, b :: bs => if a = b then atomsComparable as bs else atomComparable a b
  | _, _ => true

/-- scalar `x < y` -/
def valComparable : Val → Val → Bool
  | .at a, .at b => atomComparable a b
  | .list a, .list b => atomsComparable a b
  | _, _ => false

/-- tuple comparison: equal prefix skipped, then `<` on the first differing components -/
def tupleComparable : List Val → List Val → Bool
  | x :: xs, y :: ys => if x = y then tupleComparable xs ys else valComparable x y
  | _, _ => true

/-- ORDER BY with ONE expression sorts by a scalar (`(e)` is not a tuple): even two equal None keys are compared with `<`;
with several expressions, and for GROUP BY keys (always `(e,)`), keys are tuples -/
def keyComparable (scalar : Bool) (k1 k2 : List Val) : Bool :=
  match scalar, k1, k2 with
  | true, [x], [y] => valComparable x y
  | _, _, _ => tupleComparable k1 k2

/-- every two keys of the list can be ordered by the host language (a single key is never compared) -/
def keysComparable (scalar : Bool) (keys : List (List Val)) : Bool :=
  keys.length ≤ 1 || keys.all (fun k1 => keys.all (fun k2 => keyComparable scalar k1 k2))

def KeysComparable (scalar : Bool) (keys : List (List Val)) : Prop := keysComparable scalar keys = true

/-- the keys the engine will sort for this query over these tables: ORDER BY keys of all emissions (the sort precedes
DISTINCT and TOP), or the distinct GROUP BY keys; `none` when nothing is sorted or the evaluation fails before -/
def sortedKeys (q : SemQuery) (A B : Table) : Option (Bool × List (List Val)) :=
  if q.isUpdate then none
  else if q.isAgg then
    (match aggEmissions q B A 0 with
     | .ok krs => if q.groupBy.isSome then some (false, distinctKeys (krs.map (·.1))) else none
     | .error _ => none)
  else if q.orderBy.isSome then
    (match emissions q B A 0 with
     | .ok es => some (decide ((es.head?.map (·.1.length)).getD 0 = 1), es.map (·.1))
     | .error _ => none)
  else none

inductive Outcome
  | result (r : RunResult)
  | hostTypeError (pulled : Nat)      -- `sorted(...)` raised: the exception leaves `query()`; no record was written

/-- the engine as the host language runs it -/
def runChecked (q : SemQuery) (A B : Table) (sink : Sink := {}) : Outcome :=
  let r := run q A B sink
  if r.error.isSome then .result r
  else match sortedKeys q A B with
    | some (scalar, keys) => if keysComparable scalar keys then .result r else .hostTypeError r.pulled
    | none => .result r

theorem runChecked_of_comparable (q : SemQuery) (A B : Table) (sink : Sink)
    (h : ∀ scalar keys, sortedKeys q A B = some (scalar, keys) → KeysComparable scalar keys) :
    runChecked q A B sink = .result (run q A B sink) := by
  unfold runChecked
  simp only
  split
  · rfl
  · split
    · rename_i scalar keys hk
      have := h scalar keys hk
      unfold KeysComparable at this
      simp [this]
    · rfl

/-- None is never comparable, not even with None, when it is a scalar key — but equal tuples never reach `<` -/
example : keyComparable true [Val.none] [Val.none] = false ∧ keyComparable false [Val.none] [Val.none] = true ∧
    keyComparable false [Val.none, Val.str ['k']] [Val.none, Val.str ['m']] = true ∧
    keyComparable true [Val.str ['a']] [Val.nat 1] = false := by decide +kernel

end Rbql
