/-
  Specification layer of the relational core: the properties C01–C05 written as the simplest
  possible list functions (filter / flatMap / stable sort / first occurrences / take; mathematical
  aggregates; key-equal partners; simultaneous assignment).  IMPORT-FREE and executable, so the
  model driver can also cross-check `run` against it on every generated case.
-/
import Rbql.Model.Engine
namespace Rbql

/-! ### C04: the joined expansion -/

/-- key of a B record (1-based number `nr`), `none` if a key field is missing -/
def rhsKeyOf (rhs : List (Option Nat)) (nr : Nat) (fields : Row) : Option (List Val) :=
  rhs.mapM (fun ki => match ki with
    | none => some (Val.nat nr)
    | some i => if fields.length ≤ i then none else some (fields.getD i Val.none))

/-- the B records whose key equals `key`, with their 1-based numbers, in B order -/
def partnersSpec (rhs : List (Option Nat)) (B : Table) (key : List Val) : List (Nat × Row) :=
  (B.zipIdx.filter (fun p => rhsKeyOf rhs (p.2 + 1) p.1 == some key)).map (fun p => (p.2 + 1, p.1))

/-- building the join fails on the first B record (in B order) that lacks a key field; the error names
that record and the (first, in ON-clause order) missing field -/
def joinBError (rhs : List (Option Nat)) (B : Table) : Option EngErr :=
  (B.zipIdx.findSome? (fun p =>
    (rhs.findSome? (fun ki => match ki with
      | some i => if p.1.length ≤ i then some (EngErr.joinB (p.2 + 1) (i + 1)) else none
      | none => none))))

/-- width of the LEFT JOIN null record: the longest B record -/
def maxWidth (B : Table) : Nat := B.foldl (fun m r => max m r.length) 0

/-- … and at least the number of columns of the join header, when there is one -/
def nullWidth (js : JoinSpec) (B : Table) : Nat := max (maxWidth B) js.nullWidth

/-- the environments one A record expands to (C04): every key-equal B record in B order;
INNER drops a partner-less record, LEFT keeps it once with every b-field None, STRICT LEFT fails
unless there is exactly one partner -/
def expandRecord (q : SemQuery) (B : Table) (nr : Nat) (recA : Row) : Except EngErr (List Env) :=
  match q.join with
  | none => .ok [{ nr := nr, a := recA }]
  | some js => do
    let key ← liftErr nr (lhsKey js.lhs nr recA)
    let ps := partnersSpec js.rhs B key
    match js.kind with
    | .inner => .ok (ps.map (fun p => { nr := nr, a := recA, bnr := some p.1, b := some p.2 }))
    | .left =>
      if ps = [] then .ok [{ nr := nr, a := recA, bnr := none, b := some (List.replicate (nullWidth js B) Val.none) }]
      else .ok (ps.map (fun p => { nr := nr, a := recA, bnr := some p.1, b := some p.2 }))
    | .strictLeft =>
      if ps.length = 1 then .ok (ps.map (fun p => { nr := nr, a := recA, bnr := some p.1, b := some p.2 }))
      else .error (.runtime nr none)

/-! ### C01: what one (joined) record contributes -/

/-- the output records of one environment, each with its sort key: none if WHERE is falsy, one per
UNNEST element (none for an empty list), otherwise exactly one -/
def projectEnv (q : SemQuery) (e : Env) : Except EngErr (List (List Val × Row)) := do
  let pass ← liftErr e.nr (match q.where_ with | some w => w e | none => .ok true)
  if !pass then return []
  let (row, un) ← liftErr e.nr
    (match q.exceptCols with
     | some cols => .ok (selectExcept e.a cols, none)
     | none => evalItems q.items e)
  let key ← liftErr e.nr (match q.orderBy with | some o => o e | none => .ok [])
  match un with
  | none => return [(key, row)]
  | some (pos, l) => return l.map (fun v => (key, row.set pos (.at v)))

def projectEnvs (q : SemQuery) : List Env → Except EngErr (List (List Val × Row))
  | [] => .ok []
  | e :: es => do
    let hd ← projectEnv q e
    let tl ← projectEnvs q es
    pure (hd ++ tl)

/-- everything a (non-aggregate) SELECT emits, in input order, when every record is evaluated;
the error is the one of the FIRST record (in A-major, B order) whose evaluation fails (C14) -/
def emissions (q : SemQuery) (B : Table) : Table → Nat → Except EngErr (List (List Val × Row))
  | [], _ => .ok []
  | recA :: rest, nr => do
    let envs ← expandRecord q B (nr + 1) recA
    let hd ← projectEnvs q envs
    let tl ← emissions q B rest (nr + 1)
    pure (hd ++ tl)

/-! ### C02: sort, then dedup, then truncate -/

/-- ORDER BY: stable sort by key, DESC = exactly the reverse of that sequence -/
def orderSpec (q : SemQuery) (es : List (List Val × Row)) : List Row :=
  match q.orderBy with
  | none => es.map (·.2)
  | some _ =>
    let s := es.mergeSort (fun x y => keyLe x.1 y.1)
    (if q.desc then s.reverse else s).map (·.2)

/-- first occurrence of each distinct record -/
def firstOccurrences : List Row → List Row
  | [] => []
  | r :: rs => r :: (firstOccurrences rs).filter (· ≠ r)

def dedupSpec (d : Distinct) (rows : List Row) : List Row :=
  match d with
  | .no => rows
  | .yes => firstOccurrences rows
  | .count => (firstOccurrences rows).map (fun r => Val.nat (rows.count r) :: r)

def truncSpec (top : Option Nat) (rows : List Row) : List Row :=
  match top with | some n => rows.take n | none => rows

/-- the result of a non-aggregate SELECT -/
def selectSpec (q : SemQuery) (es : List (List Val × Row)) : List Row :=
  truncSpec q.top (dedupSpec q.distinct (orderSpec q es))

/-- hand the emissions to the writer chain one by one; stop at the first refused write
(this is all the main loop does with them: `stop_flag`, `break`, `return False`) -/
def Chain.feedStop : Chain → List (List Val × Row) → Chain × Bool
  | c, [] => (c, true)
  | c, (k, r) :: rest => let (c', ok) := c.write k r; if ok then c'.feedStop rest else (c', false)

/-! ### C03: mathematical aggregates over a group's values (in input order) -/

def ratSum (xs : List Rat) : Rat := xs.foldl (· + ·) 0

def ratMin : List Rat → Rat
  | [] => 0
  | x :: xs => xs.foldl (fun m y => if y < m then y else m) x

def ratMax : List Rat → Rat
  | [] => 0
  | x :: xs => xs.foldl (fun m y => if m < y then y else m) x

def ratAvg (xs : List Rat) : Rat := ratSum xs / (xs.length : Rat)

/-- population variance: mean of squared deviations from the mean -/
def ratVariance (xs : List Rat) : Rat :=
  ratSum (xs.map (fun x => (x - ratAvg xs) * (x - ratAvg xs))) / (xs.length : Rat)

/-- one aggregate column fed with the (group key, argument value) pairs of the passing records, in input order -/
def foldIncr (c : AggCol) : List (List Val × Val) → Except ErrKind AggCol
  | [] => .ok c
  | (k, v) :: rest => do let c' ← c.increment k v; foldIncr c' rest

/-- the argument values of one group, in input order -/
def groupVals (kvs : List (List Val × Val)) (key : List Val) : List Val :=
  (kvs.filter (fun p => p.1 = key)).map (·.2)

/-- the numbers a numeric aggregate sees: numeric strings converted, numbers as they are -/
def numOfVal (asStr : Bool) (v : Val) : Option Rat :=
  match asStr, v with
  | true, .at (.str s) => parseNumStr s
  | false, .at (.num q) => some q
  | _, _ => none

/-! ### C03: the aggregate query as a whole -/

/-- what one (joined) record contributes to an aggregate query: nothing if WHERE is falsy, otherwise
its group key (`[None]` without GROUP BY) and the values of the select list (aggregate arguments and
plain columns alike) -/
def projectAggEnv (q : SemQuery) (e : Env) : Except EngErr (Option (List Val × Row × Env)) := do
  let pass ← liftErr e.nr (match q.where_ with | some w => w e | none => .ok true)
  if !pass then return none
  let (row, _) ← liftErr e.nr (evalItems q.items e)
  let key ← liftErr e.nr (match q.groupBy with | some g => g e | none => .ok [Val.none])
  return some (key, row, e)

def projectAggEnvs (q : SemQuery) : List Env → Except EngErr (List (List Val × Row × Env))
  | [] => .ok []
  | e :: es => do
    let hd ← projectAggEnv q e
    let tl ← projectAggEnvs q es
    pure (match hd with | some x => x :: tl | none => tl)

/-- (group key, select-list values, environment) of every record passing WHERE, in input order -/
def aggEmissions (q : SemQuery) (B : Table) : Table → Nat → Except EngErr (List (List Val × Row × Env))
  | [], _ => .ok []
  | recA :: rest, nr => do
    let envs ← expandRecord q B (nr + 1) recA
    let hd ← projectAggEnvs q envs
    let tl ← aggEmissions q B rest (nr + 1)
    pure (hd ++ tl)

/-- distinct group keys in first-seen order -/
def distinctKeys : List (List Val) → List (List Val)
  | [] => []
  | k :: ks => k :: (distinctKeys ks).filter (· ≠ k)

/-- the result of an aggregate query whose accumulations all succeed: one record per distinct group
key, in ascending key order; column `i` is the aggregate (or the verified constant) of the `i`-th
select-list values of that group's records, in input order -/
def aggRowsSpec (q : SemQuery) (krs : List (List Val × Row × Env)) : Except ErrKind (List Row) :=
  match krs with
  | [] => .ok []
  | (_, _, e0) :: _ => do
    let kinds := aggColKinds q.items e0
    let cols ← (kinds.zipIdx).mapM (fun p =>
      foldIncr { kind := p.1 } (krs.map (fun kr => (kr.1, kr.2.1.getD p.2 Val.none))))
    let keys := (distinctKeys (krs.map (·.1))).mergeSort keyLe
    pure (truncSpec q.top (keys.map (fun k => cols.map (fun c => ((lookupAcc c.stats k).map Acc.final).getD Val.none))))

/-- UPDATE (C05): simultaneous assignment — every right-hand side sees the original record -/
def simultaneousAssign (assigns : List (Nat × Ex Val)) (e : Env) (recA : Row) : Except ErrKind Row := do
  let vals ← assigns.mapM (fun p => do let v ← p.2 e; pure (p.1, v))
  vals.foldlM (fun up p => safeSet up p.1 p.2) recA

/-- UPDATE, one input record: emitted unchanged when WHERE is falsy or (with a join) it has no partner;
otherwise the assignments are applied to a copy, the right-hand sides seeing the original record and
NU already counting this record; more than one partner is an error naming the record.
Returns the emitted record and the new NU. -/
def updateOneSpec (q : SemQuery) (B : Table) (nr nu : Nat) (recA : Row) : Except EngErr (Row × Nat) := do
  let envs ← (match q.join with
    | none => pure [({ nr := nr, a := recA } : Env)]
    | some _ => expandRecord q B nr recA)
  match envs with
  | [] => pure (recA, nu)
  | [e] =>
    let e := { e with nu := nu }
    let pass ← liftErr nr (match q.where_ with | some w => w e | none => .ok true)
    if pass then do
      let up ← liftErr nr (applyAssigns q.assigns { e with nu := nu + 1 } recA)
      pure (up, nu + 1)
    else pure (recA, nu)
  | _ => .error (.runtime nr none)

/-- UPDATE, whole table: one output record per input record, in order -/
def updateSpec (q : SemQuery) (B : Table) : Table → Nat → Nat → Except EngErr (List Row)
  | [], _, _ => .ok []
  | recA :: rest, nr, nu => do
    let (row, nu') ← updateOneSpec q B (nr + 1) nu recA
    let tl ← updateSpec q B rest (nr + 1) nu'
    pure (row :: tl)

end Rbql
