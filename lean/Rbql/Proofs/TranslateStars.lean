/-
  The star rewrites of the select list (`replace_star_vars`, `replace_star_vars_for_ast`):
  a position-free (stream) characterisation of `assembleStars ∘ starMatches`, then the canonical forms on
  rendered select lists.
-/
import Rbql.Proofs.TranslateItems
namespace Rbql

/-! ### select items -/

inductive SelItem
  | star (k : StarKind)
  | plain (t : Str)
  deriving DecidableEq, Repr

def starText : StarKind → Str
  | .all => ['*']
  | .a => "a.*".toList
  | .b => "b.*".toList

def SelItem.text : SelItem → Str
  | .star k => starText k
  | .plain t => t

/-- (left pad, item, right pad) -/
abbrev PItem := Nat × SelItem × Nat

def renderItem (x : PItem) : Str := spaces x.1 ++ x.2.1.text ++ spaces x.2.2

/-- (left pad, item, right pad) triples joined by "," ; pads are runs of spaces -/
def renderSel (items : List PItem) : Str := commaJoin (items.map renderItem)

/-! ### the match attempted at one offset, and the stream form of the rewrite -/

/-- the match attempted by `starMatches` at an offset (`atStart` = offset 0, `pc` = the previous character is a comma) -/
def starMatchAt (py consuming atStart pc : Bool) (s : Str) : Option (StarKind × Nat) :=
  if consuming then starMatchConsuming py atStart s
  else (if atStart || pc then starItem py s else none)

/-- a character is copied unless it is still covered by the previous match (+ `extra`) -/
def emit (d : Nat) (c : Char) : Str := if d = 0 then [c] else []

/-- `assembleStars ∘ starMatches` as a one-pass transducer: `skip` = characters the scanner still has to jump over,
`d` = characters still to be dropped from the output -/
def starStream (py consuming : Bool) (repl : StarKind → Str) (extra : Nat) : Nat → Nat → Bool → Bool → Str → Str
  | _, _, _, _, [] => []
  | skip + 1, d, _, _, c :: cs => emit d c ++ starStream py consuming repl extra skip (d - 1) false (c == ',') cs
  | 0, d, atStart, pc, c :: cs =>
    match starMatchAt py consuming atStart pc (c :: cs) with
    | some (k, n) => repl k ++ starStream py consuming repl extra (n - 1) (n + extra - 1) false (c == ',') cs
    | none => emit d c ++ starStream py consuming repl extra 0 (d - 1) false (c == ',') cs

theorem starMatches_zero (py consuming : Bool) (pos : Nat) (pc : Bool) (c : Char) (cs : Str) :
    starMatches py consuming 0 pos pc (c :: cs) =
      match starMatchAt py consuming (pos == 0) pc (c :: cs) with
      | some (k, n) => (pos, pos + n, k) :: starMatches py consuming (n - 1) (pos + 1) (c == ',') cs
      | none => starMatches py consuming 0 (pos + 1) (c == ',') cs := by
  rw [starMatches]
  simp only [starMatchAt]
  cases consuming <;> simp <;> split <;> simp_all

theorem starToken_length (s : Str) (k : StarKind) (r : Str) (h : starToken s = some (k, r)) : r.length < s.length := by
  rw [starToken.eq_def] at h
  split at h <;> simp at h <;> (obtain ⟨_, rfl⟩ := h; simp) <;> omega

theorem starItem_pos (py : Bool) (s : Str) (k : StarKind) (n : Nat) (h : starItem py s = some (k, n)) : 1 ≤ n := by
  unfold starItem at h
  split at h
  · rename_i k' r hk
    have h1 := starToken_length _ _ _ hk
    have h2 := dropSpaces_length_le s
    have h3 := dropSpaces_length_le r
    simp only at h
    split at h
    · simp at h; omega
    · simp at h
  · simp at h

theorem starMatchAt_pos (py consuming atStart pc : Bool) (s : Str) (k : StarKind) (n : Nat)
    (h : starMatchAt py consuming atStart pc s = some (k, n)) : 1 ≤ n := by
  unfold starMatchAt at h
  split at h
  · unfold starMatchConsuming at h
    split at h
    · rename_i m hm
      simp at h; subst h
      split at hm
      · exact starItem_pos _ _ _ _ hm
      · simp at hm
    · split at h
      · simp only [Option.map_eq_some_iff] at h
        obtain ⟨m, _, hm⟩ := h
        simp at hm; omega
      · simp at h
  · split at h
    · exact starItem_pos _ _ _ _ h
    · simp at h

theorem take_length_succ_append (p cs : Str) (c : Char) : (p ++ c :: cs).take (p.length + 1) = p ++ [c] := by
  induction p <;> simp_all

theorem take_length_append (p q : Str) : (p ++ q).take p.length = p := by
  induction p <;> simp_all

theorem slice_snoc (pre cs : Str) (c : Char) (last : Nat) :
    slice (pre ++ c :: cs) last (pre.length + 1) = slice (pre ++ c :: cs) last pre.length ++ emit (last - pre.length) c := by
  unfold slice emit
  by_cases h : last ≤ pre.length
  · have e : last - pre.length = 0 := by omega
    simp only [e, if_true]
    rw [List.drop_append_of_le_length h]
    have e2 : pre.length + 1 - last = (pre.drop last).length + 1 := by simp; omega
    have e3 : pre.length - last = (pre.drop last).length := by simp
    rw [e2, e3, take_length_succ_append, take_length_append]
  · have e : ¬ (last - pre.length = 0) := by omega
    have e2 : pre.length + 1 - last = 0 := by omega
    have e3 : pre.length - last = 0 := by omega
    simp [e, e2, e3]

theorem slice_empty (s : Str) (i j : Nat) (h : j ≤ i) : slice s i j = [] := by
  unfold slice
  have : j - i = 0 := by omega
  simp [this]

/-- the stream characterisation: `pre` has been scanned, `cur` is still to be scanned -/
theorem assembleStars_stream (py consuming : Bool) (repl : StarKind → Str) (extra : Nat) (cur : Str) :
    ∀ (pre : Str) (skip last : Nat) (pc : Bool) (acc : Str),
      assembleStars (pre ++ cur) repl extra (starMatches py consuming skip pre.length pc cur) last acc
        = acc ++ slice (pre ++ cur) last pre.length
            ++ starStream py consuming repl extra skip (last - pre.length) (pre.length == 0) pc cur := by
  induction cur with
  | nil =>
    intro pre skip last pc acc
    simp only [starMatches, assembleStars, starStream, slice, List.append_nil]
    rw [List.take_of_length_le (by simp)]
  | cons c cs ih =>
    intro pre skip last pc acc
    have hpre : pre ++ c :: cs = (pre ++ [c]) ++ cs := by simp
    have hlen : (pre ++ [c]).length = pre.length + 1 := by simp
    have hat : ((pre.length + 1) == 0) = false := by simp
    cases skip with
    | succ skip =>
      rw [starMatches, starStream]
      have := ih (pre ++ [c]) skip last (c == ',') acc
      rw [hlen, ← hpre, hat] at this
      rw [this, slice_snoc]
      have : last - (pre.length + 1) = last - pre.length - 1 := by omega
      simp [this]
    | zero =>
      rw [starMatches_zero, starStream]
      cases hm : starMatchAt py consuming (pre.length == 0) pc (c :: cs) with
      | none =>
        simp only
        have := ih (pre ++ [c]) 0 last (c == ',') acc
        rw [hlen, ← hpre, hat] at this
        rw [this, slice_snoc]
        have : last - (pre.length + 1) = last - pre.length - 1 := by omega
        simp [this]
      | some m =>
        obtain ⟨k, n⟩ := m
        have hn := starMatchAt_pos _ _ _ _ _ _ _ hm
        simp only [assembleStars]
        have := ih (pre ++ [c]) (n - 1) (pre.length + n + extra) (c == ',')
          ((if last < pre.length then acc ++ slice (pre ++ c :: cs) last pre.length else acc) ++ repl k)
        rw [hlen, ← hpre, hat] at this
        rw [this, slice_empty _ (pre.length + n + extra) (pre.length + 1) (by omega)]
        have e : pre.length + n + extra - (pre.length + 1) = n + extra - 1 := by omega
        rw [e]
        by_cases hl : last < pre.length
        · simp [hl]
        · rw [slice_empty _ last pre.length (by omega)]
          simp [hl]

theorem replaceStarVars_stream (js : Bool) (s : Str) :
    replaceStarVars js s = starStream (!js) true (if js then starReplJs else starReplPy) 1 0 0 true false s := by
  have := assembleStars_stream (!js) true (if js then starReplJs else starReplPy) 1 s [] 0 0 false []
  simpa [replaceStarVars, slice] using this

theorem replaceStarVarsMarker_stream (js : Bool) (s : Str) :
    replaceStarVarsMarker js s = starStream (!js) false starMarker 0 0 0 true false s := by
  have := assembleStars_stream (!js) false starMarker 0 s [] 0 0 false []
  simpa [replaceStarVarsMarker, slice] using this

/-! ### `starItem` in context -/

theorem starToken_some (s : Str) (k : StarKind) (r : Str) (h : starToken s = some (k, r)) : s = starText k ++ r := by
  rw [starToken.eq_def] at h
  split at h <;> simp at h <;> (obtain ⟨rfl, rfl⟩ := h; rfl)

theorem starToken_starText (k : StarKind) (W : Str) : starToken (starText k ++ W) = some (k, W) := by
  cases k <;> rfl

def SepHead (Z : Str) : Prop := ∀ z Z', Z = z :: Z' → z = ' ' ∨ z = ','

theorem starToken_append_none (v Z : Str) (hZ : SepHead Z) (h : starToken v = none) : starToken (v ++ Z) = none := by
  match v, Z with
  | [], [] => rfl
  | [], z :: Z' =>
    rcases hZ z Z' rfl with rfl | rfl <;> rfl
  | [c1], [] => simpa using h
  | [c1], z :: Z' =>
    rcases hZ z Z' rfl with rfl | rfl <;>
    · rw [starToken.eq_def] at h ⊢
      simp at h ⊢
      split <;> simp_all
  | [c1, c2], [] => simpa using h
  | [c1, c2], z :: Z' =>
    rcases hZ z Z' rfl with rfl | rfl <;>
    · rw [starToken.eq_def] at h ⊢
      simp at h ⊢
      split <;> simp_all
  | c1 :: c2 :: c3 :: v', Z =>
    rw [starToken.eq_def] at h ⊢
    simp at h ⊢
    split <;> simp_all
theorem sepHead_spaces_ctx (r : Nat) (X : Str) (hX : EndOrCommaCtx X) : SepHead (spaces r ++ X) := by
  intro z Z' e
  cases r with
  | zero =>
    rcases hX with rfl | ⟨Y, rfl⟩
    · simp at e
    · simp at e; exact Or.inr e.1.symm
  | succ r => simp [spaces_succ] at e; exact Or.inl e.1.symm

theorem starItem_space (py : Bool) (s : Str) :
    starItem py (' ' :: s) = (starItem py s).map (fun m => (m.1, m.2 + 1)) := by
  unfold starItem
  simp only [dropSpaces_space]
  cases h : starToken (dropSpaces s) with
  | none => simp
  | some m =>
    obtain ⟨k, r⟩ := m
    have h1 := starToken_length _ _ _ h
    have h2 := dropSpaces_length_le s
    have h3 := dropSpaces_length_le r
    simp only
    split
    · simp; omega
    · simp

theorem starItem_space_none (py : Bool) (s : Str) : starItem py (' ' :: s) = none ↔ starItem py s = none := by
  rw [starItem_space]; simp

theorem starItem_spaces_none (py : Bool) (n : Nat) (s : Str) : starItem py (spaces n ++ s) = none ↔ starItem py s = none := by
  induction n with
  | zero => simp
  | succ n ih => rw [spaces_succ, List.cons_append, starItem_space_none, ih]

theorem endOrComma_ctx (py : Bool) (X : Str) (h : EndOrCommaCtx X) : endOrComma py X = true := by
  rcases h with rfl | ⟨Y, rfl⟩ <;> simp [endOrComma, atEnd]

theorem starToken_ctx (X : Str) (h : EndOrCommaCtx X) : starToken X = none := by
  rcases h with rfl | ⟨Y, rfl⟩ <;> rfl

theorem starItem_ctx_end (py : Bool) (n : Nat) (X : Str) (h : EndOrCommaCtx X) : starItem py (spaces n ++ X) = none := by
  rw [starItem_spaces_none]
  unfold starItem
  rw [dropSpaces_ctx X h, starToken_ctx X h]

theorem starText_head_ne_space (k : StarKind) (W : Str) : dropSpaces (starText k ++ W) = starText k ++ W := by
  cases k <;> exact dropSpaces_cons_ne _ _ (by decide)

/-- a star item followed by the end or a comma is matched, padding included -/
theorem starItem_star (py : Bool) (k : StarKind) (l r : Nat) (X : Str) (hX : EndOrCommaCtx X) :
    starItem py (spaces l ++ starText k ++ spaces r ++ X) = some (k, l + (starText k).length + r) := by
  unfold starItem
  rw [List.append_assoc, List.append_assoc, dropSpaces_spaces_append, starText_head_ne_space, starToken_starText]
  simp only
  rw [dropSpaces_spaces_append, dropSpaces_ctx X hX, endOrComma_ctx py X hX]
  simp
  omega

theorem endOrComma_append_false (py : Bool) (rr Z : Str) (hlf : LF ∉ rr) (h : endOrComma false (dropSpaces rr) = false) :
    endOrComma py (dropSpaces (rr ++ Z)) = false := by
  induction rr with
  | nil => simp [endOrComma, atEnd] at h
  | cons c rr ih =>
    by_cases hc : c = ' '
    · subst hc
      simp only [List.cons_append, dropSpaces_space] at h ⊢
      exact ih (by simp at hlf; exact hlf.2) h
    · rw [List.cons_append, dropSpaces_cons_ne _ _ hc]
      rw [dropSpaces_cons_ne _ _ hc] at h
      have hl : c ≠ LF := by intro e; simp [e] at hlf
      simp [endOrComma, atEnd] at h ⊢
      simp [h, hl]

/-- a text in which the item scanner finds nothing at the head still has no match when followed by padding and the end or a comma -/
theorem starItem_ctx (py : Bool) (v : Str) (r : Nat) (X : Str) (hX : EndOrCommaCtx X) (hlf : LF ∉ v)
    (h : starItem false v = none) : starItem py (v ++ (spaces r ++ X)) = none := by
  induction v with
  | nil => exact starItem_ctx_end py r X hX
  | cons c v ih =>
    by_cases hc : c = ' '
    · subst hc
      rw [List.cons_append, starItem_space_none]
      exact ih (by simp at hlf; exact hlf.2) ((starItem_space_none _ _).mp h)
    · unfold starItem at h ⊢
      rw [List.cons_append, dropSpaces_cons_ne _ _ hc]
      rw [dropSpaces_cons_ne _ _ hc] at h
      cases hk : starToken (c :: v) with
      | none =>
        have := starToken_append_none (c :: v) _ (sepHead_spaces_ctx r X hX) hk
        rw [List.cons_append] at this
        rw [this]
      | some m =>
        obtain ⟨k, rr⟩ := m
        have e := starToken_some _ _ _ hk
        rw [hk] at h
        simp only at h
        have hf : endOrComma false (dropSpaces rr) = false := by
          cases hh : endOrComma false (dropSpaces rr) <;> simp [hh] at h ⊢
        rw [← List.cons_append, e, List.append_assoc, starToken_starText]
        simp only
        have hlf' : LF ∉ rr := by
          intro hm; apply hlf; rw [e]; simp [hm]
        rw [endOrComma_append_false py rr _ hlf' hf]
        simp


/-! ### plain items -/

/-- the star scanner finds nothing in `t`: not at its head when `fresh` (start of the text / right after a comma),
and not after any of its commas -/
def quietB : Bool → Str → Bool
  | _, [] => true
  | fresh, c :: cs => (!fresh || (starItem false (c :: cs)).isNone) && quietB (c == ',') cs

/-- a plain select item: no comma-separated piece of it is a star form, no line feed, not blank -/
def PlainOk (t : Str) : Bool := quietB true t && t.all (· != LF) && t.any (· != ' ')

def QuietAt (py : Bool) (X : Str) : Bool → Str → Prop
  | _, [] => True
  | fresh, c :: cs => (fresh = true → starItem py (c :: cs ++ X) = none) ∧ QuietAt py X (c == ',') cs

theorem quietAt_mono (py : Bool) (X : Str) (fresh : Bool) (u : Str) (h : QuietAt py X true u) : QuietAt py X fresh u := by
  cases u with
  | nil => trivial
  | cons c cs => exact ⟨fun _ => h.1 rfl, h.2⟩

theorem quietAt_spaces (py : Bool) (X : Str) (hX : EndOrCommaCtx X) (fresh : Bool) (r : Nat) :
    QuietAt py X fresh (spaces r) := by
  induction r generalizing fresh with
  | zero => trivial
  | succ r ih =>
    refine ⟨fun _ => ?_, ih _⟩
    exact starItem_ctx_end py (r + 1) X hX

theorem quietAt_of_quietB (py : Bool) (X : Str) (hX : EndOrCommaCtx X) (r : Nat) (t : Str) (fresh : Bool)
    (hlf : LF ∉ t) (h : quietB fresh t = true) : QuietAt py X fresh (t ++ spaces r) := by
  induction t generalizing fresh with
  | nil => exact quietAt_spaces py X hX fresh r
  | cons c cs ih =>
    simp only [quietB, Bool.and_eq_true, Bool.or_eq_true, Bool.not_eq_true', Option.isNone_iff_eq_none] at h
    refine ⟨fun hf => ?_, ih _ (by simp at hlf; exact hlf.2) h.2⟩
    have h1 : starItem false (c :: cs) = none := by
      rcases h.1 with h1 | h1
      · simp [hf] at h1
      · exact h1
    have := starItem_ctx py (c :: cs) r X hX hlf h1
    simpa using this

theorem quietB_head (t : Str) (h : quietB true t = true) : starItem false t = none := by
  cases t with
  | nil => rfl
  | cons c cs =>
    simp only [quietB, Bool.and_eq_true, Bool.or_eq_true, Bool.not_eq_true', Option.isNone_iff_eq_none] at h
    rcases h.1 with h1 | h1
    · simp at h1
    · exact h1

theorem plainOk_quiet {t : Str} (h : PlainOk t = true) : quietB true t = true := by
  simp only [PlainOk, Bool.and_eq_true] at h; exact h.1.1

theorem plainOk_noLF {t : Str} (h : PlainOk t = true) : LF ∉ t := by
  simp only [PlainOk, Bool.and_eq_true, List.all_eq_true] at h
  intro hm
  have := h.1.2 _ hm
  simp at this

theorem plain_head_none (py : Bool) (X : Str) (hX : EndOrCommaCtx X) (l r : Nat) (t : Str) (h : PlainOk t = true) :
    starItem py (renderItem (l, .plain t, r) ++ X) = none := by
  simp only [renderItem, SelItem.text, List.append_assoc]
  rw [starItem_spaces_none]
  exact starItem_ctx py t r X hX (plainOk_noLF h) (quietB_head t (plainOk_quiet h))

theorem quietAt_plain (py : Bool) (X : Str) (hX : EndOrCommaCtx X) (l r : Nat) (t : Str) (h : PlainOk t = true) :
    QuietAt py X true (renderItem (l, .plain t, r)) := by
  induction l with
  | zero =>
    simp only [renderItem, SelItem.text, spaces_zero, List.nil_append]
    exact quietAt_of_quietB py X hX r t true (plainOk_noLF h) (plainOk_quiet h)
  | succ l ih =>
    have e : renderItem (l + 1, .plain t, r) = ' ' :: renderItem (l, .plain t, r) := by
      simp [renderItem, spaces_succ]
    rw [e]
    refine ⟨fun _ => ?_, quietAt_mono _ _ _ _ ih⟩
    rw [List.cons_append, starItem_space_none]
    exact plain_head_none py X hX l r t h

theorem quietAt_head (py : Bool) (X : Str) (hX : EndOrCommaCtx X) (u : Str) (h : QuietAt py X true u) :
    starItem py (u ++ X) = none := by
  cases u with
  | nil => exact starItem_ctx_end py 0 X hX
  | cons c cs => exact h.1 rfl

/-! ### stream lemmas -/

theorem starItem_comma (py : Bool) (Y : Str) : starItem py (',' :: Y) = none := by
  unfold starItem; rw [dropSpaces_comma]; rfl

theorem starMatchAt_comma (py consuming atStart pc : Bool) (Y : Str) :
    starMatchAt py consuming atStart pc (',' :: Y) =
      if consuming then (starItem py Y).map (fun m => (m.1, m.2 + 1)) else none := by
  unfold starMatchAt starMatchConsuming
  simp [starItem_comma]

theorem starMatchAt_none_of (py consuming atStart pc : Bool) (c : Char) (w : Str)
    (h1 : (atStart || pc) = true → starItem py (c :: w) = none) (h2 : c = ',' → starItem py w = none) :
    starMatchAt py consuming atStart pc (c :: w) = none := by
  unfold starMatchAt starMatchConsuming
  cases consuming
  · by_cases h : (atStart || pc) = true
    · simp [h, h1 h]
    · simp [h]
  · by_cases hc : c = ','
    · subst hc; simp [starItem_comma, h2 rfl]
    · cases atStart
      · simp [hc]
      · simp [h1 rfl, hc]

variable (py consuming : Bool) (repl : StarKind → Str) (extra : Nat)

theorem stream_flags (X : Str) (hX : EndOrCommaCtx X) (d : Nat) (atStart pc : Bool) :
    starStream py consuming repl extra 0 d atStart pc X = starStream py consuming repl extra 0 d false false X := by
  rcases hX with rfl | ⟨Y, rfl⟩
  · simp [starStream]
  · rw [starStream, starStream, starMatchAt_comma, starMatchAt_comma]

theorem stream_skip (X : Str) (hX : EndOrCommaCtx X) (u : Str) (e : Nat) (atStart pc : Bool) :
    starStream py consuming repl extra u.length (u.length + e) atStart pc (u ++ X)
      = starStream py consuming repl extra 0 e false false X := by
  induction u generalizing atStart pc with
  | nil => simpa using stream_flags py consuming repl extra X hX e atStart pc
  | cons c u ih =>
    rw [List.cons_append, List.length_cons, starStream]
    have : u.length + 1 + e - 1 = u.length + e := by omega
    rw [this, ih]
    simp [emit]

theorem stream_match (X : Str) (hX : EndOrCommaCtx X) (u : Str) (k : StarKind) (d : Nat) (atStart pc : Bool)
    (hm : starMatchAt py consuming atStart pc (u ++ X) = some (k, u.length)) :
    starStream py consuming repl extra 0 d atStart pc (u ++ X)
      = repl k ++ starStream py consuming repl extra 0 extra false false X := by
  have hn := starMatchAt_pos _ _ _ _ _ _ _ hm
  cases u with
  | nil => simp at hn
  | cons c u =>
    rw [List.cons_append] at hm ⊢
    rw [starStream, hm]
    simp only [List.length_cons, Nat.add_sub_cancel]
    have : u.length + 1 + extra - 1 = u.length + extra := by omega
    rw [this, stream_skip py consuming repl extra X hX]

theorem stream_quiet (X : Str) (hX : EndOrCommaCtx X) (u : Str) (atStart pc fresh : Bool)
    (hf : (atStart || pc) = true → fresh = true) (hq : QuietAt py X fresh u) :
    starStream py consuming repl extra 0 0 atStart pc (u ++ X)
      = u ++ starStream py consuming repl extra 0 0 false false X := by
  induction u generalizing atStart pc fresh with
  | nil => simpa using stream_flags py consuming repl extra X hX 0 atStart pc
  | cons c cs ih =>
    rw [List.cons_append, starStream]
    have hnone : starMatchAt py consuming atStart pc (c :: (cs ++ X)) = none := by
      apply starMatchAt_none_of
      · intro h; exact hq.1 (hf h)
      · intro hc
        subst hc
        exact quietAt_head py X hX cs hq.2
    rw [hnone]
    simp only [emit, if_true, List.cons_append, List.nil_append, Nat.zero_sub]
    rw [ih false (c == ',') (c == ',') (by simp) hq.2]


/-! ### canonical forms -/

/-- the canonical result of `replace_star_vars` after the first item; `prevStar` = the previous item was a star
(its replacement swallowed the comma) -/
def canonTail (repl : StarKind → Str) : Bool → List PItem → Str
  | _, [] => []
  | _, (_, .star k, _) :: rest => repl k ++ canonTail repl true rest
  | prevStar, (l, .plain t, r) :: rest =>
    (if prevStar then [] else [',']) ++ (spaces l ++ t ++ spaces r) ++ canonTail repl false rest

/-- the canonical result of `replace_star_vars`: a star item contributes exactly `repl k` (padding and both commas
disappear), a plain item its padded text, adjacent plain items are separated by one comma -/
def canonStars (repl : StarKind → Str) (items : List PItem) : Str := canonTail repl true items

def itemOk : PItem → Bool
  | (_, .plain t, _) => PlainOk t
  | (_, .star _, _) => true

/-- every plain item of the list is `PlainOk` -/
def PlainItemsOk (items : List PItem) : Prop := ∀ x ∈ items, itemOk x = true

instance (items : List PItem) : Decidable (PlainItemsOk items) :=
  inferInstanceAs (Decidable (∀ x ∈ items, itemOk x = true))

theorem PlainItemsOk.tail {x : PItem} {xs : List PItem} (h : PlainItemsOk (x :: xs)) : PlainItemsOk xs :=
  fun y hm => h y (List.mem_cons_of_mem _ hm)

theorem renderItem_star_length (l r : Nat) (k : StarKind) :
    (renderItem (l, .star k, r)).length = l + (starText k).length + r := by
  simp [renderItem, SelItem.text]; omega

theorem starItem_renderStar (py : Bool) (k : StarKind) (l r : Nat) (X : Str) (hX : EndOrCommaCtx X) :
    starItem py (renderItem (l, .star k, r) ++ X) = some (k, (renderItem (l, .star k, r)).length) := by
  rw [renderItem_star_length]
  exact starItem_star py k l r X hX

theorem stream_tail_consuming (py : Bool) (repl : StarKind → Str) (items : List PItem) (hok : PlainItemsOk items)
    (d : Nat) (hd : d ≤ 1) (pc : Bool) :
    starStream py true repl 1 0 d false pc (commaTail (items.map renderItem)) = canonTail repl (d == 1) items := by
  induction items generalizing d pc with
  | nil => simp [commaTail, starStream, canonTail]
  | cons x xs ih =>
    obtain ⟨l, it, r⟩ := x
    have hX := commaTail_ctx (xs.map renderItem)
    simp only [List.map_cons, commaTail, List.cons_append]
    cases it with
    | star k =>
      have hm : starMatchAt py true false pc ((',' :: renderItem (l, .star k, r)) ++ commaTail (xs.map renderItem))
          = some (k, (',' :: renderItem (l, .star k, r)).length) := by
        rw [List.cons_append, starMatchAt_comma, starItem_renderStar py k l r _ hX]
        simp
      have := stream_match py true repl 1 _ hX _ k d false pc hm
      rw [List.cons_append] at this
      rw [this, ih hok.tail 1 (by omega) false]
      simp [canonTail]
    | plain t =>
      have hp : PlainOk t = true := hok (l, .plain t, r) (by simp)
      rw [starStream, starMatchAt_comma, plain_head_none py _ hX l r t hp]
      simp only [if_true, Option.map_none]
      have hd0 : d - 1 = 0 := by omega
      have hb : ((',' : Char) == ',') = true := by decide
      rw [hd0, hb, stream_quiet py true repl 1 _ hX _ false true true (by simp) (quietAt_plain py _ hX l r t hp)]
      rw [ih hok.tail 0 (by omega) false]
      have : d = 0 ∨ d = 1 := by omega
      rcases this with rfl | rfl <;> simp [canonTail, emit, renderItem, SelItem.text]

/-- **`replace_star_vars` on a rendered select list** (Python: `js = false`, JavaScript: `js = true`) -/
theorem replaceStarVars_canonical_aux (js : Bool) (items : List PItem) (hok : PlainItemsOk items) :
    replaceStarVars js (renderSel items) = canonStars (if js then starReplJs else starReplPy) items := by
  rw [replaceStarVars_stream]
  generalize (if js then starReplJs else starReplPy) = repl
  cases items with
  | nil => simp [renderSel, commaJoin, starStream, canonStars, canonTail]
  | cons x xs =>
    obtain ⟨l, it, r⟩ := x
    have hX := commaTail_ctx (xs.map renderItem)
    simp only [renderSel, List.map_cons, commaJoin, canonStars]
    cases it with
    | star k =>
      have hm : starMatchAt (!js) true true false (renderItem (l, .star k, r) ++ commaTail (xs.map renderItem))
          = some (k, (renderItem (l, .star k, r)).length) := by
        simp [starMatchAt, starMatchConsuming, starItem_renderStar (!js) k l r _ hX]
      rw [stream_match (!js) true repl 1 _ hX _ k 0 true false hm]
      rw [stream_tail_consuming (!js) repl xs hok.tail 1 (by omega) false]
      simp [canonTail]
    | plain t =>
      have hp : PlainOk t = true := hok (l, .plain t, r) (by simp)
      rw [stream_quiet (!js) true repl 1 _ hX _ true false true (by simp) (quietAt_plain (!js) _ hX l r t hp)]
      rw [stream_tail_consuming (!js) repl xs hok.tail 0 (by omega) false]
      simp [canonTail, renderItem, SelItem.text]

/-! ### the look-behind variant -/

/-- a star item becomes its marker (padding removed), a plain item is unchanged -/
def markItem : PItem → Str
  | (_, .star k, _) => starMarker k
  | (l, .plain t, r) => spaces l ++ t ++ spaces r

theorem stream_tail_marker (py : Bool) (items : List PItem) (hok : PlainItemsOk items) (pc : Bool) :
    starStream py false starMarker 0 0 0 false pc (commaTail (items.map renderItem)) = commaTail (items.map markItem) := by
  induction items generalizing pc with
  | nil => simp [commaTail, starStream]
  | cons x xs ih =>
    obtain ⟨l, it, r⟩ := x
    have hX := commaTail_ctx (xs.map renderItem)
    simp only [List.map_cons, commaTail, List.cons_append]
    rw [starStream, starMatchAt_comma]
    simp only [Bool.false_eq_true, if_false, emit, if_true, List.cons_append, List.nil_append, Nat.zero_sub]
    cases it with
    | star k =>
      have hm : starMatchAt py false false true (renderItem (l, .star k, r) ++ commaTail (xs.map renderItem))
          = some (k, (renderItem (l, .star k, r)).length) := by
        simp [starMatchAt, starItem_renderStar py k l r _ hX]
      have hb : ((',' : Char) == ',') = true := by decide
      rw [hb, stream_match py false starMarker 0 _ hX _ k 0 false true hm, ih hok.tail false]
      simp [markItem]
    | plain t =>
      have hp : PlainOk t = true := hok (l, .plain t, r) (by simp)
      have hb : ((',' : Char) == ',') = true := by decide
      rw [hb, stream_quiet py false starMarker 0 _ hX _ false true true (by simp) (quietAt_plain py _ hX l r t hp)]
      rw [ih hok.tail false]
      simp [markItem, renderItem, SelItem.text]

/-- **`replace_star_vars_for_ast` / `replace_star_vars_for_header_parsing` on a rendered select list**: every star item
becomes its marker, nothing else changes (the commas stay) -/
theorem replaceStarVarsMarker_canonical_aux (js : Bool) (items : List PItem) (hok : PlainItemsOk items) :
    replaceStarVarsMarker js (renderSel items) = commaJoin (items.map markItem) := by
  rw [replaceStarVarsMarker_stream]
  cases items with
  | nil => simp [renderSel, commaJoin, starStream]
  | cons x xs =>
    obtain ⟨l, it, r⟩ := x
    have hX := commaTail_ctx (xs.map renderItem)
    simp only [renderSel, List.map_cons, commaJoin]
    cases it with
    | star k =>
      have hm : starMatchAt (!js) false true false (renderItem (l, .star k, r) ++ commaTail (xs.map renderItem))
          = some (k, (renderItem (l, .star k, r)).length) := by
        simp [starMatchAt, starItem_renderStar (!js) k l r _ hX]
      rw [stream_match (!js) false starMarker 0 _ hX _ k 0 true false hm, stream_tail_marker (!js) xs hok.tail false]
      simp [markItem]
    | plain t =>
      have hp : PlainOk t = true := hok (l, .plain t, r) (by simp)
      rw [stream_quiet (!js) false starMarker 0 _ hX _ true false true (by simp) (quietAt_plain (!js) _ hX l r t hp)]
      rw [stream_tail_marker (!js) xs hok.tail false]
      simp [markItem, renderItem, SelItem.text]


/-! ### which texts are `PlainOk` -/

theorem starItem_some_mem_star (py : Bool) (v : Str) (m : StarKind × Nat) (h : starItem py v = some m) : '*' ∈ v := by
  unfold starItem at h
  split at h
  · rename_i k r hk
    have e := starToken_some _ _ _ hk
    have hs : '*' ∈ dropSpaces v := by
      rw [e]; cases k <;> simp [starText]
    exact (List.dropWhile_suffix _).subset hs
  · simp at h

theorem starItem_none_of_no_star (py : Bool) (v : Str) (h : '*' ∉ v) : starItem py v = none := by
  cases hm : starItem py v with
  | none => rfl
  | some m => exact absurd (starItem_some_mem_star py v m hm) h

theorem quietB_of_no_star (fresh : Bool) (t : Str) (h : '*' ∉ t) : quietB fresh t = true := by
  induction t generalizing fresh with
  | nil => rfl
  | cons c cs ih =>
    simp only [quietB, Bool.and_eq_true, Bool.or_eq_true, Bool.not_eq_true', Option.isNone_iff_eq_none]
    exact ⟨Or.inr (starItem_none_of_no_star _ _ h), ih _ (fun hm => h (List.mem_cons_of_mem _ hm))⟩

/-- every non-blank text without `*` and without line feed is an admissible plain item -/
theorem plainOk_of_no_star (t : Str) (h1 : '*' ∉ t) (h2 : LF ∉ t) (h3 : ∃ c ∈ t, c ≠ ' ') : PlainOk t = true := by
  simp only [PlainOk, Bool.and_eq_true, List.all_eq_true, List.any_eq_true]
  refine ⟨⟨quietB_of_no_star true t h1, ?_⟩, ?_⟩
  · intro c hc
    have : c ≠ LF := fun e => h2 (e ▸ hc)
    simpa using this
  · obtain ⟨c, hc, hne⟩ := h3
    exact ⟨c, hc, by simpa using hne⟩

example : PlainOk "a1 * 2".toList = true := by decide
example : PlainOk "f(a1, a2 * 3) + b.x".toList = true := by decide
example : PlainOk " a.* ".toList = false := by decide
example : PlainOk "*".toList = false := by decide
example : PlainOk "   ".toList = false := by decide

/-! ### stripping padded texts -/

/-- `w` starts with a character outside `p` -/
def HeadNot (p : Char → Bool) (w : Str) : Prop := ∃ c w', w = c :: w' ∧ p c = false
/-- `w` ends with a character outside `p` -/
def LastNot (p : Char → Bool) (w : Str) : Prop := ∃ c w', w = w' ++ [c] ∧ p c = false

theorem dropWhile_spaces_append (p : Char → Bool) (hp : p ' ' = true) (a : Nat) (w : Str) :
    (spaces a ++ w).dropWhile p = w.dropWhile p := by
  induction a with
  | zero => rfl
  | succ a ih => simp [spaces_succ, hp, ih]

theorem dropWhile_headNot (p : Char → Bool) (w : Str) (h : HeadNot p w) : w.dropWhile p = w := by
  obtain ⟨c, w', rfl, hc⟩ := h
  simp [hc]

theorem spaces_reverse (n : Nat) : (spaces n).reverse = spaces n := by simp [spaces]

theorem stripBy_pad (p : Char → Bool) (hp : p ' ' = true) (a b : Nat) (w : Str) (hh : HeadNot p w) (hl : LastNot p w) :
    stripBy p (spaces a ++ w ++ spaces b) = w := by
  unfold stripBy
  rw [List.append_assoc, dropWhile_spaces_append p hp]
  have h1 : HeadNot p (w ++ spaces b) := by
    obtain ⟨c, w', rfl, hc⟩ := hh
    exact ⟨c, w' ++ spaces b, by simp, hc⟩
  rw [dropWhile_headNot p _ h1, List.reverse_append, spaces_reverse, dropWhile_spaces_append p hp]
  have h2 : HeadNot p w.reverse := by
    obtain ⟨c, w', rfl, hc⟩ := hl
    exact ⟨c, w'.reverse, by simp, hc⟩
  rw [dropWhile_headNot p _ h2, List.reverse_reverse]

theorem stripBy_ne_nil (p : Char → Bool) (w : Str) (hh : HeadNot p w) : stripBy p w ≠ [] := by
  obtain ⟨c, w', rfl, hc⟩ := hh
  unfold stripBy
  rw [dropWhile_headNot p _ ⟨c, w', rfl, hc⟩]
  intro h
  rw [List.reverse_eq_nil_iff] at h
  have : c ∈ ((c :: w').reverse).dropWhile p := by
    have hmem : c ∈ (c :: w').reverse := by simp
    generalize (c :: w').reverse = l at hmem
    induction l with
    | nil => simp at hmem
    | cons x xs ih =>
      rw [List.dropWhile_cons]
      split
      · rcases List.mem_cons.mp hmem with e | e
        · subst e; simp_all
        · exact ih e
      · exact hmem
  rw [h] at this
  simp at this

theorem isPyWsU_space : isPyWsU ' ' = true := by decide

theorem pyStripU_pad (a b : Nat) (w : Str) (hh : HeadNot isPyWsU w) (hl : LastNot isPyWsU w) :
    pyStripU (spaces a ++ w ++ spaces b) = w := stripBy_pad _ isPyWsU_space a b w hh hl

theorem jsStrStrip_pad (a b : Nat) (w : Str) (hh : HeadNot (· == ' ') w) (hl : LastNot (· == ' ') w) :
    jsStrStrip (spaces a ++ w ++ spaces b) = w := stripBy_pad _ (by decide) a b w hh hl

/-! ### trimming the outer padding of a rendered list -/

/-- the left padding of the first item -/
def firstPad : List PItem → Nat
  | [] => 0
  | x :: _ => x.1
/-- the right padding of the last item -/
def lastPad : List PItem → Nat
  | [] => 0
  | [x] => x.2.2
  | _ :: y :: ys => lastPad (y :: ys)

def zeroL : List PItem → List PItem
  | [] => []
  | x :: xs => (0, x.2.1, x.2.2) :: xs
def zeroR : List PItem → List PItem
  | [] => []
  | [x] => [(x.1, x.2.1, 0)]
  | x :: y :: ys => x :: zeroR (y :: ys)

/-- the list with the left padding of the first item and the right padding of the last item removed -/
def trimEnds (items : List PItem) : List PItem := zeroR (zeroL items)

theorem renderSel_zeroL (items : List PItem) : renderSel items = spaces (firstPad items) ++ renderSel (zeroL items) := by
  cases items with
  | nil => rfl
  | cons x xs => simp [renderSel, commaJoin, zeroL, firstPad, renderItem]

theorem commaTail_zeroR (y : PItem) (ys : List PItem) :
    commaTail ((y :: ys).map renderItem) = commaTail ((zeroR (y :: ys)).map renderItem) ++ spaces (lastPad (y :: ys)) := by
  induction ys generalizing y with
  | nil => simp [commaTail, zeroR, lastPad, renderItem]
  | cons z zs ih =>
    have := ih z
    simp only [List.map_cons, commaTail, zeroR, lastPad] at this ⊢
    rw [this]
    simp

theorem renderSel_zeroR (items : List PItem) : renderSel items = renderSel (zeroR items) ++ spaces (lastPad items) := by
  cases items with
  | nil => rfl
  | cons x xs =>
    cases xs with
    | nil => simp [renderSel, commaJoin, commaTail, zeroR, lastPad, renderItem]
    | cons y ys =>
      simp only [renderSel, List.map_cons, commaJoin, zeroR, lastPad]
      have := commaTail_zeroR y ys
      simp only [List.map_cons] at this
      rw [this]
      simp

theorem lastPad_zeroL (items : List PItem) : lastPad (zeroL items) = lastPad items := by
  cases items with
  | nil => rfl
  | cons x xs => cases xs <;> rfl

theorem renderSel_trimEnds (items : List PItem) :
    renderSel items = spaces (firstPad items) ++ renderSel (trimEnds items) ++ spaces (lastPad items) := by
  rw [trimEnds, List.append_assoc, ← lastPad_zeroL, ← renderSel_zeroR, ← renderSel_zeroL]


-- ==== t7 ====


/-! ### the ends of a trimmed list -/

/-- the first item, when plain, starts with a character outside `p` -/
def headOk (p : Char → Bool) : List PItem → Bool
  | (_, .plain (c :: _), _) :: _ => !p c
  | (_, .plain [], _) :: _ => false
  | _ => true

/-- the last item, when plain, ends with a character outside `p` -/
def lastOk (p : Char → Bool) : List PItem → Bool
  | [] => true
  | [(_, .plain t, _)] => (match t.getLast? with | some c => !p c | none => false)
  | [(_, .star _, _)] => true
  | _ :: y :: ys => lastOk p (y :: ys)

/-- `p` is a set of blank characters: contains the space, none of the characters of the star forms and of the
replacement texts' ends -/
structure BlankSet (p : Char → Bool) : Prop where
  space : p ' ' = true
  star : p '*' = false
  a : p 'a' = false
  b : p 'b' = false
  close : p ']' = false
  opn : p '[' = false
  under : p '_' = false

theorem blankSet_py : BlankSet isPyWsU := by constructor <;> decide
theorem blankSet_js : BlankSet (· == ' ') := by constructor <;> decide

theorem HeadNot.append {p : Char → Bool} {w : Str} (h : HeadNot p w) (v : Str) : HeadNot p (w ++ v) := by
  obtain ⟨c, w', rfl, hc⟩ := h
  exact ⟨c, w' ++ v, by simp, hc⟩

theorem LastNot.prepend {p : Char → Bool} {w : Str} (h : LastNot p w) (v : Str) : LastNot p (v ++ w) := by
  obtain ⟨c, w', rfl, hc⟩ := h
  exact ⟨c, v ++ w', by simp, hc⟩

theorem starText_headNot {p : Char → Bool} (hp : BlankSet p) (k : StarKind) : HeadNot p (starText k) := by
  cases k
  · exact ⟨'*', [], rfl, hp.star⟩
  · exact ⟨'a', ['.', '*'], rfl, hp.a⟩
  · exact ⟨'b', ['.', '*'], rfl, hp.b⟩

theorem starText_lastNot {p : Char → Bool} (hp : BlankSet p) (k : StarKind) : LastNot p (starText k) := by
  cases k
  · exact ⟨'*', [], rfl, hp.star⟩
  · exact ⟨'*', ['a', '.'], rfl, hp.star⟩
  · exact ⟨'*', ['b', '.'], rfl, hp.star⟩

theorem zeroR_cons (x : PItem) (xs : List PItem) : ∃ r' rest, zeroR (x :: xs) = (x.1, x.2.1, r') :: rest := by
  cases xs with
  | nil => exact ⟨0, [], rfl⟩
  | cons y ys => exact ⟨x.2.2, zeroR (y :: ys), rfl⟩

theorem text_headNot {p : Char → Bool} (hp : BlankSet p) (l r : Nat) (it : SelItem) (xs : List PItem)
    (h : headOk p ((l, it, r) :: xs) = true) : HeadNot p it.text := by
  cases it with
  | star k => exact starText_headNot hp k
  | plain t =>
    cases t with
    | nil => simp [headOk] at h
    | cons c cs => exact ⟨c, cs, rfl, by simpa [headOk] using h⟩

theorem renderSel_trimEnds_headNot {p : Char → Bool} (hp : BlankSet p) (items : List PItem) (hne : items ≠ [])
    (h : headOk p items = true) : HeadNot p (renderSel (trimEnds items)) := by
  cases items with
  | nil => exact absurd rfl hne
  | cons x xs =>
    obtain ⟨l, it, r⟩ := x
    obtain ⟨r', rest, e⟩ := zeroR_cons (0, it, r) xs
    simp only [trimEnds, zeroL, e, renderSel, List.map_cons, commaJoin, renderItem, spaces_zero, List.nil_append,
      List.append_assoc]
    exact (text_headNot hp l r it xs h).append _

theorem renderSel_cons_cons (x y : PItem) (ys : List PItem) :
    renderSel (x :: y :: ys) = renderItem x ++ ',' :: renderSel (y :: ys) := by
  simp [renderSel, commaJoin, commaTail]

theorem renderSel_zeroR_lastNot {p : Char → Bool} (hp : BlankSet p) (items : List PItem) (hne : items ≠ [])
    (h : lastOk p items = true) : LastNot p (renderSel (zeroR items)) := by
  induction items with
  | nil => exact absurd rfl hne
  | cons x xs ih =>
    cases xs with
    | nil =>
      obtain ⟨l, it, r⟩ := x
      simp only [zeroR, renderSel, List.map_cons, List.map_nil, commaJoin, commaTail, renderItem, spaces_zero,
        List.append_nil]
      apply LastNot.prepend
      cases it with
      | star k => exact starText_lastNot hp k
      | plain t =>
        simp only [lastOk] at h
        split at h
        · rename_i c hc
          obtain ⟨w', rfl⟩ : ∃ w', t = w' ++ [c] := by
            rw [List.getLast?_eq_some_iff] at hc
            exact hc
          exact ⟨c, w', rfl, by simpa using h⟩
        · simp at h
    | cons y ys =>
      have := ih (by simp) (by simpa [lastOk] using h)
      obtain ⟨r', rest, e⟩ := zeroR_cons y ys
      simp only [zeroR]
      rw [e] at this ⊢
      rw [renderSel_cons_cons]
      exact (this.prepend [',']).prepend _

theorem lastOk_zeroL (p : Char → Bool) (items : List PItem) : lastOk p (zeroL items) = lastOk p items := by
  cases items with
  | nil => rfl
  | cons x xs =>
    obtain ⟨l, it, r⟩ := x
    cases xs with
    | nil => cases it <;> rfl
    | cons y ys => simp [zeroL, lastOk]

theorem renderSel_trimEnds_lastNot {p : Char → Bool} (hp : BlankSet p) (items : List PItem) (hne : items ≠ [])
    (h : lastOk p items = true) : LastNot p (renderSel (trimEnds items)) := by
  apply renderSel_zeroR_lastNot hp
  · cases items with
    | nil => exact absurd rfl hne
    | cons x xs => simp [zeroL]
  · rw [lastOk_zeroL]; exact h

/-- stripping a rendered list removes exactly the outer padding -/
theorem stripBy_renderSel {p : Char → Bool} (hp : BlankSet p) (items : List PItem) (hne : items ≠ [])
    (h1 : headOk p items = true) (h2 : lastOk p items = true) :
    stripBy p (renderSel items) = renderSel (trimEnds items) := by
  rw [renderSel_trimEnds items]
  exact stripBy_pad p hp.space _ _ _ (renderSel_trimEnds_headNot hp items hne h1) (renderSel_trimEnds_lastNot hp items hne h2)


/-! ### the canonical texts and the outer padding -/

theorem stripBy_spaces (p : Char → Bool) (hp : p ' ' = true) (a b : Nat) (w : Str) :
    stripBy p (spaces a ++ w ++ spaces b) = stripBy p w := by
  unfold stripBy
  rw [List.append_assoc, dropWhile_spaces_append p hp]
  have : ∀ (v : Str), ((v ++ spaces b).dropWhile p).reverse.dropWhile p = (v.dropWhile p).reverse.dropWhile p := by
    intro v
    induction v with
    | nil =>
      have : (spaces b).dropWhile p = [] := by
        have := dropWhile_spaces_append p hp b []
        simpa using this
      simp [this]
    | cons c cs ih =>
      rw [List.cons_append, List.dropWhile_cons, List.dropWhile_cons]
      split
      · exact ih
      · rw [← List.cons_append, List.reverse_append, spaces_reverse, dropWhile_spaces_append p hp]
  rw [this]

theorem canonStars_zeroL (repl : StarKind → Str) (items : List PItem) :
    ∃ a, canonStars repl items = spaces a ++ canonStars repl (zeroL items) := by
  cases items with
  | nil => exact ⟨0, rfl⟩
  | cons x xs =>
    obtain ⟨l, it, r⟩ := x
    cases it with
    | star k => exact ⟨0, rfl⟩
    | plain t => exact ⟨l, by simp [canonStars, canonTail, zeroL]⟩

theorem canonTail_zeroR (repl : StarKind → Str) (b : Bool) (items : List PItem) :
    ∃ n, canonTail repl b items = canonTail repl b (zeroR items) ++ spaces n := by
  induction items generalizing b with
  | nil => exact ⟨0, rfl⟩
  | cons x xs ih =>
    obtain ⟨l, it, r⟩ := x
    cases xs with
    | nil =>
      cases it with
      | star k => exact ⟨0, by simp [zeroR, canonTail]⟩
      | plain t => exact ⟨r, by simp [zeroR, canonTail]⟩
    | cons y ys =>
      cases it with
      | star k =>
        obtain ⟨n, e⟩ := ih true
        exact ⟨n, by simp only [zeroR, canonTail]; rw [e]; simp⟩
      | plain t =>
        obtain ⟨n, e⟩ := ih false
        exact ⟨n, by simp only [zeroR, canonTail]; rw [e]; simp⟩

theorem canonStars_trimEnds (repl : StarKind → Str) (items : List PItem) :
    ∃ a b, canonStars repl items = spaces a ++ canonStars repl (trimEnds items) ++ spaces b := by
  obtain ⟨a, e1⟩ := canonStars_zeroL repl items
  obtain ⟨b, e2⟩ := canonTail_zeroR repl true (zeroL items)
  refine ⟨a, b, ?_⟩
  rw [e1]
  simp only [canonStars, trimEnds] at e2 ⊢
  rw [e2]
  simp

theorem stripBy_canonStars_trimEnds (p : Char → Bool) (hp : p ' ' = true) (repl : StarKind → Str) (items : List PItem) :
    stripBy p (canonStars repl (trimEnds items)) = stripBy p (canonStars repl items) := by
  obtain ⟨a, b, e⟩ := canonStars_trimEnds repl items
  rw [e, stripBy_spaces p hp]

theorem canonStars_trimEnds_headNot {p : Char → Bool} (hp : BlankSet p) (repl : StarKind → Str)
    (hrepl : ∀ k, HeadNot p (repl k)) (items : List PItem) (hne : items ≠ []) (h : headOk p items = true) :
    HeadNot p (canonStars repl (trimEnds items)) := by
  cases items with
  | nil => exact absurd rfl hne
  | cons x xs =>
    obtain ⟨l, it, r⟩ := x
    obtain ⟨r', rest, e⟩ := zeroR_cons (0, it, r) xs
    simp only [trimEnds, zeroL, e, canonStars]
    cases it with
    | star k => exact (hrepl k).append _
    | plain t =>
      have := text_headNot hp l r (.plain t) xs h
      simp only [canonTail, if_true, spaces_zero, List.nil_append, List.append_assoc]
      exact this.append _

theorem starReplPy_headNot {p : Char → Bool} (hp : BlankSet p) (k : StarKind) : HeadNot p (starReplPy k) :=
  ⟨']', _, rfl, hp.close⟩
theorem starReplJs_headNot {p : Char → Bool} (hp : BlankSet p) (k : StarKind) : HeadNot p (starReplJs k) :=
  ⟨']', _, rfl, hp.close⟩

/-! the marker text -/

theorem markJoin_zeroL (items : List PItem) :
    ∃ a, commaJoin (items.map markItem) = spaces a ++ commaJoin ((zeroL items).map markItem) := by
  cases items with
  | nil => exact ⟨0, rfl⟩
  | cons x xs =>
    obtain ⟨l, it, r⟩ := x
    cases it with
    | star k => exact ⟨0, rfl⟩
    | plain t => exact ⟨l, by simp [commaJoin, markItem, zeroL]⟩

theorem markTail_zeroR (y : PItem) (ys : List PItem) :
    ∃ n, commaTail ((y :: ys).map markItem) = commaTail ((zeroR (y :: ys)).map markItem) ++ spaces n := by
  induction ys generalizing y with
  | nil =>
    obtain ⟨l, it, r⟩ := y
    cases it with
    | star k => exact ⟨0, by simp [zeroR, markItem]⟩
    | plain t => exact ⟨r, by simp [zeroR, markItem, commaTail]⟩
  | cons z zs ih =>
    obtain ⟨n, e⟩ := ih z
    refine ⟨n, ?_⟩
    simp only [List.map_cons, commaTail, zeroR] at e ⊢
    rw [e]
    simp

theorem markJoin_zeroR (items : List PItem) :
    ∃ n, commaJoin (items.map markItem) = commaJoin ((zeroR items).map markItem) ++ spaces n := by
  cases items with
  | nil => exact ⟨0, rfl⟩
  | cons x xs =>
    cases xs with
    | nil =>
      obtain ⟨l, it, r⟩ := x
      cases it with
      | star k => exact ⟨0, by simp [zeroR, markItem]⟩
      | plain t => exact ⟨r, by simp [zeroR, markItem, commaJoin, commaTail]⟩
    | cons y ys =>
      obtain ⟨n, e⟩ := markTail_zeroR y ys
      refine ⟨n, ?_⟩
      simp only [List.map_cons, commaJoin, zeroR] at e ⊢
      rw [e]
      simp

theorem stripBy_markJoin_trimEnds (p : Char → Bool) (hp : p ' ' = true) (items : List PItem) :
    stripBy p (commaJoin ((trimEnds items).map markItem)) = stripBy p (commaJoin (items.map markItem)) := by
  obtain ⟨a, e1⟩ := markJoin_zeroL items
  obtain ⟨b, e2⟩ := markJoin_zeroR (zeroL items)
  have : commaJoin (items.map markItem) = spaces a ++ commaJoin ((trimEnds items).map markItem) ++ spaces b := by
    rw [e1, e2, trimEnds]; simp
  rw [this, stripBy_spaces p hp]


/-! ### segments: runs of plain items and star variables -/

/-- a maximal run of plain items (possibly empty), or one star variable -/
inductive Seg
  | run (xs : List (Nat × Str × Nat))
  | var (k : StarKind)
  deriving DecidableEq, Repr

def paddedText (x : Nat × Str × Nat) : Str := spaces x.1 ++ x.2.1 ++ spaces x.2.2

/-- the list display of a run: `[x₁,x₂,…]` (an empty run is `[]`); a star variable is its name -/
def Seg.text : Seg → Str
  | .run xs => '[' :: commaJoin (xs.map paddedText) ++ [']']
  | .var k => starVarName k

/-- group the items: run, var, run, var, …, run (`cur` = the run being collected) -/
def segmentsAux (cur : List (Nat × Str × Nat)) : List PItem → List Seg
  | [] => [.run cur]
  | (l, .plain t, r) :: rest => segmentsAux (cur ++ [(l, t, r)]) rest
  | (_, .star k, _) :: rest => .run cur :: .var k :: segmentsAux [] rest

def segments (items : List PItem) : List Seg := segmentsAux [] items

theorem commaJoin_snoc (xs : List Str) (y : Str) :
    commaJoin (xs ++ [y]) = commaJoin xs ++ (if xs.isEmpty then [] else [',']) ++ y := by
  cases xs with
  | nil => simp [commaJoin, commaTail]
  | cons x xs =>
    induction xs generalizing x with
    | nil => simp [commaJoin, commaTail]
    | cons z zs ih =>
      have := ih z
      simp only [List.cons_append, commaJoin, commaTail, List.isEmpty_cons, Bool.false_eq_true, if_false,
        List.append_assoc] at this ⊢
      rw [this]

theorem segmentsAux_ne_nil (cur : List (Nat × Str × Nat)) (items : List PItem) : segmentsAux cur items ≠ [] := by
  induction items generalizing cur with
  | nil => simp [segmentsAux]
  | cons x xs ih =>
    obtain ⟨l, it, r⟩ := x
    cases it with
    | star k => simp [segmentsAux]
    | plain t => simp only [segmentsAux]; exact ih _

theorem joinD_cons_of_ne_nil (d f : Str) (fs : List Str) (h : fs ≠ []) : joinD d (f :: fs) = f ++ d ++ joinD d fs := by
  cases fs with
  | nil => exact absurd rfl h
  | cons g gs => rfl

/-- the open display of the current run followed by the canonical tail is the `sep`-joined list of segment texts,
where `sep` is the middle of the star replacement text (`] + V + [` = `]` ++ ` + ` ++ `V` ++ ` + ` ++ `[`) -/
theorem canonTail_segments (sep : Str) (repl : StarKind → Str)
    (hrepl : ∀ k, repl k = ']' :: sep ++ starVarName k ++ sep ++ ['['])
    (items : List PItem) (cur : List (Nat × Str × Nat)) :
    '[' :: commaJoin (cur.map paddedText) ++ canonTail repl cur.isEmpty items ++ [']']
      = joinD sep ((segmentsAux cur items).map Seg.text) := by
  induction items generalizing cur with
  | nil => simp [canonTail, segmentsAux, joinD, Seg.text]
  | cons x xs ih =>
    obtain ⟨l, it, r⟩ := x
    cases it with
    | star k =>
      have h2 := ih []
      simp only [List.map_nil, commaJoin, List.isEmpty_nil] at h2
      simp only [segmentsAux, List.map_cons, canonTail]
      rw [joinD_cons_of_ne_nil _ _ _ (by simp), joinD_cons_of_ne_nil _ _ _ (by simpa using segmentsAux_ne_nil [] xs)]
      rw [← h2, hrepl k]
      simp [Seg.text]
    | plain t =>
      have h2 := ih (cur ++ [(l, t, r)])
      simp only [segmentsAux, canonTail]
      rw [← h2, List.map_append, List.map_cons, List.map_nil, commaJoin_snoc]
      cases cur <;> simp [paddedText]

theorem starReplPy_eq (k : StarKind) : starReplPy k = ']' :: " + ".toList ++ starVarName k ++ " + ".toList ++ ['['] := by
  cases k <;> rfl
theorem starReplJs_eq (k : StarKind) : starReplJs k = ']' :: ").concat(".toList ++ starVarName k ++ ").concat(".toList ++ ['['] := by
  cases k <;> rfl

theorem canonStars_segments_py (items : List PItem) :
    '[' :: canonStars starReplPy items ++ [']'] = joinD " + ".toList ((segments items).map Seg.text) := by
  have := canonTail_segments " + ".toList starReplPy starReplPy_eq items []
  simpa [commaJoin, canonStars, segments] using this

theorem canonStars_segments_js (items : List PItem) :
    "[].concat([".toList ++ canonStars starReplJs items ++ "])".toList
      = "[].concat(".toList ++ joinD ").concat(".toList ((segments items).map Seg.text) ++ [')'] := by
  have := canonTail_segments ").concat(".toList starReplJs starReplJs_eq items []
  simp only [List.map_nil, commaJoin, List.isEmpty_nil] at this
  rw [← segments] at this
  rw [← this]
  simp [canonStars]

example : segments [(0, .plain "a1".toList, 0), (1, .star .all, 0), (1, .plain "a2".toList, 0), (1, .plain "a3".toList, 0), (0, .star .b, 1)]
    = [.run [(0, "a1".toList, 0)], .var .all, .run [(1, "a2".toList, 0), (1, "a3".toList, 0)], .var .b, .run []] := by decide


theorem canonTail_zeroR_lastNot {p : Char → Bool} (_hp : BlankSet p) (repl : StarKind → Str)
    (hrepl : ∀ k, LastNot p (repl k)) (items : List PItem) (hne : items ≠ []) (h : lastOk p items = true) (b : Bool) :
    LastNot p (canonTail repl b (zeroR items)) := by
  induction items generalizing b with
  | nil => exact absurd rfl hne
  | cons x xs ih =>
    obtain ⟨l, it, r⟩ := x
    cases xs with
    | nil =>
      cases it with
      | star k => simpa [zeroR, canonTail] using hrepl k
      | plain t =>
        simp only [lastOk] at h
        split at h
        · rename_i c hc
          obtain ⟨w', rfl⟩ : ∃ w', t = w' ++ [c] := by
            rw [List.getLast?_eq_some_iff] at hc
            exact hc
          simp only [zeroR, canonTail, spaces_zero, List.append_nil]
          have : LastNot p (w' ++ [c]) := ⟨c, w', rfl, by simpa using h⟩
          exact (this.prepend _).prepend _
        · simp at h
    | cons y ys =>
      have h' : lastOk p (y :: ys) = true := by simpa [lastOk] using h
      cases it with
      | star k =>
        simp only [zeroR, canonTail]
        exact (ih (by simp) h' true).prepend _
      | plain t =>
        simp only [zeroR, canonTail]
        exact (ih (by simp) h' false).prepend _

theorem canonStars_trimEnds_lastNot {p : Char → Bool} (hp : BlankSet p) (repl : StarKind → Str)
    (hrepl : ∀ k, LastNot p (repl k)) (items : List PItem) (hne : items ≠ []) (h : lastOk p items = true) :
    LastNot p (canonStars repl (trimEnds items)) := by
  apply canonTail_zeroR_lastNot hp repl hrepl
  · cases items with
    | nil => exact absurd rfl hne
    | cons x xs => simp [zeroL]
  · rw [lastOk_zeroL]; exact h

theorem starReplPy_lastNot {p : Char → Bool} (hp : BlankSet p) (k : StarKind) : LastNot p (starReplPy k) := by
  cases k
  · exact ⟨'[', "] + star_fields + ".toList, by decide, hp.opn⟩
  · exact ⟨'[', "] + record_a + ".toList, by decide, hp.opn⟩
  · exact ⟨'[', "] + record_b + ".toList, by decide, hp.opn⟩
theorem starReplJs_lastNot {p : Char → Bool} (hp : BlankSet p) (k : StarKind) : LastNot p (starReplJs k) := by
  cases k
  · exact ⟨'[', "]).concat(star_fields).concat(".toList, by decide, hp.opn⟩
  · exact ⟨'[', "]).concat(record_a).concat(".toList, by decide, hp.opn⟩
  · exact ⟨'[', "]).concat(record_b).concat(".toList, by decide, hp.opn⟩

/-- stripping the canonical text removes exactly the outer padding of the list -/
theorem stripBy_canonStars {p : Char → Bool} (hp : BlankSet p) (repl : StarKind → Str)
    (hh : ∀ k, HeadNot p (repl k)) (hl : ∀ k, LastNot p (repl k)) (items : List PItem) (hne : items ≠ [])
    (h1 : headOk p items = true) (h2 : lastOk p items = true) :
    stripBy p (canonStars repl items) = canonStars repl (trimEnds items) := by
  obtain ⟨a, b, e⟩ := canonStars_trimEnds repl items
  rw [e]
  exact stripBy_pad p hp.space a b _ (canonStars_trimEnds_headNot hp repl hh items hne h1)
    (canonStars_trimEnds_lastNot hp repl hl items hne h2)

end Rbql
