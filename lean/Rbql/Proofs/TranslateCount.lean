/-
  `COUNT(*)` → `COUNT(1)` (C01): the scanner `replaceStarCountRaw` on a comma-joined select list rewrites exactly the
  items of the shape ` *COUNT( * * )…` and copies everything else.
-/
import Rbql.Proofs.TranslateItems
namespace Rbql

/-! ### the intrinsic "nothing to rewrite" predicate -/

/-- after every comma of `t` the COUNT(*) scanner finds nothing -/
def countFreeTail : Str → Bool
  | [] => true
  | c :: cs => (c != ',' || (countStarItem cs).isNone) && countFreeTail cs

/-- the COUNT(*) scanner finds nothing in `t` when `t` is a whole comma-separated item (or several) -/
def CountFree (t : Str) : Bool := (countStarItem t).isNone && countFreeTail t

/-! ### items -/

inductive CItem
  | count (l : Nat) (w : Str) (i1 i2 : Nat) (tail : Str)
  | other (t : Str)

def CItem.render : CItem → Str
  | .count l w i1 i2 tail => spaces l ++ w ++ spaces i1 ++ '*' :: spaces i2 ++ ')' :: tail
  | .other t => t

def CItem.out : CItem → Str
  | .count _ _ _ _ tail => " COUNT(1)".toList ++ tail
  | .other t => t

def CItem.Ok : CItem → Bool
  | .count _ w _ _ tail => (w.length == 6 && ciPrefix "COUNT(".toList w) && countFreeTail tail
  | .other t => CountFree t

/-! ### boundary flag after a copied / skipped text -/

/-- the `boundary` flag after passing over `u`: is the last character a comma (or the initial flag when `u` is empty) -/
def bAfter : Bool → Str → Bool
  | b, [] => b
  | _, c :: cs => bAfter (c == ',') cs

theorem bAfter_append_singleton (b : Bool) (u : Str) (c : Char) : bAfter b (u ++ [c]) = (c == ',') := by
  induction u generalizing b with
  | nil => rfl
  | cons d ds ih => simp [bAfter, ih]

/-- (a) skipping the rest of a match -/
theorem replaceStarCountRaw_skip (u rest : Str) (b : Bool) :
    replaceStarCountRaw u.length b (u ++ rest) = replaceStarCountRaw 0 (bAfter b u) rest := by
  induction u generalizing b with
  | nil => rfl
  | cons c cs ih =>
    simp only [List.length_cons, List.cons_append, bAfter]
    rw [replaceStarCountRaw.eq_def]
    simp only
    exact ih _

/-! ### `ciPrefix` and `dropSpaces` facts -/

theorem ciPrefix_append (k w r : Str) (h : ciPrefix k w = true) : ciPrefix k (w ++ r) = true := by
  induction k generalizing w with
  | nil => simp [ciPrefix]
  | cons a ks ih =>
    cases w with
    | nil => simp [ciPrefix] at h
    | cons c cs =>
      simp only [ciPrefix, Bool.and_eq_true, List.cons_append] at h ⊢
      exact ⟨h.1, ih _ h.2⟩

theorem ciPrefix_length_le (k w : Str) (h : ciPrefix k w = true) : k.length ≤ w.length := by
  induction k generalizing w with
  | nil => simp
  | cons a ks ih =>
    cases w with
    | nil => simp [ciPrefix] at h
    | cons c cs =>
      simp only [ciPrefix, Bool.and_eq_true] at h
      have := ih _ h.2
      simp; omega

/-- a keyword without a comma never matches across the end of an item -/
theorem ciPrefix_append_ctx (k v X : Str) (hk : ∀ c ∈ k, (lowerChar c == lowerChar ',') = false)
    (hX : EndOrCommaCtx X) : ciPrefix k (v ++ X) = ciPrefix k v := by
  induction k generalizing v with
  | nil => simp [ciPrefix]
  | cons a ks ih =>
    cases v with
    | nil =>
      rcases hX with rfl | ⟨Y, rfl⟩
      · rfl
      · have := hk a (by simp)
        simp [ciPrefix, this]
    | cons c cs =>
      simp only [ciPrefix, List.cons_append]
      rw [ih _ (fun c hc => hk c (by simp [hc]))]

theorem dropSpaces_append_fix (u X : Str) (hX : dropSpaces X = X) : dropSpaces (u ++ X) = dropSpaces u ++ X := by
  induction u with
  | nil => simpa using hX
  | cons c cs ih =>
    by_cases h : c = ' '
    · subst h; simpa using ih
    · rw [List.cons_append, dropSpaces_cons_ne _ _ h, dropSpaces_cons_ne _ _ h]; rfl

theorem count_kw_no_comma : ∀ c ∈ "COUNT(".toList, (lowerChar c == lowerChar ',') = false := by decide

theorem ciPrefix_count_first_ne_space (c : Char) (cs : Str) (h : ciPrefix "COUNT(".toList (c :: cs) = true) : c ≠ ' ' := by
  intro hc
  subst hc
  revert h
  show ¬ (ciPrefix ('C' :: "OUNT(".toList) (' ' :: cs) = true)
  simp only [ciPrefix, Bool.and_eq_true, not_and]
  intro h
  exact absurd h (by decide)

/-! ### (c) the scanner never looks beyond the end of an item -/

theorem countStarItem_append_ctx (u X : Str) (hX : EndOrCommaCtx X) : countStarItem (u ++ X) = countStarItem u := by
  have hd : dropSpaces X = X := dropSpaces_ctx X hX
  simp only [countStarItem]
  rw [dropSpaces_append_fix u X hd, ciPrefix_append_ctx _ _ _ count_kw_no_comma hX]
  by_cases hp : ciPrefix "COUNT(".toList (dropSpaces u) = true
  · simp only [hp, if_true]
    have hlen : 6 ≤ (dropSpaces u).length := ciPrefix_length_le _ _ hp
    rw [List.drop_append_of_le_length hlen, dropSpaces_append_fix _ X hd]
    cases h2 : dropSpaces (List.drop 6 (dropSpaces u)) with
    | nil => rcases hX with rfl | ⟨Y, rfl⟩ <;> simp
    | cons c r2 =>
      by_cases hc : c = '*'
      · subst hc
        simp only [List.cons_append]
        rw [dropSpaces_append_fix _ X hd]
        cases h3 : dropSpaces r2 with
        | nil => rcases hX with rfl | ⟨Y, rfl⟩ <;> simp
        | cons d r3 =>
          by_cases hd' : d = ')'
          · subst hd'
            simp only [List.cons_append, List.length_append, Option.some.injEq]
            omega
          · simp only [List.cons_append]
            split <;> simp_all
      · simp only [List.cons_append]
        split <;> simp_all
  · have hp' : ciPrefix ['C', 'O', 'U', 'N', 'T', '('] (dropSpaces u) = false := by simpa using hp
    simp [hp']

theorem countStarItem_comma (s : Str) : countStarItem (',' :: s) = none := by
  simp [countStarItem, ciPrefix]
  intro h
  exact absurd h (by decide)

theorem countStarItem_ctx (X : Str) (hX : EndOrCommaCtx X) : countStarItem X = none := by
  rcases hX with rfl | ⟨Y, rfl⟩
  · rfl
  · exact countStarItem_comma Y

/-! ### (b) a well-formed COUNT(*) item is recognised -/

theorem countStarItem_count (l : Nat) (w : Str) (i1 i2 : Nat) (rest : Str)
    (hw : w.length = 6) (hp : ciPrefix "COUNT(".toList w = true) :
    countStarItem (spaces l ++ w ++ spaces i1 ++ '*' :: spaces i2 ++ ')' :: rest)
      = some (l + 6 + i1 + 1 + i2 + 1) := by
  cases w with
  | nil => simp at hw
  | cons c cs =>
    have hc : c ≠ ' ' := ciPrefix_count_first_ne_space c cs hp
    simp only [countStarItem, List.append_assoc, dropSpaces_spaces_append]
    rw [List.cons_append, dropSpaces_cons_ne _ _ hc, ← List.cons_append,
      ciPrefix_append _ _ _ hp, if_pos rfl, List.drop_left' hw]
    have h1 : ∀ s, dropSpaces ('*' :: s) = '*' :: s := fun s => dropSpaces_cons_ne _ _ (by decide)
    have h2 : ∀ s, dropSpaces (')' :: s) = ')' :: s := fun s => dropSpaces_cons_ne _ _ (by decide)
    simp only [dropSpaces_spaces_append, List.cons_append, h1, h2]
    simp only [List.length_append, List.length_cons, spaces_length, Option.some.injEq]
    simp only [List.length_cons] at hw
    omega

/-! ### scanner steps -/

/-- a match at a boundary is replaced and skipped -/
theorem replaceStarCountRaw_match (u rest : Str) (hu : u ≠ [])
    (h : countStarItem (u ++ rest) = some u.length) :
    replaceStarCountRaw 0 true (u ++ rest) = " COUNT(1)".toList ++ replaceStarCountRaw 0 (bAfter true u) rest := by
  cases u with
  | nil => exact absurd rfl hu
  | cons c cs =>
    rw [List.cons_append] at h ⊢
    rw [replaceStarCountRaw.eq_def]
    simp only [if_true, h, List.length_cons, Nat.add_sub_cancel]
    rw [replaceStarCountRaw_skip]
    rfl

/-- (d) a text whose comma positions are not followed by a match is copied -/
theorem replaceStarCountRaw_quiet (u X : Str) (b : Bool) (hu : countFreeTail u = true) (hX : EndOrCommaCtx X)
    (hb : b = true → countStarItem u = none) :
    replaceStarCountRaw 0 b (u ++ X) = u ++ replaceStarCountRaw 0 (bAfter b u) X := by
  induction u generalizing b with
  | nil => rfl
  | cons c cs ih =>
    simp only [countFreeTail, Bool.and_eq_true, Bool.or_eq_true] at hu
    have hnone : (if b = true then countStarItem (c :: (cs ++ X)) else none) = none := by
      by_cases hbt : b = true
      · rw [if_pos hbt, ← List.cons_append, countStarItem_append_ctx _ _ hX]; exact hb hbt
      · rw [if_neg hbt]
    rw [List.cons_append, replaceStarCountRaw.eq_def]
    simp only [hnone, bAfter, List.cons_append]
    rw [ih (c == ',') hu.2]
    intro hc
    rcases hu.1 with h | h
    · simp_all
    · simpa using h

/-- one item, at a boundary, followed by the end or a comma -/
theorem replaceStarCountRaw_item (x : CItem) (X : Str) (hx : x.Ok = true) (hX : EndOrCommaCtx X) :
    ∃ b', replaceStarCountRaw 0 true (x.render ++ X) = x.out ++ replaceStarCountRaw 0 b' X := by
  cases x with
  | other t =>
    simp only [CItem.Ok, CountFree, Bool.and_eq_true, Option.isNone_iff_eq_none] at hx
    exact ⟨_, replaceStarCountRaw_quiet t X true hx.2 hX (fun _ => hx.1)⟩
  | count l w i1 i2 tail =>
    simp only [CItem.Ok, Bool.and_eq_true, beq_iff_eq] at hx
    obtain ⟨⟨hw, hp⟩, ht⟩ := hx
    refine ⟨bAfter false tail, ?_⟩
    obtain ⟨M0, hM⟩ : ∃ M0, M0 = spaces l ++ w ++ spaces i1 ++ '*' :: spaces i2 := ⟨_, rfl⟩
    have hshape : (CItem.count l w i1 i2 tail).render ++ X = (M0 ++ [')']) ++ (tail ++ X) := by
      rw [hM]
      simp only [CItem.render, List.append_assoc, List.cons_append, List.nil_append]
    have hm : countStarItem ((M0 ++ [')']) ++ (tail ++ X)) = some (l + 6 + i1 + 1 + i2 + 1) := by
      have := countStarItem_count l w i1 i2 (tail ++ X) hw hp
      rw [hM]
      simpa only [List.append_assoc, List.cons_append, List.nil_append] using this
    have hlen : (M0 ++ [')']).length = l + 6 + i1 + 1 + i2 + 1 := by
      rw [hM]
      simp only [List.length_append, List.length_cons, spaces_length, hw, List.length_nil]
      omega
    have hne : M0 ++ [')'] ≠ [] := by
      intro h0
      rw [h0] at hlen
      simp at hlen
    rw [← hlen] at hm
    have hb : ((')' : Char) == ',') = false := by decide
    rw [hshape, replaceStarCountRaw_match _ _ hne hm, bAfter_append_singleton, hb,
      replaceStarCountRaw_quiet tail X false ht hX (fun h => absurd h (by decide))]
    exact (List.append_assoc _ _ _).symm

theorem replaceStarCountRaw_commaTail (items : List CItem) (h : ∀ x ∈ items, x.Ok = true) (b : Bool) :
    replaceStarCountRaw 0 b (commaTail (items.map CItem.render)) = commaTail (items.map CItem.out) := by
  induction items generalizing b with
  | nil => rfl
  | cons x xs ih =>
    simp only [List.map_cons, commaTail]
    have hnone : (if b = true then countStarItem (',' :: (x.render ++ commaTail (xs.map CItem.render))) else none) = none := by
      split
      · exact countStarItem_comma _
      · rfl
    rw [List.cons_append, replaceStarCountRaw.eq_def]
    simp only [hnone]
    obtain ⟨b', hb'⟩ := replaceStarCountRaw_item x (commaTail (xs.map CItem.render)) (h x (by simp))
      (commaTail_ctx _)
    have hc : ((',' : Char) == ',') = true := by decide
    rw [hc, hb', ih (fun y hy => h y (by simp [hy]))]
    simp

/-! ### main theorems -/

theorem replaceStarCountRaw_items (items : List CItem) (h : ∀ x ∈ items, x.Ok = true) :
    replaceStarCountRaw 0 true (commaJoin (items.map CItem.render)) = commaJoin (items.map CItem.out) := by
  cases items with
  | nil => rfl
  | cons x xs =>
    simp only [List.map_cons, commaJoin]
    obtain ⟨b', hb'⟩ := replaceStarCountRaw_item x (commaTail (xs.map CItem.render)) (h x (by simp))
      (commaTail_ctx _)
    rw [hb', replaceStarCountRaw_commaTail xs (fun y hy => h y (by simp [hy]))]

theorem replaceStarCountRaw_noop (ts : List Str) (h : ∀ t ∈ ts, CountFree t = true) :
    replaceStarCountRaw 0 true (commaJoin ts) = commaJoin ts := by
  have := replaceStarCountRaw_items (ts.map CItem.other) (by
    intro x hx
    obtain ⟨t, ht, rfl⟩ := List.mem_map.1 hx
    exact h t ht)
  have e1 : (ts.map CItem.other).map CItem.render = ts := by
    rw [List.map_map]; exact List.map_id' _
  have e2 : (ts.map CItem.other).map CItem.out = ts := by
    rw [List.map_map]; exact List.map_id' _
  rwa [e1, e2] at this

theorem replaceStarCountPy_items (items : List CItem) (h : ∀ x ∈ items, x.Ok = true) :
    replaceStarCountPy (commaJoin (items.map CItem.render))
      = (commaJoin (items.map CItem.out)).dropWhile (· == ' ') := by
  rw [replaceStarCountPy, replaceStarCountRaw_items items h]

theorem replaceStarCountJs_items (items : List CItem) (h : ∀ x ∈ items, x.Ok = true) :
    replaceStarCountJs (commaJoin (items.map CItem.render)) = jsStrStrip (commaJoin (items.map CItem.out)) := by
  rw [replaceStarCountJs, replaceStarCountRaw_items items h]

theorem replaceStarCountPy_noop (ts : List Str) (h : ∀ t ∈ ts, CountFree t = true) :
    replaceStarCountPy (commaJoin ts) = (commaJoin ts).dropWhile (· == ' ') := by
  rw [replaceStarCountPy, replaceStarCountRaw_noop ts h]

theorem replaceStarCountJs_noop (ts : List Str) (h : ∀ t ∈ ts, CountFree t = true) :
    replaceStarCountJs (commaJoin ts) = jsStrStrip (commaJoin ts) := by
  rw [replaceStarCountJs, replaceStarCountRaw_noop ts h]

/-! ### non-vacuity -/

/-- the hypotheses hold on a mixed list … -/
example : ∀ x ∈ [CItem.other "a1".toList, .count 1 "Count(".toList 1 0 " ".toList, .other " a2".toList],
    x.Ok = true := by decide

/-- … the rendered text is `a1, Count( *) , a2` … -/
example : commaJoin ([CItem.other "a1".toList, .count 1 "Count(".toList 1 0 " ".toList, .other " a2".toList].map
    CItem.render) = "a1, Count( *) , a2".toList := by decide

/-- … and the theorem gives `a1, COUNT(1) , a2` -/
example : replaceStarCountRaw 0 true "a1, Count( *) , a2".toList = "a1, COUNT(1) , a2".toList :=
  replaceStarCountRaw_items
    [.other "a1".toList, .count 1 "Count(".toList 1 0 " ".toList, .other " a2".toList] (by decide)

/-- a tail with an operator, and a COUNT(*) that is not at an item start (left alone) -/
example : replaceStarCountRaw 0 true "count(*) + 1,x + COUNT(*)".toList = " COUNT(1) + 1,x + COUNT(*)".toList :=
  replaceStarCountRaw_items [.count 0 "count(".toList 0 0 " + 1".toList, .other "x + COUNT(*)".toList] (by decide)

example : CountFree "x + COUNT(*)".toList = true := by decide
example : CountFree "a, COUNT(*)".toList = false := by decide

/-! ### padding and star-free texts are `CountFree` -/

theorem dropSpaces_append_of_nil (u X : Str) (h : dropSpaces u = []) : dropSpaces (u ++ X) = dropSpaces X := by
  induction u with
  | nil => rfl
  | cons c cs ih =>
    by_cases hc : c = ' '
    · subst hc; simp only [dropSpaces_space, List.cons_append] at h ⊢; exact ih h
    · rw [dropSpaces_cons_ne _ _ hc] at h; exact absurd h (by simp)

theorem dropSpaces_append_of_cons (u X : Str) (c : Char) (v : Str) (h : dropSpaces u = c :: v) :
    dropSpaces (u ++ X) = c :: v ++ X := by
  induction u with
  | nil => simp at h
  | cons d ds ih =>
    by_cases hd : d = ' '
    · subst hd; simp only [dropSpaces_space, List.cons_append] at h ⊢; exact ih h
    · rw [dropSpaces_cons_ne _ _ hd] at h
      rw [List.cons_append, dropSpaces_cons_ne _ _ hd, ← h]; rfl

@[simp] theorem dropSpaces_spaces (n : Nat) : dropSpaces (spaces n) = [] := by
  have := dropSpaces_spaces_append n []
  simpa using this

/-- a keyword without a space never matches into trailing spaces -/
theorem ciPrefix_append_spaces (k v : Str) (n : Nat) (hk : ∀ c ∈ k, (lowerChar c == lowerChar ' ') = false) :
    ciPrefix k (v ++ spaces n) = ciPrefix k v := by
  induction k generalizing v with
  | nil => simp [ciPrefix]
  | cons a ks ih =>
    cases v with
    | nil =>
      cases n with
      | zero => rfl
      | succ n =>
        have := hk a (by simp)
        simp [ciPrefix, spaces_succ, this]
    | cons c cs =>
      simp only [ciPrefix, List.cons_append]
      rw [ih _ (fun c hc => hk c (by simp [hc]))]

theorem count_kw_no_space : ∀ c ∈ "COUNT(".toList, (lowerChar c == lowerChar ' ') = false := by decide

/-- trailing spaces after an item do not change what the scanner sees -/
theorem countStarItem_append_spaces (u : Str) (n : Nat) : countStarItem (u ++ spaces n) = countStarItem u := by
  have hX : dropSpaces (spaces n) = [] := dropSpaces_spaces n
  simp only [countStarItem]
  cases h1 : dropSpaces u with
  | nil =>
    rw [dropSpaces_append_of_nil _ _ h1, hX]
    simp [ciPrefix]
  | cons c v =>
    rw [dropSpaces_append_of_cons _ _ _ _ h1, ciPrefix_append_spaces _ _ _ count_kw_no_space]
    by_cases hp : ciPrefix "COUNT(".toList (c :: v) = true
    · simp only [hp, if_true]
      have hlen : 6 ≤ (c :: v).length := ciPrefix_length_le _ _ hp
      rw [List.drop_append_of_le_length hlen]
      cases h2 : dropSpaces (List.drop 6 (c :: v)) with
      | nil => rw [dropSpaces_append_of_nil _ _ h2, hX]
      | cons d r2 =>
        rw [dropSpaces_append_of_cons _ _ _ _ h2]
        by_cases hd : d = '*'
        · subst hd
          simp only [List.cons_append]
          cases h3 : dropSpaces r2 with
          | nil => rw [dropSpaces_append_of_nil _ _ h3, hX]
          | cons e r3 =>
            rw [dropSpaces_append_of_cons _ _ _ _ h3]
            by_cases he : e = ')'
            · subst he
              simp only [List.cons_append, List.length_append, Option.some.injEq]
              omega
            · simp only [List.cons_append]
              split <;> simp_all
        · simp only [List.cons_append]
          split <;> simp_all
    · have hp' : ciPrefix ['C', 'O', 'U', 'N', 'T', '('] (c :: v) = false := by simpa using hp
      simp [hp']

/-- leading spaces belong to the pattern: they do not change whether the scanner matches -/
theorem countStarItem_spaces_isNone (l : Nat) (u : Str) :
    (countStarItem (spaces l ++ u)).isNone = (countStarItem u).isNone := by
  simp only [countStarItem, dropSpaces_spaces_append]
  split
  · split
    · split <;> simp
    · simp
  · simp

theorem countFreeTail_spaces (n : Nat) : countFreeTail (spaces n) = true := by
  induction n with
  | zero => rfl
  | succ n ih => simp [spaces_succ, countFreeTail, ih]

theorem countFreeTail_spaces_append (l : Nat) (u : Str) : countFreeTail (spaces l ++ u) = countFreeTail u := by
  induction l with
  | zero => rfl
  | succ n ih => simp [spaces_succ, countFreeTail, ih]

theorem countFreeTail_append_spaces (t : Str) (r : Nat) (h : countFreeTail t = true) :
    countFreeTail (t ++ spaces r) = true := by
  induction t with
  | nil => exact countFreeTail_spaces r
  | cons c cs ih =>
    simp only [countFreeTail, Bool.and_eq_true, List.cons_append] at h ⊢
    rw [countStarItem_append_spaces]
    exact ⟨h.1, ih h.2⟩

/-- padding an item with spaces on either side cannot create a COUNT(*) match -/
theorem countFree_padded (l r : Nat) (t : Str) (h : CountFree t = true) :
    CountFree (spaces l ++ t ++ spaces r) = true := by
  simp only [CountFree, Bool.and_eq_true] at h ⊢
  rw [List.append_assoc, countStarItem_spaces_isNone, countFreeTail_spaces_append, countStarItem_append_spaces]
  exact ⟨h.1, countFreeTail_append_spaces t r h.2⟩

theorem mem_of_mem_dropSpaces (c : Char) (s : Str) (h : c ∈ dropSpaces s) : c ∈ s :=
  (List.dropWhile_suffix _).subset h

/-- a match needs a `*` character -/
theorem countStarItem_of_no_star (t : Str) (h : '*' ∉ t) : countStarItem t = none := by
  simp only [countStarItem]
  split
  · split
    · rename_i r2 h2
      exfalso
      apply h
      apply mem_of_mem_dropSpaces
      apply List.mem_of_mem_drop (i := 6)
      apply mem_of_mem_dropSpaces
      rw [h2]
      simp
    · rfl
  · rfl

theorem countFree_of_no_star (t : Str) (h : '*' ∉ t) : CountFree t = true := by
  simp only [CountFree, Bool.and_eq_true]
  refine ⟨by rw [countStarItem_of_no_star t h]; rfl, ?_⟩
  induction t with
  | nil => rfl
  | cons c cs ih =>
    have hcs : '*' ∉ cs := fun hm => h (List.mem_cons_of_mem _ hm)
    simp only [countFreeTail, Bool.and_eq_true, Bool.or_eq_true]
    exact ⟨Or.inr (by rw [countStarItem_of_no_star cs hcs]; rfl), ih hcs⟩

/-- the bare star items of a select list are not COUNT(*) items -/
theorem countFree_star_padded (l r : Nat) : CountFree (spaces l ++ ['*'] ++ spaces r) = true :=
  countFree_padded l r _ (by decide)
theorem countFree_aStar_padded (l r : Nat) : CountFree (spaces l ++ "a.*".toList ++ spaces r) = true :=
  countFree_padded l r _ (by decide)
theorem countFree_bStar_padded (l r : Nat) : CountFree (spaces l ++ "b.*".toList ++ spaces r) = true :=
  countFree_padded l r _ (by decide)

theorem countFree_count_one : CountFree " COUNT(1)".toList = true := by decide

/-- non-vacuity: a padded item with a star inside and a comma -/
example : CountFree (spaces 2 ++ "a1 * 2, count (*)".toList ++ spaces 3) = true :=
  countFree_padded 2 3 _ (by decide)
example : CountFree "len(a1), COUNT(1)".toList = true := countFree_of_no_star _ (by decide)


end Rbql
