/-
  Generic lemmas for the clause-order theorem (C08): tokens, keyword scanning over "dead" regions,
  sorted insertion.
-/
import Rbql.Model.Parse
import Rbql.Proofs.ParseInvariance
namespace Rbql

/-! ### tokens (split at single spaces) -/

theorem findD_sp_none (l : Str) (h : ' ' ∉ l) : findD [' '] l = (l, none) := by
  induction l with
  | nil => rfl
  | cons c cs ih =>
    simp only [List.mem_cons, not_or] at h
    have hc : ¬ ' ' = c := h.1
    have := ih h.2
    simp [findD, List.isPrefixOf, hc, this]

theorem findD_sp_append (l r : Str) (h : ' ' ∉ l) : findD [' '] (l ++ ' ' :: r) = (l, some r) := by
  induction l with
  | nil => simp [findD, List.isPrefixOf]
  | cons c cs ih =>
    simp only [List.mem_cons, not_or] at h
    have hc : ¬ ' ' = c := h.1
    have := ih h.2
    simp [findD, List.isPrefixOf, hc, this]

theorem splitOn_sp_none (l : Str) (h : ' ' ∉ l) : splitOn [' '] l = [l] :=
  splitOn_none [' '] l l (findD_sp_none l h)

theorem splitOn_sp_append (l r : Str) (h : ' ' ∉ l) : splitOn [' '] (l ++ ' ' :: r) = l :: splitOn [' '] r :=
  splitOn_some [' '] _ l r (by simp) (findD_sp_append l r h)

/-- every string is a space-free token, alone or followed by a space and the rest -/
theorem token_split (s : Str) : ' ' ∉ s ∨ ∃ b r, s = b ++ ' ' :: r ∧ ' ' ∉ b := by
  induction s with
  | nil => left; simp
  | cons c cs ih =>
    by_cases hc : c = ' '
    · right; exact ⟨[], cs, by simp [hc], by simp⟩
    · rcases ih with h | ⟨b, r, e, hb⟩
      · left; simp [h, Ne.symm hc]
      · right; exact ⟨c :: b, r, by simp [e], by simp [hb, Ne.symm hc]⟩

theorem splitOn_joinSpace (ws : List Str) (hne : ws ≠ []) (h : ∀ w ∈ ws, ' ' ∉ w) :
    splitOn [' '] (joinSpace ws) = ws := by
  induction ws with
  | nil => exact absurd rfl hne
  | cons l rest ih =>
    cases rest with
    | nil => simp only [joinSpace]; exact splitOn_sp_none l (h l (by simp))
    | cons l2 rest =>
      simp only [joinSpace]
      rw [splitOn_sp_append l _ (h l (by simp)), ih (by simp) (fun x hx => h x (by simp [hx]))]

/-! ### case-insensitive prefixes of space-free words -/

theorem lowerChar_sp : lowerChar ' ' = ' ' := by decide

/-- what follows a token does not matter to a space-free pattern word -/
theorem ciPrefix_token (w : Str) (hw : ' ' ∉ w) (b R : Str) (hR : R = [] ∨ R.head? = some ' ') :
    ciPrefix w (b ++ R) = ciPrefix w b := by
  induction w generalizing b with
  | nil => simp [ciPrefix]
  | cons k ks ih =>
    have hk : k ≠ ' ' := fun e => hw (by simp [e])
    cases b with
    | nil =>
      rcases hR with rfl | hR
      · rfl
      · cases R with
        | nil => rfl
        | cons c R' =>
          simp only [List.head?_cons, Option.some.injEq] at hR
          subst hR
          have : lowerChar k ≠ ' ' := fun e => hk ((lowerChar_space k).mp e)
          simp [ciPrefix, lowerChar_sp, this]
    | cons c cs =>
      simp only [List.cons_append, ciPrefix]
      rw [ih (fun hm => hw (by simp [hm]))]

theorem ciPrefix_sp (w : Str) (hw : ' ' ∉ w) (hne : w ≠ []) (t : Str) : ciPrefix w (' ' :: t) = false := by
  have := ciPrefix_token w hw [] (' ' :: t) (Or.inr rfl)
  simp only [List.nil_append] at this
  rw [this]
  cases w with
  | nil => exact absurd rfl hne
  | cons k ks => rfl

/-! ### keyword scanning -/

/-- a match of the statement pattern that starts at the space heading `s`: its length (≥ 1) -/
def hitAt (W : List Str) (s : Str) : Option Nat :=
  match s with
  | ' ' :: t =>
    match matchWords W t with
    | some rest => if rest.head? = some ' ' then some (1 + (t.length - rest.length)) else none
    | none => none
  | _ => none

theorem kwMatchAt_false (W : List Str) (pos : Nat) (s : Str) :
    kwMatchAt W pos false s = (hitAt W s).map (fun d => (pos, pos + d)) := by
  rw [kwMatchAt_eq]
  simp only [Bool.false_eq_true, if_false]
  by_cases hs : ∃ t, s = ' ' :: t
  · obtain ⟨t, rfl⟩ := hs
    simp only [hitAt, tryAtM]
    cases matchWords W t with
    | none => rfl
    | some rest =>
      simp only
      split
      · simp [Nat.add_assoc]
      · rfl
  · have h1 : hitAt W s = none := by
      unfold hitAt
      split
      · rename_i t; exact absurd ⟨t, rfl⟩ hs
      · rfl
    rw [h1]
    split
    · rename_i t; exact absurd ⟨t, rfl⟩ hs
    · rfl

theorem hitAt_nonspace (W : List Str) (c : Char) (s : Str) (hc : c ≠ ' ') : hitAt W (c :: s) = none := by
  unfold hitAt
  split
  · rename_i heq; simp at heq; exact absurd heq.1 hc
  · rfl

theorem matchWords_first (w0 : Str) (W' : List Str) (t : Str) (h : ciPrefix w0 t = false) :
    matchWords (w0 :: W') t = none := by
  cases W' with
  | nil => simp [matchWords, h]
  | cons a b => simp [matchWords, h]

theorem hitAt_first (w0 : Str) (W' : List Str) (t : Str) (h : ciPrefix w0 t = false) :
    hitAt (w0 :: W') (' ' :: t) = none := by
  simp [hitAt, matchWords_first w0 W' t h]

/-- no match starts at any of the first `n` positions of `s` -/
def DeadPrefix (W : List Str) (n : Nat) (s : Str) : Prop := ∀ i, i < n → hitAt W (s.drop i) = none

theorem DeadPrefix.zero (W : List Str) (s : Str) : DeadPrefix W 0 s := fun _ h => absurd h (Nat.not_lt_zero _)

theorem DeadPrefix.cons {W : List Str} {n : Nat} {c : Char} {s : Str} (h0 : hitAt W (c :: s) = none)
    (h : DeadPrefix W n s) : DeadPrefix W (n + 1) (c :: s) := by
  intro i hi
  cases i with
  | zero => exact h0
  | succ j => exact h j (by omega)

theorem DeadPrefix.tail {W : List Str} {n : Nat} {c : Char} {s : Str} (h : DeadPrefix W (n + 1) (c :: s)) :
    DeadPrefix W n s := fun i hi => h (i + 1) (by omega)

theorem DeadPrefix.append {W : List Str} {n : Nat} {A S : Str} (h1 : DeadPrefix W A.length (A ++ S))
    (h2 : DeadPrefix W n S) : DeadPrefix W (A.length + n) (A ++ S) := by
  intro i hi
  by_cases h : i < A.length
  · exact h1 i h
  · have := h2 (i - A.length) (by omega)
    rw [List.drop_append]
    have e : List.drop i A = [] := List.drop_eq_nil_of_le (by omega)
    rw [e]; exact this

/-- a space-free stretch is dead -/
theorem DeadPrefix.nospace (W : List Str) (b R : Str) (hb : ' ' ∉ b) : DeadPrefix W b.length (b ++ R) := by
  induction b with
  | nil => exact DeadPrefix.zero _ _
  | cons c cs ih =>
    have hc : c ≠ ' ' := fun e => hb (by simp [e])
    exact DeadPrefix.cons (hitAt_nonspace W c _ hc) (ih (fun hm => hb (by simp [hm])))

/-- a space and a token that does not start with the first pattern word -/
theorem DeadPrefix.token (w0 : Str) (W' : List Str) (hw : ' ' ∉ w0) (b R : Str) (hb : ' ' ∉ b)
    (hR : R = [] ∨ R.head? = some ' ') (h : ciPrefix w0 b = false) :
    DeadPrefix (w0 :: W') (b.length + 1) (' ' :: b ++ R) := by
  refine DeadPrefix.cons ?_ (DeadPrefix.nospace _ b R hb)
  apply hitAt_first
  show ciPrefix w0 (b ++ R) = false
  rw [ciPrefix_token w0 hw b R hR]; exact h

/-- a space and a text none of whose tokens starts with the first pattern word -/
theorem DeadPrefix.tokens (w0 : Str) (W' : List Str) (hw : ' ' ∉ w0) (A : Str) :
    ∀ (R : Str), (R = [] ∨ R.head? = some ' ') → (∀ tok ∈ splitOn [' '] A, ciPrefix w0 tok = false) →
    DeadPrefix (w0 :: W') (A.length + 1) (' ' :: A ++ R) := by
  induction A using (measure List.length).wf.induction with
  | _ A ih =>
    intro R hR h
    rcases token_split A with hA | ⟨b, r, rfl, hb⟩
    · rw [splitOn_sp_none A hA] at h
      exact DeadPrefix.token w0 W' hw A R hA hR (h A (by simp))
    · rw [splitOn_sp_append b r hb] at h
      have h1 := DeadPrefix.token w0 W' hw b (' ' :: r ++ R) hb (Or.inr rfl) (h b (by simp))
      have h2 := ih r (by show r.length < (b ++ ' ' :: r).length; simp; omega) R hR (fun tok ht => h tok (by simp [ht]))
      have := DeadPrefix.append (A := ' ' :: b) (S := ' ' :: r ++ R) (by simpa using h1) h2
      have e : (' ' :: b).length + (r.length + 1) = (b ++ ' ' :: r).length + 1 := by simp; omega
      rw [e] at this
      simpa using this

/-- skipping a dead stretch -/
theorem kwMatches_skip (W : List Str) (n : Nat) : ∀ (fuel pos : Nat) (s : Str), pos ≠ 0 → n ≤ s.length →
    DeadPrefix W n s → kwMatches W (fuel + n) pos s = kwMatches W fuel (pos + n) (s.drop n) := by
  induction n with
  | zero => intro fuel pos s _ _ _; rfl
  | succ n ih =>
    intro fuel pos s hp hn hd
    cases s with
    | nil => simp at hn
    | cons c cs =>
      have h0 : hitAt W (c :: cs) = none := hd 0 (by omega)
      have hp' : (pos == 0) = false := by simp [hp]
      rw [show fuel + (n + 1) = (fuel + n) + 1 by omega]
      simp only [kwMatches, hp', kwMatchAt_false, h0, Option.map_none]
      rw [ih fuel (pos + 1) cs (by omega) (by simpa using hn) hd.tail]
      simp only [List.drop_succ_cons]
      congr 1; omega

theorem kwMatches_skip' (W : List Str) (n fuel pos : Nat) (s : Str) (hp : pos ≠ 0) (hn : n ≤ s.length) (hf : n ≤ fuel)
    (hd : DeadPrefix W n s) : kwMatches W fuel pos s = kwMatches W (fuel - n) (pos + n) (s.drop n) := by
  have := kwMatches_skip W n (fuel - n) pos s hp hn hd
  rwa [Nat.sub_add_cancel hf] at this

theorem kwMatches_nil (W : List Str) (fuel pos : Nat) : kwMatches W fuel pos [] = [] := by
  cases fuel <;> rfl

/-- a match at a position other than the start of the text -/
theorem kwMatches_hit (W : List Str) (fuel pos d : Nat) (s : Str) (hp : pos ≠ 0) (h : hitAt W s = some d) :
    kwMatches W (fuel + 1) pos s = (pos, pos + d) :: kwMatches W fuel (pos + d) (s.drop d) := by
  have hd : 1 ≤ d := by
    unfold hitAt at h
    split at h
    · split at h
      · split at h
        · simp only [Option.some.injEq] at h; omega
        · simp at h
      · simp at h
    · simp at h
  cases s with
  | nil => simp [hitAt] at h
  | cons c cs =>
    have hp' : (pos == 0) = false := by simp [hp]
    simp only [kwMatches, hp', kwMatchAt_false, h, Option.map_some]
    rw [if_pos (by omega)]
    congr 3; omega

/-! ### no space is followed by a given word -/

/-- none of the first `n` positions of `s` is a space followed by (case-insensitively) `w` -/
def NoStart (w : Str) (n : Nat) (s : Str) : Prop := ∀ i, i < n → ∀ t, s.drop i = ' ' :: t → ciPrefix w t = false

theorem NoStart.zero (w : Str) (s : Str) : NoStart w 0 s := fun _ h => absurd h (Nat.not_lt_zero _)

theorem NoStart.cons {w : Str} {n : Nat} {c : Char} {s : Str} (h0 : ∀ t, c :: s = ' ' :: t → ciPrefix w t = false)
    (h : NoStart w n s) : NoStart w (n + 1) (c :: s) := by
  intro i hi
  cases i with
  | zero => exact h0
  | succ j => exact h j (by omega)

theorem NoStart.append {w : Str} {n : Nat} {A S : Str} (h1 : NoStart w A.length (A ++ S))
    (h2 : NoStart w n S) : NoStart w (A.length + n) (A ++ S) := by
  intro i hi
  by_cases h : i < A.length
  · exact h1 i h
  · have := h2 (i - A.length) (by omega)
    rw [List.drop_append]
    have e : List.drop i A = [] := List.drop_eq_nil_of_le (by omega)
    rw [e]; exact this

theorem NoStart.nospace (w : Str) (b R : Str) (hb : ' ' ∉ b) : NoStart w b.length (b ++ R) := by
  induction b with
  | nil => exact NoStart.zero _ _
  | cons c cs ih =>
    simp only [List.mem_cons, not_or] at hb
    refine NoStart.cons ?_ (ih hb.2)
    intro t e
    simp only [List.cons.injEq] at e
    exact absurd e.1.symm hb.1

theorem NoStart.token (w : Str) (hw : ' ' ∉ w) (b R : Str) (hb : ' ' ∉ b)
    (hR : R = [] ∨ R.head? = some ' ') (h : ciPrefix w b = false) :
    NoStart w (b.length + 1) (' ' :: b ++ R) := by
  refine NoStart.cons ?_ (NoStart.nospace _ b R hb)
  intro t e
  have : t = b ++ R := by
    have e' : ' ' :: (b ++ R) = ' ' :: t := e
    simp only [List.cons.injEq, true_and] at e'; exact e'.symm
  rw [this, ciPrefix_token w hw b R hR]; exact h

theorem NoStart.tokens (w : Str) (hw : ' ' ∉ w) (A : Str) :
    ∀ (R : Str), (R = [] ∨ R.head? = some ' ') → (∀ tok ∈ splitOn [' '] A, ciPrefix w tok = false) →
    NoStart w (A.length + 1) (' ' :: A ++ R) := by
  induction A using (measure List.length).wf.induction with
  | _ A ih =>
    intro R hR h
    rcases token_split A with hA | ⟨b, r, rfl, hb⟩
    · rw [splitOn_sp_none A hA] at h
      exact NoStart.token w hw A R hA hR (h A (by simp))
    · rw [splitOn_sp_append b r hb] at h
      have h1 := NoStart.token w hw b (' ' :: r ++ R) hb (Or.inr rfl) (h b (by simp))
      have h2 := ih r (by show r.length < (b ++ ' ' :: r).length; simp; omega) R hR (fun tok ht => h tok (by simp [ht]))
      have := NoStart.append (A := ' ' :: b) (S := ' ' :: r ++ R) (by simpa using h1) h2
      have e : (' ' :: b).length + (r.length + 1) = (b ++ ' ' :: r).length + 1 := by simp; omega
      rw [e] at this
      simpa using this

/-- a WITH modifier is found only after a space followed by `with` -/
theorem splitWith_some (expr : Str) (x : Str × Str) (h : splitWith expr = some x) :
    ∃ p t, expr = p ++ ' ' :: t ∧ ciPrefix "with".toList t = true := by
  unfold splitWith at h
  simp only at h
  split at h
  · rename_i r1 hr
    split at h
    · cases h
    · split at h
      · rename_i r3 hr2
        split at h
        · rename_i hci
          split at h
          · rename_i r5 hr5
            have hsuf : (r3.dropWhile (· == ' ')) <:+ expr.reverse := by
              refine (List.dropWhile_suffix _).trans ?_
              refine (List.suffix_cons '(' r3).trans ?_
              rw [← hr2]
              refine (List.dropWhile_suffix _).trans ?_
              refine (List.suffix_cons ')' r1).trans ?_
              rw [← hr]
              exact List.dropWhile_suffix _
            obtain ⟨pre, hpre⟩ := hsuf
            generalize r3.dropWhile (· == ' ') = r4 at *
            match r4, hci, hr5 with
            | a :: b :: c :: d :: rest, hci, hr5 =>
              simp only [List.drop_succ_cons, List.drop_zero] at hr5
              subst hr5
              have hc : "htiw".toList = ['h', 't', 'i', 'w'] := by decide
              rw [hc] at hci
              simp only [ciPrefix, Bool.and_eq_true, beq_iff_eq, and_true] at hci
              refine ⟨r5.reverse, d :: c :: b :: a :: pre.reverse, ?_, ?_⟩
              · have := congrArg List.reverse hpre
                simp only [List.reverse_reverse] at this
                rw [← this]; simp
              · have hc' : "with".toList = ['w', 'i', 't', 'h'] := by decide
                rw [hc']
                simp [ciPrefix, hci]
            | [], hci, _ => simp [ciPrefix] at hci
            | [_], hci, hr5 => simp at hr5
            | [_, _], hci, hr5 => simp at hr5
            | [_, _, _], hci, hr5 => simp at hr5
          · cases h
        · cases h
      · cases h
  · cases h
/-! ### sorted insertion -/

abbrev Loc := Nat × Nat × Stmt

def LocLt (a b : Loc) : Prop := a.1 < b.1

theorem mem_insertSorted (x y : Loc) (l : List Loc) : y ∈ insertSorted x l ↔ y = x ∨ y ∈ l := by
  induction l with
  | nil => simp [insertSorted]
  | cons z zs ih =>
    unfold insertSorted
    split
    · simp
    · simp only [List.mem_cons, ih]
      constructor
      · rintro (h | h | h)
        · exact Or.inr (Or.inl h)
        · exact Or.inl h
        · exact Or.inr (Or.inr h)
      · rintro (h | h | h)
        · exact Or.inr (Or.inl h)
        · exact Or.inl h
        · exact Or.inr (Or.inr h)

theorem sorted_insertSorted (x : Loc) (l : List Loc) (hs : l.Pairwise LocLt) (hx : ∀ y ∈ l, y.1 ≠ x.1) :
    (insertSorted x l).Pairwise LocLt := by
  induction l with
  | nil => simp [insertSorted]
  | cons z zs ih =>
    have hz := List.pairwise_cons.mp hs
    unfold insertSorted
    split
    · rename_i hlt
      have hxz : x.1 < z.1 := by
        rcases hlt with h | ⟨h, _⟩
        · exact h
        · exact absurd h.symm (hx z (by simp))
      refine List.pairwise_cons.mpr ⟨?_, hs⟩
      intro y hy
      rcases List.mem_cons.mp hy with rfl | hy
      · exact hxz
      · exact Nat.lt_trans hxz (hz.1 y hy)
    · rename_i hlt
      have hzx : z.1 < x.1 := by
        have := hx z (by simp)
        simp only [not_or, not_and, Nat.not_lt] at hlt
        omega
      refine List.pairwise_cons.mpr ⟨?_, ih hz.2 (fun y hy => hx y (by simp [hy]))⟩
      intro y hy
      rcases (mem_insertSorted x y zs).mp hy with rfl | hy
      · exact hzx
      · exact hz.1 y hy

theorem foldl_insertSorted (inp : List Loc) : ∀ (acc : List Loc), acc.Pairwise LocLt →
    inp.Pairwise (fun a b => a.1 ≠ b.1) → (∀ x ∈ inp, ∀ y ∈ acc, y.1 ≠ x.1) →
    (inp.foldl (fun acc x => insertSorted x acc) acc).Pairwise LocLt ∧
    ∀ y, y ∈ inp.foldl (fun acc x => insertSorted x acc) acc ↔ y ∈ inp ∨ y ∈ acc := by
  induction inp with
  | nil => intro acc hs _ _; simp [hs]
  | cons x xs ih =>
    intro acc hs hp hd
    have hp' := List.pairwise_cons.mp hp
    simp only [List.foldl_cons]
    have := ih (insertSorted x acc) (sorted_insertSorted x acc hs (hd x (by simp))) hp'.2 (by
      intro a ha y hy
      rcases (mem_insertSorted x y acc).mp hy with rfl | hy
      · exact hp'.1 a ha
      · exact hd a (by simp [ha]) y hy)
    refine ⟨this.1, fun y => ?_⟩
    rw [this.2 y, mem_insertSorted, List.mem_cons]
    constructor
    · rintro (h | h | h)
      · exact Or.inl (Or.inr h)
      · exact Or.inl (Or.inl h)
      · exact Or.inr h
    · rintro ((h | h) | h)
      · exact Or.inr (Or.inl h)
      · exact Or.inl h
      · exact Or.inr (Or.inr h)

/-- strictly sorted lists with the same members are equal -/
theorem sorted_ext (l1 : List Loc) : ∀ (l2 : List Loc), l1.Pairwise LocLt → l2.Pairwise LocLt →
    (∀ x, x ∈ l1 ↔ x ∈ l2) → l1 = l2 := by
  induction l1 with
  | nil =>
    intro l2 _ _ h
    cases l2 with
    | nil => rfl
    | cons b bs => exact absurd ((h b).mpr (by simp)) (by simp)
  | cons a as ih =>
    intro l2 h1 h2 h
    cases l2 with
    | nil => exact absurd ((h a).mp (by simp)) (by simp)
    | cons b bs =>
      have p1 := List.pairwise_cons.mp h1
      have p2 := List.pairwise_cons.mp h2
      have hab : a = b := by
        rcases List.mem_cons.mp ((h a).mp (by simp)) with e | e
        · exact e
        · rcases List.mem_cons.mp ((h b).mpr (by simp)) with e' | e'
          · exact e'.symm
          · have := p1.1 b e'; have := p2.1 a e; unfold LocLt at *; omega
      subst hab
      congr 1
      apply ih bs p1.2 p2.2
      intro x
      constructor
      · intro hx
        rcases List.mem_cons.mp ((h x).mp (by simp [hx])) with e | e
        · subst e; have := p1.1 x hx; unfold LocLt at this; omega
        · exact e
      · intro hx
        rcases List.mem_cons.mp ((h x).mpr (by simp [hx])) with e | e
        · subst e; have := p2.1 x hx; unfold LocLt at this; omega
        · exact e

end Rbql
